// c09_inplace.h - part of c09_transforms.cpp (included once, after the builder section).
// ===================================================================================================================
// 2. in-place forms:  M.translate/scale/shear/rotate(params) == set*(params) * M   (Matrix44, Matrix33, Matrix22 scale)
//                     Matrix22/33::rotate(r)                 == M * setRotation(r)
//    The set* matrix is the quad matrix written from the documentation (the builder sub-checks tie the library's own
//    set* output to the same matrix), the product is formed in quad, every slot is compared.
//
//    Every in-place member is a template on the element type S of its parameter (Vec3<S>, Vec2<S>, Shear6<S>, S):
//    inplace_case<T, S> calls Matrix<T>::op (param<S>).  S == T in the inplace_* sub-checks; the inplace_mixed_*
//    sub-checks use S != T (the other floating type, int, short).  The parameter values enter the oracle exactly
//    (quad), and the arithmetic conversions make the library compute in the wider of S and T, so the bounds in
//    units of eps(T) are the same.  Exceptions, stated by the header's own code:
//      * rotations build their sin/cos entries in S (Matrix44::rotate) or store them in variables of type S
//        (Matrix22/33::setRotation): the rotation-entry term of the bound uses max(eps(S), eps(T));
//      * Matrix22/33::setRotation evaluates cos((T) r): an angle of a wider type is first rounded to T, which
//        moves the rotation entries by up to eps(T) |r|; that term is added for S wider than T;
//      * integral S is not used for angles (the entries would be truncated to integers by those S variables).
// ===================================================================================================================
#pragma once

// M0: matrix before, M2: after the in-place call, E: expected transform, post: M0*E instead of E*M0.
// bound per slot: eps * (k1 * sum_k |E_ik||M_kj|  +  k2 * sum over the rotation block of |M|)   (k2 = 0 for exact E)
template <class T, int N, class M>
static void check_inplace (vp::Ctx& c, const std::string& name, const M& M0, const M& M2, const QM<N>& E, bool post, double k1, double k2, const char* sname = "")
{
    const int  D   = N == 2 ? 2 : N - 1;
    const quad eps = EPS<T> ();
    QM<N>      Mq  = QM<N>::from (M0);
    QM<N>      X   = post ? Mq * E : E * Mq;
    QM<N>      A   = post ? absmul (Mq, E) : absmul (E, Mq);
    const std::string tns = std::string (TN<T>::n ()) + (sname[0] ? std::string (" (parameter type ") + sname + ")" : std::string ());
    VP_REQUIRE (c, (all_finite<M, N> (M2)), name + "/nonfinite", tns << " " << name << " produced " << mstr (M2, N));
    for (int i = 0; i < N; ++i)
        for (int j = 0; j < N; ++j)
        {
            quad blk = 0;
            if (k2 > 0)
                for (int k = 0; k < D; ++k)
                    blk += post ? qabs (Mq.a[i][k]) : qabs (Mq.a[k][j]);
            quad tol = eps * ((quad) k1 * A.a[i][j] + (quad) k2 * blk) + (quad) std::numeric_limits<T>::denorm_min ();
            quad d   = qabs ((quad) M2[i][j] - X.a[i][j]);
            if (k2 > 0)
                C09_MEAS (name + "|" + TN<T>::n () + sname + "|rot/(eps*(A+(k2/k1)*blk))", d / (eps * (A.a[i][j] + (quad) (k2 / k1) * blk) + (quad) 1e-300));
            else
                C09_MEAS (name + "|" + TN<T>::n () + sname + "|exact/(eps*A)", d / (eps * A.a[i][j] + (quad) 1e-300));
            VP_REQUIRE (c, d <= tol, name + "/slot", tns << " " << name << " slot [" << i << "][" << j << "] = " << M2[i][j] << " expected " << qstr (X.a[i][j]) << " (" << (post ? "M*set" : "set*M") << ", bound " << qstr (tol) << "); before " << mstr (M0, N) << " after " << mstr (M2, N));
        }
}

enum
{
    I44_TRANSLATE,
    I44_SCALE,
    I44_SHEAR_VEC3,
    I44_SHEAR_SHEAR6,
    I44_ROTATE,
    I33_TRANSLATE,
    I33_SCALE,
    I33_SHEAR_SCALAR,
    I33_SHEAR_VEC2,
    I33_ROTATE,
    I22_ROTATE,
    I22_SCALE,
    I_NOPS,
    IL_IDENTITY = I_NOPS,
    IL_AFFINE,
    IL_NONAFFINE,
    IL_MULTIPERIOD,
    IL_S_FLOAT_WIDER,
    IL_S_FLOAT_NARROWER,
    IL_S_INT,
    IL_S_SHORT
};
#define C09_INPLACE_LABELS "m44_translate", "m44_scale", "m44_shear_vec3", "m44_shear_shear6", "m44_rotate", "m33_translate", "m33_scale", "m33_shear_scalar", "m33_shear_vec2", "m33_rotate", "m22_rotate", "m22_scale", "current_identity", "current_affine", "current_nonaffine", "angle_beyond_one_period"
#define C09_MIXED_LABELS C09_INPLACE_LABELS, "param_wider_float(double on float matrix)", "param_narrower_float(float on double matrix)", "param_int", "param_short"

static const int INPLACE_OPS[] = { I44_TRANSLATE, I44_TRANSLATE, I44_SCALE, I44_SCALE, I44_SHEAR_VEC3, I44_SHEAR_VEC3, I44_SHEAR_SHEAR6, I44_SHEAR_SHEAR6, I44_ROTATE, I44_ROTATE, I44_ROTATE, I33_TRANSLATE, I33_TRANSLATE, I33_SCALE, I33_SHEAR_SCALAR, I33_SHEAR_VEC2, I33_SHEAR_VEC2, I33_ROTATE, I33_ROTATE, I22_ROTATE, I22_ROTATE, I22_SCALE };

// Bounds (k1, k2), measured on the unchanged tree over 1.6e7 cases per element type, error / (eps * sum|terms|):
//   translate / shear: sum of up to N products in T: k1 = N+2           measured worst 1.66 (4x4), 1.29 (3x3)
//   scale: one rounded product per slot: k1 = 2                         measured worst 0.50
//   rotate: the rotation entries carry their own T-precision error (sin/cos, products), which acts on the whole
//   rotation block of M: error / (eps * (sum|terms| + sum|M block|)) measured worst 0.89 (4x4), 0.56 (3x3, 2x2)
// Mixed parameter types (inplace_mixed_*, 6e6 cases per matrix type), same units: translate 1.65 (4x4) 1.33 (3x3),
//   shear 1.42 / 0.98, scale 0.50; rotate with the block term scaled by rot_scale: 1.17 (4x4, float angles on a double
//   matrix), 0.25 (4x4 double on float), 0.56 (3x3 / 2x2)
static const double C09_ROT_K1 = 6, C09_ROT_K2 = 6;

// scale factor for the rotation-entry term of the bound when the parameter type S differs from T (see the top of this file)
// (rot_scale<T, S> is defined in c09_util.h: the builder section uses it too)

// Generator policy of the original sub-checks (inplace_*, inplace_mixed_*): the draw sequence is exactly the one the
// saved replays were recorded with.  inplace_structured_* uses InplaceGenNear (further down) with the same checks.
struct InplaceGenDefault
{
    template <class M, class T, int N> int matrix (vp::Ctx& c, M& m) { return gen_matrix<M, T, N> (c.s, m); }
    template <class S> Vec3<S>             param3 (vp::Ctx& c) { return gen_param3<S> (c.s); }
    template <class S> Vec2<S>             param2 (vp::Ctx& c) { return gen_param2<S> (c.s); }
    template <class S> S                   param (vp::Ctx& c) { return gen_param_any<S> (c.s); }
    template <class S> Vec3<S>             angle3 (vp::Ctx& c) { return gen_angle3<S> (c.s); }
    template <class S> S                   angle (vp::Ctx& c) { return gen_angle<S> (c.s); }
};

// the three rotation forms; no integral angles (std::true_type overloads do nothing: the op was remapped before)
template <class T, class S, class P> static void inplace_rot44 (vp::Ctx&, P&, Matrix44<T>&, const Matrix44<T>&, const char*, const std::string&, std::true_type) {}
template <class T, class S, class P> static void inplace_rot44 (vp::Ctx& c, P& pol, Matrix44<T>& m4, const Matrix44<T>& b4, const char* sn, const std::string& par, std::false_type)
{
    Vec3<S> a = pol.template angle3<S> (c);
    if (std::fabs (a.x) > 3.2 || std::fabs (a.y) > 3.2 || std::fabs (a.z) > 3.2)
    {
        c.label (IL_MULTIPERIOD);
        c.nt ();
    }
    VP_NOTE (c, TN<T>::n () << par << "M44.rotate r=" << vstr (a, 3) << " M=" << mstr (b4, 4));
    const Matrix44<T>& r = m4.rotate (a);
    VP_REQUIRE (c, &r == &m4, "m44-rotate/returns-this", "does not return *this");
    check_inplace<T, 4> (c, "m44-rotate", b4, m4, E_euler ((quad) a.x, (quad) a.y, (quad) a.z), false, C09_ROT_K1, C09_ROT_K2 * rot_scale<T, S> (0, false), sn);
}
template <class T, class S, class P> static void inplace_rot33 (vp::Ctx&, P&, Matrix33<T>&, const Matrix33<T>&, const char*, const std::string&, std::true_type) {}
template <class T, class S, class P> static void inplace_rot33 (vp::Ctx& c, P& pol, Matrix33<T>& m3, const Matrix33<T>& b3, const char* sn, const std::string& par, std::false_type)
{
    S ang = pol.template angle<S> (c);
    if (std::fabs (ang) > 3.2)
    {
        c.label (IL_MULTIPERIOD);
        c.nt ();
    }
    VP_NOTE (c, TN<T>::n () << par << "M33.rotate r=" << ang << " M=" << mstr (b3, 3));
    const Matrix33<T>& r = m3.rotate (ang);
    VP_REQUIRE (c, &r == &m3, "m33-rotate/returns-this", "does not return *this");
    check_inplace<T, 3> (c, "m33-rotate", b3, m3, E_rot33 ((quad) ang), true, 4, 4 * rot_scale<T, S> (std::fabs ((double) ang), true), sn);
}
template <class T, class S, class P> static void inplace_rot22 (vp::Ctx&, P&, Matrix22<T>&, const Matrix22<T>&, const char*, const std::string&, std::true_type) {}
template <class T, class S, class P> static void inplace_rot22 (vp::Ctx& c, P& pol, Matrix22<T>& m2, const Matrix22<T>& b2, const char* sn, const std::string& par, std::false_type)
{
    S ang = pol.template angle<S> (c);
    if (std::fabs (ang) > 3.2)
    {
        c.label (IL_MULTIPERIOD);
        c.nt ();
    }
    VP_NOTE (c, TN<T>::n () << par << "M22.rotate r=" << ang << " M=" << mstr (b2, 2));
    const Matrix22<T>& r = m2.rotate (ang);
    VP_REQUIRE (c, &r == &m2, "m22-rotate/returns-this", "does not return *this");
    check_inplace<T, 2> (c, "m22-rotate", b2, m2, E_rot22 ((quad) ang), true, 4, 4 * rot_scale<T, S> (std::fabs ((double) ang), true), sn);
}

template <class T, class S, class P> static void inplace_ops (vp::Ctx& c, P& pol)
{
    vp::Src&             s       = c.s;
    constexpr bool       s_int   = std::is_integral<S>::value;
    constexpr bool       mixed   = !std::is_same<S, T>::value;
    typedef std::integral_constant<bool, s_int> SInt;
    const char*          sn      = mixed ? TN<S>::n () : "";
    const std::string    par     = mixed ? std::string (" <") + TN<S>::n () + "> " : std::string (" ");
    int                  op      = s.pick (INPLACE_OPS);
    if (s_int) // no integral angles: the translate / scale forms of the same matrix size instead
        op = op == I44_ROTATE ? I44_TRANSLATE : op == I33_ROTATE ? I33_TRANSLATE : op == I22_ROTATE ? I22_SCALE : op;
    c.label (op);
    Matrix44<T> m4, b4;
    Matrix33<T> m3, b3;
    Matrix22<T> m2, b2;
    int         kind;
    if (op <= I44_ROTATE)
    {
        kind = pol.template matrix<Matrix44<T>, T, 4> (c, m4);
        b4   = m4;
    }
    else if (op <= I33_ROTATE)
    {
        kind = pol.template matrix<Matrix33<T>, T, 3> (c, m3);
        b3   = m3;
    }
    else
    {
        kind = pol.template matrix<Matrix22<T>, T, 2> (c, m2);
        b2   = m2;
    }
    c.label (kind == 0 ? IL_IDENTITY : kind == 1 ? IL_AFFINE : IL_NONAFFINE);
    c.nt (kind == 2);
    switch (op)
    {
        case I44_TRANSLATE:
        {
            Vec3<S> t = pol.template param3<S> (c);
            VP_NOTE (c, TN<T>::n () << par << "M44.translate t=" << vstr (t, 3) << " M=" << mstr (b4, 4));
            const Matrix44<T>& r = m4.translate (t);
            VP_REQUIRE (c, &r == &m4, "m44-translate/returns-this", "does not return *this");
            quad tq[3] = { (quad) t.x, (quad) t.y, (quad) t.z };
            check_inplace<T, 4> (c, "m44-translate", b4, m4, E_translation<4> (tq), false, 6, 0, sn);
            break;
        }
        case I44_SCALE:
        {
            Vec3<S> sc = pol.template param3<S> (c);
            VP_NOTE (c, TN<T>::n () << par << "M44.scale s=" << vstr (sc, 3) << " M=" << mstr (b4, 4));
            const Matrix44<T>& r = m4.scale (sc);
            VP_REQUIRE (c, &r == &m4, "m44-scale/returns-this", "does not return *this");
            quad sq[3] = { (quad) sc.x, (quad) sc.y, (quad) sc.z };
            check_inplace<T, 4> (c, "m44-scale", b4, m4, E_scale<4> (sq, 3), false, 2, 0, sn);
            break;
        }
        case I44_SHEAR_VEC3:
        {
            Vec3<S> h = pol.template param3<S> (c);
            VP_NOTE (c, TN<T>::n () << par << "M44.shear(Vec3) h=" << vstr (h, 3) << " M=" << mstr (b4, 4));
            const Matrix44<T>& r = m4.shear (h);
            VP_REQUIRE (c, &r == &m4, "m44-shear(Vec3)/returns-this", "does not return *this");
            check_inplace<T, 4> (c, "m44-shear(Vec3)", b4, m4, E_shear44 ((quad) h[0], (quad) h[1], (quad) h[2], 0, 0, 0), false, 6, 0, sn);
            break;
        }
        case I44_SHEAR_SHEAR6:
        {
            S h[6];
            for (int i = 0; i < 6; ++i)
                h[i] = pol.template param<S> (c);
            Shear6<S> sh (h[0], h[1], h[2], h[3], h[4], h[5]);
            VP_NOTE (c, TN<T>::n () << par << "M44.shear(Shear6) xy=" << h[0] << " xz=" << h[1] << " yz=" << h[2] << " yx=" << h[3] << " zx=" << h[4] << " zy=" << h[5] << " M=" << mstr (b4, 4));
            const Matrix44<T>& r = m4.shear (sh);
            VP_REQUIRE (c, &r == &m4, "m44-shear(Shear6)/returns-this", "does not return *this");
            check_inplace<T, 4> (c, "m44-shear(Shear6)", b4, m4, E_shear44 ((quad) h[0], (quad) h[1], (quad) h[2], (quad) h[3], (quad) h[4], (quad) h[5]), false, 6, 0, sn);
            break;
        }
        case I44_ROTATE: inplace_rot44<T, S> (c, pol, m4, b4, sn, par, SInt ()); break;
        case I33_TRANSLATE:
        {
            Vec2<S> t = pol.template param2<S> (c);
            VP_NOTE (c, TN<T>::n () << par << "M33.translate t=" << vstr (t, 2) << " M=" << mstr (b3, 3));
            const Matrix33<T>& r = m3.translate (t);
            VP_REQUIRE (c, &r == &m3, "m33-translate/returns-this", "does not return *this");
            quad tq[2] = { (quad) t.x, (quad) t.y };
            check_inplace<T, 3> (c, "m33-translate", b3, m3, E_translation<3> (tq), false, 5, 0, sn);
            break;
        }
        case I33_SCALE:
        {
            Vec2<S> sc = pol.template param2<S> (c);
            VP_NOTE (c, TN<T>::n () << par << "M33.scale s=" << vstr (sc, 2) << " M=" << mstr (b3, 3));
            const Matrix33<T>& r = m3.scale (sc);
            VP_REQUIRE (c, &r == &m3, "m33-scale/returns-this", "does not return *this");
            quad sq[2] = { (quad) sc.x, (quad) sc.y };
            check_inplace<T, 3> (c, "m33-scale", b3, m3, E_scale<3> (sq, 2), false, 2, 0, sn);
            break;
        }
        case I33_SHEAR_SCALAR:
        {
            S xy = pol.template param<S> (c);
            VP_NOTE (c, TN<T>::n () << par << "M33.shear(scalar) xy=" << xy << " M=" << mstr (b3, 3));
            const Matrix33<T>& r = m3.shear (xy);
            VP_REQUIRE (c, &r == &m3, "m33-shear(scalar)/returns-this", "does not return *this");
            check_inplace<T, 3> (c, "m33-shear(scalar)", b3, m3, E_shear33 ((quad) xy, 0), false, 5, 0, sn);
            break;
        }
        case I33_SHEAR_VEC2:
        {
            Vec2<S> h = pol.template param2<S> (c);
            VP_NOTE (c, TN<T>::n () << par << "M33.shear(Vec2) h=" << vstr (h, 2) << " M=" << mstr (b3, 3));
            const Matrix33<T>& r = m3.shear (h);
            VP_REQUIRE (c, &r == &m3, "m33-shear(Vec2)/returns-this", "does not return *this");
            check_inplace<T, 3> (c, "m33-shear(Vec2)", b3, m3, E_shear33 ((quad) h.x, (quad) h.y), false, 5, 0, sn);
            break;
        }
        case I33_ROTATE: inplace_rot33<T, S> (c, pol, m3, b3, sn, par, SInt ()); break;
        case I22_ROTATE: inplace_rot22<T, S> (c, pol, m2, b2, sn, par, SInt ()); break;
        default:
        {
            Vec2<S> sc = pol.template param2<S> (c);
            VP_NOTE (c, TN<T>::n () << par << "M22.scale s=" << vstr (sc, 2) << " M=" << mstr (b2, 2));
            const Matrix22<T>& r = m2.scale (sc);
            VP_REQUIRE (c, &r == &m2, "m22-scale/returns-this", "does not return *this");
            quad sq[2] = { (quad) sc.x, (quad) sc.y };
            check_inplace<T, 2> (c, "m22-scale", b2, m2, E_scale<2> (sq, 2), false, 2, 0, sn);
            break;
        }
    }
}
template <class T, class S = T> static void inplace_case (vp::Ctx& c)
{
    InplaceGenDefault pol;
    inplace_ops<T, S> (c, pol);
}

#define C09_INPLACE_RULE                                                                                               \
    "one of 12 in-place operations on a current matrix that is identity (1/8), affine (1/8) or general with a random last column (6/8; Matrix22: identity or general); same parameter / angle classes as the builders; oracle = quad product (documented set* matrix) x M, or M x rotation for Matrix22/33::rotate, every slot; non-trivial = current matrix non-affine or an angle beyond one period"
VP_RANDOM (inplace_f, 600000, 10000000, C09_INPLACE_RULE) { inplace_case<float> (c); }
VP_LABELS (inplace_f, C09_INPLACE_LABELS)
VP_REQUIRE_LABELS (inplace_f, C09_INPLACE_LABELS)
VP_RANDOM (inplace_d, 600000, 10000000, C09_INPLACE_RULE) { inplace_case<double> (c); }
VP_LABELS (inplace_d, C09_INPLACE_LABELS)
VP_REQUIRE_LABELS (inplace_d, C09_INPLACE_LABELS)

// ---- the same operations with a parameter element type S different from the matrix element type T
template <class T> struct OtherFloat;
template <> struct OtherFloat<float>
{
    typedef double type;
};
template <> struct OtherFloat<double>
{
    typedef float type;
};
template <class T> static void inplace_mixed_case (vp::Ctx& c)
{
    typedef typename OtherFloat<T>::type O;
    int                                  sk = (int) c.s.below (4);
    switch (sk)
    {
        case 1:
            c.label (IL_S_INT);
            inplace_case<T, int> (c);
            break;
        case 2:
            c.label (IL_S_SHORT);
            inplace_case<T, short> (c);
            break;
        default:
            c.label (sizeof (O) > sizeof (T) ? IL_S_FLOAT_WIDER : IL_S_FLOAT_NARROWER);
            inplace_case<T, O> (c);
            break;
    }
}
#define C09_MIXED_RULE                                                                                                 \
    "the 12 in-place operations called with a parameter whose element type S differs from the matrix's T: the other floating type (1/2), int (1/4), short (1/4; integers: values -100..100, no angles); current matrix and parameter classes as in inplace_*; oracle = quad product with the parameter values taken exactly; bounds in eps(T), rotation entries in max(eps(S),eps(T)) (+ eps(T)|r| where the header rounds the angle to T); non-trivial = current matrix non-affine or an angle beyond one period"
VP_RANDOM (inplace_mixed_f, 400000, 6000000, C09_MIXED_RULE) { inplace_mixed_case<float> (c); }
VP_LABELS (inplace_mixed_f, C09_MIXED_LABELS)
VP_REQUIRE_LABELS (inplace_mixed_f, C09_INPLACE_LABELS, "param_wider_float(double on float matrix)", "param_int", "param_short")
VP_RANDOM (inplace_mixed_d, 400000, 6000000, C09_MIXED_RULE) { inplace_mixed_case<double> (c); }
VP_LABELS (inplace_mixed_d, C09_MIXED_LABELS)
VP_REQUIRE_LABELS (inplace_mixed_d, C09_INPLACE_LABELS, "param_narrower_float(float on double matrix)", "param_int", "param_short")

// ---- structured current matrices and near-special parameters ------------------------------------------------------
// Classes of input at which an implementation could plausibly take a shortcut ("the current matrix is the identity /
// affine / has a zero entry", "the parameter is zero / one", "the angle is zero / a quarter turn"): the inputs sit AT
// the special case and at perturbations of it of relative size 2^-k, k = 4 .. digits+3, next to magnitudes up to
// 2^20, so that ignoring the small term is wrong by far more than the conditioning-scaled bound of check_inplace.
// The labels of the near / structured classes follow the labels of the host sub-check, starting at id l0.
enum
{
    NL_BASE0, // + SB_ class (11 bases)
    NL_MASKED = NL_BASE0 + (int) SB_NBASES,
    NL_EIJ_LAST_COLUMN,
    NL_EIJ_LAST_ROW,
    NL_P_ZERO,
    NL_P_TINY,
    NL_P_NEAR_ONE,
    NL_P_UNIT,
    NL_P_BIG,
    NL_A_ZERO,
    NL_A_TINY,
    NL_A_NEAR_QUARTER,
    NL_AXIS_NEAR_UNIT,
    NL_S_SAME,
    NL_COUNT
};
#define C09_NEAR_LABELS                                                                                                \
    "matrix_identity", "matrix_identity_plus_2^-k_Eij", "matrix_unit_lower_triangular", "matrix_unit_upper_triangular", "matrix_signed_permutation", "matrix_diagonal", "matrix_affine_zero_translation", "matrix_near_identity_translation_2^20", "matrix_projective_column_last_row_0001", "matrix_identity_plus_one_offdiagonal", "matrix_generic", "matrix_mask_0_1_-1_generic_applied", "Eij_in_last_column", "Eij_in_last_row", "param_zero", "param_2^-k", "param_+-1+-2^-k", "param_+-1", "param_up_to_2^20", "angle_zero", "angle_2^-k", "angle_j*pi/2+-2^-k", "axis_length_1+-2^-k", "param_same_type"
template <class M, class T, int N> static inline int near_matrix (vp::Ctx& c, M& m, int l0)
{
    int  base, eij;
    bool masked;
    int  kind = gen_structured<M, T, N> (c.s, m, base, masked, eij);
    c.label (l0 + NL_BASE0 + base);
    if (masked) c.label (l0 + NL_MASKED);
    if (eij >= 0 && N > 2 && eij % N == N - 1 && eij / N != N - 1) c.label (l0 + NL_EIJ_LAST_COLUMN);
    if (eij >= 0 && N > 2 && eij / N == N - 1 && eij % N != N - 1) c.label (l0 + NL_EIJ_LAST_ROW);
    c.nt (masked || eij >= 0);
    return kind;
}
static inline void near_param_label (vp::Ctx& c, int cls, int l0)
{
    if (cls == NP_ZERO) c.label (l0 + NL_P_ZERO);
    if (cls == NP_TINY) c.label (l0 + NL_P_TINY);
    if (cls == NP_NEAR_ONE) c.label (l0 + NL_P_NEAR_ONE);
    if (cls == NP_UNIT) c.label (l0 + NL_P_UNIT);
    if (cls == NP_BIG) c.label (l0 + NL_P_BIG);
    c.nt (cls == NP_TINY || cls == NP_NEAR_ONE);
}
static inline void near_angle_label (vp::Ctx& c, int cls, int l0)
{
    if (cls == NP_ZERO) c.label (l0 + NL_A_ZERO);
    if (cls == NP_TINY) c.label (l0 + NL_A_TINY);
    if (cls == NP_NEAR_ONE) c.label (l0 + NL_A_NEAR_QUARTER);
    c.nt (cls == NP_TINY || cls == NP_NEAR_ONE);
}
struct InplaceGenNear
{
    int l0;
    template <class M, class T, int N> int matrix (vp::Ctx& c, M& m) { return near_matrix<M, T, N> (c, m, l0); }
    template <class S> S                   param (vp::Ctx& c)
    {
        int cls;
        S   v = gen_near_param<S> (c.s, cls);
        near_param_label (c, cls, l0);
        return v;
    }
    template <class S> Vec3<S> param3 (vp::Ctx& c)
    {
        Vec3<S> v;
        for (int i = 0; i < 3; ++i)
            v[i] = param<S> (c);
        return v;
    }
    template <class S> Vec2<S> param2 (vp::Ctx& c)
    {
        Vec2<S> v;
        for (int i = 0; i < 2; ++i)
            v[i] = param<S> (c);
        return v;
    }
    template <class S> S angle (vp::Ctx& c)
    {
        int cls;
        S   v = gen_near_angle<S> (c.s, cls);
        near_angle_label (c, cls, l0);
        return v;
    }
    template <class S> Vec3<S> angle3 (vp::Ctx& c)
    {
        Vec3<S> v;
        for (int i = 0; i < 3; ++i)
            v[i] = angle<S> (c);
        return v;
    }
};
enum
{
    ISL0 = IL_S_SHORT + 1 // first near / structured label id of inplace_structured_*
};
template <class T> static void inplace_structured_case (vp::Ctx& c)
{
    typedef typename OtherFloat<T>::type O;
    InplaceGenNear                       pol;
    pol.l0 = ISL0;
    int sk = (int) c.s.below (8);
    switch (sk)
    {
        case 0:
            c.label (IL_S_INT);
            inplace_ops<T, int> (c, pol);
            break;
        case 1:
            c.label (IL_S_SHORT);
            inplace_ops<T, short> (c, pol);
            break;
        case 2:
        case 3:
            c.label (sizeof (O) > sizeof (T) ? IL_S_FLOAT_WIDER : IL_S_FLOAT_NARROWER);
            inplace_ops<T, O> (c, pol);
            break;
        default:
            c.label (ISL0 + NL_S_SAME);
            inplace_ops<T, T> (c, pol);
            break;
    }
}
// Measured on the unchanged tree (C09_MEASURE, 1.6e6 cases per matrix element type, all parameter types), error /
// (eps * sum|terms|), same units and bounds (k1, k2) as above: translate 1.48 (4x4) 1.28 (3x3); shear 1.36 / 0.96;
// scale 0.50; rotate 0.73 (4x4), 0.96 (4x4, float angles on a double matrix), 0.56 (3x3 / 2x2)
#define C09_STRUCT_RULE                                                                                                \
    "the 12 in-place operations on a STRUCTURED current matrix: one of 11 bases (identity, identity + 2^-k E_ij for every (i,j) incl. last row and column, unit lower / upper triangular, signed permutation, diagonal, affine without translation, near-identity linear block with a translation of 2^10..2^20, projective last column with last row (0..0 1), identity + one off-diagonal entry for every index pair, generic) with, in half of the cases, a per-entry mask over {keep 3/4, exact 0, exact 1, -1, generic}; entries from {0, +-1, small ints, nice, 2^[-4,4], up to 2^20}; parameters from {0, +-2^-k, +-1 +- 2^-k, +-1, up to 2^20, generic}, k = 4..digits+3; angles from {+-0, +-2^-k, j*pi/2 +- 2^-k and the neighbouring values of the type, generic}; parameter element type: same as the matrix (1/2), the other floating type (1/4), int, short (1/8 each); oracle and bounds as inplace_*; non-trivial = a 2^-k class, a masked matrix, a non-affine matrix or an angle beyond one period"
#define C09_STRUCT_LABELS C09_MIXED_LABELS, C09_NEAR_LABELS
#define C09_STRUCT_REQUIRED                                                                                            \
    C09_INPLACE_LABELS, "param_int", "param_short", "param_same_type", "matrix_identity", "matrix_identity_plus_2^-k_Eij", "matrix_unit_lower_triangular", "matrix_unit_upper_triangular", "matrix_signed_permutation", "matrix_diagonal", "matrix_affine_zero_translation", "matrix_near_identity_translation_2^20", "matrix_projective_column_last_row_0001", "matrix_identity_plus_one_offdiagonal", "matrix_generic", "matrix_mask_0_1_-1_generic_applied", "Eij_in_last_column", "Eij_in_last_row", "param_zero", "param_2^-k", "param_+-1+-2^-k", "param_+-1", "param_up_to_2^20", "angle_zero", "angle_2^-k", "angle_j*pi/2+-2^-k"
VP_RANDOM (inplace_structured_f, 400000, 8000000, C09_STRUCT_RULE) { inplace_structured_case<float> (c); }
VP_LABELS (inplace_structured_f, C09_STRUCT_LABELS)
VP_REQUIRE_LABELS (inplace_structured_f, C09_STRUCT_REQUIRED, "param_wider_float(double on float matrix)")
VP_RANDOM (inplace_structured_d, 400000, 8000000, C09_STRUCT_RULE) { inplace_structured_case<double> (c); }
VP_LABELS (inplace_structured_d, C09_STRUCT_LABELS)
VP_REQUIRE_LABELS (inplace_structured_d, C09_STRUCT_REQUIRED, "param_narrower_float(float on double matrix)")

// ===================================================================================================================
// 2c. placement / alignment of the operands (placement_*)
//     Every in-place form and builder is applied to a matrix (and a parameter block) that lives at an address
//     aligned for its TYPE (4 resp. 8 bytes) but not for a 16- or 32-byte vector register: placement-constructed
//     in a 64-byte-aligned raw buffer at byte offsets 4, 8, 12, 20, 36 (float) / 8, 24, 40 (double), and as members
//     of structs behind a leading scalar.  The result must be bit-identical to the same call on ordinary locals.
//     Both calls go through one non-inlined function (pl_apply44 / 33 / 22), i.e. the same machine code of the same
//     library function in the same binary: only the addresses differ.  A crash (aligned vector load / store on such
//     an address) or a sanitizer report is turned into a violation by the driver.
// ===================================================================================================================
#include <new>
#if defined(__GNUC__) && !defined(__clang__)
#define C09_NOINLINE __attribute__ ((noinline, noclone))
#else
#define C09_NOINLINE __attribute__ ((noinline))
#endif
template <class T> struct PlParams
{
    Vec3<T>   v3; // translation / scale / shear / Euler angles
    Vec2<T>   v2;
    Shear6<T> sh;
    T         sc;  // uniform scale / scalar shear
    T         ang; // angle of setRotation / rotate (2-D) / setAxisAngle
    Vec3<T>   ax;  // axis of setAxisAngle
};
enum
{
    P44_TRANSLATE,
    P44_SCALE,
    P44_SHEAR_V3,
    P44_SHEAR_S6,
    P44_ROTATE,
    P44_SET_TRANSLATION,
    P44_SET_SCALE_T,
    P44_SET_SCALE_V3,
    P44_SET_SHEAR_V3,
    P44_SET_SHEAR_S6,
    P44_SET_EULER,
    P44_SET_AXISANGLE,
    P33_TRANSLATE,
    P33_SCALE,
    P33_SHEAR_SCALAR,
    P33_SHEAR_V2,
    P33_ROTATE,
    P33_SET_ROTATION,
    P33_SET_SCALE_T,
    P33_SET_SCALE_V2,
    P33_SET_TRANSLATION,
    P33_SET_SHEAR_SCALAR,
    P33_SET_SHEAR_V2,
    P22_ROTATE,
    P22_SCALE,
    P22_SET_ROTATION,
    P22_SET_SCALE_T,
    P22_SET_SCALE_V2,
    P_NOPS,
    PL_BUF0 = P_NOPS, // + index of the buffer offset (5 float / 3 double)
    PL_STRUCT_A = PL_BUF0 + 5,
    PL_STRUCT_B,
    PL_STRUCT_C,
    PL_STRUCT_LOCAL,
    PL_PARAMS_SHIFTED
};
static const char* const PL_OPNAME[P_NOPS] = { "m44-translate", "m44-scale", "m44-shear(Vec3)", "m44-shear(Shear6)", "m44-rotate", "m44-setTranslation", "m44-setScale(T)", "m44-setScale(Vec3)", "m44-setShear(Vec3)", "m44-setShear(Shear6)", "m44-setEulerAngles", "m44-setAxisAngle", "m33-translate", "m33-scale", "m33-shear(scalar)", "m33-shear(Vec2)", "m33-rotate", "m33-setRotation", "m33-setScale(T)", "m33-setScale(Vec2)", "m33-setTranslation", "m33-setShear(scalar)", "m33-setShear(Vec2)", "m22-rotate", "m22-scale", "m22-setRotation", "m22-setScale(T)", "m22-setScale(Vec2)" };
#define C09_PLACEMENT_OP_LABELS                                                                                        \
    "m44_translate", "m44_scale", "m44_shear_vec3", "m44_shear_shear6", "m44_rotate", "m44_setTranslation", "m44_setScale_uniform", "m44_setScale_vec", "m44_setShear_vec3", "m44_setShear_shear6", "m44_setEulerAngles", "m44_setAxisAngle", "m33_translate", "m33_scale", "m33_shear_scalar", "m33_shear_vec2", "m33_rotate", "m33_setRotation", "m33_setScale_uniform", "m33_setScale_vec", "m33_setTranslation", "m33_setShear_scalar", "m33_setShear_vec2", "m22_rotate", "m22_scale", "m22_setRotation", "m22_setScale_uniform", "m22_setScale_vec"
template <class T> C09_NOINLINE static void pl_apply (int op, Matrix44<T>& m, const PlParams<T>& p)
{
    switch (op)
    {
        case P44_TRANSLATE: m.translate (p.v3); break;
        case P44_SCALE: m.scale (p.v3); break;
        case P44_SHEAR_V3: m.shear (p.v3); break;
        case P44_SHEAR_S6: m.shear (p.sh); break;
        case P44_ROTATE: m.rotate (p.v3); break;
        case P44_SET_TRANSLATION: m.setTranslation (p.v3); break;
        case P44_SET_SCALE_T: m.setScale (p.sc); break;
        case P44_SET_SCALE_V3: m.setScale (p.v3); break;
        case P44_SET_SHEAR_V3: m.setShear (p.v3); break;
        case P44_SET_SHEAR_S6: m.setShear (p.sh); break;
        case P44_SET_EULER: m.setEulerAngles (p.v3); break;
        default: m.setAxisAngle (p.ax, p.ang); break;
    }
}
template <class T> C09_NOINLINE static void pl_apply (int op, Matrix33<T>& m, const PlParams<T>& p)
{
    switch (op)
    {
        case P33_TRANSLATE: m.translate (p.v2); break;
        case P33_SCALE: m.scale (p.v2); break;
        case P33_SHEAR_SCALAR: m.shear (p.sc); break;
        case P33_SHEAR_V2: m.shear (p.v2); break;
        case P33_ROTATE: m.rotate (p.ang); break;
        case P33_SET_ROTATION: m.setRotation (p.ang); break;
        case P33_SET_SCALE_T: m.setScale (p.sc); break;
        case P33_SET_SCALE_V2: m.setScale (p.v2); break;
        case P33_SET_TRANSLATION: m.setTranslation (p.v2); break;
        case P33_SET_SHEAR_SCALAR: m.setShear (p.sc); break;
        default: m.setShear (p.v2); break;
    }
}
template <class T> C09_NOINLINE static void pl_apply (int op, Matrix22<T>& m, const PlParams<T>& p)
{
    switch (op)
    {
        case P22_ROTATE: m.rotate (p.ang); break;
        case P22_SCALE: m.scale (p.v2); break;
        case P22_SET_ROTATION: m.setRotation (p.ang); break;
        case P22_SET_SCALE_T: m.setScale (p.sc); break;
        default: m.setScale (p.v2); break;
    }
}
// the three struct layouts (placed at offset 0 of the 64-byte-aligned buffer, and STRUCT_A also as an ordinary local)
template <class T, class M> struct PlStructA
{
    T           pad;
    M           m; // at byte 4 / 8
    Vec3<T>     v;
    PlParams<T> p;
};
template <class T, class M> struct PlStructB
{
    T           pad[3];
    M           m; // at byte 12 / 24
    T           pad2;
    PlParams<T> p;
};
template <class T, class M> struct PlStructC
{
    PlParams<T> p; // 16 scalars = 64 / 128 bytes
    T           pad;
    M           m; // at byte 68 / 136
};
template <class T> struct PlOffsets;
template <> struct PlOffsets<float>
{
    enum { n = 5 };
    static int at (int i)
    {
        static const int o[5] = { 4, 8, 12, 20, 36 };
        return o[i];
    }
};
template <> struct PlOffsets<double>
{
    enum { n = 3 };
    static int at (int i)
    {
        static const int o[3] = { 8, 24, 40 };
        return o[i];
    }
};
template <class T, class M> static bool pl_same (const M& a, const M& b) { return std::memcmp (&a, &b, sizeof (M)) == 0; }
template <class T, class M, int N> static void placement_run (vp::Ctx& c, int op, const M& M0, const PlParams<T>& P0, int where, bool shift)
{
    static_assert (sizeof (M) == sizeof (T) * N * N && sizeof (PlParams<T>) == sizeof (T) * 16, "no padding expected");
    // reference: ordinary locals
    M           ref = M0;
    PlParams<T> pr  = P0;
    pl_apply (op, ref, pr);
    alignas (64) unsigned char buf[64 + 2 * sizeof (M) + 2 * sizeof (PlParams<T>) + 64];
    std::memset (buf, 0x5a, sizeof buf);
    M*           pm = 0;
    PlParams<T>* pp = 0;
    PlStructA<T, M> local_a; // (only used for where == n + 3)
    const int    nb = PlOffsets<T>::n;
    std::string  wh;
    if (where < nb)
    {
        // matrix at the chosen offset, parameter block directly behind it (shift: one scalar further)
        int off = PlOffsets<T>::at (where);
        pm      = new (buf + off) M (M0);
        pp      = new (buf + off + sizeof (M) + (shift ? sizeof (T) : 0)) PlParams<T> (P0);
        c.label (PL_BUF0 + where);
        if (shift) c.label (PL_PARAMS_SHIFTED);
        wh = "64-byte-aligned buffer + " + std::to_string (off);
    }
    else if (where == nb)
    {
        PlStructA<T, M>* sa = new (buf) PlStructA<T, M> ();
        sa->m               = M0;
        sa->p               = P0;
        pm                  = &sa->m;
        pp                  = &sa->p;
        c.label (PL_STRUCT_A);
        wh = "struct { T pad; M m; Vec3 v; params p; } at a 64-byte-aligned address";
    }
    else if (where == nb + 1)
    {
        PlStructB<T, M>* sb = new (buf) PlStructB<T, M> ();
        sb->m               = M0;
        sb->p               = P0;
        pm                  = &sb->m;
        pp                  = &sb->p;
        c.label (PL_STRUCT_B);
        wh = "struct { T pad[3]; M m; T pad2; params p; } at a 64-byte-aligned address";
    }
    else if (where == nb + 2)
    {
        PlStructC<T, M>* sc = new (buf) PlStructC<T, M> ();
        sc->m               = M0;
        sc->p               = P0;
        pm                  = &sc->m;
        pp                  = &sc->p;
        c.label (PL_STRUCT_C);
        wh = "struct { params p; T pad; M m; } at a 64-byte-aligned address";
    }
    else
    {
        local_a.m = M0;
        local_a.p = P0;
        pm        = &local_a.m;
        pp        = &local_a.p;
        c.label (PL_STRUCT_LOCAL);
        wh = "local struct { T pad; M m; Vec3 v; params p; }";
    }
    VP_NOTE (c, TN<T>::n () << " " << PL_OPNAME[op] << " with the matrix in " << wh << " (address mod 32 = " << (unsigned) ((uintptr_t) (const void*) pm & 31) << "); M=" << mstr (M0, N) << " v3=" << vstr (P0.v3, 3) << " v2=" << vstr (P0.v2, 2) << " shear6=(" << P0.sh.xy << " " << P0.sh.xz << " " << P0.sh.yz << " " << P0.sh.yx << " " << P0.sh.zx << " " << P0.sh.zy << ") s=" << P0.sc << " angle=" << P0.ang << " axis=" << vstr (P0.ax, 3));
    pl_apply (op, *pm, *pp);
    VP_REQUIRE (c, (pl_same<T, M> (*pm, ref)), std::string ("placement/") + PL_OPNAME[op], TN<T>::n () << " " << PL_OPNAME[op] << " on a matrix in " << wh << " gives " << mstr (*pm, N) << ", on a local " << mstr (ref, N));
    VP_REQUIRE (c, std::memcmp (pp, &P0, sizeof (PlParams<T>)) == 0 && std::memcmp (&pr, &P0, sizeof (PlParams<T>)) == 0, "placement/parameter-modified", TN<T>::n () << " " << PL_OPNAME[op] << " modified its parameter");
}
template <class T> static void placement_case (vp::Ctx& c)
{
    vp::Src& s  = c.s;
    int      op = (int) s.below (P_NOPS);
    int      wi = (int) s.below (PlOffsets<T>::n + 4);
    bool     sh = s.coin ();
    c.label (op);
    c.nt ();
    PlParams<T> P;
    bool        ang3 = op == P44_ROTATE || op == P44_SET_EULER;
    for (int i = 0; i < 3; ++i)
        P.v3[i] = ang3 ? gen_angle<T> (s) : gen_param<T> (s);
    for (int i = 0; i < 2; ++i)
        P.v2[i] = gen_param<T> (s);
    T h[6];
    for (int i = 0; i < 6; ++i)
        h[i] = gen_param<T> (s);
    P.sh  = Shear6<T> (h[0], h[1], h[2], h[3], h[4], h[5]);
    P.sc  = gen_param<T> (s);
    P.ang = gen_angle<T> (s);
    int acls;
    P.ax = gen_axis<T> (s, acls);
    int  base, eij;
    bool masked;
    if (op < P33_TRANSLATE)
    {
        Matrix44<T> m;
        gen_structured<Matrix44<T>, T, 4> (s, m, base, masked, eij);
        placement_run<T, Matrix44<T>, 4> (c, op, m, P, wi, sh);
    }
    else if (op < P22_ROTATE)
    {
        Matrix33<T> m;
        gen_structured<Matrix33<T>, T, 3> (s, m, base, masked, eij);
        placement_run<T, Matrix33<T>, 3> (c, op, m, P, wi, sh);
    }
    else
    {
        Matrix22<T> m;
        gen_structured<Matrix22<T>, T, 2> (s, m, base, masked, eij);
        placement_run<T, Matrix22<T>, 2> (c, op, m, P, wi, sh);
    }
}
#define C09_PLACEMENT_RULE                                                                                             \
    "one of the 28 builders / in-place forms (Matrix44 12, Matrix33 11, Matrix22 5) on a structured matrix with parameters / angles / axis from the build_* classes, the matrix and its parameter block (Vec3, Vec2, Shear6, scalars) placement-constructed in a 64-byte-aligned raw buffer at a byte offset that is aligned for the element type but not for 16 / 32 bytes (float: 4, 8, 12, 20, 36; double: 8, 24, 40; parameter block directly behind the matrix or one scalar further), or as members of struct { T pad; M m; Vec3 v; P p; }, struct { T pad[3]; M m; T pad2; P p; }, struct { P p; T pad; M m; } placed at the start of the buffer, or of a local struct; oracle = bit-identical result of the same non-inlined call on ordinary locals, parameters unmodified; every case non-trivial"
VP_RANDOM (placement_f, 200000, 4000000, C09_PLACEMENT_RULE) { placement_case<float> (c); }
VP_LABELS (placement_f, C09_PLACEMENT_OP_LABELS, "buffer+4", "buffer+8", "buffer+12", "buffer+20", "buffer+36", "struct_pad_M_V_P", "struct_pad3_M_pad_P", "struct_P_pad_M", "local_struct_pad_M_V_P", "parameter_block_one_scalar_further")
VP_REQUIRE_LABELS (placement_f, C09_PLACEMENT_OP_LABELS, "buffer+4", "buffer+8", "buffer+12", "buffer+20", "buffer+36", "struct_pad_M_V_P", "struct_pad3_M_pad_P", "struct_P_pad_M", "local_struct_pad_M_V_P", "parameter_block_one_scalar_further")
VP_RANDOM (placement_d, 200000, 4000000, C09_PLACEMENT_RULE) { placement_case<double> (c); }
VP_LABELS (placement_d, C09_PLACEMENT_OP_LABELS, "buffer+8", "buffer+24", "buffer+40", "(unused)", "(unused)", "struct_pad_M_V_P", "struct_pad3_M_pad_P", "struct_P_pad_M", "local_struct_pad_M_V_P", "parameter_block_one_scalar_further")
VP_REQUIRE_LABELS (placement_d, C09_PLACEMENT_OP_LABELS, "buffer+8", "buffer+24", "buffer+40", "struct_pad_M_V_P", "struct_pad3_M_pad_P", "struct_P_pad_M", "local_struct_pad_M_V_P", "parameter_block_one_scalar_further")
