// c09_inplace.h - part of c09_transforms.cpp (included once, after the builder section).
// ===================================================================================================================
// 2. in-place forms:  M.translate/scale/shear/rotate(params) == set*(params) * M   (Matrix44, Matrix33, Matrix22 scale)
//                     Matrix22/33::rotate(r)                 == M * setRotation(r)
//    The set* matrix is the quad matrix written from the documentation (the builder sub-checks tie the library's own
//    set* output to the same matrix), the product is formed in quad, every slot is compared.
//
//    Every in-place member is a template on the element type S of its parameter (Vec3<S>, Vec2<S>, Shear6<S>, S):
//    inplace_case<T, S> calls Matrix<T>::op (param<S>).  S == T in the inplace_* sub-checks; the inplace_mixed_*
//    sub-checks use S != T (the other floating type, int, short).  The parameter values enter the oracle exactly
//    (quad), and the arithmetic conversions make the library compute in the wider of S and T, so the bounds in
//    units of eps(T) are the same.  Exceptions, stated by the header's own code:
//      * rotations build their sin/cos entries in S (Matrix44::rotate) or store them in variables of type S
//        (Matrix22/33::setRotation): the rotation-entry term of the bound uses max(eps(S), eps(T));
//      * Matrix22/33::setRotation evaluates cos((T) r): an angle of a wider type is first rounded to T, which
//        moves the rotation entries by up to eps(T) |r|; that term is added for S wider than T;
//      * integral S is not used for angles (the entries would be truncated to integers by those S variables).
// ===================================================================================================================
#pragma once

// M0: matrix before, M2: after the in-place call, E: expected transform, post: M0*E instead of E*M0.
// bound per slot: eps * (k1 * sum_k |E_ik||M_kj|  +  k2 * sum over the rotation block of |M|)   (k2 = 0 for exact E)
template <class T, int N, class M>
static void check_inplace (vp::Ctx& c, const std::string& name, const M& M0, const M& M2, const QM<N>& E, bool post, double k1, double k2, const char* sname = "")
{
    const int  D   = N == 2 ? 2 : N - 1;
    const quad eps = EPS<T> ();
    QM<N>      Mq  = QM<N>::from (M0);
    QM<N>      X   = post ? Mq * E : E * Mq;
    QM<N>      A   = post ? absmul (Mq, E) : absmul (E, Mq);
    const std::string tns = std::string (TN<T>::n ()) + (sname[0] ? std::string (" (parameter type ") + sname + ")" : std::string ());
    VP_REQUIRE (c, (all_finite<M, N> (M2)), name + "/nonfinite", tns << " " << name << " produced " << mstr (M2, N));
    for (int i = 0; i < N; ++i)
        for (int j = 0; j < N; ++j)
        {
            quad blk = 0;
            if (k2 > 0)
                for (int k = 0; k < D; ++k)
                    blk += post ? qabs (Mq.a[i][k]) : qabs (Mq.a[k][j]);
            quad tol = eps * ((quad) k1 * A.a[i][j] + (quad) k2 * blk) + (quad) std::numeric_limits<T>::denorm_min ();
            quad d   = qabs ((quad) M2[i][j] - X.a[i][j]);
            if (k2 > 0)
                C09_MEAS (name + "|" + TN<T>::n () + sname + "|rot/(eps*(A+(k2/k1)*blk))", d / (eps * (A.a[i][j] + (quad) (k2 / k1) * blk) + (quad) 1e-300));
            else
                C09_MEAS (name + "|" + TN<T>::n () + sname + "|exact/(eps*A)", d / (eps * A.a[i][j] + (quad) 1e-300));
            VP_REQUIRE (c, d <= tol, name + "/slot", tns << " " << name << " slot [" << i << "][" << j << "] = " << M2[i][j] << " expected " << qstr (X.a[i][j]) << " (" << (post ? "M*set" : "set*M") << ", bound " << qstr (tol) << "); before " << mstr (M0, N) << " after " << mstr (M2, N));
        }
}

enum
{
    I44_TRANSLATE,
    I44_SCALE,
    I44_SHEAR_VEC3,
    I44_SHEAR_SHEAR6,
    I44_ROTATE,
    I33_TRANSLATE,
    I33_SCALE,
    I33_SHEAR_SCALAR,
    I33_SHEAR_VEC2,
    I33_ROTATE,
    I22_ROTATE,
    I22_SCALE,
    I_NOPS,
    IL_IDENTITY = I_NOPS,
    IL_AFFINE,
    IL_NONAFFINE,
    IL_MULTIPERIOD,
    IL_S_FLOAT_WIDER,
    IL_S_FLOAT_NARROWER,
    IL_S_INT,
    IL_S_SHORT
};
#define C09_INPLACE_LABELS "m44_translate", "m44_scale", "m44_shear_vec3", "m44_shear_shear6", "m44_rotate", "m33_translate", "m33_scale", "m33_shear_scalar", "m33_shear_vec2", "m33_rotate", "m22_rotate", "m22_scale", "current_identity", "current_affine", "current_nonaffine", "angle_beyond_one_period"
#define C09_MIXED_LABELS C09_INPLACE_LABELS, "param_wider_float(double on float matrix)", "param_narrower_float(float on double matrix)", "param_int", "param_short"

static const int INPLACE_OPS[] = { I44_TRANSLATE, I44_TRANSLATE, I44_SCALE, I44_SCALE, I44_SHEAR_VEC3, I44_SHEAR_VEC3, I44_SHEAR_SHEAR6, I44_SHEAR_SHEAR6, I44_ROTATE, I44_ROTATE, I44_ROTATE, I33_TRANSLATE, I33_TRANSLATE, I33_SCALE, I33_SHEAR_SCALAR, I33_SHEAR_VEC2, I33_SHEAR_VEC2, I33_ROTATE, I33_ROTATE, I22_ROTATE, I22_ROTATE, I22_SCALE };

// Bounds (k1, k2), measured on the unchanged tree over 1.6e7 cases per element type, error / (eps * sum|terms|):
//   translate / shear: sum of up to N products in T: k1 = N+2           measured worst 1.66 (4x4), 1.29 (3x3)
//   scale: one rounded product per slot: k1 = 2                         measured worst 0.50
//   rotate: the rotation entries carry their own T-precision error (sin/cos, products), which acts on the whole
//   rotation block of M: error / (eps * (sum|terms| + sum|M block|)) measured worst 0.89 (4x4), 0.56 (3x3, 2x2)
// Mixed parameter types (inplace_mixed_*, 6e6 cases per matrix type), same units: translate 1.65 (4x4) 1.33 (3x3),
//   shear 1.42 / 0.98, scale 0.50; rotate with the block term scaled by rot_scale: 1.17 (4x4, float angles on a double
//   matrix), 0.25 (4x4 double on float), 0.56 (3x3 / 2x2)
static const double C09_ROT_K1 = 6, C09_ROT_K2 = 6;

// scale factor for the rotation-entry term of the bound when the parameter type S differs from T (see the top of this file)
template <class T, class S> static inline double rot_scale (double angle_abs, bool angle_rounded_to_T)
{
    if constexpr (std::is_integral<S>::value)
        return 1;
    else
    {
        double es = FInfo<S>::eps (), et = FInfo<T>::eps ();
        double r  = es > et ? es / et : 1.0;
        if (angle_rounded_to_T && es < et) r += angle_abs;
        return r;
    }
}

template <class T, class S = T> static void inplace_case (vp::Ctx& c)
{
    vp::Src&             s       = c.s;
    constexpr bool       s_int   = std::is_integral<S>::value;
    constexpr bool       mixed   = !std::is_same<S, T>::value;
    const char*          sn      = mixed ? TN<S>::n () : "";
    const std::string    par     = mixed ? std::string (" <") + TN<S>::n () + "> " : std::string (" ");
    int                  op      = s.pick (INPLACE_OPS);
    if (s_int) // no integral angles: the translate / scale forms of the same matrix size instead
        op = op == I44_ROTATE ? I44_TRANSLATE : op == I33_ROTATE ? I33_TRANSLATE : op == I22_ROTATE ? I22_SCALE : op;
    c.label (op);
    Matrix44<T> m4, b4;
    Matrix33<T> m3, b3;
    Matrix22<T> m2, b2;
    int         kind;
    if (op <= I44_ROTATE)
    {
        kind = gen_matrix<Matrix44<T>, T, 4> (s, m4);
        b4   = m4;
    }
    else if (op <= I33_ROTATE)
    {
        kind = gen_matrix<Matrix33<T>, T, 3> (s, m3);
        b3   = m3;
    }
    else
    {
        kind = gen_matrix<Matrix22<T>, T, 2> (s, m2);
        b2   = m2;
    }
    c.label (kind == 0 ? IL_IDENTITY : kind == 1 ? IL_AFFINE : IL_NONAFFINE);
    c.nt (kind == 2);
    switch (op)
    {
        case I44_TRANSLATE:
        {
            Vec3<S> t = gen_param3<S> (s);
            VP_NOTE (c, TN<T>::n () << par << "M44.translate t=" << vstr (t, 3) << " M=" << mstr (b4, 4));
            const Matrix44<T>& r = m4.translate (t);
            VP_REQUIRE (c, &r == &m4, "m44-translate/returns-this", "does not return *this");
            quad tq[3] = { (quad) t.x, (quad) t.y, (quad) t.z };
            check_inplace<T, 4> (c, "m44-translate", b4, m4, E_translation<4> (tq), false, 6, 0, sn);
            break;
        }
        case I44_SCALE:
        {
            Vec3<S> sc = gen_param3<S> (s);
            VP_NOTE (c, TN<T>::n () << par << "M44.scale s=" << vstr (sc, 3) << " M=" << mstr (b4, 4));
            const Matrix44<T>& r = m4.scale (sc);
            VP_REQUIRE (c, &r == &m4, "m44-scale/returns-this", "does not return *this");
            quad sq[3] = { (quad) sc.x, (quad) sc.y, (quad) sc.z };
            check_inplace<T, 4> (c, "m44-scale", b4, m4, E_scale<4> (sq, 3), false, 2, 0, sn);
            break;
        }
        case I44_SHEAR_VEC3:
        {
            Vec3<S> h = gen_param3<S> (s);
            VP_NOTE (c, TN<T>::n () << par << "M44.shear(Vec3) h=" << vstr (h, 3) << " M=" << mstr (b4, 4));
            const Matrix44<T>& r = m4.shear (h);
            VP_REQUIRE (c, &r == &m4, "m44-shear(Vec3)/returns-this", "does not return *this");
            check_inplace<T, 4> (c, "m44-shear(Vec3)", b4, m4, E_shear44 ((quad) h[0], (quad) h[1], (quad) h[2], 0, 0, 0), false, 6, 0, sn);
            break;
        }
        case I44_SHEAR_SHEAR6:
        {
            S h[6];
            for (int i = 0; i < 6; ++i)
                h[i] = gen_param_any<S> (s);
            Shear6<S> sh (h[0], h[1], h[2], h[3], h[4], h[5]);
            VP_NOTE (c, TN<T>::n () << par << "M44.shear(Shear6) xy=" << h[0] << " xz=" << h[1] << " yz=" << h[2] << " yx=" << h[3] << " zx=" << h[4] << " zy=" << h[5] << " M=" << mstr (b4, 4));
            const Matrix44<T>& r = m4.shear (sh);
            VP_REQUIRE (c, &r == &m4, "m44-shear(Shear6)/returns-this", "does not return *this");
            check_inplace<T, 4> (c, "m44-shear(Shear6)", b4, m4, E_shear44 ((quad) h[0], (quad) h[1], (quad) h[2], (quad) h[3], (quad) h[4], (quad) h[5]), false, 6, 0, sn);
            break;
        }
        case I44_ROTATE:
        if constexpr (!s_int)
        {
            Vec3<S> a = gen_angle3<S> (s);
            if (std::fabs (a.x) > 3.2 || std::fabs (a.y) > 3.2 || std::fabs (a.z) > 3.2)
            {
                c.label (IL_MULTIPERIOD);
                c.nt ();
            }
            VP_NOTE (c, TN<T>::n () << par << "M44.rotate r=" << vstr (a, 3) << " M=" << mstr (b4, 4));
            const Matrix44<T>& r = m4.rotate (a);
            VP_REQUIRE (c, &r == &m4, "m44-rotate/returns-this", "does not return *this");
            check_inplace<T, 4> (c, "m44-rotate", b4, m4, E_euler ((quad) a.x, (quad) a.y, (quad) a.z), false, C09_ROT_K1, C09_ROT_K2 * rot_scale<T, S> (0, false), sn);
            break;
        }
            break;
        case I33_TRANSLATE:
        {
            Vec2<S> t = gen_param2<S> (s);
            VP_NOTE (c, TN<T>::n () << par << "M33.translate t=" << vstr (t, 2) << " M=" << mstr (b3, 3));
            const Matrix33<T>& r = m3.translate (t);
            VP_REQUIRE (c, &r == &m3, "m33-translate/returns-this", "does not return *this");
            quad tq[2] = { (quad) t.x, (quad) t.y };
            check_inplace<T, 3> (c, "m33-translate", b3, m3, E_translation<3> (tq), false, 5, 0, sn);
            break;
        }
        case I33_SCALE:
        {
            Vec2<S> sc = gen_param2<S> (s);
            VP_NOTE (c, TN<T>::n () << par << "M33.scale s=" << vstr (sc, 2) << " M=" << mstr (b3, 3));
            const Matrix33<T>& r = m3.scale (sc);
            VP_REQUIRE (c, &r == &m3, "m33-scale/returns-this", "does not return *this");
            quad sq[2] = { (quad) sc.x, (quad) sc.y };
            check_inplace<T, 3> (c, "m33-scale", b3, m3, E_scale<3> (sq, 2), false, 2, 0, sn);
            break;
        }
        case I33_SHEAR_SCALAR:
        {
            S xy = gen_param_any<S> (s);
            VP_NOTE (c, TN<T>::n () << par << "M33.shear(scalar) xy=" << xy << " M=" << mstr (b3, 3));
            const Matrix33<T>& r = m3.shear (xy);
            VP_REQUIRE (c, &r == &m3, "m33-shear(scalar)/returns-this", "does not return *this");
            check_inplace<T, 3> (c, "m33-shear(scalar)", b3, m3, E_shear33 ((quad) xy, 0), false, 5, 0, sn);
            break;
        }
        case I33_SHEAR_VEC2:
        {
            Vec2<S> h = gen_param2<S> (s);
            VP_NOTE (c, TN<T>::n () << par << "M33.shear(Vec2) h=" << vstr (h, 2) << " M=" << mstr (b3, 3));
            const Matrix33<T>& r = m3.shear (h);
            VP_REQUIRE (c, &r == &m3, "m33-shear(Vec2)/returns-this", "does not return *this");
            check_inplace<T, 3> (c, "m33-shear(Vec2)", b3, m3, E_shear33 ((quad) h.x, (quad) h.y), false, 5, 0, sn);
            break;
        }
        case I33_ROTATE:
        if constexpr (!s_int)
        {
            S ang = gen_angle<S> (s);
            if (std::fabs (ang) > 3.2)
            {
                c.label (IL_MULTIPERIOD);
                c.nt ();
            }
            VP_NOTE (c, TN<T>::n () << par << "M33.rotate r=" << ang << " M=" << mstr (b3, 3));
            const Matrix33<T>& r = m3.rotate (ang);
            VP_REQUIRE (c, &r == &m3, "m33-rotate/returns-this", "does not return *this");
            check_inplace<T, 3> (c, "m33-rotate", b3, m3, E_rot33 ((quad) ang), true, 4, 4 * rot_scale<T, S> (std::fabs ((double) ang), true), sn);
            break;
        }
            break;
        case I22_ROTATE:
        if constexpr (!s_int)
        {
            S ang = gen_angle<S> (s);
            if (std::fabs (ang) > 3.2)
            {
                c.label (IL_MULTIPERIOD);
                c.nt ();
            }
            VP_NOTE (c, TN<T>::n () << par << "M22.rotate r=" << ang << " M=" << mstr (b2, 2));
            const Matrix22<T>& r = m2.rotate (ang);
            VP_REQUIRE (c, &r == &m2, "m22-rotate/returns-this", "does not return *this");
            check_inplace<T, 2> (c, "m22-rotate", b2, m2, E_rot22 ((quad) ang), true, 4, 4 * rot_scale<T, S> (std::fabs ((double) ang), true), sn);
            break;
        }
            break;
        default:
        {
            Vec2<S> sc = gen_param2<S> (s);
            VP_NOTE (c, TN<T>::n () << par << "M22.scale s=" << vstr (sc, 2) << " M=" << mstr (b2, 2));
            const Matrix22<T>& r = m2.scale (sc);
            VP_REQUIRE (c, &r == &m2, "m22-scale/returns-this", "does not return *this");
            quad sq[2] = { (quad) sc.x, (quad) sc.y };
            check_inplace<T, 2> (c, "m22-scale", b2, m2, E_scale<2> (sq, 2), false, 2, 0, sn);
            break;
        }
    }
}

#define C09_INPLACE_RULE                                                                                               \
    "one of 12 in-place operations on a current matrix that is identity (1/8), affine (1/8) or general with a random last column (6/8; Matrix22: identity or general); same parameter / angle classes as the builders; oracle = quad product (documented set* matrix) x M, or M x rotation for Matrix22/33::rotate, every slot; non-trivial = current matrix non-affine or an angle beyond one period"
VP_RANDOM (inplace_f, 600000, 10000000, C09_INPLACE_RULE) { inplace_case<float> (c); }
VP_LABELS (inplace_f, C09_INPLACE_LABELS)
VP_REQUIRE_LABELS (inplace_f, C09_INPLACE_LABELS)
VP_RANDOM (inplace_d, 600000, 10000000, C09_INPLACE_RULE) { inplace_case<double> (c); }
VP_LABELS (inplace_d, C09_INPLACE_LABELS)
VP_REQUIRE_LABELS (inplace_d, C09_INPLACE_LABELS)

// ---- the same operations with a parameter element type S different from the matrix element type T
template <class T> struct OtherFloat;
template <> struct OtherFloat<float>
{
    typedef double type;
};
template <> struct OtherFloat<double>
{
    typedef float type;
};
template <class T> static void inplace_mixed_case (vp::Ctx& c)
{
    typedef typename OtherFloat<T>::type O;
    int                                  sk = (int) c.s.below (4);
    switch (sk)
    {
        case 1:
            c.label (IL_S_INT);
            inplace_case<T, int> (c);
            break;
        case 2:
            c.label (IL_S_SHORT);
            inplace_case<T, short> (c);
            break;
        default:
            c.label (sizeof (O) > sizeof (T) ? IL_S_FLOAT_WIDER : IL_S_FLOAT_NARROWER);
            inplace_case<T, O> (c);
            break;
    }
}
#define C09_MIXED_RULE                                                                                                 \
    "the 12 in-place operations called with a parameter whose element type S differs from the matrix's T: the other floating type (1/2), int (1/4), short (1/4; integers: values -100..100, no angles); current matrix and parameter classes as in inplace_*; oracle = quad product with the parameter values taken exactly; bounds in eps(T), rotation entries in max(eps(S),eps(T)) (+ eps(T)|r| where the header rounds the angle to T); non-trivial = current matrix non-affine or an angle beyond one period"
VP_RANDOM (inplace_mixed_f, 400000, 6000000, C09_MIXED_RULE) { inplace_mixed_case<float> (c); }
VP_LABELS (inplace_mixed_f, C09_MIXED_LABELS)
VP_REQUIRE_LABELS (inplace_mixed_f, C09_INPLACE_LABELS, "param_wider_float(double on float matrix)", "param_int", "param_short")
VP_RANDOM (inplace_mixed_d, 400000, 6000000, C09_MIXED_RULE) { inplace_mixed_case<double> (c); }
VP_LABELS (inplace_mixed_d, C09_MIXED_LABELS)
VP_REQUIRE_LABELS (inplace_mixed_d, C09_INPLACE_LABELS, "param_narrower_float(float on double matrix)", "param_int", "param_short")
