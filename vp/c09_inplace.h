// c09_inplace.h - part of c09_transforms.cpp (included once, after the builder section).
// ===================================================================================================================
// 2. in-place forms:  M.translate/scale/shear/rotate(params) == set*(params) * M   (Matrix44, Matrix33, Matrix22 scale)
//                     Matrix22/33::rotate(r)                 == M * setRotation(r)
//    The set* matrix is the quad matrix written from the documentation (the builder sub-checks tie the library's own
//    set* output to the same matrix), the product is formed in quad, every slot is compared.
// ===================================================================================================================
#pragma once

// M0: matrix before, M2: after the in-place call, E: expected transform, post: M0*E instead of E*M0.
// bound per slot: eps * (k1 * sum_k |E_ik||M_kj|  +  k2 * sum over the rotation block of |M|)   (k2 = 0 for exact E)
template <class T, int N, class M>
static void check_inplace (vp::Ctx& c, const std::string& name, const M& M0, const M& M2, const QM<N>& E, bool post, double k1, double k2)
{
    const int  D   = N == 2 ? 2 : N - 1;
    const quad eps = EPS<T> ();
    QM<N>      Mq  = QM<N>::from (M0);
    QM<N>      X   = post ? Mq * E : E * Mq;
    QM<N>      A   = post ? absmul (Mq, E) : absmul (E, Mq);
    VP_REQUIRE (c, (all_finite<M, N> (M2)), name + "/nonfinite", TN<T>::n () << " " << name << " produced " << mstr (M2, N));
    for (int i = 0; i < N; ++i)
        for (int j = 0; j < N; ++j)
        {
            quad blk = 0;
            if (k2 > 0)
                for (int k = 0; k < D; ++k)
                    blk += post ? qabs (Mq.a[i][k]) : qabs (Mq.a[k][j]);
            quad tol = eps * ((quad) k1 * A.a[i][j] + (quad) k2 * blk) + (quad) std::numeric_limits<T>::denorm_min ();
            quad d   = qabs ((quad) M2[i][j] - X.a[i][j]);
            if (k2 > 0)
                C09_MEAS (name + "|" + TN<T>::n () + "|rot/(eps*(A+blk))", d / (eps * (A.a[i][j] + blk) + (quad) 1e-300));
            else
                C09_MEAS (name + "|" + TN<T>::n () + "|exact/(eps*A)", d / (eps * A.a[i][j] + (quad) 1e-300));
            VP_REQUIRE (c, d <= tol, name + "/slot", TN<T>::n () << " " << name << " slot [" << i << "][" << j << "] = " << M2[i][j] << " expected " << qstr (X.a[i][j]) << " (" << (post ? "M*set" : "set*M") << ", bound " << qstr (tol) << "); before " << mstr (M0, N) << " after " << mstr (M2, N));
        }
}

enum
{
    I44_TRANSLATE,
    I44_SCALE,
    I44_SHEAR_VEC3,
    I44_SHEAR_SHEAR6,
    I44_ROTATE,
    I33_TRANSLATE,
    I33_SCALE,
    I33_SHEAR_SCALAR,
    I33_SHEAR_VEC2,
    I33_ROTATE,
    I22_ROTATE,
    I22_SCALE,
    I_NOPS,
    IL_IDENTITY = I_NOPS,
    IL_AFFINE,
    IL_NONAFFINE,
    IL_MULTIPERIOD
};
#define C09_INPLACE_LABELS "m44_translate", "m44_scale", "m44_shear_vec3", "m44_shear_shear6", "m44_rotate", "m33_translate", "m33_scale", "m33_shear_scalar", "m33_shear_vec2", "m33_rotate", "m22_rotate", "m22_scale", "current_identity", "current_affine", "current_nonaffine", "angle_beyond_one_period"

static const int INPLACE_OPS[] = { I44_TRANSLATE, I44_TRANSLATE, I44_SCALE, I44_SCALE, I44_SHEAR_VEC3, I44_SHEAR_VEC3, I44_SHEAR_SHEAR6, I44_SHEAR_SHEAR6, I44_ROTATE, I44_ROTATE, I44_ROTATE, I33_TRANSLATE, I33_TRANSLATE, I33_SCALE, I33_SHEAR_SCALAR, I33_SHEAR_VEC2, I33_SHEAR_VEC2, I33_ROTATE, I33_ROTATE, I22_ROTATE, I22_ROTATE, I22_SCALE };

// Bounds (k1, k2), measured on the unchanged tree over 1.6e7 cases per element type, error / (eps * sum|terms|):
//   translate / shear: sum of up to N products in T: k1 = N+2           measured worst 1.66 (4x4), 1.29 (3x3)
//   scale: one rounded product per slot: k1 = 2                         measured worst 0.50
//   rotate: the rotation entries carry their own T-precision error (sin/cos, products), which acts on the whole
//   rotation block of M: error / (eps * (sum|terms| + sum|M block|)) measured worst 0.89 (4x4), 0.56 (3x3, 2x2)
static const double C09_ROT_K1 = 6, C09_ROT_K2 = 6;

template <class T> static void inplace_case (vp::Ctx& c)
{
    vp::Src& s  = c.s;
    int      op = s.pick (INPLACE_OPS);
    c.label (op);
    Matrix44<T> m4, b4;
    Matrix33<T> m3, b3;
    Matrix22<T> m2, b2;
    int         kind;
    if (op <= I44_ROTATE)
    {
        kind = gen_matrix<Matrix44<T>, T, 4> (s, m4);
        b4   = m4;
    }
    else if (op <= I33_ROTATE)
    {
        kind = gen_matrix<Matrix33<T>, T, 3> (s, m3);
        b3   = m3;
    }
    else
    {
        kind = gen_matrix<Matrix22<T>, T, 2> (s, m2);
        b2   = m2;
    }
    c.label (kind == 0 ? IL_IDENTITY : kind == 1 ? IL_AFFINE : IL_NONAFFINE);
    c.nt (kind == 2);
    switch (op)
    {
        case I44_TRANSLATE:
        {
            Vec3<T> t = gen_param3<T> (s);
            VP_NOTE (c, TN<T>::n () << " M44.translate t=" << vstr (t, 3) << " M=" << mstr (b4, 4));
            const Matrix44<T>& r = m4.translate (t);
            VP_REQUIRE (c, &r == &m4, "m44-translate/returns-this", "does not return *this");
            quad tq[3] = { (quad) t.x, (quad) t.y, (quad) t.z };
            check_inplace<T, 4> (c, "m44-translate", b4, m4, E_translation<4> (tq), false, 6, 0);
            break;
        }
        case I44_SCALE:
        {
            Vec3<T> sc = gen_param3<T> (s);
            VP_NOTE (c, TN<T>::n () << " M44.scale s=" << vstr (sc, 3) << " M=" << mstr (b4, 4));
            const Matrix44<T>& r = m4.scale (sc);
            VP_REQUIRE (c, &r == &m4, "m44-scale/returns-this", "does not return *this");
            quad sq[3] = { (quad) sc.x, (quad) sc.y, (quad) sc.z };
            check_inplace<T, 4> (c, "m44-scale", b4, m4, E_scale<4> (sq, 3), false, 2, 0);
            break;
        }
        case I44_SHEAR_VEC3:
        {
            Vec3<T> h = gen_param3<T> (s);
            VP_NOTE (c, TN<T>::n () << " M44.shear(Vec3) h=" << vstr (h, 3) << " M=" << mstr (b4, 4));
            const Matrix44<T>& r = m4.shear (h);
            VP_REQUIRE (c, &r == &m4, "m44-shear(Vec3)/returns-this", "does not return *this");
            check_inplace<T, 4> (c, "m44-shear(Vec3)", b4, m4, E_shear44 ((quad) h[0], (quad) h[1], (quad) h[2], 0, 0, 0), false, 6, 0);
            break;
        }
        case I44_SHEAR_SHEAR6:
        {
            T h[6];
            for (int i = 0; i < 6; ++i)
                h[i] = gen_param<T> (s);
            Shear6<T> sh (h[0], h[1], h[2], h[3], h[4], h[5]);
            VP_NOTE (c, TN<T>::n () << " M44.shear(Shear6) xy=" << h[0] << " xz=" << h[1] << " yz=" << h[2] << " yx=" << h[3] << " zx=" << h[4] << " zy=" << h[5] << " M=" << mstr (b4, 4));
            const Matrix44<T>& r = m4.shear (sh);
            VP_REQUIRE (c, &r == &m4, "m44-shear(Shear6)/returns-this", "does not return *this");
            check_inplace<T, 4> (c, "m44-shear(Shear6)", b4, m4, E_shear44 ((quad) h[0], (quad) h[1], (quad) h[2], (quad) h[3], (quad) h[4], (quad) h[5]), false, 6, 0);
            break;
        }
        case I44_ROTATE:
        {
            Vec3<T> a = gen_angle3<T> (s);
            if (std::fabs (a.x) > 3.2 || std::fabs (a.y) > 3.2 || std::fabs (a.z) > 3.2)
            {
                c.label (IL_MULTIPERIOD);
                c.nt ();
            }
            VP_NOTE (c, TN<T>::n () << " M44.rotate r=" << vstr (a, 3) << " M=" << mstr (b4, 4));
            const Matrix44<T>& r = m4.rotate (a);
            VP_REQUIRE (c, &r == &m4, "m44-rotate/returns-this", "does not return *this");
            check_inplace<T, 4> (c, "m44-rotate", b4, m4, E_euler ((quad) a.x, (quad) a.y, (quad) a.z), false, C09_ROT_K1, C09_ROT_K2);
            break;
        }
        case I33_TRANSLATE:
        {
            Vec2<T> t = gen_param2<T> (s);
            VP_NOTE (c, TN<T>::n () << " M33.translate t=" << vstr (t, 2) << " M=" << mstr (b3, 3));
            const Matrix33<T>& r = m3.translate (t);
            VP_REQUIRE (c, &r == &m3, "m33-translate/returns-this", "does not return *this");
            quad tq[2] = { (quad) t.x, (quad) t.y };
            check_inplace<T, 3> (c, "m33-translate", b3, m3, E_translation<3> (tq), false, 5, 0);
            break;
        }
        case I33_SCALE:
        {
            Vec2<T> sc = gen_param2<T> (s);
            VP_NOTE (c, TN<T>::n () << " M33.scale s=" << vstr (sc, 2) << " M=" << mstr (b3, 3));
            const Matrix33<T>& r = m3.scale (sc);
            VP_REQUIRE (c, &r == &m3, "m33-scale/returns-this", "does not return *this");
            quad sq[2] = { (quad) sc.x, (quad) sc.y };
            check_inplace<T, 3> (c, "m33-scale", b3, m3, E_scale<3> (sq, 2), false, 2, 0);
            break;
        }
        case I33_SHEAR_SCALAR:
        {
            T xy = gen_param<T> (s);
            VP_NOTE (c, TN<T>::n () << " M33.shear(scalar) xy=" << xy << " M=" << mstr (b3, 3));
            const Matrix33<T>& r = m3.shear (xy);
            VP_REQUIRE (c, &r == &m3, "m33-shear(scalar)/returns-this", "does not return *this");
            check_inplace<T, 3> (c, "m33-shear(scalar)", b3, m3, E_shear33 ((quad) xy, 0), false, 5, 0);
            break;
        }
        case I33_SHEAR_VEC2:
        {
            Vec2<T> h = gen_param2<T> (s);
            VP_NOTE (c, TN<T>::n () << " M33.shear(Vec2) h=" << vstr (h, 2) << " M=" << mstr (b3, 3));
            const Matrix33<T>& r = m3.shear (h);
            VP_REQUIRE (c, &r == &m3, "m33-shear(Vec2)/returns-this", "does not return *this");
            check_inplace<T, 3> (c, "m33-shear(Vec2)", b3, m3, E_shear33 ((quad) h.x, (quad) h.y), false, 5, 0);
            break;
        }
        case I33_ROTATE:
        {
            T ang = gen_angle<T> (s);
            if (std::fabs (ang) > 3.2)
            {
                c.label (IL_MULTIPERIOD);
                c.nt ();
            }
            VP_NOTE (c, TN<T>::n () << " M33.rotate r=" << ang << " M=" << mstr (b3, 3));
            const Matrix33<T>& r = m3.rotate (ang);
            VP_REQUIRE (c, &r == &m3, "m33-rotate/returns-this", "does not return *this");
            check_inplace<T, 3> (c, "m33-rotate", b3, m3, E_rot33 ((quad) ang), true, 4, 4);
            break;
        }
        case I22_ROTATE:
        {
            T ang = gen_angle<T> (s);
            if (std::fabs (ang) > 3.2)
            {
                c.label (IL_MULTIPERIOD);
                c.nt ();
            }
            VP_NOTE (c, TN<T>::n () << " M22.rotate r=" << ang << " M=" << mstr (b2, 2));
            const Matrix22<T>& r = m2.rotate (ang);
            VP_REQUIRE (c, &r == &m2, "m22-rotate/returns-this", "does not return *this");
            check_inplace<T, 2> (c, "m22-rotate", b2, m2, E_rot22 ((quad) ang), true, 4, 4);
            break;
        }
        default:
        {
            Vec2<T> sc = gen_param2<T> (s);
            VP_NOTE (c, TN<T>::n () << " M22.scale s=" << vstr (sc, 2) << " M=" << mstr (b2, 2));
            const Matrix22<T>& r = m2.scale (sc);
            VP_REQUIRE (c, &r == &m2, "m22-scale/returns-this", "does not return *this");
            quad sq[2] = { (quad) sc.x, (quad) sc.y };
            check_inplace<T, 2> (c, "m22-scale", b2, m2, E_scale<2> (sq, 2), false, 2, 0);
            break;
        }
    }
}

#define C09_INPLACE_RULE                                                                                               \
    "one of 12 in-place operations on a current matrix that is identity (1/8), affine (1/8) or general with a random last column (6/8; Matrix22: identity or general); same parameter / angle classes as the builders; oracle = quad product (documented set* matrix) x M, or M x rotation for Matrix22/33::rotate, every slot; non-trivial = current matrix non-affine or an angle beyond one period"
VP_RANDOM (inplace_f, 600000, 10000000, C09_INPLACE_RULE) { inplace_case<float> (c); }
VP_LABELS (inplace_f, C09_INPLACE_LABELS)
VP_REQUIRE_LABELS (inplace_f, C09_INPLACE_LABELS)
VP_RANDOM (inplace_d, 600000, 10000000, C09_INPLACE_RULE) { inplace_case<double> (c); }
VP_LABELS (inplace_d, C09_INPLACE_LABELS)
VP_REQUIRE_LABELS (inplace_d, C09_INPLACE_LABELS)
