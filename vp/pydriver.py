"""Driver side for the PyImath properties (C19, C20): builds the imath Python module from the working tree
(ASan-instrumented, incremental, content-hash driven), runs the Hypothesis-based check script in a child
interpreter with the sanitizer runtime preloaded, and turns its result (or its abort) into evidence and verdict."""
import glob, hashlib, json, os, shutil, subprocess, sys, time

HERE = os.path.dirname(os.path.abspath(__file__))
VERIF = os.path.dirname(HERE)
import run as R  # noqa: E402  (the main driver: paths, helpers)

PYEXE_BUILD = "/usr/bin/python3.11"       # interpreter whose headers / Boost.Python the module is built against
PYEXE_RUN = shutil.which("python3-vt") or "/opt/veriftools/pyvenv/bin/python"  # same minor version, has hypothesis


def _file_hashes(root_dirs):
    out = {}
    for d in root_dirs:
        for p in R.walk(d):
            try:
                with open(p, "rb") as f:
                    out[p] = hashlib.sha256(f.read()).hexdigest()
            except OSError:
                pass
    return out


SANFLAG = {"asan": "-fsanitize=address", "tsan": "-fsanitize=thread"}


def build_pyimath(flavor="asan"):
    """Configure once, then let ninja rebuild incrementally.  A file whose content hash changed since the last
    build is touched first, so that content - not mtime - decides what is rebuilt.  flavor: asan (memory errors are
    part of the oracle) or tsan (data races between concurrently running sub-ranges, C20)."""
    repo = R.REPO
    tag = hashlib.sha256(repo.encode()).hexdigest()[:8]
    sflag = SANFLAG[flavor]
    bdir = os.path.join(R.BUILD, "pyimath-" + flavor if repo == "/repo" else "pyimath-%s-%s" % (flavor, tag))
    t0 = time.time()
    cfg_files = [os.path.join(repo, "CMakeLists.txt")] + R.walk(os.path.join(repo, "config")) + R.walk(os.path.join(repo, "cmake")) + \
        [p for p in R.walk(os.path.join(repo, "src")) if os.path.basename(p) == "CMakeLists.txt" or p.endswith(".cmake")]
    cfg_key = R.sha_files(cfg_files)
    stamp = os.path.join(bdir, "vp_stamp.json")
    st = {}
    if os.path.exists(stamp):
        try:
            st = json.load(open(stamp))
        except ValueError:
            st = {}
    if st.get("cfg_key") != cfg_key or not os.path.exists(os.path.join(bdir, "build.ninja")):
        shutil.rmtree(bdir, ignore_errors=True)
        os.makedirs(bdir)
        cmd = ["cmake", "-S", repo, "-B", bdir, "-G", "Ninja", "-DPYTHON=ON", "-DPython3_EXECUTABLE=" + PYEXE_BUILD, "-DBUILD_TESTING=OFF",
               "-DCMAKE_BUILD_TYPE=Release", "-DCMAKE_CXX_FLAGS=-O1 -g1 %s -fno-omit-frame-pointer" % sflag, "-DCMAKE_CXX_FLAGS_RELEASE=",
               "-DCMAKE_SHARED_LINKER_FLAGS=" + sflag, "-DCMAKE_MODULE_LINKER_FLAGS=" + sflag]
        r = R.run(cmd)
        if r.returncode != 0:
            raise R.BuildError("cmake configure of PyImath failed:\n" + r.stdout[-3000:])
        st = {"cfg_key": cfg_key, "files": {}}
    cur = _file_hashes([os.path.join(repo, "src", "Imath"), os.path.join(repo, "src", "python")])
    old = st.get("files", {})
    now = time.time()
    for p, h in cur.items():
        if flavor != "asan":
            break  # mtimes are bumped once, by the asan build that always runs first; ninja compares mtimes per build dir
        if old.get(p) != h and p in old:
            try:
                os.utime(p, (now, now))
            except OSError:
                pass
    r = R.run(["cmake", "--build", bdir, "-j", str(R.NCPU)])
    if r.returncode != 0:
        raise R.BuildError("PyImath build failed:\n" + r.stdout[-6000:])
    st["files"] = cur
    with open(stamp, "w") as f:
        json.dump(st, f)
    mods = glob.glob(os.path.join(bdir, "**", "imath*.so"), recursive=True)
    libs = sorted(set(os.path.dirname(p) for p in glob.glob(os.path.join(bdir, "**", "lib*.so*"), recursive=True)))
    mod = [m for m in mods if "numpy" not in os.path.basename(m)]
    if not mod:
        raise R.BuildError("imath module not found after build")
    R.log("[py] PyImath (%s) ready in %.1fs (%s)" % (flavor, time.time() - t0, mod[0]))
    return dict(bdir=bdir, moddir=os.path.dirname(mod[0]), libdirs=libs, flavor=flavor)


def child_env(info):
    env = dict(os.environ)
    flavor = info.get("flavor", "asan")
    rt = subprocess.run(["g++", "-print-file-name=lib%s.so" % flavor], stdout=subprocess.PIPE, text=True).stdout.strip()
    stdcpp = subprocess.run(["g++", "-print-file-name=libstdc++.so"], stdout=subprocess.PIPE, text=True).stdout.strip()
    env["LD_PRELOAD"] = rt + " " + stdcpp
    env["ASAN_OPTIONS"] = "detect_leaks=0:exitcode=99:abort_on_error=0:allocator_may_return_null=1:handle_abort=1"
    env["TSAN_OPTIONS"] = "halt_on_error=1:exitcode=66:report_signal_unsafe=0:history_size=1"
    env["LD_LIBRARY_PATH"] = ":".join(info["libdirs"] + [env.get("LD_LIBRARY_PATH", "")])
    env["PYTHONPATH"] = ":".join([info["moddir"], os.path.join(HERE, "py"), env.get("PYTHONPATH", "")])
    env["VP_PYIMATH_BDIR"] = info["bdir"]
    env["VP_REPO"] = R.REPO
    env["PYTHONHASHSEED"] = "0"
    return env


ASSUME_PY = [
    "the imath module is built from $VERIF_REPO with -O1 -fsanitize=address (g++ 12) against CPython 3.11 / Boost.Python 1.83 and run under python3-vt (3.11) with libasan+libstdc++ preloaded; ASan is the oracle for out-of-bounds and use-after-free",
    "Hypothesis 6.168 generates programs (operation sequences) from a seeded PRNG (@seed(VERIF_SEED), database=None, deadline=None); each program is interpreted against the module and a pure-Python model",
    "CPython reference counting releases objects deterministically on del; gc.collect() is called after every release step",
]


def main(prop, tier, seed, replay):
    spec = R.PROPS[prop]
    t0 = time.time()
    try:
        info = build_pyimath()
        extra = {}
        if spec.get("pool_shim"):
            extra = build_poolshim(info)
    except R.BuildError as e:
        print("ERROR build failed (not a verdict)")
        R.log(str(e))
        return 2
    env = child_env(info)
    env.update(extra)
    script = os.path.join(HERE, spec["script"])
    saved_dir = os.path.join(VERIF, "replays", prop)
    rdir = os.path.join(os.environ["VERIF_REPLAY_DIR"], prop) if os.environ.get("VERIF_REPLAY_DIR") else os.path.join(saved_dir, "found")
    os.makedirs(rdir, exist_ok=True)
    tmpd = os.path.join(R.BUILD, "run", "%s-%d" % (prop, os.getpid()))
    os.makedirs(tmpd, exist_ok=True)
    kn = R.known_keys(prop)
    knkeys = [k["key"] for k in kn]
    if replay:
        r = subprocess.run([PYEXE_RUN, script, "--replay", replay, "--known", ",".join(knkeys)], env=env, stdout=subprocess.PIPE, stderr=subprocess.STDOUT, text=True)
        print(r.stdout[-4000:], end="")
        if r.returncode not in (0,):
            print("VIOLATION property=%s replay=%s" % (prop, replay))
            return 1
        return 0
    saved = sorted(glob.glob(os.path.join(saved_dir, "*.json")))
    nshards = int(spec.get("shards", 1))
    violations = []
    known_hits = {}
    errors = []
    procs = []
    # race pass (C20): a second, ThreadSanitizer-instrumented build of the module runs the concurrent sweep
    if spec.get("race_pass"):
        try:
            tinfo = build_pyimath("tsan")
            tenv = child_env(tinfo)
            tenv.update(build_poolshim(tinfo))
            tenv["VP_RACE_PASS"] = "1"
        except R.BuildError as e:
            print("ERROR build failed (not a verdict)")
            R.log(str(e))
            return 2
        rshards = int(spec.get("race_shards", 4))
        # ASLR off for the TSan children: gcc 12's runtime occasionally dies with "failed to allocate" / "unexpected
        # memory mapping" under high-entropy ASLR, which is a tool failure and not a finding
        noaslr = ["setarch", "x86_64", "-R"] if shutil.which("setarch") else []
        for si in range(rshards):
            out = os.path.join(tmpd, "race%d.json" % si)
            inflight = os.path.join(tmpd, "raceinflight%d.json" % si)
            cmd = noaslr + [PYEXE_RUN, script, "--tier", tier, "--seed", str(seed), "--out", out, "--replay-dir", rdir, "--inflight", inflight, "--known", ",".join(knkeys), "--shard", "%d/%d" % (si, rshards)]
            procs.append((subprocess.Popen(cmd, env=tenv, stdout=subprocess.PIPE, stderr=subprocess.PIPE, text=True), out, inflight, "race%d" % si))
    for si in range(nshards):
        out = os.path.join(tmpd, "result%d.json" % si)
        inflight = os.path.join(tmpd, "inflight%d.json" % si)
        cmd = [PYEXE_RUN, script, "--tier", tier, "--seed", str(seed), "--out", out, "--replay-dir", rdir, "--inflight", inflight, "--known", ",".join(knkeys), "--shard", "%d/%d" % (si, nshards)]
        if si == 0:
            for s_ in saved:
                cmd += ["--saved", s_]
        procs.append((subprocess.Popen(cmd, env=env, stdout=subprocess.PIPE, stderr=subprocess.PIPE, text=True), out, inflight, si))
    results = []
    race_incomplete = []
    for p, out, inflight, si in procs:
        so, se = p.communicate()
        sys.stderr.write("".join(l for l in se.splitlines(True) if l.startswith("[")) if p.returncode in (0, 1) else se[-30000:])
        res = None
        if os.path.exists(out):
            try:
                res = json.load(open(out))
            except ValueError:
                res = None
        if str(si).startswith("race") and (p.returncode not in (0, 1, 2) or res is None) and "ThreadSanitizer: data race" not in (se or "") and "ThreadSanitizer: heap-use-after-free" not in (se or ""):
            # the TSan runtime itself failed (allocation / mapping): a tool failure, never a verdict; the ASan shards
            # still compare every concurrent result with the serial one
            race_incomplete.append("%s: rc=%s %s" % (si, p.returncode, (se or "")[-300:].replace("\n", " ")))
            R.log("[C20] race-pass shard %s did not complete (sanitizer runtime failure, not a verdict): rc=%s" % (si, p.returncode))
            continue
        if p.returncode not in (0, 1, 2) or res is None:
            # abort / sanitizer report / interpreter crash
            rp = os.path.join(rdir, "crash-inflight%s.json" % ("" if si == 0 else "-%s" % si))
            tail = (se or "")[-4000:]
            summ = ""
            for line in tail.splitlines():
                if "ERROR: AddressSanitizer" in line or "WARNING: ThreadSanitizer" in line or "SUMMARY" in line or "terminate called" in line or "Aborted" in line or "what():" in line:
                    summ += line.strip() + " | "
            if os.path.exists(inflight):
                shutil.copy(inflight, rp)
            else:
                with open(rp, "w") as f:
                    json.dump(dict(note="child died before the first case", rc=p.returncode), f)
            with open(rp + ".log", "w") as f:
                f.write(tail)
            violations.append((rp, "child interpreter died (rc=%s) while executing the in-flight program: %s" % (p.returncode, summ or tail[-300:])))
            continue
        results.append(res)
        for f in res.get("failures", []):
            if f.get("known"):
                known_hits[f["key"]] = f["msg"]
            else:
                violations.append((f["replay"], "%s: %s" % (f["key"], f["msg"])))
        for e in res.get("harness_errors", []):
            errors.append(e)
    res = None
    if results:
        # merge the shards
        merged = {}
        order = []
        for r_ in results:
            for sc in r_["coverage"]["subchecks"]:
                m = merged.get(sc["name"])
                if m is None:
                    merged[sc["name"]] = dict(sc)
                    order.append(sc["name"])
                else:
                    for k in ("planned", "evaluations", "nontrivial", "distinct_nontrivial", "excluded_known"):
                        m[k] = m.get(k, 0) + sc.get(k, 0)
                    m["wall_s"] = max(m.get("wall_s", 0), sc.get("wall_s", 0))
                    m["had_fail"] = m.get("had_fail") or sc.get("had_fail")
                    for lk, lv in sc.get("labels", {}).items():
                        m["labels"][lk] = m["labels"].get(lk, 0) + lv
        subs = [merged[n] for n in order]
        if nshards > 1 and not violations:
            for m in subs:
                if m.get("had_fail"):
                    continue
                for rl in m.get("required_labels", []):
                    if m["labels"].get(rl, 0) == 0:
                        errors.append("group %s never generated required class %r" % (m["name"], rl))
        samples = []
        for r_ in results:
            samples += r_["coverage"].get("samples", [])[:4]
        c0 = results[0]["coverage"]
        res = dict(coverage=dict(evaluations=sum(m["evaluations"] for m in subs), distinct_nontrivial=sum(m["distinct_nontrivial"] for m in subs), rule=c0.get("rule", ""),
                                 samples=samples[:40] or ["(none)"], exhaustive=False, subchecks=subs, shards=nshards,
                                 replayed_saved_inputs=c0.get("replayed_saved_inputs", 0),
                                 excluded_known_failures={k: sum(r_["coverage"].get("excluded_known_failures", {}).get(k, 0) for r_ in results) for r_ in results for k in r_["coverage"].get("excluded_known_failures", {})}))
    cov = dict(evaluations=0, distinct_nontrivial=0, rule="", samples=["(no sample: run aborted)"])
    if res:
        cov = res["coverage"]
    cov["known_findings_hit"] = sorted(known_hits.keys())
    if spec.get("race_pass"):
        cov["race_pass"] = dict(engine="ThreadSanitizer build of the module and pool shim, %d shards, ASLR disabled" % int(spec.get("race_shards", 4)), incomplete_shards=race_incomplete)
    R.write_evidence(prop, tier, seed, cov, time.time() - t0, len(violations), ASSUME_PY)
    shutil.rmtree(tmpd, ignore_errors=True)
    for k in kn:
        if k["key"] in known_hits:
            print("KNOWN-FINDING: property=%s %s" % (prop, k.get("what", k["key"])))
    seen = set()
    for rp, msg in violations:
        k = msg.split(":", 1)[0]
        if k in seen:
            continue
        seen.add(k)
        print("VIOLATION property=%s replay=%s" % (prop, rp))
        print("  " + msg[:1500])
    if violations:
        return 1
    if errors:
        for e in errors:
            print("ERROR " + e[:1500])
        return 2
    R.log("[%s] %s tier OK: %d evaluations, %d distinct non-trivial, %.1fs" % (prop, tier, cov.get("evaluations", 0), cov.get("distinct_nontrivial", 0), time.time() - t0))
    return 0


def build_poolshim(info):
    """Shared object installing a harness-owned PyImath WorkerPool (C20); built against the tree's PyImathTask.h."""
    src = os.path.join(HERE, "poolshim.cpp")
    key = R.sha_files([src] + R.walk(os.path.join(R.REPO, "src", "python", "PyImath")))[:16]
    out = os.path.join(info["bdir"], "libvppool-%s.so" % key)
    if not os.path.exists(out):
        for old in glob.glob(os.path.join(info["bdir"], "libvppool-*.so")):
            os.remove(old)
        pylib = glob.glob(os.path.join(info["bdir"], "**", "libPyImath*.so"), recursive=True)
        if not pylib:
            raise R.BuildError("libPyImath not found")
        cfg = os.path.join(info["bdir"], "config")
        pycfg = glob.glob(os.path.join(info["bdir"], "**", "PyImathConfig.h"), recursive=True)
        inc = ["-I", cfg, "-I", os.path.join(R.REPO, "src", "Imath"), "-I", os.path.join(R.REPO, "src", "python", "PyImath"), "-I", "/usr/include/python3.11"]
        for pc in pycfg:
            inc += ["-I", os.path.dirname(pc)]
        cmd = ["g++", "-std=gnu++17", "-O1", "-g1", "-fPIC", "-shared", SANFLAG[info.get("flavor", "asan")], "-pthread"] + inc + [src, "-o", out, "-L", os.path.dirname(pylib[0]), "-l" + os.path.basename(pylib[0])[3:].split(".so")[0]]
        R.compile_one(cmd, out)
    return dict(VP_POOLSHIM=out)
