// oracles.h - reference implementations independent of the code under test.
#pragma once
#include <algorithm>
#include <cmath>
#include <cstdint>
#include <cstring>
#include <limits>
#include <string>
#include <sstream>
#include <iomanip>

namespace orc {

typedef __float128 quad;

static inline uint32_t f2u (float f)
{
    uint32_t u;
    memcpy (&u, &f, 4);
    return u;
}
static inline float u2f (uint32_t u)
{
    float f;
    memcpy (&f, &u, 4);
    return f;
}
static inline uint64_t d2u (double f)
{
    uint64_t u;
    memcpy (&u, &f, 8);
    return u;
}
static inline double u2d (uint64_t u)
{
    double f;
    memcpy (&f, &u, 8);
    return f;
}

// ---- binary16 reference codec (by value, via ldexp / nearbyint) -------------

// half pattern -> float bit pattern (NaN: sign, payload<<13, quiet bit as given)
static inline uint32_t ref_h2f_bits (uint16_t h)
{
    uint32_t sign = (uint32_t) (h >> 15) << 31;
    int      e    = (h >> 10) & 0x1f;
    uint32_t m    = h & 0x3ff;
    if (e == 31)
    {
        if (m == 0) return sign | 0x7f800000u;
        return sign | 0x7f800000u | (m << 13);
    }
    double v;
    if (e == 0)
        v = std::ldexp ((double) m, -24);
    else
        v = std::ldexp ((double) (m + 1024), e - 25);
    float f = (float) v; // exact: every half is a float
    return sign | f2u (f);
}

// float bit pattern -> half pattern, round-to-nearest-even, software-path NaN rule
static inline uint16_t ref_f2h_bits (uint32_t u)
{
    uint16_t sign = (uint16_t) ((u >> 16) & 0x8000);
    uint32_t mag  = u & 0x7fffffffu;
    if (mag > 0x7f800000u)
    {
        uint32_t m = (mag & 0x7fffff) >> 13;
        if (m == 0) m = 1;
        return sign | 0x7c00 | (uint16_t) m;
    }
    if (mag == 0x7f800000u) return sign | 0x7c00;
    double a = (double) u2f (mag); // exact
    if (a == 0) return sign;
    int    ex;
    double fr = std::frexp (a, &ex); // a = fr * 2^ex, fr in [0.5,1)
    int    E  = ex - 1;              // a = 1.x * 2^E
    // spacing of halfs around a
    int    q;                        // unit = 2^q
    if (E < -14)
        q = -24;
    else
        q = E - 10;
    (void) fr;
    double scaled = std::ldexp (a, -q);          // exact (power of two scaling)
    double r      = std::nearbyint (scaled);     // ties-to-even under default rounding mode
    double val    = std::ldexp (r, q);
    if (val >= 65536.0) return sign | 0x7c00;    // rounded past the largest finite (65504 + 16 -> 65536)
    if (val == 0) return sign;
    // encode val
    int    ex2;
    std::frexp (val, &ex2);
    int E2 = ex2 - 1;
    if (E2 < -14)
    {
        uint32_t m = (uint32_t) std::ldexp (val, 24);
        return sign | (uint16_t) m;
    }
    uint32_t m = (uint32_t) std::ldexp (val, 10 - E2) - 1024;
    return sign | (uint16_t) (((E2 + 15) << 10) | m);
}

// Second, structurally different codec: nearest of the sorted finite half values by search.
struct HalfTable
{
    double v[31744]; // non-negative finite halfs in order: patterns 0..0x7bff
    HalfTable ()
    {
        for (int p = 0; p < 31744; ++p)
        {
            int e = p >> 10, m = p & 0x3ff;
            v[p] = e == 0 ? m * (1.0 / 16777216.0) : (1.0 + m / 1024.0) * std::pow (2.0, e - 15);
        }
    }
    uint16_t nearest (double a) const // a >= 0 finite
    {
        // binary search for largest p with v[p] <= a
        int lo = 0, hi = 31743;
        if (a >= v[hi])
        {
            // between max and the would-be next value 65536
            double next = 65536.0;
            double dl = a - v[hi], dh = next - a;
            if (dl < dh) return (uint16_t) hi;
            if (dl > dh) return 0x7c00;
            return 0x7c00; // tie: 0x7bff is odd -> goes to even (0x7c00 = inf)
        }
        while (hi - lo > 1)
        {
            int mid = (lo + hi) / 2;
            if (v[mid] <= a)
                lo = mid;
            else
                hi = mid;
        }
        double dl = a - v[lo], dh = v[lo + 1] - a;
        if (dl < dh) return (uint16_t) lo;
        if (dl > dh) return (uint16_t) (lo + 1);
        return (uint16_t) ((lo & 1) ? lo + 1 : lo);
    }
};

// ---- ulp helpers --------------------------------------------------------------

template <class T> struct FInfo;
template <> struct FInfo<float>
{
    static constexpr int    mant   = 24;
    static constexpr int    minexp = -126; // smallest normal = 2^minexp
    static constexpr double eps () { return 1.1920928955078125e-07; }
};
template <> struct FInfo<double>
{
    static constexpr int    mant   = 53;
    static constexpr int    minexp = -1022;
    static constexpr double eps () { return 2.220446049250313e-16; }
};

static inline int ilogbq_ (quad x)
{
    // exponent E with 2^E <= |x| < 2^(E+1); x != 0, finite
    if (x < 0) x = -x;
    long double l = (long double) x; // may lose precision but exponent range of long double is large
    int         e;
    std::frexp (l, &e);
    int E = e - 1;
    // fix possible rounding up to the next power of two
    quad p = 1;
    // scalbn in quad by repeated multiplication is slow; use ldexp on long double which is exact for powers of two
    long double pl = std::ldexp (1.0L, E);
    p              = (quad) pl;
    if (p > x) --E;
    return E;
}

template <class T> static inline quad ulp_of (quad exact)
{
    if (exact < 0) exact = -exact;
    if (exact == 0) return (quad) std::numeric_limits<T>::denorm_min ();
    int E = ilogbq_ (exact);
    if (E < FInfo<T>::minexp) E = FInfo<T>::minexp;
    return (quad) std::ldexp (1.0L, E - (FInfo<T>::mant - 1));
}

// error of got relative to exact in ulps of T at exact
template <class T> static inline double ulps (T got, quad exact)
{
    quad d = (quad) got - exact;
    if (d < 0) d = -d;
    return (double) (d / ulp_of<T> (exact));
}

static inline quad qabs (quad x) { return x < 0 ? -x : x; }
static inline quad qmax (quad a, quad b) { return a > b ? a : b; }
static inline quad qmin (quad a, quad b) { return a < b ? a : b; }

// sqrt in quad via Newton from long double seed (avoids linking libquadmath)
static inline quad qsqrt (quad x)
{
    if (x <= 0) return 0;
    long double s = std::sqrt ((long double) x);
    quad        y = (quad) s;
    if (y == 0)
    {
        // x tiny beyond long double? (not in our ranges) scale
        return 0;
    }
    for (int i = 0; i < 3; ++i)
        y = (y + x / y) / 2;
    return y;
}

static inline std::string qstr (quad x)
{
    std::ostringstream o;
    o << std::setprecision (21) << (long double) x;
    return o.str ();
}

template <class T> static inline std::string hexf (T x)
{
    char b[64];
    snprintf (b, sizeof b, "%a", (double) x);
    return b;
}

// bit equality with NaN == NaN
static inline bool same_f (float a, float b)
{
    if (a != a && b != b) return true;
    return f2u (a) == f2u (b);
}
static inline bool same_d (double a, double b)
{
    if (a != a && b != b) return true;
    return d2u (a) == d2u (b);
}
template <class T> static inline bool same (T a, T b) { return a == b; }
template <> inline bool same<float> (float a, float b) { return same_f (a, b); }
template <> inline bool same<double> (double a, double b) { return same_d (a, b); }

} // namespace orc

// ---- quad math (libquadmath; prototypes declared here so clang needs no quadmath.h) ----
extern "C" {
__float128 sinq (__float128);
__float128 cosq (__float128);
__float128 tanq (__float128);
__float128 sqrtq (__float128);
__float128 atan2q (__float128, __float128);
__float128 acosq (__float128);
__float128 asinq (__float128);
__float128 cbrtq (__float128);
__float128 fabsq (__float128);
__float128 expq (__float128);
__float128 logq (__float128);
__float128 powq (__float128, __float128);
__float128 fmodq (__float128, __float128);
__float128 floorq (__float128);
}

namespace orc {

static const quad QPI = (quad) 3.14159265358979323846264338327950288419716939937510L + (quad) (-5.01655761266833202355732708033e-20L);

// ---- small dense linear algebra in quad ---------------------------------------
template <int N> struct QM
{
    quad a[N][N];
    QM ()
    {
        for (int i = 0; i < N; ++i)
            for (int j = 0; j < N; ++j)
                a[i][j] = i == j ? 1 : 0;
    }
    template <class M> static QM from (const M& m)
    {
        QM r;
        for (int i = 0; i < N; ++i)
            for (int j = 0; j < N; ++j)
                r.a[i][j] = (quad) m[i][j];
        return r;
    }
    quad*       operator[] (int i) { return a[i]; }
    const quad* operator[] (int i) const { return a[i]; }
};
template <int N> static inline QM<N> operator* (const QM<N>& x, const QM<N>& y)
{
    QM<N> r;
    for (int i = 0; i < N; ++i)
        for (int j = 0; j < N; ++j)
        {
            quad s = 0;
            for (int k = 0; k < N; ++k)
                s += x.a[i][k] * y.a[k][j];
            r.a[i][j] = s;
        }
    return r;
}
// |x|*|y| (sum of absolute terms of each product entry)
template <int N> static inline QM<N> absmul (const QM<N>& x, const QM<N>& y)
{
    QM<N> r;
    for (int i = 0; i < N; ++i)
        for (int j = 0; j < N; ++j)
        {
            quad s = 0;
            for (int k = 0; k < N; ++k)
                s += qabs (x.a[i][k] * y.a[k][j]);
            r.a[i][j] = s;
        }
    return r;
}
template <int N> static inline QM<N> transpose (const QM<N>& x)
{
    QM<N> r;
    for (int i = 0; i < N; ++i)
        for (int j = 0; j < N; ++j)
            r.a[i][j] = x.a[j][i];
    return r;
}
// determinant by permutation expansion; *abs_sum receives the sum of |permutation products|
template <int N> static inline quad det (const QM<N>& m, quad* abs_sum = nullptr)
{
    int  p[N];
    for (int i = 0; i < N; ++i)
        p[i] = i;
    quad d = 0, as = 0;
    // Heap-free enumeration via std::next_permutation with sign by inversion count
    do
    {
        int inv = 0;
        for (int i = 0; i < N; ++i)
            for (int j = i + 1; j < N; ++j)
                if (p[i] > p[j]) ++inv;
        quad t = 1;
        for (int i = 0; i < N; ++i)
            t *= m.a[i][p[i]];
        d += (inv & 1) ? -t : t;
        as += qabs (t);
    } while (std::next_permutation (p, p + N));
    if (abs_sum) *abs_sum = as;
    return d;
}
// inverse by Gauss-Jordan with partial pivoting; returns false if a pivot is exactly zero
template <int N> static inline bool inverse (const QM<N>& m, QM<N>& out)
{
    QM<N> a = m, b;
    for (int c = 0; c < N; ++c)
    {
        int  piv = c;
        quad best = qabs (a.a[c][c]);
        for (int r = c + 1; r < N; ++r)
            if (qabs (a.a[r][c]) > best)
            {
                best = qabs (a.a[r][c]);
                piv  = r;
            }
        if (best == 0) return false;
        if (piv != c)
            for (int j = 0; j < N; ++j)
            {
                std::swap (a.a[c][j], a.a[piv][j]);
                std::swap (b.a[c][j], b.a[piv][j]);
            }
        quad d = a.a[c][c];
        for (int j = 0; j < N; ++j)
        {
            a.a[c][j] /= d;
            b.a[c][j] /= d;
        }
        for (int r = 0; r < N; ++r)
            if (r != c)
            {
                quad f = a.a[r][c];
                if (f == 0) continue;
                for (int j = 0; j < N; ++j)
                {
                    a.a[r][j] -= f * a.a[c][j];
                    b.a[r][j] -= f * b.a[c][j];
                }
            }
    }
    out = b;
    return true;
}
template <int N> static inline quad norm_inf (const QM<N>& m)
{
    quad best = 0;
    for (int i = 0; i < N; ++i)
    {
        quad s = 0;
        for (int j = 0; j < N; ++j)
            s += qabs (m.a[i][j]);
        best = qmax (best, s);
    }
    return best;
}
template <int N> static inline quad max_abs (const QM<N>& m)
{
    quad best = 0;
    for (int i = 0; i < N; ++i)
        for (int j = 0; j < N; ++j)
            best = qmax (best, qabs (m.a[i][j]));
    return best;
}
// max |x - y| over entries, x being an Imath-style matrix
template <int N, class M> static inline quad max_diff (const M& x, const QM<N>& y)
{
    quad best = 0;
    for (int i = 0; i < N; ++i)
        for (int j = 0; j < N; ++j)
        {
            quad d = qabs ((quad) x[i][j] - y.a[i][j]);
            if (!(d == d)) return (quad) 1e4000L; // NaN -> huge
            best = qmax (best, d);
        }
    return best;
}
// rotation about unit axis (x,y,z) by angle (Rodrigues), ROW-vector convention: p' = p * R
template <int N> static inline QM<N> rodrigues_rowvec (quad x, quad y, quad z, quad ang)
{
    quad  l = sqrtq (x * x + y * y + z * z);
    x /= l;
    y /= l;
    z /= l;
    quad  c = cosq (ang), s = sinq (ang), t = 1 - c;
    QM<N> r;
    // column-vector rotation matrix C; row-vector matrix is its transpose
    quad C[3][3] = { { t * x * x + c, t * x * y - s * z, t * x * z + s * y }, { t * x * y + s * z, t * y * y + c, t * y * z - s * x }, { t * x * z - s * y, t * y * z + s * x, t * z * z + c } };
    for (int i = 0; i < 3; ++i)
        for (int j = 0; j < 3; ++j)
            r.a[i][j] = C[j][i];
    return r;
}

template <class M> static inline std::string mstr (const M& m, int N)
{
    std::ostringstream o;
    o << std::setprecision (17) << "[";
    for (int i = 0; i < N; ++i)
    {
        o << (i ? " | " : "");
        for (int j = 0; j < N; ++j)
            o << (j ? " " : "") << (double) m[i][j];
    }
    o << "]";
    return o.str ();
}
template <class V> static inline std::string vstr (const V& v, int N)
{
    std::ostringstream o;
    o << std::setprecision (17) << "(";
    for (int i = 0; i < N; ++i)
        o << (i ? " " : "") << (double) v[i];
    o << ")";
    return o.str ();
}

} // namespace orc
