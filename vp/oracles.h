// oracles.h - reference implementations independent of the code under test.
#pragma once
#include <cmath>
#include <cstdint>
#include <cstring>
#include <limits>
#include <string>
#include <sstream>
#include <iomanip>

namespace orc {

typedef __float128 quad;

static inline uint32_t f2u (float f)
{
    uint32_t u;
    memcpy (&u, &f, 4);
    return u;
}
static inline float u2f (uint32_t u)
{
    float f;
    memcpy (&f, &u, 4);
    return f;
}
static inline uint64_t d2u (double f)
{
    uint64_t u;
    memcpy (&u, &f, 8);
    return u;
}
static inline double u2d (uint64_t u)
{
    double f;
    memcpy (&f, &u, 8);
    return f;
}

// ---- binary16 reference codec (by value, via ldexp / nearbyint) -------------

// half pattern -> float bit pattern (NaN: sign, payload<<13, quiet bit as given)
static inline uint32_t ref_h2f_bits (uint16_t h)
{
    uint32_t sign = (uint32_t) (h >> 15) << 31;
    int      e    = (h >> 10) & 0x1f;
    uint32_t m    = h & 0x3ff;
    if (e == 31)
    {
        if (m == 0) return sign | 0x7f800000u;
        return sign | 0x7f800000u | (m << 13);
    }
    double v;
    if (e == 0)
        v = std::ldexp ((double) m, -24);
    else
        v = std::ldexp ((double) (m + 1024), e - 25);
    float f = (float) v; // exact: every half is a float
    return sign | f2u (f);
}

// float bit pattern -> half pattern, round-to-nearest-even, software-path NaN rule
static inline uint16_t ref_f2h_bits (uint32_t u)
{
    uint16_t sign = (uint16_t) ((u >> 16) & 0x8000);
    uint32_t mag  = u & 0x7fffffffu;
    if (mag > 0x7f800000u)
    {
        uint32_t m = (mag & 0x7fffff) >> 13;
        if (m == 0) m = 1;
        return sign | 0x7c00 | (uint16_t) m;
    }
    if (mag == 0x7f800000u) return sign | 0x7c00;
    double a = (double) u2f (mag); // exact
    if (a == 0) return sign;
    int    ex;
    double fr = std::frexp (a, &ex); // a = fr * 2^ex, fr in [0.5,1)
    int    E  = ex - 1;              // a = 1.x * 2^E
    // spacing of halfs around a
    int    q;                        // unit = 2^q
    if (E < -14)
        q = -24;
    else
        q = E - 10;
    (void) fr;
    double scaled = std::ldexp (a, -q);          // exact (power of two scaling)
    double r      = std::nearbyint (scaled);     // ties-to-even under default rounding mode
    double val    = std::ldexp (r, q);
    if (val >= 65536.0) return sign | 0x7c00;    // rounded past the largest finite (65504 + 16 -> 65536)
    if (val == 0) return sign;
    // encode val
    int    ex2;
    std::frexp (val, &ex2);
    int E2 = ex2 - 1;
    if (E2 < -14)
    {
        uint32_t m = (uint32_t) std::ldexp (val, 24);
        return sign | (uint16_t) m;
    }
    uint32_t m = (uint32_t) std::ldexp (val, 10 - E2) - 1024;
    return sign | (uint16_t) (((E2 + 15) << 10) | m);
}

// Second, structurally different codec: nearest of the sorted finite half values by search.
struct HalfTable
{
    double v[31744]; // non-negative finite halfs in order: patterns 0..0x7bff
    HalfTable ()
    {
        for (int p = 0; p < 31744; ++p)
        {
            int e = p >> 10, m = p & 0x3ff;
            v[p] = e == 0 ? m * (1.0 / 16777216.0) : (1.0 + m / 1024.0) * std::pow (2.0, e - 15);
        }
    }
    uint16_t nearest (double a) const // a >= 0 finite
    {
        // binary search for largest p with v[p] <= a
        int lo = 0, hi = 31743;
        if (a >= v[hi])
        {
            // between max and the would-be next value 65536
            double next = 65536.0;
            double dl = a - v[hi], dh = next - a;
            if (dl < dh) return (uint16_t) hi;
            if (dl > dh) return 0x7c00;
            return 0x7c00; // tie: 0x7bff is odd -> goes to even (0x7c00 = inf)
        }
        while (hi - lo > 1)
        {
            int mid = (lo + hi) / 2;
            if (v[mid] <= a)
                lo = mid;
            else
                hi = mid;
        }
        double dl = a - v[lo], dh = v[lo + 1] - a;
        if (dl < dh) return (uint16_t) lo;
        if (dl > dh) return (uint16_t) (lo + 1);
        return (uint16_t) ((lo & 1) ? lo + 1 : lo);
    }
};

// ---- ulp helpers --------------------------------------------------------------

template <class T> struct FInfo;
template <> struct FInfo<float>
{
    static constexpr int    mant   = 24;
    static constexpr int    minexp = -126; // smallest normal = 2^minexp
    static constexpr double eps () { return 1.1920928955078125e-07; }
};
template <> struct FInfo<double>
{
    static constexpr int    mant   = 53;
    static constexpr int    minexp = -1022;
    static constexpr double eps () { return 2.220446049250313e-16; }
};

static inline int ilogbq_ (quad x)
{
    // exponent E with 2^E <= |x| < 2^(E+1); x != 0, finite
    if (x < 0) x = -x;
    long double l = (long double) x; // may lose precision but exponent range of long double is large
    int         e;
    std::frexp (l, &e);
    int E = e - 1;
    // fix possible rounding up to the next power of two
    quad p = 1;
    // scalbn in quad by repeated multiplication is slow; use ldexp on long double which is exact for powers of two
    long double pl = std::ldexp (1.0L, E);
    p              = (quad) pl;
    if (p > x) --E;
    return E;
}

template <class T> static inline quad ulp_of (quad exact)
{
    if (exact < 0) exact = -exact;
    if (exact == 0) return (quad) std::numeric_limits<T>::denorm_min ();
    int E = ilogbq_ (exact);
    if (E < FInfo<T>::minexp) E = FInfo<T>::minexp;
    return (quad) std::ldexp (1.0L, E - (FInfo<T>::mant - 1));
}

// error of got relative to exact in ulps of T at exact
template <class T> static inline double ulps (T got, quad exact)
{
    quad d = (quad) got - exact;
    if (d < 0) d = -d;
    return (double) (d / ulp_of<T> (exact));
}

static inline quad qabs (quad x) { return x < 0 ? -x : x; }
static inline quad qmax (quad a, quad b) { return a > b ? a : b; }
static inline quad qmin (quad a, quad b) { return a < b ? a : b; }

// sqrt in quad via Newton from long double seed (avoids linking libquadmath)
static inline quad qsqrt (quad x)
{
    if (x <= 0) return 0;
    long double s = std::sqrt ((long double) x);
    quad        y = (quad) s;
    if (y == 0)
    {
        // x tiny beyond long double? (not in our ranges) scale
        return 0;
    }
    for (int i = 0; i < 3; ++i)
        y = (y + x / y) / 2;
    return y;
}

static inline std::string qstr (quad x)
{
    std::ostringstream o;
    o << std::setprecision (21) << (long double) x;
    return o.str ();
}

template <class T> static inline std::string hexf (T x)
{
    char b[64];
    snprintf (b, sizeof b, "%a", (double) x);
    return b;
}

// bit equality with NaN == NaN
static inline bool same_f (float a, float b)
{
    if (a != a && b != b) return true;
    return f2u (a) == f2u (b);
}
static inline bool same_d (double a, double b)
{
    if (a != a && b != b) return true;
    return d2u (a) == d2u (b);
}
template <class T> static inline bool same (T a, T b) { return a == b; }
template <> inline bool same<float> (float a, float b) { return same_f (a, b); }
template <> inline bool same<double> (double a, double b) { return same_d (a, b); }

} // namespace orc
