// c17_color.h - private part of c17_scalar.cpp: rgb2hsv / hsv2rgb / rgb2packed / packed2rgb.
#pragma once

// Independent textbook implementations in a wider real type R (quad for double/float elements, long double for
// the exhaustive 8-bit sweep).
template <class R> struct R3
{
    R x, y, z;
};
template <class R> static inline R3<R> ref_rgb2hsv (R r, R g, R b)
{
    R mx = r > g ? (r > b ? r : b) : (g > b ? g : b);
    R mn = r < g ? (r < b ? r : b) : (g < b ? g : b);
    R3<R> o;
    o.z = mx;
    o.y = mx != 0 ? (mx - mn) / mx : R (0);
    o.x = 0;
    if (o.y != 0)
    {
        R range = mx - mn, h;
        if (r == mx)
            h = (g - b) / range;
        else if (g == mx)
            h = 2 + (b - r) / range;
        else
            h = 4 + (r - g) / range;
        h /= 6;
        if (h < 0) h += 1;
        o.x = h;
    }
    return o;
}
static inline quad      c17_floor (quad x) { return floorq (x); }
static inline long double c17_floor (long double x) { return std::floor (x); }
template <class R> static inline R3<R> ref_hsv2rgb (R h, R s, R v)
{
    R h6 = h == 1 ? R (0) : h * 6;
    R fi = c17_floor (h6);
    int i = (int) fi;
    R f = h6 - fi;
    R p = v * (1 - s), q = v * (1 - s * f), t = v * (1 - s * (1 - f));
    R3<R> o = { 0, 0, 0 };
    switch (i)
    {
        case 0: o = { v, t, p }; break;
        case 1: o = { q, v, p }; break;
        case 2: o = { p, v, t }; break;
        case 3: o = { p, q, v }; break;
        case 4: o = { t, p, v }; break;
        default: o = { v, p, q }; break;
    }
    return o;
}
template <class R> static inline R hue_dist (R a, R b)
{
    R d = a - b;
    if (d < 0) d = -d;
    return d > R (0.5) ? 1 - d : d;
}

enum
{
    LH_GREY,
    LH_BLACK,
    LH_SATURATED,
    LH_TWO_EQUAL,
    LH_HUE_WRAP,
    LH_HUE_ONE,
    LH_SECTOR_EDGE,
    LH_GENERAL
};
#define C17_HSV_LABELS "grey_axis", "black", "fully_saturated", "two_channels_equal", "hue_near_0_or_1", "hue_exactly_1", "hue_on_sector_edge", "general"

template <class T> static inline T gen_unit (vp::Src& s)
{
    switch (s.below (6))
    {
        case 0: return 0;
        case 1: return 1;
        case 2: return (T) s.below (256) / (T) 255;
        case 3: return std::ldexp ((T) 1, -(int) s.range (1, 20)) * (T) (1 + s.unit ()) / 2;
        default: return (T) s.unit ();
    }
}

template <class T> static void hsv_case (vp::Ctx& c, const char* tn)
{
    vp::Src&   s   = c.s;
    const quad eps = FInfo<T>::eps ();
    typedef IM::Vec3<T>   V3;
    typedef IM::Color4<T> C4;
    T alpha = s.coin () ? gen_unit<T> (s) : gen::fclass<T> (s, false);
    // ---- rgb -> hsv
    {
        T r = gen_unit<T> (s), g = gen_unit<T> (s), b = gen_unit<T> (s);
        switch (s.below (6))
        {
            case 0: g = b = r; break;                          // grey axis
            case 1: g = r; break;                              // two equal
            case 2: b = g; break;
            case 3: r = s.coin () ? 1 : 0, g = s.coin () ? 1 : 0, b = s.coin () ? 1 : 0; break; // corners
            case 4: g = r, b = std::nextafter (r, (T) (s.coin () ? 2 : -1)); if (b < 0 || b > 1) b = r; break; // nearly grey
            default: break;
        }
        VP_NOTE (c, tn << " rgb=(" << r << "," << g << "," << b << ") alpha=" << alpha);
        V3 h3 = IM::rgb2hsv (V3 (r, g, b));
        C4 h4 = IM::rgb2hsv (C4 (r, g, b, alpha));
        VP_REQUIRE (c, same<T> (h3.x, h4.r) && same<T> (h3.y, h4.g) && same<T> (h3.z, h4.b), "rgb2hsv-overloads-differ", tn << " rgb2hsv Vec3 (" << h3.x << "," << h3.y << "," << h3.z << ") vs Color4 (" << h4.r << "," << h4.g << "," << h4.b << ") for rgb (" << r << "," << g << "," << b << ")");
        VP_REQUIRE (c, same<T> (h4.a, alpha), "rgb2hsv-alpha", tn << " rgb2hsv changed alpha " << alpha << " -> " << h4.a);
        R3<quad> w = ref_rgb2hsv<quad> (r, g, b);
        bool grey = r == g && g == b;
        if (grey) c.label (r == 0 ? LH_BLACK : LH_GREY);
        else if (r == g || g == b || r == b) c.label (LH_TWO_EQUAL);
        else c.label (LH_GENERAL);
        if (w.y == 1) c.label (LH_SATURATED);
        if (!grey && (w.x < (quad) 1e-3 || w.x > 1 - (quad) 1e-3)) c.label (LH_HUE_WRAP);
        // value exact; saturation: measured worst 0.67 eps (double) 0.25 (float); hue: 0.55 eps (double) 0.25 (float); limits 2 eps
        VP_REQUIRE (c, (quad) h3.z == w.z, "rgb2hsv-value", tn << " rgb2hsv(" << r << "," << g << "," << b << ").v = " << h3.z << " expected max = " << (double) w.z);
        c17_measure (sizeof (T) == 4 ? "rgb2hsv-sat-float" : "rgb2hsv-sat-double", (double) (qabs ((quad) h3.y - w.y) / eps));
        VP_REQUIRE (c, qabs ((quad) h3.y - w.y) <= 2 * eps, "rgb2hsv-saturation", tn << " rgb2hsv(" << r << "," << g << "," << b << ").s = " << h3.y << " exact " << qstr (w.y));
        quad hd = hue_dist<quad> ((quad) h3.x, w.x);
        c17_measure (sizeof (T) == 4 ? "rgb2hsv-hue-float" : "rgb2hsv-hue-double", (double) (hd / eps));
        VP_REQUIRE (c, hd <= 2 * eps && h3.x >= 0 && h3.x <= 1, "rgb2hsv-hue", tn << " rgb2hsv(" << r << "," << g << "," << b << ").h = " << h3.x << " exact " << qstr (w.x) << " (error " << (double) (hd / eps) << " eps, limit 2)");
        if (grey) VP_REQUIRE (c, h3.x == 0 && h3.y == 0, "rgb2hsv-grey", tn << " grey (" << r << ") gives h=" << h3.x << " s=" << h3.y);
        // round trip rgb -> hsv -> rgb
        V3   back = IM::hsv2rgb (h3);
        quad e    = qmax (qmax (qabs ((quad) back.x - r), qabs ((quad) back.y - g)), qabs ((quad) back.z - b));
        c17_measure (sizeof (T) == 4 ? "rt-rgb-float" : "rt-rgb-double", (double) (e / eps));
        // s carries 0.7 eps, h 0.55 eps (f = 6h: 3.3 eps), then hsv2rgb's own 2 eps: measured worst 4.0 eps (double), 1.5 (float)
        VP_REQUIRE (c, e <= 16 * eps, "roundtrip-rgb-hsv-rgb", tn << " hsv2rgb(rgb2hsv(" << r << "," << g << "," << b << ")) = (" << back.x << "," << back.y << "," << back.z << ") error " << (double) (e / eps) << " eps (limit 16)");
        // double helpers are the same functions
        if (sizeof (T) == 8)
        {
            IM::Vec3<double> hd3 = IM::rgb2hsv_d (IM::Vec3<double> (r, g, b));
            VP_REQUIRE (c, same<double> (hd3.x, h3.x) && same<double> (hd3.y, h3.y) && same<double> (hd3.z, h3.z), "rgb2hsv_d-differs", "rgb2hsv_d differs from rgb2hsv<double>");
        }
    }
    // ---- hsv -> rgb
    {
        T h = gen_unit<T> (s), sa = gen_unit<T> (s), v = gen_unit<T> (s);
        int hp = (int) s.below (6);
        switch (hp)
        {
            case 0: h = 1; break;
            case 1: h = (T) s.below (7) / (T) 6; break; // sector edges (rounded)
            case 2: h = step_ulps ((T) ((T) s.below (7) / (T) 6), (int) s.range (-2, 2)); if (h < 0) h = 0; if (h > 1) h = 1; break;
            case 3: h = std::nextafter ((T) 1, (T) 0); break;
            case 4: sa = (T) (0.0625 + 0.9375 * s.unit ()), v = (T) (0.0625 + 0.9375 * s.unit ()); break;
            default: break;
        }
        VP_NOTE (c, tn << " hsv=(" << h << "," << sa << "," << v << ")");
        if (h == 1) c.label (LH_HUE_ONE);
        if (hp == 1 || hp == 2) c.label (LH_SECTOR_EDGE);
        V3 c3 = IM::hsv2rgb (V3 (h, sa, v));
        C4 c4 = IM::hsv2rgb (C4 (h, sa, v, alpha));
        VP_REQUIRE (c, same<T> (c3.x, c4.r) && same<T> (c3.y, c4.g) && same<T> (c3.z, c4.b), "hsv2rgb-overloads-differ", tn << " hsv2rgb Vec3 (" << c3.x << "," << c3.y << "," << c3.z << ") vs Color4 (" << c4.r << "," << c4.g << "," << c4.b << ") for hsv (" << h << "," << sa << "," << v << ")");
        VP_REQUIRE (c, same<T> (c4.a, alpha), "hsv2rgb-alpha", tn << " hsv2rgb changed alpha " << alpha << " -> " << c4.a);
        R3<quad> w = ref_hsv2rgb<quad> (h, sa, v);
        quad     e = qmax (qmax (qabs ((quad) c3.x - w.x), qabs ((quad) c3.y - w.y)), qabs ((quad) c3.z - w.z));
        c17_measure (sizeof (T) == 4 ? "hsv2rgb-float" : "hsv2rgb-double", (double) (e / eps));
        // 6h, f, s*f, 1-.., v*.. : measured worst 2.15 eps (double), 0.25 eps (float: one final rounding)
        VP_REQUIRE (c, e <= 8 * eps, "hsv2rgb-value", tn << " hsv2rgb(" << h << "," << sa << "," << v << ") = (" << c3.x << "," << c3.y << "," << c3.z << ") exact (" << (double) w.x << "," << (double) w.y << "," << (double) w.z << ") error " << (double) (e / eps) << " eps (limit 8)");
        if (sizeof (T) == 8)
        {
            IM::Vec3<double> cd3 = IM::hsv2rgb_d (IM::Vec3<double> (h, sa, v));
            VP_REQUIRE (c, same<double> (cd3.x, c3.x) && same<double> (cd3.y, c3.y) && same<double> (cd3.z, c3.z), "hsv2rgb_d-differs", "hsv2rgb_d differs from hsv2rgb<double>");
        }
        // round trip hsv -> rgb -> hsv where s, v >= 1/16: hue error ~ eps/s, saturation ~ eps/v... relative to v both scale
        if (sa >= (T) 0.0625 && v >= (T) 0.0625)
        {
            V3   hb = IM::rgb2hsv (c3);
            quad hw = h == 1 ? (quad) 0 : (quad) h;
            quad eh = hue_dist<quad> ((quad) hb.x, hw) * (quad) sa, es = qabs ((quad) hb.y - sa), ev = qabs ((quad) hb.z - v);
            c17_measure (sizeof (T) == 4 ? "rt-hsv-float" : "rt-hsv-double", (double) (qmax (eh, qmax (es, ev)) / eps));
            // measured worst 0.63 eps (double), 0.44 eps (float)
            VP_REQUIRE (c, eh <= 4 * eps && es <= 4 * eps && ev <= 4 * eps, "roundtrip-hsv-rgb-hsv", tn << " rgb2hsv(hsv2rgb(" << h << "," << sa << "," << v << ")) = (" << hb.x << "," << hb.y << "," << hb.z << "): errors h*s " << (double) (eh / eps) << " s " << (double) (es / eps) << " v " << (double) (ev / eps) << " eps (limit 4)");
        }
    }
    c.nt ();
}
// ---- half element type (C3h / C4h / Vec3<half>): the same conversions, results rounded to half
static void hsv_half_case (vp::Ctx& c)
{
    vp::Src&   s    = c.s;
    const quad epsh = (quad) 0.0009765625; // 2^-10
    typedef IM::Vec3<half>   V3;
    typedef IM::Color4<half> C4;
    auto unit_h = [&] () -> half {
        switch (s.below (5))
        {
            case 0: return half (0.0f);
            case 1: return half (1.0f);
            case 2: return half ((float) s.below (256) / 255.0f);
            default: return half ((float) s.unit ());
        }
    };
    half alpha = unit_h ();
    {
        half r = unit_h ();
        half g = unit_h ();
        half b = unit_h ();
        if (s.chance (40)) g = b = r;
        VP_NOTE (c, "half rgb=(" << (float) r << "," << (float) g << "," << (float) b << ")");
        V3 h3 = IM::rgb2hsv (V3 (r, g, b));
        C4 h4 = IM::rgb2hsv (C4 (r, g, b, alpha));
        VP_REQUIRE (c, h3.x.bits () == h4.r.bits () && h3.y.bits () == h4.g.bits () && h3.z.bits () == h4.b.bits (), "rgb2hsv-overloads-differ", "half rgb2hsv Vec3 vs Color4 differ for rgb (" << (float) r << "," << (float) g << "," << (float) b << ")");
        VP_REQUIRE (c, h4.a.bits () == alpha.bits (), "rgb2hsv-alpha", "half rgb2hsv changed alpha");
        R3<quad> w = ref_rgb2hsv<quad> ((quad) (float) r, (quad) (float) g, (quad) (float) b);
        quad     hd = hue_dist<quad> ((quad) (float) h3.x, w.x);
        // one rounding to half of an accurate double result: half an ulp of half at most (values <= 1); limit 1 eps_half
        VP_REQUIRE (c, hd <= epsh && qabs ((quad) (float) h3.y - w.y) <= epsh && qabs ((quad) (float) h3.z - w.z) <= epsh && (float) h3.x >= 0 && (float) h3.x <= 1 && (float) h3.y >= 0 && (float) h3.y <= 1,
                    "rgb2hsv-half", "half rgb2hsv(" << (float) r << "," << (float) g << "," << (float) b << ") = (" << (float) h3.x << "," << (float) h3.y << "," << (float) h3.z << ") exact (" << (double) w.x << "," << (double) w.y << "," << (double) w.z << ")");
        V3   back = IM::hsv2rgb (h3);
        quad e    = qmax (qmax (qabs ((quad) (float) back.x - (quad) (float) r), qabs ((quad) (float) back.y - (quad) (float) g)), qabs ((quad) (float) back.z - (quad) (float) b));
        // hue and saturation each carry half an ulp of half; f = 6h amplifies: measured worst below 6 eps_half, limit 16
        VP_REQUIRE (c, e <= 16 * epsh, "roundtrip-rgb-hsv-rgb-half", "half hsv2rgb(rgb2hsv(" << (float) r << "," << (float) g << "," << (float) b << ")) = (" << (float) back.x << "," << (float) back.y << "," << (float) back.z << ")");
    }
    {
        half h  = unit_h ();
        half sa = unit_h ();
        half v  = unit_h ();
        V3   c3 = IM::hsv2rgb (V3 (h, sa, v));
        C4   c4 = IM::hsv2rgb (C4 (h, sa, v, alpha));
        VP_REQUIRE (c, c3.x.bits () == c4.r.bits () && c3.y.bits () == c4.g.bits () && c3.z.bits () == c4.b.bits () && c4.a.bits () == alpha.bits (), "hsv2rgb-overloads-differ", "half hsv2rgb Vec3 vs Color4 differ / alpha changed for hsv (" << (float) h << "," << (float) sa << "," << (float) v << ")");
        R3<quad> w = ref_hsv2rgb<quad> ((quad) (float) h, (quad) (float) sa, (quad) (float) v);
        quad     e = qmax (qmax (qabs ((quad) (float) c3.x - w.x), qabs ((quad) (float) c3.y - w.y)), qabs ((quad) (float) c3.z - w.z));
        VP_REQUIRE (c, e <= epsh, "hsv2rgb-half", "half hsv2rgb(" << (float) h << "," << (float) sa << "," << (float) v << ") = (" << (float) c3.x << "," << (float) c3.y << "," << (float) c3.z << ") exact (" << (double) w.x << "," << (double) w.y << "," << (double) w.z << ")");
    }
    c.nt ();
}
VP_RANDOM (hsv_half, 300000, 5000000, "half-element colours (Vec3<half>/C3h and Color4<half>/C4h) on the unit cube: rgb2hsv / hsv2rgb within one eps_half (2^-10) of an independent quad evaluation of the half inputs (the library computes in double and rounds once), round trip within 16 eps_half, Vec3 and Color4 overloads bit-identical, alpha untouched; non-trivial = always")
{
    hsv_half_case (c);
}

#define C17_HSV_RULE "rgb and hsv triples on the unit cube: channels from {0, 1, k/255, 2^-k, uniform}; grey axis, two channels equal, cube corners, nearly grey (1 ulp apart); hue exactly 1, just below 1, on sector edges k/6 +-2 ulps.  Oracle = independent quad implementation: v exact, s within 2 eps, hue within 2 eps (circular), hsv2rgb within 8 eps; hsv2rgb(rgb2hsv(c)) within 16 eps; rgb2hsv(hsv2rgb(h)) within 4 eps (hue error weighted by s) for s,v >= 1/16; Vec3 and Color4 overloads bit-identical; alpha (unit, arbitrary finite, huge) bit-identical; hsv2rgb_d/rgb2hsv_d identical to the double templates; non-trivial = always"
VP_RANDOM (hsv_float, 500000, 10000000, C17_HSV_RULE)
{
    hsv_case<float> (c, "float");
}
VP_LABELS (hsv_float, C17_HSV_LABELS)
VP_REQUIRE_LABELS (hsv_float, "grey_axis", "black", "fully_saturated", "two_channels_equal", "hue_near_0_or_1", "hue_exactly_1", "hue_on_sector_edge", "general")
VP_RANDOM (hsv_double, 500000, 10000000, C17_HSV_RULE)
{
    hsv_case<double> (c, "double");
}
VP_LABELS (hsv_double, C17_HSV_LABELS)
VP_REQUIRE_LABELS (hsv_double, "grey_axis", "black", "fully_saturated", "two_channels_equal", "hue_near_0_or_1", "hue_exactly_1", "hue_on_sector_edge", "general")

// ---- integer element types: scale by max into the unit cube, convert, scale back (truncating)
// got must lie in [exact*max - 1 - d, exact*max + d]: truncation, plus d for the rounding of the scaled inputs,
// amplified by the conditioning of the channel (1/s for hue, 1/v for saturation).
template <class T, class R> static inline bool int_chan_ok (T got, R exact_scaled, R d)
{
    R g = (R) got;
    return g >= exact_scaled - 1 - d && g <= exact_scaled + d;
}
template <class T, class R> static void hsv_int_check (vp::Ctx& c, const char* tn, T x, T y, T z, T alpha, bool color4_too)
{
    const R M     = (R) std::numeric_limits<T>::max ();
    const R pathd = (R) 1.1102230246251565e-16, pathf = (R) 5.9604644775390625e-08; // 2^-53, 2^-24: Vec3 divides in double, Color4 in float
    R       a = (R) x / M, b = (R) y / M, cc = (R) z / M;
    // rgb -> hsv
    {
        R3<R>       w  = ref_rgb2hsv<R> (a, b, cc);
        IM::Vec3<T> g3 = IM::rgb2hsv (IM::Vec3<T> (x, y, z));
        R           dh = (R) 1e-3 + 8 * pathd * M / (w.y > 0 ? w.y : R (1)), ds = (R) 1e-3 + 8 * pathd * M / (w.z > 0 ? w.z : R (1)), dv = (R) 1e-3 + 8 * pathd * M;
        bool        hue_ok = int_chan_ok<T, R> (g3.x, w.x * M, dh);
        if (!(hue_ok && int_chan_ok<T, R> (g3.y, w.y * M, ds) && int_chan_ok<T, R> (g3.z, w.z * M, dv)))
            VP_FAIL (c, "rgb2hsv-int-vec3", tn << " rgb2hsv(Vec3 " << (long) x << "," << (long) y << "," << (long) z << ") = (" << (long) g3.x << "," << (long) g3.y << "," << (long) g3.z << ") exact scaled (" << (double) (w.x * M) << "," << (double) (w.y * M) << "," << (double) (w.z * M) << ")");
        if (color4_too)
        {
            IM::Color4<T> g4 = IM::rgb2hsv (IM::Color4<T> (x, y, z, alpha));
            R             eh = (R) 1e-3 + 8 * pathf * M / (w.y > 0 ? w.y : R (1)), es = (R) 1e-3 + 8 * pathf * M / (w.z > 0 ? w.z : R (1)), ev = (R) 1e-3 + 8 * pathf * M;
            bool          h_ok = int_chan_ok<T, R> (g4.r, w.x * M, eh);
            if (!(h_ok && int_chan_ok<T, R> (g4.g, w.y * M, es) && int_chan_ok<T, R> (g4.b, w.z * M, ev)))
                VP_FAIL (c, "rgb2hsv-int-color4", tn << " rgb2hsv(Color4 " << (long) x << "," << (long) y << "," << (long) z << ") = (" << (long) g4.r << "," << (long) g4.g << "," << (long) g4.b << ") exact scaled (" << (double) (w.x * M) << "," << (double) (w.y * M) << "," << (double) (w.z * M) << ")");
            if (!int_chan_ok<T, R> (g4.a, (R) alpha, ev)) VP_FAIL (c, "rgb2hsv-int-alpha", tn << " rgb2hsv(Color4) alpha " << (long) alpha << " -> " << (long) g4.a);
        }
    }
    // hsv -> rgb
    {
        R3<R>       w  = ref_hsv2rgb<R> (a, b, cc);
        IM::Vec3<T> g3 = IM::hsv2rgb (IM::Vec3<T> (x, y, z));
        R           d  = (R) 1e-3 + 8 * pathd * M;
        if (!(int_chan_ok<T, R> (g3.x, w.x * M, d) && int_chan_ok<T, R> (g3.y, w.y * M, d) && int_chan_ok<T, R> (g3.z, w.z * M, d)))
            VP_FAIL (c, "hsv2rgb-int-vec3", tn << " hsv2rgb(Vec3 " << (long) x << "," << (long) y << "," << (long) z << ") = (" << (long) g3.x << "," << (long) g3.y << "," << (long) g3.z << ") exact scaled (" << (double) (w.x * M) << "," << (double) (w.y * M) << "," << (double) (w.z * M) << ")");
        if (color4_too)
        {
            IM::Color4<T> g4 = IM::hsv2rgb (IM::Color4<T> (x, y, z, alpha));
            R             e  = (R) 1e-3 + 8 * pathf * M;
            if (!(int_chan_ok<T, R> (g4.r, w.x * M, e) && int_chan_ok<T, R> (g4.g, w.y * M, e) && int_chan_ok<T, R> (g4.b, w.z * M, e)))
                VP_FAIL (c, "hsv2rgb-int-color4", tn << " hsv2rgb(Color4 " << (long) x << "," << (long) y << "," << (long) z << ") = (" << (long) g4.r << "," << (long) g4.g << "," << (long) g4.b << ") exact scaled (" << (double) (w.x * M) << "," << (double) (w.y * M) << "," << (double) (w.z * M) << ")");
            if (!int_chan_ok<T, R> (g4.a, (R) alpha, e)) VP_FAIL (c, "hsv2rgb-int-alpha", tn << " hsv2rgb(Color4) alpha " << (long) alpha << " -> " << (long) g4.a);
        }
    }
}

VP_EXHAUSTIVE (hsv_uchar_all, 65536, 65536, "ALL 2^24 unsigned char triples (index = first two channels) as rgb and as hsv, C3c (Vec3<unsigned char>) and C4c (Color4<unsigned char>, alpha = hash): result = exact conversion of x/255 scaled by 255, truncated (got in [exact-1-d, exact+d], d = 1e-3 + 8*2^-53|2^-24*255/conditioning); alpha within the same rule; non-trivial = not on the grey axis")
{
    unsigned char r = (unsigned char) (idx >> 8), g = (unsigned char) (idx & 255);
    VP_NOTE (c, "unsigned char triples (" << (int) r << "," << (int) g << ",0..255)");
    uint64_t nt = 0;
    for (int b = 0; b < 256; ++b)
    {
        unsigned char al = (unsigned char) ((r * 7 + g * 13 + b * 31 + 5) & 255);
        hsv_int_check<unsigned char, long double> (c, "unsigned char", r, g, (unsigned char) b, al, true);
        nt += !(r == g && g == b);
    }
    c.bulk (256, nt);
}

VP_RANDOM (hsv_int_types, 600000, 12000000, "Vec3<short|unsigned short|int> and Color4<unsigned short|short> (float(max) exact) with channels in [0,max] from classes {0, max, small, uniform, equal pairs}; same scale-by-max rule with the conditioning-weighted margin; non-trivial = not on the grey axis")
{
    vp::Src& s = c.s;
    auto chan = [&] (long M) -> long {
        switch (s.below (5))
        {
            case 0: return 0;
            case 1: return M;
            case 2: return (long) s.below (16);
            case 3: return M - (long) s.below (16);
            default: return (long) s.below ((uint64_t) M + 1);
        }
    };
    int  ty = (int) s.below (3);
    long M  = ty == 0 ? 32767 : (ty == 1 ? 65535 : 2147483647L);
    long x = chan (M), y = chan (M), z = chan (M), al = chan (M);
    switch (s.below (4))
    {
        case 0: y = x; break;
        case 1: z = y; break;
        case 2: y = z = x; break;
        default: break;
    }
    VP_NOTE (c, (ty == 0 ? "short" : ty == 1 ? "unsigned short" : "int") << " triple (" << x << "," << y << "," << z << ") alpha " << al);
    if (ty == 0) hsv_int_check<short, quad> (c, "short", (short) x, (short) y, (short) z, (short) al, true);
    else if (ty == 1) hsv_int_check<unsigned short, quad> (c, "unsigned short", (unsigned short) x, (unsigned short) y, (unsigned short) z, (unsigned short) al, true);
    else hsv_int_check<int, quad> (c, "int", (int) x, (int) y, (int) z, (int) al, false);
    c.nt (!(x == y && y == z));
}

// ---- packed colours
VP_EXHAUSTIVE (packed_c4f_all, 65536, 65536, "ALL 2^32 packed colours (index = high 16 bits): rgb2packed(packed2rgb(p, Color4<float>)) == p; non-trivial = always")
{
    uint32_t hi = (uint32_t) idx << 16;
    VP_NOTE (c, "packed 0x" << std::hex << hi << "..0x" << (hi | 0xffff));
    for (uint32_t lo = 0; lo < 65536; ++lo)
    {
        IM::PackedColor   p = hi | lo;
        IM::Color4<float> o;
        IM::packed2rgb (p, o);
        IM::PackedColor back = IM::rgb2packed (o);
        if (back != p) VP_FAIL (c, "packed-roundtrip-c4f", "rgb2packed(packed2rgb(0x" << std::hex << p << ")) = 0x" << back << std::dec << " via (" << o.r << "," << o.g << "," << o.b << "," << o.a << ")");
    }
    c.bulk (65536, 65536);
}
VP_EXHAUSTIVE (packed_v3f_all, 1024, 1024, "ALL 2^24 rgb packed colours x 4 alpha bytes (index = alpha selector and high byte): rgb2packed(packed2rgb(p, Vec3<float>)) == (p & 0xffffff) | 0xff000000; non-trivial = always")
{
    static const uint32_t AL[4] = { 0x00000000u, 0xff000000u, 0x5a000000u, 0x80000000u };
    uint32_t              hi    = AL[idx >> 8] | ((uint32_t) (idx & 255) << 16);
    VP_NOTE (c, "packed 0x" << std::hex << hi << "..0x" << (hi | 0xffff));
    for (uint32_t lo = 0; lo < 65536; ++lo)
    {
        IM::PackedColor p = hi | lo;
        IM::Vec3<float> o;
        IM::packed2rgb (p, o);
        IM::PackedColor back = IM::rgb2packed (o);
        if (back != ((p & 0xffffffu) | 0xff000000u)) VP_FAIL (c, "packed-roundtrip-v3f", "rgb2packed(packed2rgb(0x" << std::hex << p << ", V3f)) = 0x" << back << std::dec << " via (" << o.x << "," << o.y << "," << o.z << ")");
    }
    c.bulk (65536, 65536);
}

VP_EXHAUSTIVE (packed_channels, 1024, 1024, "every 8-bit value k of every channel (index = channel*256 + k) with 9 fillings of the other channels: packed2rgb gives k/255 within 2 ulps (1/255 and the product are each rounded) in float and double elements and k * (max/255) in unsigned char / unsigned short elements, in the right slot; float-element round trip exact; integer-element rgb2packed returns k or k-1 (truncation of k/max*255) with alpha 0xff for Vec3; non-trivial = always")
{
    int                   ch = (int) (idx >> 8), k = (int) (idx & 255);
    static const uint32_t FILL[9] = { 0x00000000u, 0xffffffffu, 0x55555555u, 0xaaaaaaaau, 0x01010101u, 0xfefefefeu, 0x80808080u, 0x7f7f7f7fu, 0x12345678u };
    VP_NOTE (c, "channel " << ch << " value " << k);
    uint64_t n = 0;
    for (uint32_t fill : FILL)
    {
        IM::PackedColor p = (fill & ~(0xffu << (8 * ch))) | ((uint32_t) k << (8 * ch));
        int             by[4] = { (int) (p & 255), (int) ((p >> 8) & 255), (int) ((p >> 16) & 255), (int) (p >> 24) };
        IM::Color4<float>  cf;
        IM::Color4<double> cd;
        IM::Vec3<float>    vf;
        IM::Vec3<double>   vd;
        IM::packed2rgb (p, cf);
        IM::packed2rgb (p, cd);
        IM::packed2rgb (p, vf);
        IM::packed2rgb (p, vd);
        float  gf[4] = { cf.r, cf.g, cf.b, cf.a }, hf[3] = { vf.x, vf.y, vf.z };
        double gd[4] = { cd.r, cd.g, cd.b, cd.a }, hd[3] = { vd.x, vd.y, vd.z };
        for (int i = 0; i < 4; ++i)
        {
            quad w = (quad) by[i] / 255;
            c17_measure ("packed2rgb-ulps", std::max (ulps<float> (gf[i], w), ulps<double> (gd[i], w)));
            if (ulps<float> (gf[i], w) > 2.0 || ulps<double> (gd[i], w) > 2.0) VP_FAIL (c, "packed2rgb-value", "packed2rgb(0x" << std::hex << p << std::dec << ") Color4 channel " << i << " = " << gf[i] << " / " << gd[i] << " expected " << by[i] << "/255");
            if (i < 3 && (ulps<float> (hf[i], w) > 2.0 || ulps<double> (hd[i], w) > 2.0)) VP_FAIL (c, "packed2rgb-value", "packed2rgb(0x" << std::hex << p << std::dec << ") Vec3 channel " << i << " = " << hf[i] << " / " << hd[i] << " expected " << by[i] << "/255");
            if (i < 3 && (!same<float> (hf[i], gf[i]) || !same<double> (hd[i], gd[i]))) VP_FAIL (c, "packed2rgb-overloads-differ", "packed2rgb Vec3 and Color4 differ on 0x" << std::hex << p);
        }
        if (IM::rgb2packed (cf) != p) VP_FAIL (c, "packed-roundtrip-c4f", "rgb2packed(packed2rgb(0x" << std::hex << p << ")) = 0x" << IM::rgb2packed (cf));
        if (IM::rgb2packed (vf) != ((p & 0xffffffu) | 0xff000000u)) VP_FAIL (c, "packed-roundtrip-v3f", "rgb2packed(packed2rgb(0x" << std::hex << p << ", V3f)) = 0x" << IM::rgb2packed (vf));
        // integer elements
        IM::Color4<unsigned char>  cc;
        IM::Color4<unsigned short> cs;
        IM::Vec3<unsigned char>    vc;
        IM::packed2rgb (p, cc);
        IM::packed2rgb (p, cs);
        IM::packed2rgb (p, vc);
        int gc[4] = { cc.r, cc.g, cc.b, cc.a }, gs[4] = { cs.r, cs.g, cs.b, cs.a }, hc[3] = { vc.x, vc.y, vc.z };
        for (int i = 0; i < 4; ++i)
        {
            if (gc[i] != by[i] || gs[i] != by[i] * 257 || (i < 3 && hc[i] != by[i])) VP_FAIL (c, "packed2rgb-int", "packed2rgb(0x" << std::hex << p << std::dec << ") integer channel " << i << " = " << gc[i] << " (uchar) " << gs[i] << " (ushort), byte " << by[i]);
        }
        IM::PackedColor bc = IM::rgb2packed (cc), bs = IM::rgb2packed (cs), bv = IM::rgb2packed (vc);
        for (int i = 0; i < 4; ++i)
        {
            int a = (int) ((bc >> (8 * i)) & 255), b = (int) ((bs >> (8 * i)) & 255), v = (int) ((bv >> (8 * i)) & 255);
            bool okv = i < 3 ? (v == by[i] || v == by[i] - 1) : v == 255;
            if (!((a == by[i] || a == by[i] - 1) && (b == by[i] || b == by[i] - 1) && okv)) VP_FAIL (c, "rgb2packed-int", "rgb2packed of integer colour from 0x" << std::hex << p << " gives 0x" << bc << " (uchar) 0x" << bs << " (ushort) 0x" << bv << " (Vec3 uchar)");
        }
        ++n;
    }
    c.bulk (n, n);
}

VP_RANDOM (rgb2packed_definition, 500000, 10000000, "float and double colours with channels in [0,1] from {0, 1, k/255 +-2 ulps, uniform}: each byte of rgb2packed is floor(c*255) (c*255 rounded once in the element type), channel order r,g,b,a from the low byte, alpha 0xff for Vec3; non-trivial = some channel within 2 ulps of k/255")
{
    vp::Src& s  = c.s;
    bool     dbl = s.coin ();
    double   ch[4];
    bool     edge = false;
    for (int i = 0; i < 4; ++i)
    {
        double v;
        switch (s.below (4))
        {
            case 0: v = s.coin () ? 0 : 1; break;
            case 1:
            {
                int k = (int) s.below (256);
                if (dbl)
                    v = step_ulps<double> ((double) k / 255.0, (int) s.range (-2, 2));
                else
                    v = step_ulps<float> ((float) k / 255.0f, (int) s.range (-2, 2));
                edge = true;
                break;
            }
            default: v = dbl ? s.unit () : (double) (float) s.unit (); break;
        }
        if (v < 0) v = 0;
        if (v > 1) v = 1;
        ch[i] = v;
    }
    VP_NOTE (c, (dbl ? "double" : "float") << " colour (" << ch[0] << "," << ch[1] << "," << ch[2] << "," << ch[3] << ")");
    IM::PackedColor p4, p3;
    unsigned        want[4];
    if (dbl)
    {
        p4 = IM::rgb2packed (IM::Color4<double> (ch[0], ch[1], ch[2], ch[3]));
        p3 = IM::rgb2packed (IM::Vec3<double> (ch[0], ch[1], ch[2]));
        for (int i = 0; i < 4; ++i)
            want[i] = (unsigned) std::floor (ch[i] * 255.0);
    }
    else
    {
        p4 = IM::rgb2packed (IM::Color4<float> ((float) ch[0], (float) ch[1], (float) ch[2], (float) ch[3]));
        p3 = IM::rgb2packed (IM::Vec3<float> ((float) ch[0], (float) ch[1], (float) ch[2]));
        for (int i = 0; i < 4; ++i)
            want[i] = (unsigned) std::floor ((double) ((float) ch[i] * 255.0f));
    }
    for (int i = 0; i < 4; ++i)
    {
        unsigned g4 = (p4 >> (8 * i)) & 255, g3 = (p3 >> (8 * i)) & 255;
        quad     ex = (quad) ch[i] * 255;
        VP_REQUIRE (c, g4 == want[i] && (quad) g4 <= ex * (1 + (quad) 1e-6) && (quad) g4 > ex * (1 - (quad) 1e-6) - 1, "rgb2packed-byte", "rgb2packed Color4 channel " << i << " of " << ch[i] << " = " << g4 << " expected " << want[i]);
        VP_REQUIRE (c, i < 3 ? g3 == want[i] : g3 == 255, "rgb2packed-byte-vec3", "rgb2packed Vec3 channel " << i << " = " << g3);
    }
    c.nt (edge);
}
