// c15_geom.h - private helpers shared by the C15 (primitives) and C16 (frustum) harnesses:
// quad 3-vectors, tolerance-check macro with optional worst-error measurement, input generators
// for points / offsets / affine matrices.  Nothing here calls the code under test.
#pragma once
#include "vpbt.h"
#include "oracles.h"
#include "gens.h"
#include <ImathVec.h>
#include <ImathMatrix.h>
#include <map>
#include <mutex>
#include <string>

namespace qg {
using orc::quad;
using orc::qabs;
using orc::qmax;
using orc::qmin;

struct Q3
{
    quad x, y, z;
    Q3 () : x (0), y (0), z (0) {}
    Q3 (quad a, quad b, quad c) : x (a), y (b), z (c) {}
    quad  operator[] (int i) const { return i == 0 ? x : i == 1 ? y : z; }
    quad& operator[] (int i) { return i == 0 ? x : i == 1 ? y : z; }
};
template <class T> static inline Q3 q3 (const IMATH_NAMESPACE::Vec3<T>& v) { return Q3 ((quad) v.x, (quad) v.y, (quad) v.z); }
static inline Q3   operator+ (const Q3& a, const Q3& b) { return Q3 (a.x + b.x, a.y + b.y, a.z + b.z); }
static inline Q3   operator- (const Q3& a, const Q3& b) { return Q3 (a.x - b.x, a.y - b.y, a.z - b.z); }
static inline Q3   operator- (const Q3& a) { return Q3 (-a.x, -a.y, -a.z); }
static inline Q3   operator* (const Q3& a, quad s) { return Q3 (a.x * s, a.y * s, a.z * s); }
static inline Q3   operator* (quad s, const Q3& a) { return Q3 (a.x * s, a.y * s, a.z * s); }
static inline Q3   operator/ (const Q3& a, quad s) { return Q3 (a.x / s, a.y / s, a.z / s); }
static inline quad dot (const Q3& a, const Q3& b) { return a.x * b.x + a.y * b.y + a.z * b.z; }
// sum of |terms| of the dot product
static inline quad adot (const Q3& a, const Q3& b) { return qabs (a.x * b.x) + qabs (a.y * b.y) + qabs (a.z * b.z); }
static inline Q3   cross (const Q3& a, const Q3& b) { return Q3 (a.y * b.z - a.z * b.y, a.z * b.x - a.x * b.z, a.x * b.y - a.y * b.x); }
static inline quad len (const Q3& a) { return sqrtq (dot (a, a)); }
static inline quad amax (const Q3& a) { return qmax (qabs (a.x), qmax (qabs (a.y), qabs (a.z))); }
static inline Q3   unit (const Q3& a) { return a / len (a); }
static inline bool finite3 (const Q3& a)
{
    quad s = a.x + a.y + a.z;
    return s == s && qabs (s) < (quad) 1e4000L;
}
template <class T> static inline IMATH_NAMESPACE::Vec3<T> rnd (const Q3& a) { return IMATH_NAMESPACE::Vec3<T> ((T) a.x, (T) a.y, (T) a.z); }
static inline std::string qs (const Q3& a) { return "(" + orc::qstr (a.x) + " " + orc::qstr (a.y) + " " + orc::qstr (a.z) + ")"; }
template <class T> static inline std::string vs (const IMATH_NAMESPACE::Vec3<T>& v) { return orc::vstr (v, 3); }

// some unit vector perpendicular to a (a != 0), rotated about a by angle phi
static inline Q3 perp_to (const Q3& a, quad phi)
{
    Q3 e = qabs (a.x) <= qabs (a.y) && qabs (a.x) <= qabs (a.z) ? Q3 (1, 0, 0) : (qabs (a.y) <= qabs (a.z) ? Q3 (0, 1, 0) : Q3 (0, 0, 1));
    Q3 u = unit (cross (a, e));
    Q3 v = unit (cross (a, u));
    return u * cosq (phi) + v * sinq (phi);
}

// ---- worst-error measurement (development aid; compiled in only with -DVP_MEASURE) ----
#ifdef VP_MEASURE
struct MeasTab
{
    std::mutex                    mu;
    std::map<std::string, double> worst;
    std::map<std::string, uint64_t> count;
    ~MeasTab ()
    {
        for (auto& kv : worst)
            fprintf (stderr, "MEAS %-44s worst=%-12.4g n=%llu\n", kv.first.c_str (), kv.second, (unsigned long long) count[kv.first]);
    }
    void upd (const char* k, double v)
    {
        std::lock_guard<std::mutex> g (mu);
        double&                     w = worst[k];
        if (v > w || v != v) w = v;
        count[k]++;
    }
};
static MeasTab g_meas;
#define QG_MEAS(key, val) qg::g_meas.upd ((key), (double) (val))
#else
#define QG_MEAS(key, val) ((void) 0)
#endif

// require err <= K * unit (NaN fails); the message reports the error in units
#define QG_CHK(c, key, err, unit, K, streamexpr)                                                                                 \
    do                                                                                                                           \
    {                                                                                                                            \
        orc::quad e_ = (err), u_ = (unit);                                                                                       \
        QG_MEAS (key, e_ / u_);                                                                                                  \
        if (!(e_ <= (orc::quad) (K) * u_))                                                                                      \
            VP_FAIL (c, key, streamexpr << " [error " << (double) e_ << " = " << (double) (e_ / u_) << " units, limit " << (K) << " units]"); \
    } while (0)

// ---- generators ----------------------------------------------------------------------
using vp::Src;
template <class T> static inline IMATH_NAMESPACE::Vec3<T> gen_pt (Src& s)
{
    return IMATH_NAMESPACE::Vec3<T> (gen::nice<T> (s), gen::nice<T> (s), gen::nice<T> (s));
}
// a non-zero offset vector: axis-aligned, small integers, or random direction with length 2^-3..2^3
template <class T> static inline IMATH_NAMESPACE::Vec3<T> gen_offset (Src& s)
{
    typedef IMATH_NAMESPACE::Vec3<T> V;
    V                                v (0, 0, 0);
    switch (s.below (4))
    {
        case 0:
        {
            int k = (int) s.below (3);
            v[k]  = (T) (s.coin () ? 1 : -1) * std::ldexp ((T) 1, (int) s.range (-3, 3));
            break;
        }
        case 1:
            v = V ((T) s.range (-4, 4), (T) s.range (-4, 4), (T) s.range (-4, 4));
            if (v.x == 0 && v.y == 0 && v.z == 0) v.x = 1;
            break;
        default:
        {
            double x = s.uniform (-1, 1), y = s.uniform (-1, 1), z = s.uniform (-1, 1);
            double l = std::sqrt (x * x + y * y + z * z);
            if (l < 0.05)
            {
                x = 1;
                y = z = 0;
                l = 1;
            }
            double sc = std::ldexp (1.0, (int) s.range (-3, 3)) / l;
            v         = V ((T) (x * sc), (T) (y * sc), (T) (z * sc));
            break;
        }
    }
    return v;
}
template <class T> static inline T gen_param (Src& s)
{
    switch (s.below (4))
    {
        case 0: return (T) s.range (-4, 4);
        case 1: return (T) s.uniform (-1000, 1000);
        default: return (T) s.uniform (-10, 10);
    }
}

enum MatKind
{
    MK_IDENT,
    MK_TRANS,
    MK_RIGID,
    MK_USCALE,
    MK_NUSCALE,
    MK_GENERAL,
    MK_COUNT
};
static const char* const MK_NAME[MK_COUNT] = { "identity", "translation", "rigid", "uniform-scale", "non-uniform-scale", "general-affine" };

// affine matrix (row-vector convention p' = p*M), linear part with |det| bounded away from 0.
// det > 0 unless mirror (then the first row of the linear part is negated).
template <class T> static inline IMATH_NAMESPACE::Matrix44<T> gen_affine (Src& s, int kind, bool mirror)
{
    double A[3][3] = { { 1, 0, 0 }, { 0, 1, 0 }, { 0, 0, 1 } };
    double t[3]    = { 0, 0, 0 };
    if (kind >= MK_TRANS)
        for (int i = 0; i < 3; ++i)
            t[i] = (double) gen::nice<T> (s);
    if (kind >= MK_RIGID && kind <= MK_NUSCALE)
    {
        double x = s.uniform (-1, 1), y = s.uniform (-1, 1), z = s.uniform (-1, 1);
        if (x * x + y * y + z * z < 0.01) x = 1;
        double          ang = s.below (4) == 0 ? (double) s.range (-2, 2) * 1.5707963267948966 : s.uniform (-3.14159, 3.14159);
        orc::QM<3>      R   = orc::rodrigues_rowvec<3> (x, y, z, ang);
        double          sc[3] = { 1, 1, 1 };
        if (kind == MK_USCALE) sc[0] = sc[1] = sc[2] = std::ldexp (1.0 + s.unit (), (int) s.range (-3, 3));
        if (kind == MK_NUSCALE)
            for (int i = 0; i < 3; ++i)
                sc[i] = std::ldexp (1.0 + s.unit (), (int) s.range (-2, 2));
        for (int i = 0; i < 3; ++i)
            for (int j = 0; j < 3; ++j)
                A[i][j] = sc[i] * (double) R.a[i][j];
    }
    else if (kind == MK_GENERAL)
    {
        for (int tries = 0; tries < 2; ++tries)
        {
            for (int i = 0; i < 3; ++i)
                for (int j = 0; j < 3; ++j)
                    A[i][j] = s.uniform (-2, 2) + (tries && i == j ? 4.0 : 0.0);
            double det = A[0][0] * (A[1][1] * A[2][2] - A[1][2] * A[2][1]) - A[0][1] * (A[1][0] * A[2][2] - A[1][2] * A[2][0]) + A[0][2] * (A[1][0] * A[2][1] - A[1][1] * A[2][0]);
            if (std::fabs (det) >= 0.5)
            {
                if (det < 0)
                    for (int j = 0; j < 3; ++j)
                        A[0][j] = -A[0][j];
                break;
            }
            if (tries == 1)
            {
                for (int i = 0; i < 3; ++i)
                    for (int j = 0; j < 3; ++j)
                        A[i][j] = i == j ? 1 : 0;
            }
        }
    }
    if (mirror)
        for (int j = 0; j < 3; ++j)
            A[0][j] = -A[0][j];
    IMATH_NAMESPACE::Matrix44<T> M;
    for (int i = 0; i < 3; ++i)
    {
        for (int j = 0; j < 3; ++j)
            M[i][j] = (T) A[i][j];
        M[i][3] = 0;
        M[3][i] = (T) t[i];
    }
    M[3][3] = 1;
    return M;
}

// exact affine image of a point under M (entries taken as exact), row-vector convention
template <class T> static inline Q3 xform (const Q3& p, const IMATH_NAMESPACE::Matrix44<T>& M)
{
    Q3 r;
    for (int j = 0; j < 3; ++j)
        r[j] = p.x * (quad) M[0][j] + p.y * (quad) M[1][j] + p.z * (quad) M[2][j] + (quad) M[3][j];
    return r;
}
// sum of |terms| of the same product (for rounding bounds)
template <class T> static inline quad xform_abs (const Q3& p, const IMATH_NAMESPACE::Matrix44<T>& M)
{
    quad best = 0;
    for (int j = 0; j < 3; ++j)
        best = qmax (best, qabs (p.x * (quad) M[0][j]) + qabs (p.y * (quad) M[1][j]) + qabs (p.z * (quad) M[2][j]) + qabs ((quad) M[3][j]));
    return best;
}
// linear part as QM<3>, its inverse and inf-norm condition number
template <class T> static inline orc::QM<3> linpart (const IMATH_NAMESPACE::Matrix44<T>& M)
{
    orc::QM<3> A;
    for (int i = 0; i < 3; ++i)
        for (int j = 0; j < 3; ++j)
            A.a[i][j] = (quad) M[i][j];
    return A;
}
static inline quad cond3 (const orc::QM<3>& A)
{
    orc::QM<3> Ai;
    if (!orc::inverse (A, Ai)) return (quad) 1e300;
    return orc::norm_inf (A) * orc::norm_inf (Ai);
}

} // namespace qg
