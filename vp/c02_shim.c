#include "c02_shim.inc"
