// C18: random generators are deterministic, range-correct and rand48-compatible.
//
// Oracles: an explicit 48-bit LCG model x' = 0x5deece66d x + 0xb (mod 2^48) and 32-bit LCG model, and glibc's
// ::nrand48 / ::erand48 / ::lrand48 / ::drand48 / ::srand48 (global namespace; Imath's live in IMATH_NAMESPACE).
// Sub-checks that touch a process-global generator state (Imath's static state or glibc's) run each case under
// one mutex and re-seed both at the top of the case.
#include "vpbt.h"
#include "oracles.h"
#include "gens.h"
#include <ImathRandom.h>
#include <ImathVec.h>
#include <stdlib.h>
#include <climits>
#include <functional>
#include <thread>
#include <condition_variable>
#include <mutex>

using namespace orc;
namespace IM = IMATH_NAMESPACE;

// ---------------------------------------------------------------------------
// models
static const uint64_t A48 = 0x5deece66dULL, C48 = 0xbULL, M48 = (1ULL << 48) - 1;
static inline uint64_t next48 (uint64_t x) { return (A48 * x + C48) & M48; }
static const uint64_t AINV48 = [] {
    uint64_t y = 1; // Newton iteration for the inverse of an odd number modulo 2^64
    for (int i = 0; i < 7; ++i)
        y *= 2 - A48 * y;
    return y & M48;
}();
static inline uint64_t prev48 (uint64_t y) { return (AINV48 * ((y - C48) & M48)) & M48; }
static inline void     to_words (uint64_t x, unsigned short w[3])
{
    w[0] = (unsigned short) x;
    w[1] = (unsigned short) (x >> 16);
    w[2] = (unsigned short) (x >> 32);
}
static inline uint64_t from_words (const unsigned short w[3]) { return (uint64_t) w[0] | ((uint64_t) w[1] << 16) | ((uint64_t) w[2] << 32); }
static inline double   posix_unit (uint64_t x) { return std::ldexp ((double) x, -48); } // exact: x < 2^48
static const double    TWO_M48 = 3.552713678800501e-15;                                 // 2^-48

static inline uint32_t seed_scramble (unsigned long seed) { return (uint32_t) ((seed * 0xa5a573a5UL) ^ 0x5a5a5a5aUL); }
static inline uint64_t rand48_init_model (unsigned long seed)
{
    uint32_t s = seed_scramble (seed);
    return (uint64_t) (s & 0xffff) | ((uint64_t) ((s >> 16) & 0xffff) << 16) | ((uint64_t) (s & 0xffff) << 32);
}
static inline uint32_t next32 (uint32_t x) { return 1664525u * x + 1013904223u; }

enum
{
    LB_BOUNDARY_STATE,
    LB_ZERO_OUTPUT,
    LB_MAX_OUTPUT,
    LB_MIXED_FAMILIES,
    LB_GLOBAL,
    LB_RESEED,
    LB_RANGE_A_GT_B,
    LB_RANGE_EQUAL,
    LB_RANGE_HUGE,
    LB_OTHER_THREAD
};
#define C18_LABELS "boundary_state", "output_all_zero_bits", "output_all_one_bits", "mixes_two_or_more_families", "global_state_ops", "reseeded_mid_history", "range_a_gt_b", "range_a_eq_b", "range_huge", "global_ops_from_other_threads"

static inline uint64_t gen_state (vp::Src& s, bool* boundary)
{
    *boundary = true;
    switch (s.below (9))
    {
        case 0: return 0;
        case 1: return M48;
        case 2: return prev48 (s.bits (17));             // successor has its 31 top bits clear
        case 3: return prev48 (M48 - s.bits (17));       // successor has its 31 top bits set
        case 4: return prev48 (s.coin () ? 0 : M48);     // successor all zero / all one
        case 5: return s.below (65536);
        case 6:
        {
            static const unsigned short W[4] = { 0, 0xffff, 0x8000, 0x7fff };
            return (uint64_t) W[s.below (4)] | ((uint64_t) W[s.below (4)] << 16) | ((uint64_t) W[s.below (4)] << 32);
        }
        default: *boundary = false; return s.bits (48);
    }
}
static inline unsigned long gen_seed (vp::Src& s)
{
    switch (s.below (8))
    {
        case 0: return 0;
        case 1: return 1;
        case 2: return ULONG_MAX;
        case 3: return 0xffffffffUL;
        case 4: return 0x100000000UL + s.below (4);
        case 5: return s.below (65536);
        case 6: return (unsigned long) s.bits (32);
        default: return (unsigned long) s.bits (64);
    }
}
template <class T> static inline T gen_bound (vp::Src& s, bool* huge)
{
    const T MAX = std::numeric_limits<T>::max ();
    *huge      = false;
    switch (s.below (8))
    {
        case 0: return 0;
        case 1: return (T) s.range (-3, 3);
        case 2: *huge = true; return (MAX / 4) * (T) (s.coin () ? 1 : -1);
        case 3: *huge = true; return gen::with_exp<T> (s, std::numeric_limits<T>::max_exponent - 4 - (int) s.below (8));
        case 4: return gen::with_exp<T> (s, std::numeric_limits<T>::min_exponent + (int) s.below (8));
        case 5: return std::numeric_limits<T>::denorm_min () * (T) s.range (-3, 3);
        default: return gen::nice<T> (s);
    }
}

// ---------------------------------------------------------------------------
// histories
enum OpKind
{
    OP_NRAND,   // nrand48(arr k)
    OP_ERAND,   // erand48(arr k)
    OP_ARRSET,  // arr k := generated state
    OP_R48_INIT,
    OP_R48_NEXTI,
    OP_R48_NEXTB,
    OP_R48_NEXTF,
    OP_R48_NEXTF_RANGE,
    OP_R32_INIT,
    OP_R32_NEXTI,
    OP_R32_NEXTB,
    OP_R32_NEXTF,
    OP_R32_NEXTF_RANGE,
    OP_SRAND,   // global
    OP_LRAND,
    OP_DRAND,
    OP_COUNT
};
struct Op
{
    int           kind;
    int           k;
    uint64_t      state;
    unsigned long seed;
    double        a, b;
};

static std::mutex g_global_rand_mutex;

// One persistent helper thread (creating a thread per step costs ~1 ms on a loaded machine): run(f) executes f on it and
// returns when f has finished, so the schedule stays strictly sequential and owned by the harness.  Only used while
// g_global_rand_mutex is held.
struct Helper
{
    std::thread                  th;
    std::mutex                   m;
    std::condition_variable      cv;
    const std::function<void ()>* job  = nullptr;
    bool                         done = false, quit = false;
    Helper ()
    {
        th = std::thread ([this] {
            std::unique_lock<std::mutex> lk (m);
            for (;;)
            {
                cv.wait (lk, [&] { return job || quit; });
                if (quit) return;
                (*job) ();
                job  = nullptr;
                done = true;
                cv.notify_all ();
            }
        });
    }
    void run (const std::function<void ()>& f)
    {
        std::unique_lock<std::mutex> lk (m);
        job  = &f;
        done = false;
        cv.notify_all ();
        cv.wait (lk, [&] { return done; });
    }
    ~Helper ()
    {
        {
            std::lock_guard<std::mutex> lk (m);
            quit = true;
        }
        cv.notify_all ();
        th.join ();
    }
};
static Helper& helper ()
{
    static Helper h;
    return h;
}

struct Hist
{
    std::vector<Op> ops;
    uint64_t        arr0[2];
    unsigned long   seed48, seed32;
    long            gseed;
    bool            with_global;
    uint64_t        thread_mask = 0; // bit (step mod 64) set: a global-state operation of that step runs on a separate thread (joined at once)
};

// executes the history; pass 0 checks every step against the models and glibc and records outputs, pass 1 only records
static void exec_history (vp::Ctx& c, const Hist& h, bool check, std::vector<uint64_t>& log)
{
    unsigned short arr[2][3];
    uint64_t       mx[2];
    for (int k = 0; k < 2; ++k)
    {
        to_words (h.arr0[k], arr[k]);
        mx[k] = h.arr0[k];
    }
    IM::Rand48 r48 (h.seed48);
    IM::Rand32 r32 (h.seed32);
    uint64_t   m48 = rand48_init_model (h.seed48);
    uint32_t   m32 = seed_scramble (h.seed32);
    uint64_t   mg  = 0;
    if (h.with_global)
    {
        IM::srand48 (h.gseed);
        ::srand48 (h.gseed);
        mg = ((uint64_t) ((uint32_t) h.gseed) << 16) | 0x330e;
    }
    int step = 0;
    // the schedule is owned by the harness: strictly sequential, the other thread is joined before the next step
    auto on = [&] (int st, const std::function<void ()>& fn) {
        if ((h.thread_mask >> (st & 63)) & 1)
            helper ().run (fn);
        else
            fn ();
    };
    for (const Op& op : h.ops)
    {
        ++step;
        switch (op.kind)
        {
            case OP_ARRSET:
                to_words (op.state, arr[op.k]);
                mx[op.k] = op.state;
                break;
            case OP_NRAND:
            {
                unsigned short g[3] = { arr[op.k][0], arr[op.k][1], arr[op.k][2] };
                long           iv   = IM::nrand48 (arr[op.k]);
                log.push_back ((uint64_t) iv);
                log.push_back (from_words (arr[op.k]));
                if (!check) break;
                long     gv = ::nrand48 (g);
                uint64_t x  = next48 (mx[op.k]);
                VP_REQUIRE (c, iv == (long) (x >> 17), "nrand48-value-vs-model", "step " << step << ": nrand48 from state 0x" << std::hex << mx[op.k] << " returned 0x" << iv << " model 0x" << (x >> 17));
                VP_REQUIRE (c, iv == gv, "nrand48-value-vs-posix", "step " << step << ": nrand48 from state 0x" << std::hex << mx[op.k] << " returned 0x" << iv << " glibc 0x" << gv);
                VP_REQUIRE (c, from_words (arr[op.k]) == x, "nrand48-state-vs-model", "step " << step << ": nrand48 from state 0x" << std::hex << mx[op.k] << " left 0x" << from_words (arr[op.k]) << " model 0x" << x);
                VP_REQUIRE (c, from_words (arr[op.k]) == from_words (g), "nrand48-state-vs-posix", "step " << step << ": nrand48 from state 0x" << std::hex << mx[op.k] << " left 0x" << from_words (arr[op.k]) << " glibc 0x" << from_words (g));
                VP_REQUIRE (c, iv >= 0 && iv <= 0x7fffffffL, "nrand48-range", "nrand48 returned " << iv);
                if ((x >> 17) == 0) c.label (LB_ZERO_OUTPUT);
                if ((x >> 17) == 0x7fffffff) c.label (LB_MAX_OUTPUT);
                mx[op.k] = x;
                break;
            }
            case OP_ERAND:
            {
                unsigned short g[3] = { arr[op.k][0], arr[op.k][1], arr[op.k][2] };
                double         iv   = IM::erand48 (arr[op.k]);
                log.push_back (d2u (iv));
                log.push_back (from_words (arr[op.k]));
                if (!check) break;
                double   gv = ::erand48 (g);
                uint64_t x  = next48 (mx[op.k]);
                double   mv = posix_unit (x);
                VP_REQUIRE (c, gv == mv, "oracle-disagreement", "glibc erand48 " << gv << " vs model " << mv << " from state 0x" << std::hex << mx[op.k]);
                VP_REQUIRE (c, std::fabs (iv - mv) <= TWO_M48, "erand48-value", "step " << step << ": erand48 from state 0x" << std::hex << mx[op.k] << std::dec << " returned " << iv << " POSIX " << mv << " difference " << (iv - mv) << " (limit 2^-48)");
                VP_REQUIRE (c, iv >= 0 && iv < 1, "erand48-range", "step " << step << ": erand48 from state 0x" << std::hex << mx[op.k] << std::dec << " returned " << iv << " outside [0,1)");
                VP_REQUIRE (c, from_words (arr[op.k]) == x, "erand48-state-vs-model", "step " << step << ": erand48 from state 0x" << std::hex << mx[op.k] << " left 0x" << from_words (arr[op.k]) << " model 0x" << x);
                VP_REQUIRE (c, from_words (arr[op.k]) == from_words (g), "erand48-state-vs-posix", "step " << step << ": erand48 from state 0x" << std::hex << mx[op.k] << " left 0x" << from_words (arr[op.k]) << " glibc 0x" << from_words (g));
                if (x == 0) c.label (LB_ZERO_OUTPUT);
                if ((x >> 17) == 0x7fffffff) c.label (LB_MAX_OUTPUT);
                mx[op.k] = x;
                break;
            }
            case OP_R48_INIT:
                r48.init (op.seed);
                m48 = rand48_init_model (op.seed);
                break;
            case OP_R48_NEXTI:
            {
                long iv = r48.nexti ();
                log.push_back ((uint64_t) iv);
                if (!check) break;
                m48 = next48 (m48);
                VP_REQUIRE (c, iv >= 0 && iv <= 0x7fffffffL, "rand48-nexti-range", "Rand48::nexti returned " << iv);
                VP_REQUIRE (c, iv == (long) (m48 >> 17), "rand48-nexti-model", "step " << step << ": Rand48::nexti returned 0x" << std::hex << iv << " model 0x" << (m48 >> 17) << " (state 0x" << m48 << ")");
                break;
            }
            case OP_R48_NEXTB:
            {
                bool iv = r48.nextb ();
                log.push_back (iv);
                if (!check) break;
                m48 = next48 (m48);
                VP_REQUIRE (c, iv == (bool) ((m48 >> 17) & 1), "rand48-nextb-model", "step " << step << ": Rand48::nextb returned " << iv << " model state 0x" << std::hex << m48);
                break;
            }
            case OP_R48_NEXTF:
            {
                double iv = r48.nextf ();
                log.push_back (d2u (iv));
                if (!check) break;
                m48 = next48 (m48);
                VP_REQUIRE (c, iv >= 0 && iv < 1, "rand48-nextf-range", "step " << step << ": Rand48::nextf returned " << iv << " outside [0,1)");
                VP_REQUIRE (c, std::fabs (iv - posix_unit (m48)) <= TWO_M48, "rand48-nextf-model", "step " << step << ": Rand48::nextf returned " << iv << " model " << posix_unit (m48));
                break;
            }
            case OP_R48_NEXTF_RANGE:
            {
                double iv = r48.nextf (op.a, op.b);
                log.push_back (d2u (iv));
                if (!check) break;
                m48 = next48 (m48);
                double lo = std::min (op.a, op.b), hi = std::max (op.a, op.b), M = std::max (std::fabs (op.a), std::fabs (op.b));
                double tol = 2 * FInfo<double>::eps () * M + std::numeric_limits<double>::denorm_min ();
                VP_REQUIRE (c, iv >= lo - tol && iv <= hi + tol, "rand48-nextf-range-interval", "step " << step << ": Rand48::nextf(" << op.a << "," << op.b << ") returned " << iv << " outside the interval by more than 2 eps max(|a|,|b|)");
                quad f = posix_unit (m48), want = (quad) op.a * (1 - f) + (quad) op.b * f;
                quad bound = 2 * (quad) FInfo<double>::eps () * (qabs ((quad) op.a) + qabs ((quad) op.b)) + qabs ((quad) op.b - (quad) op.a) * (quad) TWO_M48 + (quad) std::numeric_limits<double>::denorm_min ();
                VP_REQUIRE (c, qabs ((quad) iv - want) <= bound, "rand48-nextf-range-value", "step " << step << ": Rand48::nextf(" << op.a << "," << op.b << ") returned " << iv << " expected a(1-f)+bf = " << qstr (want) << " with f = " << (double) f);
                break;
            }
            case OP_R32_INIT:
                r32.init (op.seed);
                m32 = seed_scramble (op.seed);
                break;
            case OP_R32_NEXTI:
            {
                unsigned long iv = r32.nexti ();
                log.push_back (iv);
                if (!check) break;
                m32 = next32 (m32);
                VP_REQUIRE (c, iv <= 0xffffffffUL, "rand32-nexti-range", "Rand32::nexti returned " << iv);
                VP_REQUIRE (c, iv == m32, "rand32-nexti-model", "step " << step << ": Rand32::nexti returned 0x" << std::hex << iv << " model 0x" << m32);
                break;
            }
            case OP_R32_NEXTB:
            {
                bool iv = r32.nextb ();
                log.push_back (iv);
                if (!check) break;
                m32 = next32 (m32);
                VP_REQUIRE (c, iv == (bool) (m32 >> 31), "rand32-nextb-model", "step " << step << ": Rand32::nextb returned " << iv << " model state 0x" << std::hex << m32);
                break;
            }
            case OP_R32_NEXTF:
            {
                float iv = r32.nextf ();
                log.push_back (f2u (iv));
                if (!check) break;
                m32 = next32 (m32);
                VP_REQUIRE (c, iv >= 0 && iv < 1, "rand32-nextf-range", "step " << step << ": Rand32::nextf returned " << iv << " outside [0,1)");
                VP_REQUIRE (c, iv == (float) (m32 & 0x7fffff) / 8388608.0f, "rand32-nextf-model", "step " << step << ": Rand32::nextf returned " << iv << " model " << (float) (m32 & 0x7fffff) / 8388608.0f);
                break;
            }
            case OP_R32_NEXTF_RANGE:
            {
                float a = (float) op.a, b = (float) op.b;
                float iv = r32.nextf (a, b);
                log.push_back (f2u (iv));
                if (!check) break;
                m32 = next32 (m32);
                float lo = std::min (a, b), hi = std::max (a, b), M = std::max (std::fabs (a), std::fabs (b));
                double tol = 2 * FInfo<float>::eps () * (double) M + (double) std::numeric_limits<float>::denorm_min ();
                VP_REQUIRE (c, (double) iv >= (double) lo - tol && (double) iv <= (double) hi + tol, "rand32-nextf-range-interval", "step " << step << ": Rand32::nextf(" << a << "," << b << ") returned " << iv << " outside the interval by more than 2 eps max(|a|,|b|)");
                quad f = (quad) (m32 & 0x7fffff) / 8388608, want = (quad) a * (1 - f) + (quad) b * f;
                quad bound = 2 * (quad) FInfo<float>::eps () * (qabs ((quad) a) * (1 - f) + qabs ((quad) b) * f) + (quad) std::numeric_limits<float>::denorm_min ();
                VP_REQUIRE (c, qabs ((quad) iv - want) <= bound, "rand32-nextf-range-value", "step " << step << ": Rand32::nextf(" << a << "," << b << ") returned " << iv << " expected a(1-f)+bf = " << qstr (want) << " with f = " << (double) f);
                break;
            }
            case OP_SRAND:
                on (step, [&] { IM::srand48 ((long) op.seed); });
                if (check) ::srand48 ((long) op.seed);
                mg = ((uint64_t) ((uint32_t) op.seed) << 16) | 0x330e;
                break;
            case OP_LRAND:
            {
                long iv = 0;
                on (step, [&] { iv = IM::lrand48 (); });
                log.push_back ((uint64_t) iv);
                if (!check) break;
                long     gv = ::lrand48 ();
                uint64_t x  = next48 (mg);
                VP_REQUIRE (c, iv == (long) (x >> 17), "lrand48-value-vs-model", "step " << step << ": lrand48 from state 0x" << std::hex << mg << " returned 0x" << iv << " model 0x" << (x >> 17));
                VP_REQUIRE (c, iv == gv, "lrand48-value-vs-posix", "step " << step << ": lrand48 from state 0x" << std::hex << mg << " returned 0x" << iv << " glibc 0x" << gv);
                mg = x;
                break;
            }
            case OP_DRAND:
            {
                double iv = 0;
                on (step, [&] { iv = IM::drand48 (); });
                log.push_back (d2u (iv));
                if (!check) break;
                double   gv = ::drand48 ();
                uint64_t x  = next48 (mg);
                double   mv = posix_unit (x);
                VP_REQUIRE (c, gv == mv, "oracle-disagreement", "glibc drand48 " << gv << " vs model " << mv << " from state 0x" << std::hex << mg);
                VP_REQUIRE (c, std::fabs (iv - mv) <= TWO_M48, "drand48-value", "step " << step << ": drand48 from state 0x" << std::hex << mg << std::dec << " returned " << iv << " POSIX " << mv << " (limit 2^-48)");
                VP_REQUIRE (c, iv >= 0 && iv < 1, "drand48-range", "step " << step << ": drand48 returned " << iv << " outside [0,1)");
                mg = x;
                break;
            }
            default: break;
        }
    }
}

static const char* OPNAME[OP_COUNT] = { "nrand48", "erand48", "set", "R48.init", "R48.nexti", "R48.nextb", "R48.nextf", "R48.nextf(a,b)", "R32.init", "R32.nexti", "R32.nextb", "R32.nextf", "R32.nextf(a,b)", "srand48", "lrand48", "drand48" };

static void history_case (vp::Ctx& c, bool with_global)
{
    vp::Src& s = c.s;
    Hist     h;
    h.with_global = with_global;
    bool boundary = false, b;
    for (int k = 0; k < 2; ++k)
    {
        h.arr0[k] = gen_state (s, &b);
        boundary |= b;
    }
    h.seed48 = gen_seed (s);
    h.seed32 = gen_seed (s);
    h.gseed  = (long) gen_seed (s);
    int n    = 1 + (int) s.below (s.chance (32) ? 200 : 40);
    int fam[4] = { 0, 0, 0, 0 };
    int nk = with_global ? OP_COUNT : OP_SRAND;
    for (int i = 0; i < n; ++i)
    {
        Op op;
        op.kind  = (int) s.below (nk);
        op.k     = (int) s.below (2);
        op.state = 0;
        op.seed  = 0;
        op.a = op.b = 0;
        switch (op.kind)
        {
            case OP_ARRSET:
                op.state = gen_state (s, &b);
                boundary |= b;
                c.label (LB_RESEED);
                break;
            case OP_R48_INIT:
            case OP_R32_INIT:
            case OP_SRAND:
                op.seed = gen_seed (s);
                c.label (LB_RESEED);
                break;
            case OP_R48_NEXTF_RANGE:
            {
                bool hg1, hg2;
                op.a = gen_bound<double> (s, &hg1);
                op.b = s.chance (32) ? op.a : gen_bound<double> (s, &hg2);
                if (op.a > op.b) c.label (LB_RANGE_A_GT_B);
                if (op.a == op.b) c.label (LB_RANGE_EQUAL);
                if (hg1) c.label (LB_RANGE_HUGE);
                break;
            }
            case OP_R32_NEXTF_RANGE:
            {
                bool hg1, hg2;
                op.a = gen_bound<float> (s, &hg1);
                op.b = s.chance (32) ? op.a : (double) gen_bound<float> (s, &hg2);
                if (op.a > op.b) c.label (LB_RANGE_A_GT_B);
                if (op.a == op.b) c.label (LB_RANGE_EQUAL);
                if (hg1) c.label (LB_RANGE_HUGE);
                break;
            }
            default: break;
        }
        if (op.kind <= OP_ARRSET) fam[0] = 1;
        else if (op.kind <= OP_R48_NEXTF_RANGE) fam[1] = 1;
        else if (op.kind <= OP_R32_NEXTF_RANGE) fam[2] = 1;
        else fam[3] = 1;
        h.ops.push_back (op);
    }
    if (c.describe)
    {
        std::ostringstream o;
        o << std::hex << "arrays 0x" << h.arr0[0] << " 0x" << h.arr0[1] << " Rand48 seed 0x" << h.seed48 << " Rand32 seed 0x" << h.seed32;
        if (with_global) o << " srand48 seed 0x" << h.gseed;
        o << std::dec << "; " << n << " ops:";
        for (size_t i = 0; i < h.ops.size () && i < 12; ++i)
        {
            o << " " << OPNAME[h.ops[i].kind];
            if (h.ops[i].kind <= OP_ARRSET) o << "[" << h.ops[i].k << "]";
            if (h.ops[i].kind == OP_R48_NEXTF_RANGE || h.ops[i].kind == OP_R32_NEXTF_RANGE) o << "(" << h.ops[i].a << "," << h.ops[i].b << ")";
        }
        if (h.ops.size () > 12) o << " ...";
        VP_NOTE (c, o.str ());
    }
    // drawn last so that earlier choices decode as before: 1 case in 16 runs some global-state steps on other threads
    if (with_global && s.chance (16))
    {
        h.thread_mask = s.bytes (8);
        if (h.thread_mask && fam[3]) c.label (LB_OTHER_THREAD);
    }
    if (boundary) c.label (LB_BOUNDARY_STATE);
    int nf = fam[0] + fam[1] + fam[2] + fam[3];
    if (nf >= 2) c.label (LB_MIXED_FAMILIES);
    if (fam[3]) c.label (LB_GLOBAL);
    c.nt (nf >= 2 && boundary);
    std::vector<uint64_t> log1, log2;
    {
        std::unique_lock<std::mutex> lk (g_global_rand_mutex, std::defer_lock);
        if (with_global) lk.lock ();
        exec_history (c, h, true, log1);
        // determinism: the same history replayed from scratch gives the same outputs, bit for bit
        exec_history (c, h, false, log2);
    }
    VP_REQUIRE (c, log1 == log2, "history-not-deterministic", "replaying the same history produced different outputs");
}

// ---------------------------------------------------------------------------
// Seeding during static initialisation: a static initialiser of this TU (linked ahead of the library objects, so it
// runs before any dynamic initialiser of ImathRandom.cpp) calls srand48; the draws made later from main must
// continue from that seed, as they do with POSIX's srand48.  This sub-check is registered first, so it runs before
// any other sub-check re-seeds the process-wide generator.
static const long C18_STATIC_INIT_SEED = 0x2badcafeL;
struct StaticInitSeeder
{
    long first_in_initialiser;
    StaticInitSeeder ()
    {
        IM::srand48 (C18_STATIC_INIT_SEED);
        first_in_initialiser = IM::lrand48 ();
    }
};
static const StaticInitSeeder g_static_init_seeder;

VP_EXHAUSTIVE (seed_survives_static_initialisation, 1, 1, "one history: srand48(seed) and one lrand48() inside a static initialiser of the harness TU, then 8 lrand48()/drand48() draws from the first sub-check to run; every draw compared with the LCG model continued from the seed; non-trivial = always")
{
    (void) idx;
    std::unique_lock<std::mutex> lk (g_global_rand_mutex);
    uint64_t x = ((uint64_t) ((uint32_t) C18_STATIC_INIT_SEED) << 16) | 0x330e;
    x          = next48 (x);
    VP_NOTE (c, "srand48(0x" << std::hex << C18_STATIC_INIT_SEED << ") in a static initialiser, draws continued from main");
    c.nt ();
    VP_REQUIRE (c, g_static_init_seeder.first_in_initialiser == (long) (x >> 17), "static-init/lrand48-in-initialiser", "lrand48() right after srand48() inside a static initialiser returned 0x" << std::hex << g_static_init_seeder.first_in_initialiser << " model 0x" << (x >> 17));
    // the 8 draws are taken once, by whichever evaluation of this sub-check comes first (it is the first sub-check to
    // run, also in a replay process), and every evaluation - shrinking, the three confirmation replays - compares
    // the same stored values
    struct Draws
    {
        long   l[4];
        double d[4];
        Draws ()
        {
            for (int i = 0; i < 4; ++i)
            {
                l[i] = IM::lrand48 ();
                d[i] = IM::drand48 ();
            }
        }
    };
    static const Draws draws;
    for (int i = 0; i < 4; ++i)
    {
        x = next48 (x);
        VP_REQUIRE (c, draws.l[i] == (long) (x >> 17), "static-init/seed-lost", "draw " << 2 * i + 2 << " after srand48() in a static initialiser: lrand48() = 0x" << std::hex << draws.l[i] << " but the sequence seeded there continues with 0x" << (x >> 17) << " (state reset between static initialisation and main?)");
        x = next48 (x);
        VP_REQUIRE (c, std::fabs (draws.d[i] - posix_unit (x)) <= TWO_M48, "static-init/seed-lost", "draw " << 2 * i + 3 << " after srand48() in a static initialiser: drand48() = " << draws.d[i] << " but the sequence seeded there continues with " << posix_unit (x));
    }
}

#define C18_HIST_RULE "histories of 1..200 operations (mostly <= 40) over two caller-owned state arrays (nrand48, erand48, re-seed), one Rand48 and one Rand32 object (init, nexti, nextb, nextf, nextf(a,b))"
VP_RANDOM (history_arrays_objects, 1000000, 10000000, C18_HIST_RULE "; initial and re-seeded 48-bit states: 0, 2^48-1, predecessors of states with all-zero / all-one top 31 bits or all 48 bits, small, words from {0,ffff,8000,7fff}, uniform; seeds 0, 1, ULONG_MAX, 2^32-1, 2^32.., 16/32/64-bit; bounds a,b from 0, small ints, +-max/4, huge, tiny, subnormal, nice, incl. a > b and a == b.  After EVERY step: value and state array equal the 48-bit LCG model and glibc's function run on a copy of the previous state (erand48: |difference| <= 2^-48 and in [0,1)); objects equal the model of init/next; nextf(a,b) inside [min,max] +- 2 eps max(|a|,|b|) and within 2 eps of a(1-f)+bf; whole history replayed once more must give identical outputs.  non-trivial = mixes >= 2 generator families and uses >= 1 boundary state")
{
    history_case (c, false);
}
VP_LABELS (history_arrays_objects, C18_LABELS)
VP_REQUIRE_LABELS (history_arrays_objects, "boundary_state", "output_all_zero_bits", "output_all_one_bits", "mixes_two_or_more_families", "reseeded_mid_history", "range_a_gt_b", "range_a_eq_b", "range_huge")

VP_RANDOM (history_global, 400000, 4000000, C18_HIST_RULE " PLUS the process-global srand48 / lrand48 / drand48 of Imath, compared step by step with the model (seed<<16 | 0x330e) and with glibc's ::srand48 / ::lrand48 / ::drand48; both global states are re-seeded at the top of the case and the case runs under a mutex; interleaved array/object operations must not disturb the global stream and vice versa; in 1 case of 16 a generated subset of the global-state steps runs on a separate (helper) thread and completes before the next step (the generator is process-wide, as POSIX's).  non-trivial = mixes >= 2 generator families and uses >= 1 boundary state")
{
    history_case (c, true);
}
VP_LABELS (history_global, C18_LABELS)
VP_REQUIRE_LABELS (history_global, "boundary_state", "mixes_two_or_more_families", "global_state_ops", "reseeded_mid_history", "global_ops_from_other_threads")

// ---------------------------------------------------------------------------
// single steps from a large stratified set of states (thorough: 2^32 states)
VP_EXHAUSTIVE (single_step_states, 8192, 65536, "single nrand48 and erand48 steps from 2^16 states per index: high word = 40503*idx mod 2^16 (a bijection, so the thorough tier visits every high word), middle word = 0..65535, low word = hash; compared with the LCG model and glibc as in the histories; thorough = 2^32 states; non-trivial = always")
{
    unsigned short hi = (unsigned short) (idx * 40503u);
    VP_NOTE (c, "states 0x" << std::hex << hi << "'0000..ffff'hash");
    for (uint32_t lo = 0; lo < 65536; ++lo)
    {
        uint64_t       k  = idx * 65536 + lo;
        unsigned short w0 = (unsigned short) vp::splitmix (k);
        uint64_t       x0 = ((uint64_t) hi << 32) | ((uint64_t) lo << 16) | w0, x = next48 (x0);
        unsigned short a[3], b[3], g[3], e[3];
        to_words (x0, a);
        to_words (x0, b);
        to_words (x0, g);
        to_words (x0, e);
        long   iv = IM::nrand48 (a), gv = ::nrand48 (g);
        double dv = IM::erand48 (b), ev = ::erand48 (e), mv = posix_unit (x);
        if (iv != (long) (x >> 17) || iv != gv) VP_FAIL (c, "nrand48-value-vs-posix", "nrand48 from state 0x" << std::hex << x0 << " returned 0x" << iv << " model 0x" << (x >> 17) << " glibc 0x" << gv);
        if (from_words (a) != x || from_words (a) != from_words (g)) VP_FAIL (c, "nrand48-state-vs-posix", "nrand48 from state 0x" << std::hex << x0 << " left 0x" << from_words (a) << " model 0x" << x);
        if (ev != mv) VP_FAIL (c, "oracle-disagreement", "glibc erand48 vs model from state 0x" << std::hex << x0);
        if (!(std::fabs (dv - mv) <= TWO_M48 && dv >= 0 && dv < 1)) VP_FAIL (c, "erand48-value", "erand48 from state 0x" << std::hex << x0 << std::dec << " returned " << dv << " POSIX " << mv);
        if (from_words (b) != x || from_words (b) != from_words (e)) VP_FAIL (c, "erand48-state-vs-posix", "erand48 from state 0x" << std::hex << x0 << " left 0x" << from_words (b) << " model 0x" << x);
    }
    c.bulk (65536, 65536);
}

// ---------------------------------------------------------------------------
// pure function of the seed
VP_RANDOM (seed_determinism, 500000, 5000000, "two Rand48 and two Rand32 objects built from the same seed (constructor vs default-construct + init) driven by the same random call sequence of length <= 64 produce identical values; a third object initialised mid-way with the same seed reproduces the sequence from the start; default constructor == seed 0; non-trivial = always")
{
    vp::Src&      s    = c.s;
    unsigned long seed = gen_seed (s);
    int           n    = 1 + (int) s.below (64);
    VP_NOTE (c, "seed 0x" << std::hex << seed << std::dec << " " << n << " calls");
    IM::Rand48 a (seed), b;
    IM::Rand32 p (seed), q;
    b.init (seed);
    q.init (seed);
    std::vector<int>      kinds;
    std::vector<uint64_t> out;
    for (int i = 0; i < n; ++i)
    {
        int k = (int) s.below (4);
        kinds.push_back (k);
        uint64_t va, vb, vp_, vq;
        switch (k)
        {
            case 0: va = (uint64_t) a.nexti (), vb = (uint64_t) b.nexti (), vp_ = p.nexti (), vq = q.nexti (); break;
            case 1: va = a.nextb (), vb = b.nextb (), vp_ = p.nextb (), vq = q.nextb (); break;
            case 2: va = d2u (a.nextf ()), vb = d2u (b.nextf ()), vp_ = f2u (p.nextf ()), vq = f2u (q.nextf ()); break;
            default: va = d2u (a.nextf (-1, 1)), vb = d2u (b.nextf (-1, 1)), vp_ = f2u (p.nextf (-1, 1)), vq = f2u (q.nextf (-1, 1)); break;
        }
        VP_REQUIRE (c, va == vb, "rand48-not-function-of-seed", "Rand48(seed) and init(seed) differ at call " << i << " kind " << k << " seed 0x" << std::hex << seed);
        VP_REQUIRE (c, vp_ == vq, "rand32-not-function-of-seed", "Rand32(seed) and init(seed) differ at call " << i << " kind " << k << " seed 0x" << std::hex << seed);
        out.push_back (va);
        out.push_back (vp_);
    }
    // re-initialise the used objects: sequence restarts
    a.init (seed);
    p.init (seed);
    for (int i = 0; i < n; ++i)
    {
        uint64_t va, vp_;
        switch (kinds[i])
        {
            case 0: va = (uint64_t) a.nexti (), vp_ = p.nexti (); break;
            case 1: va = a.nextb (), vp_ = p.nextb (); break;
            case 2: va = d2u (a.nextf ()), vp_ = f2u (p.nextf ()); break;
            default: va = d2u (a.nextf (-1, 1)), vp_ = f2u (p.nextf (-1, 1)); break;
        }
        VP_REQUIRE (c, va == out[2 * i], "rand48-reinit", "Rand48::init(seed) on a used object does not restart the sequence (call " << i << ")");
        VP_REQUIRE (c, vp_ == out[2 * i + 1], "rand32-reinit", "Rand32::init(seed) on a used object does not restart the sequence (call " << i << ")");
    }
    if (seed == 0)
    {
        IM::Rand48 d;
        IM::Rand32 e;
        IM::Rand48 d0 (0);
        IM::Rand32 e0 (0);
        VP_REQUIRE (c, d.nexti () == d0.nexti () && e.nexti () == e0.nexti (), "default-seed", "default-constructed generator differs from seed 0");
    }
    c.nt ();
}

// ---------------------------------------------------------------------------
// samplers
enum
{
    LSM_V2,
    LSM_V3,
    LSM_V4,
    LSM_FLOAT,
    LSM_DOUBLE,
    LSM_RAND32,
    LSM_RAND48
};
static inline void c18_measure (const char* what, double v)
{
    static const bool on = getenv ("C18_MEASURE") != nullptr;
    if (!on) return;
    static std::mutex                    mu;
    static std::map<std::string, double> worst;
    std::lock_guard<std::mutex>          g (mu);
    double&                              w = worst[what];
    if (v > w)
    {
        w = v;
        fprintf (stderr, "C18_MEASURE %s %g\n", what, v);
    }
}

// The samplers are rejection loops: with a broken generator they need not terminate.  They are therefore driven
// through a forwarding wrapper that counts nextf(a,b) calls and fails the case after 20000 of them (a healthy
// generator needs about N / (volume ratio) <= 13 calls per sample on average, and 4 * (N+2) samples are drawn).
template <class R> struct GuardedRand
{
    R        r;
    vp::Ctx* c;
    long     calls;
    GuardedRand (unsigned long seed, vp::Ctx* cc) : r (seed), c (cc), calls (0) {}
    template <class A> auto nextf (A a, A b) -> decltype (r.nextf (a, b))
    {
        if (++calls > 20000) c->do_fail ("sampler-does-not-terminate", "a sphere / gauss sampler drew more than 20000 numbers without accepting a sample");
        return r.nextf (a, b);
    }
    void nexti () { r.nexti (); }
    // next raw value of the wrapped generator (advances it): used to compare generator states
    unsigned long probe () { return (unsigned long) r.nexti (); }
};

template <class V, class T, int N, class R0> static void sampler_case (vp::Ctx& c, const char* vn, const char* rn, unsigned long seed, int skip, int draws)
{
    typedef GuardedRand<R0> R;
    R r (seed, &c);
    for (int i = 0; i < skip; ++i)
        r.nexti ();
    const quad eps = FInfo<T>::eps ();
    for (int d = 0; d < draws; ++d)
    {
        R    copy = r;
        r.calls   = 0;
        copy.calls = 0;
        V    v    = IM::solidSphereRand<V> (r);
        quad n2   = 0;
        for (int i = 0; i < N; ++i)
        {
            VP_REQUIRE (c, std::isfinite (v[i]), "solidSphereRand-nonfinite", "solidSphereRand<" << vn << ">(" << rn << " seed " << seed << ") component " << i << " = " << v[i]);
            n2 += (quad) v[i] * (quad) v[i];
        }
        c18_measure ("solid-excess-eps", (double) ((n2 - 1) / eps));
        // accepted when the rounded sum of squares is <= 1: the exact sum exceeds 1 by at most N roundings; measured worst: see report
        VP_REQUIRE (c, n2 <= 1 + (N + 1) * eps, "solidSphereRand-outside-ball", "solidSphereRand<" << vn << ">(" << rn << " seed " << seed << ") = " << vstr (v, N) << " has squared length " << qstr (n2));
        V v2 = IM::solidSphereRand<V> (copy);
        for (int i = 0; i < N; ++i)
            VP_REQUIRE (c, same<T> (v[i], v2[i]), "sampler-not-deterministic", "solidSphereRand from equal generator states differs");

        V    h  = IM::hollowSphereRand<V> (r);
        quad hn = 0;
        for (int i = 0; i < N; ++i)
        {
            VP_REQUIRE (c, std::isfinite (h[i]), "hollowSphereRand-nonfinite", "hollowSphereRand<" << vn << ">(" << rn << " seed " << seed << ") component " << i << " = " << h[i]);
            hn += (quad) h[i] * (quad) h[i];
        }
        quad hl = sqrtq (hn);
        c18_measure ("hollow-dev-eps", (double) (qabs (hl - 1) / eps));
        VP_REQUIRE (c, qabs (hl - 1) <= 4 * eps, "hollowSphereRand-not-unit", "hollowSphereRand<" << vn << ">(" << rn << " seed " << seed << ") = " << vstr (h, N) << " has length " << qstr (hl) << " (|len-1| = " << (double) (qabs (hl - 1) / eps) << " eps, limit 4)");

        // every sampler must be a pure function of the generator state it is handed: equal states give equal
        // samples AND leave equal successor states (no hidden state carried between calls or generators)
        {
            R hc = copy; // state before hollowSphereRand == state of 'copy' after its solidSphereRand
            V h2 = IM::hollowSphereRand<V> (hc);
            for (int i = 0; i < N; ++i)
                VP_REQUIRE (c, same<T> (h[i], h2[i]), "sampler-not-deterministic", "hollowSphereRand from equal generator states differs");
            copy = hc;
        }
        R     gcopy = r;
        float g     = IM::gaussRand (r);
        {
            float g2 = IM::gaussRand (gcopy);
            VP_REQUIRE (c, same<float> (g, g2), "sampler-not-deterministic", "gaussRand(" << rn << " seed " << seed << ") from equal generator states gives " << g << " and " << g2 << " (hidden state between calls?)");
            R ra = r, rb = gcopy;
            VP_REQUIRE (c, ra.probe () == rb.probe (), "sampler-state-not-deterministic", "gaussRand leaves different generator states for equal input states");
            V gsa = IM::gaussSphereRand<V> (ra);
            V gsb = IM::gaussSphereRand<V> (rb);
            for (int i = 0; i < N; ++i)
                VP_REQUIRE (c, same<T> (gsa[i], gsb[i]), "sampler-not-deterministic", "gaussSphereRand from equal generator states differs");
            VP_REQUIRE (c, ra.probe () == rb.probe (), "sampler-state-not-deterministic", "gaussSphereRand leaves different generator states for equal input states");
        }
        VP_REQUIRE (c, std::isfinite (g), "gaussRand-nonfinite", "gaussRand(" << rn << " seed " << seed << ") = " << g);
        c18_measure ("gauss-abs", std::fabs (g));
        VP_REQUIRE (c, std::fabs (g) < 16, "gaussRand-implausible", "gaussRand(" << rn << " seed " << seed << ") = " << g << " (|x| sqrt(-2 ln(l)/l) cannot exceed sqrt(-2 ln 2^-94) < 12)");

        V gs = IM::gaussSphereRand<V> (r);
        for (int i = 0; i < N; ++i)
            VP_REQUIRE (c, std::isfinite (gs[i]), "gaussSphereRand-nonfinite", "gaussSphereRand<" << vn << ">(" << rn << " seed " << seed << ") component " << i << " = " << gs[i]);
    }
}

VP_RANDOM (samplers, 500000, 5000000, "solidSphereRand / hollowSphereRand / gaussSphereRand <V2|V3|V4 x float|double> and gaussRand with Rand32 or Rand48 from a generated seed (0, 1, ULONG_MAX, 2^32.., random) after 0..1000 skipped draws, 4 consecutive draws each: components finite; solid: exact squared length <= 1 + (N+1) eps; hollow: | |v| - 1 | <= 4 eps; gauss: finite and |g| < 16; identical generator states give identical samples; every sampler terminates within 20000 draws; non-trivial = always")
{
    vp::Src&      s    = c.s;
    unsigned long seed = gen_seed (s);
    int           skip = s.coin () ? 0 : (int) s.below (1000);
    int           dim  = (int) s.below (3), flt = (int) s.below (2), rg = (int) s.below (2);
    VP_NOTE (c, "V" << (dim + 2) << (flt ? "f" : "d") << " " << (rg ? "Rand48" : "Rand32") << " seed 0x" << std::hex << seed << std::dec << " skip " << skip);
    c.label (LSM_V2 + dim);
    c.label (flt ? LSM_FLOAT : LSM_DOUBLE);
    c.label (rg ? LSM_RAND48 : LSM_RAND32);
    int sel = dim * 4 + flt * 2 + rg;
    switch (sel)
    {
        case 0: sampler_case<IM::V2d, double, 2, IM::Rand32> (c, "V2d", "Rand32", seed, skip, 4); break;
        case 1: sampler_case<IM::V2d, double, 2, IM::Rand48> (c, "V2d", "Rand48", seed, skip, 4); break;
        case 2: sampler_case<IM::V2f, float, 2, IM::Rand32> (c, "V2f", "Rand32", seed, skip, 4); break;
        case 3: sampler_case<IM::V2f, float, 2, IM::Rand48> (c, "V2f", "Rand48", seed, skip, 4); break;
        case 4: sampler_case<IM::V3d, double, 3, IM::Rand32> (c, "V3d", "Rand32", seed, skip, 4); break;
        case 5: sampler_case<IM::V3d, double, 3, IM::Rand48> (c, "V3d", "Rand48", seed, skip, 4); break;
        case 6: sampler_case<IM::V3f, float, 3, IM::Rand32> (c, "V3f", "Rand32", seed, skip, 4); break;
        case 7: sampler_case<IM::V3f, float, 3, IM::Rand48> (c, "V3f", "Rand48", seed, skip, 4); break;
        case 8: sampler_case<IM::V4d, double, 4, IM::Rand32> (c, "V4d", "Rand32", seed, skip, 4); break;
        case 9: sampler_case<IM::V4d, double, 4, IM::Rand48> (c, "V4d", "Rand48", seed, skip, 4); break;
        case 10: sampler_case<IM::V4f, float, 4, IM::Rand32> (c, "V4f", "Rand32", seed, skip, 4); break;
        default: sampler_case<IM::V4f, float, 4, IM::Rand48> (c, "V4f", "Rand48", seed, skip, 4); break;
    }
    c.nt ();
}
VP_LABELS (samplers, "V2", "V3", "V4", "float", "double", "Rand32", "Rand48")
VP_REQUIRE_LABELS (samplers, "V2", "V3", "V4", "float", "double", "Rand32", "Rand48")

// nextf(a,b) with bounds of opposite sign and magnitude in [max/2, max]: b - a is not representable, the result
// a(1-f) + bf still is (both terms are bounded by |a| and |b| and have opposite signs).
template <class R, class T> static void wide_case (vp::Ctx& c, const char* rn, unsigned long seed, int skip, T a, T b)
{
    R r (seed);
    for (int i = 0; i < skip; ++i)
        r.nexti ();
    const quad eps = FInfo<T>::eps ();
    for (int d = 0; d < 8; ++d)
    {
        R    copy = r;
        quad f    = (quad) copy.nextf ();
        T    iv   = r.nextf (a, b);
        VP_REQUIRE (c, std::isfinite (iv), "nextf-wide-nonfinite", rn << " seed " << seed << " skip " << skip << " draw " << d << ": nextf(" << a << "," << b << ") = " << iv << " with f = " << (double) f);
        quad lo = std::min (a, b), hi = std::max (a, b), M = std::max (std::fabs (a), std::fabs (b));
        VP_REQUIRE (c, (quad) iv >= lo - 2 * eps * M && (quad) iv <= hi + 2 * eps * M, "nextf-wide-interval", rn << " seed " << seed << " skip " << skip << " draw " << d << ": nextf(" << a << "," << b << ") = " << iv << " outside the interval by more than 2 eps max(|a|,|b|)");
        quad want = (quad) a * (1 - f) + (quad) b * f;
        quad bound = 2 * eps * (qabs ((quad) a) * (1 - f) + qabs ((quad) b) * f) + (quad) std::numeric_limits<T>::denorm_min ();
        VP_REQUIRE (c, qabs ((quad) iv - want) <= bound, "nextf-wide-value", rn << " seed " << seed << " skip " << skip << " draw " << d << ": nextf(" << a << "," << b << ") = " << iv << " expected a(1-f)+bf = " << qstr (want) << " with f = " << (double) f);
        VP_REQUIRE (c, r.nexti () == copy.nexti (), "nextf-wide-state", rn << ": nextf(a,b) and nextf() leave different generator states");
    }
}

VP_RANDOM (nextf_wide_intervals, 200000, 2000000, "Rand48::nextf(a,b) (double) and Rand32::nextf(a,b) (float) with a and b of opposite sign and |a|,|b| = max * k/2^24, k in [2^23, 2^24] (so in [max/2, max], incl. exactly +-max; b - a overflows, the interval does not), either order, from a generated seed after 0..1000 skipped draws, 8 consecutive draws: result finite, inside [min,max] +- 2 eps max(|a|,|b|), within 2 eps of a(1-f)+bf where f is nextf() of a copy of the generator, and the generator advances exactly as nextf() does; non-trivial = always")
{
    vp::Src&      s    = c.s;
    unsigned long seed = gen_seed (s);
    int           skip = s.coin () ? 0 : (int) s.below (1000);
    int           rg   = (int) s.below (2);
    unsigned      ka   = s.chance (8) ? (1u << 24) : (1u << 23) + (unsigned) s.below ((1u << 23) + 1);
    unsigned      kb   = s.chance (8) ? (1u << 24) : (1u << 23) + (unsigned) s.below ((1u << 23) + 1);
    bool          neg  = s.coin ();
    VP_NOTE (c, (rg ? "Rand48" : "Rand32") << " seed 0x" << std::hex << seed << std::dec << " skip " << skip << " a = " << (neg ? "-" : "+") << "max*" << ka << "/2^24 b = " << (neg ? "+" : "-") << "max*" << kb << "/2^24");
    c.label (rg ? 0 : 1);
    c.label (neg ? 2 : 3);
    if (ka == (1u << 24) || kb == (1u << 24)) c.label (4);
    if (rg)
    {
        double a = std::numeric_limits<double>::max () * ((double) ka / 16777216.0), b = std::numeric_limits<double>::max () * ((double) kb / 16777216.0);
        wide_case<IM::Rand48, double> (c, "Rand48", seed, skip, neg ? -a : a, neg ? b : -b);
    }
    else
    {
        float a = std::numeric_limits<float>::max () * ((float) ka / 16777216.0f), b = std::numeric_limits<float>::max () * ((float) kb / 16777216.0f);
        wide_case<IM::Rand32, float> (c, "Rand32", seed, skip, neg ? -a : a, neg ? b : -b);
    }
    c.nt ();
}
VP_LABELS (nextf_wide_intervals, "Rand48", "Rand32", "a_negative", "a_positive", "bound_is_max")
VP_REQUIRE_LABELS (nextf_wide_intervals, "Rand48", "Rand32", "a_negative", "a_positive", "bound_is_max")

VP_MAIN ("C18")
