// C15: Line3 / Plane3 / Sphere3 / triangle intersect / VecAlgo primitives satisfy their geometric definitions.
//
// Oracles are textbook formulas evaluated in __float128 on the *stored* (already rounded) inputs.
// Every tolerance is K * eps * (scale of the terms) * (conditioning factor of the configuration);
// the measured worst error on the unchanged tree (in the same units) is written next to each K.
#include "c15_geom.h"
#include <ImathLine.h>
#include <ImathLineAlgo.h>
#include <ImathPlane.h>
#include <ImathSphere.h>
#include <ImathVecAlgo.h>
#include <ImathBox.h>
#include <cfenv>

using namespace orc;
using namespace qg;
using namespace IMATH_NAMESPACE;

template <class T> static inline bool same3 (const Vec3<T>& a, const Vec3<T>& b) { return same<T> (a.x, b.x) && same<T> (a.y, b.y) && same<T> (a.z, b.z); }
template <class T> static inline bool fin3 (const Vec3<T>& a) { return std::isfinite (a.x) && std::isfinite (a.y) && std::isfinite (a.z); }
template <class T> static inline quad EPS () { return (quad) FInfo<T>::eps (); }

// =====================================================================================
// 1. Line3: set / constructor / operator() / closestPointTo(point) / distanceTo(point)
// =====================================================================================
enum
{
    LP_ON_LINE,
    LP_NEAR_LINE,
    LP_FAR_ALONG,
    LP_GENERIC,
    LP_AXIS
};

template <class T> static void line_point_case (vp::Ctx& c, const char* tn)
{
    typedef Vec3<T> V;
    vp::Src&        s   = c.s;
    const quad      eps = EPS<T> ();
    V               p0 = gen_pt<T> (s), dv = gen_offset<T> (s);
    V               p1 = p0 + dv;
    if (p1 == p0) p1.x += 1;
    Line3<T> l (p0, p1), l2;
    l2.pos = V (9, 9, 9);
    l2.dir = V (9, 9, 9);
    l2.set (p0, p1);
    int qcls = (int) s.below (4);
    T   tpar = gen_param<T> (s);
    V   q;
    switch (qcls)
    {
        case 0: q = l (tpar); break; // on the line (to rounding)
        case 1:
        {
            Q3 u = perp_to (q3 (l.dir), (quad) s.uniform (0, 6.283));
            q    = rnd<T> (q3 (l.pos) + q3 (l.dir) * (quad) tpar * (quad) 0.01 + u * (quad) std::pow (10.0, -(double) s.range (1, 6)));
            break;
        }
        case 2: q = l (tpar) + gen_offset<T> (s); break;
        default: q = gen_pt<T> (s); break;
    }
    VP_NOTE (c, tn << " p0=" << vs (p0) << " p1=" << vs (p1) << " q=" << vs (q) << " t=" << tpar << " qclass=" << qcls);
    c.label (qcls == 0 ? LP_ON_LINE : qcls == 1 ? LP_NEAR_LINE : qcls == 2 ? LP_FAR_ALONG : LP_GENERIC);
    if ((dv.x == 0) + (dv.y == 0) + (dv.z == 0) == 2) c.label (LP_AXIS);
    c.nt (true);

    // constructor and set() agree bit for bit; pos is the first point
    VP_REQUIRE (c, same3 (l.pos, l2.pos) && same3 (l.dir, l2.dir), "line-ctor-vs-set", tn << " Line3(p0,p1) != set(p0,p1): dir " << vs (l.dir) << " vs " << vs (l2.dir));
    VP_REQUIRE (c, same3 (l.pos, p0), "line-set/pos", tn << " pos " << vs (l.pos) << " != p0 " << vs (p0));
    Q3   P = q3 (l.pos), D = q3 (l.dir);
    Q3   DX = unit (q3 (p1) - q3 (p0));
    for (int i = 0; i < 3; ++i)
        QG_CHK (c, "line-set/dir", qabs (D[i] - DX[i]), eps, 6, tn << " dir[" << i << "] = " << l.dir[i] << " exact " << qstr (DX[i]) << " for p0=" << vs (p0) << " p1=" << vs (p1)); // measured worst 1.1 units
    QG_CHK (c, "line-set/dir-unit", qabs (len (D) - 1), eps, 6, tn << " |dir| = " << qstr (len (D))); // measured worst 1.3 units

    // operator(): pos + dir*t, every slot; bound = the two roundings
    V r = l (tpar);
    for (int i = 0; i < 3; ++i)
    {
        quad want = P[i] + D[i] * (quad) tpar;
        quad unit_ = eps * (qabs (P[i]) + qabs (D[i] * (quad) tpar)) + (quad) std::numeric_limits<T>::denorm_min ();
        QG_CHK (c, "line-eval", qabs ((quad) r[i] - want), unit_, 4, tn << " l(" << tpar << ")[" << i << "] = " << r[i] << " exact " << qstr (want)); // measured worst 0.98 units
    }
    // closestPointTo(point): on the line, residual perpendicular to dir; distanceTo its length
    Q3   Q  = q3 (q);
    quad tx = dot (Q - P, D) / dot (D, D);
    Q3   CX = P + D * tx;
    quad S  = len (Q - P) + len (P) + len (Q) + (quad) 1e-30;
    V    cp = l.closestPointTo (q);
    Q3   C  = q3 (cp);
    for (int i = 0; i < 3; ++i)
        QG_CHK (c, "line-closestPointTo-point", qabs (C[i] - CX[i]), eps * S, 8, tn << " closestPointTo(" << vs (q) << ")[" << i << "] = " << cp[i] << " exact " << qstr (CX[i]) << " line " << vs (l.pos) << "+t" << vs (l.dir)); // measured worst 1.4 units
    QG_CHK (c, "line-closestPointTo-point/on-line", len (cross (C - P, D)) / len (D), eps * S, 4, tn << " closestPointTo(" << vs (q) << ") = " << vs (cp) << " is off the line"); // measured worst 0.4 units
    QG_CHK (c, "line-closestPointTo-point/perp", qabs (dot (Q - C, D)), eps * S, 8, tn << " (q - closestPointTo(q)).dir != 0 for q=" << vs (q) << " cp=" << vs (cp)); // measured worst 1.4 units
    T    dist = l.distanceTo (q);
    quad dx   = len (Q - CX);
    QG_CHK (c, "line-distanceTo-point", qabs ((quad) dist - dx), eps * S, 8, tn << " distanceTo(" << vs (q) << ") = " << dist << " exact " << qstr (dx) << " line " << vs (l.pos) << "+t" << vs (l.dir)); // measured worst 1.4 units
    VP_REQUIRE (c, dist >= 0, "line-distanceTo-point/negative", tn << " distanceTo(point) = " << dist);
}

#define C15_LP_RULE "line through two generated points (axis-aligned / integer / random offsets 2^-3..2^3), query point on the line, 1e-1..1e-6 off it, far along it, or generic; oracle = quad projection; all cases non-trivial"
VP_RANDOM (line_point_f, 400000, 4000000, C15_LP_RULE) { line_point_case<float> (c, "float"); }
VP_LABELS (line_point_f, "point_on_line", "point_near_line", "point_far_along", "point_generic", "axis_aligned_dir")
VP_REQUIRE_LABELS (line_point_f, "point_on_line", "point_near_line", "point_far_along", "point_generic", "axis_aligned_dir")
VP_RANDOM (line_point_d, 400000, 4000000, C15_LP_RULE) { line_point_case<double> (c, "double"); }
VP_LABELS (line_point_d, "point_on_line", "point_near_line", "point_far_along", "point_generic", "axis_aligned_dir")
VP_REQUIRE_LABELS (line_point_d, "point_on_line", "point_near_line", "point_far_along", "point_generic", "axis_aligned_dir")

// =====================================================================================
// 2. Line3 x Line3: closestPoints, closestPointTo(line), distanceTo(line)
// =====================================================================================
enum
{
    LL_SKEW,
    LL_INTERSECTING,
    LL_PERP,
    LL_AXIS,
    LL_NEARPAR,
    LL_PARALLEL,
    LL_COINCIDENT,
    LL_STRONG,
    LL_WEAK,
    LL_REPORTED_FALSE,
    LL_DIST_STRICT
};
#define C15_LL_LABELS "skew", "intersecting", "perpendicular", "axis_aligned", "nearly_parallel", "exactly_parallel", "coincident", "well_conditioned(strict)", "ill_conditioned(weak)", "closestPoints_false", "distanceTo_line_checked"

template <class T> static void line_line_case (vp::Ctx& c, const char* tn)
{
    typedef Vec3<T> V;
    vp::Src&        s   = c.s;
    const quad      eps = EPS<T> ();
    int             cls = (int) s.below (8);
    V               p1 = gen_pt<T> (s), dv1 = gen_offset<T> (s);
    Line3<T>        l1 (p1, p1 + dv1), l2;
    if (l1.dir.length2 () == 0) l1.dir = V (1, 0, 0);
    V pos2 = gen_pt<T> (s);
    switch (cls)
    {
        case 1: // both lines pass (to rounding) through a common point
        {
            V x  = l1 (gen_param<T> (s) * (T) 0.01);
            V d2 = gen_offset<T> (s);
            T a = (T) s.uniform (0.25, 2), b = (T) s.uniform (0.25, 2);
            l2   = Line3<T> (x - d2 * a, x + d2 * b);
            c.label (LL_INTERSECTING);
            break;
        }
        case 2: // perpendicular directions (d2 = normalised d1 x u, assigned directly)
        {
            V u = gen_offset<T> (s);
            V d = l1.dir % u;
            if (d.length () < (T) 0.05 * u.length ()) d = l1.dir % V (l1.dir.y, l1.dir.z, -l1.dir.x) + l1.dir % V (1, 2, 3);
            l2.pos = pos2;
            l2.dir = d.normalized ();
            c.label (LL_PERP);
            break;
        }
        case 3: // axis-aligned unit directions, perpendicular or parallel
        {
            int i = (int) s.below (3), j = (int) s.below (3);
            l1.dir    = V (0, 0, 0);
            l1.dir[i] = s.coin () ? (T) 1 : (T) -1;
            l2.pos    = pos2;
            l2.dir    = V (0, 0, 0);
            l2.dir[j] = s.coin () ? (T) 1 : (T) -1;
            c.label (LL_AXIS);
            break;
        }
        case 4: // nearly parallel: angle 10^-k
        {
            quad th = (quad) std::pow (10.0, -(double) s.range (1, 7)) * (quad) s.uniform (1, 3);
            Q3   u  = perp_to (q3 (l1.dir), (quad) s.uniform (0, 6.283));
            Q3   d  = unit (q3 (l1.dir)) + u * th;
            if (s.coin ()) d = -d;
            if (s.coin ())
                l2 = Line3<T> (pos2, pos2 + rnd<T> (d * (quad) s.uniform (0.5, 4)));
            else
            {
                l2.pos = pos2;
                l2.dir = rnd<T> (unit (d));
            }
            c.label (LL_NEARPAR);
            break;
        }
        case 5: // exactly parallel
            l2.pos = pos2;
            l2.dir = s.coin () ? l1.dir : -l1.dir;
            c.label (LL_PARALLEL);
            break;
        case 6: // coincident
            l2.pos = l1 (gen_param<T> (s) * (T) 0.01);
            l2.dir = s.coin () ? l1.dir : -l1.dir;
            c.label (LL_COINCIDENT);
            break;
        default:
            l2 = Line3<T> (pos2, pos2 + gen_offset<T> (s));
            c.label (LL_SKEW);
            break;
    }
    if (l2.dir.length2 () == 0) l2.dir = V (0, 1, 0);
    VP_NOTE (c, tn << " class=" << cls << " line1=" << vs (l1.pos) << "+t" << vs (l1.dir) << " line2=" << vs (l2.pos) << "+t" << vs (l2.dir));

    // exact closest points for lines pos + t*dir (dir as stored, not assumed to be exactly unit)
    Q3   P1 = q3 (l1.pos), D1 = q3 (l1.dir), P2 = q3 (l2.pos), D2 = q3 (l2.dir), W = P1 - P2;
    quad A = dot (D1, D1), B = dot (D1, D2), C = dot (D2, D2), D = dot (D1, W), E = dot (D2, W);
    quad den = A * C - B * B; // = |d1 x d2|^2 >= 0
    quad s2  = den / (A * C); // sin^2 of the angle
    if (s2 < 0) s2 = 0;
    // exactly parallel directions: the cross product of two T vectors is computed without rounding in quad when it
    // vanishes (106-bit products, exact cancellation), so this test is exact
    Q3   CR = cross (D1, D2);
    bool exact_parallel = CR.x == 0 && CR.y == 0 && CR.z == 0;
    quad t1x = 0, t2x = 0, distx;
    if (!exact_parallel && den > 0)
    {
        t1x   = (B * E - C * D) / den;
        t2x   = (A * E - B * D) / den;
        distx = len (W + D1 * t1x - D2 * t2x); // (only used when sin^2 >= 1024 eps, far above quad noise)
    }
    else
        distx = len (W - D1 * (D / A)); // parallel: distance from a point of one line to the other
    Q3   X1 = P1 + D1 * t1x, X2 = P2 + D2 * t2x;
    quad S  = len (W) + len (P1) + len (P2) + (quad) 1e-30;
    // conditioning: the parameters are quotients by sin^2; strict checks while K*eps/sin^2 stays small
    bool strong = s2 >= 1024 * eps;
    c.label (strong ? LL_STRONG : LL_WEAK);
    c.nt (true);
    quad unitP = eps * (S + qabs (t1x) + qabs (t2x)) / (s2 > 0 ? s2 : 1); // positions
    quad unitE = eps * (S / (s2 > 0 ? s2 : 1) + qabs (t1x) + qabs (t2x)); // connecting segment

    // ---- closestPoints
    V    a (7, 7, 7), b (7, 7, 7);
    bool ok = closestPoints (l1, l2, a, b);
    if (!ok) c.label (LL_REPORTED_FALSE);
    if (strong)
    {
        VP_REQUIRE (c, ok, "closestPoints/false-for-nonparallel", tn << " closestPoints returned false for lines at sin^2=" << (double) s2);
        Q3 a_ = q3 (a), b_ = q3 (b), e = a_ - b_;
        for (int i = 0; i < 3; ++i)
        {
            QG_CHK (c, "closestPoints/point1", qabs (a_[i] - X1[i]), unitP, 8, tn << " point1[" << i << "] = " << a[i] << " exact " << qstr (X1[i]) << " sin^2=" << (double) s2); // measured worst 1.7 units
            QG_CHK (c, "closestPoints/point2", qabs (b_[i] - X2[i]), unitP, 8, tn << " point2[" << i << "] = " << b[i] << " exact " << qstr (X2[i]) << " sin^2=" << (double) s2); // measured worst 1.7 units
        }
        QG_CHK (c, "closestPoints/point1-on-line1", len (cross (a_ - P1, D1)) / len (D1), eps * (len (P1) + len (a_ - P1)) + (quad) 1e-300, 4, tn << " point1 " << vs (a) << " is off line1"); // measured worst 0.73 units
        QG_CHK (c, "closestPoints/point2-on-line2", len (cross (b_ - P2, D2)) / len (D2), eps * (len (P2) + len (b_ - P2)) + (quad) 1e-300, 4, tn << " point2 " << vs (b) << " is off line2"); // measured worst 0.76 units
        QG_CHK (c, "closestPoints/perp-dir1", qabs (dot (e, D1)), unitE, 6, tn << " (point1-point2).dir1 = " << qstr (dot (e, D1)) << " sin^2=" << (double) s2); // measured worst 0.88 units
        QG_CHK (c, "closestPoints/perp-dir2", qabs (dot (e, D2)), unitE, 6, tn << " (point1-point2).dir2 = " << qstr (dot (e, D2)) << " sin^2=" << (double) s2); // measured worst 0.92 units
        QG_CHK (c, "closestPoints/distance", qabs (len (e) - distx), unitE, 6, tn << " |point1-point2| = " << qstr (len (e)) << " true distance " << qstr (distx)); // measured worst 0.85 units
    }
    else if (ok)
    {
        // parallel / nearly parallel and not reported: the division must at least have been guarded
        VP_REQUIRE (c, fin3 (a) && fin3 (b), "closestPoints/nonfinite", tn << " closestPoints returned true with non-finite points " << vs (a) << " " << vs (b) << " sin^2=" << (double) s2);
    }
    // ---- closestPointTo(line)
    {
        V cp = l1.closestPointTo (l2);
        VP_REQUIRE (c, fin3 (cp), "line-closestPointTo-line/nonfinite", tn << " closestPointTo(line) = " << vs (cp) << " sin^2=" << (double) s2);
        Q3 cq = q3 (cp);
        QG_CHK (c, "line-closestPointTo-line/on-line", len (cross (cq - P1, D1)) / len (D1), eps * (len (P1) + len (cq - P1)) + (quad) 1e-300, 4, tn << " closestPointTo(line) = " << vs (cp) << " is off the line"); // measured worst 0.73 units
        if (strong)
            for (int i = 0; i < 3; ++i)
                QG_CHK (c, "line-closestPointTo-line", qabs (cq[i] - X1[i]), unitP, 8, tn << " closestPointTo(line)[" << i << "] = " << cp[i] << " exact " << qstr (X1[i]) << " sin^2=" << (double) s2); // measured worst 1.7 units
    }
    // ---- distanceTo(line): LAST, because the unchanged tree fails it for non-perpendicular pairs
    {
        T    got  = l1.distanceTo (l2);
        quad sn   = sqrtq (s2);
        // a correct evaluation divides by |d1 x d2|: error ~ eps*S/sin.  For exactly parallel lines the point-line
        // distance is expected (error ~ eps*S).  Nearly parallel, not exactly parallel lines are skipped: their true
        // distance is attained ~|w|/sin away and cannot be resolved in T (nor demanded of any implementation).
        quad unitD = eps * S / (strong ? sn : 1);
        bool check = strong || exact_parallel;
        if (check)
        {
            c.label (LL_DIST_STRICT);
            quad err = qabs ((quad) got - distx);
            if (qabs (B) <= 4 * eps * sqrtq (A * C)) QG_MEAS ("line-distanceTo-line(perpendicular pairs)", err / unitD);
            if (!(err <= 8 * unitD)) // measured worst on perpendicular pairs 1.16 units
            {
                // Known defect of the unchanged tree (DESIGN.md section 6 item 3): the cross product is not
                // normalised, so the result is distance*sin(angle) (0 for parallel lines).  Predicate: the
                // directions are not perpendicular and the value equals |(d1 x d2).(p2-p1)|.
                quad unn     = qabs (dot (cross (D1, D2), P2 - P1));
                bool nonperp = qabs (B) > 4 * eps * sqrtq (A * C);
                if (nonperp && qabs ((quad) got - unn) <= 8 * eps * S)
                    VP_FAIL (c, "line-distanceTo-line/unnormalised-cross", tn << " distanceTo(line) = " << got << " but the distance is " << qstr (distx) << " (value equals the unnormalised |(d1 x d2).(p2-p1)| = " << qstr (unn) << "; sin = " << (double) sn << ")");
                VP_FAIL (c, "line-distanceTo-line", tn << " distanceTo(line) = " << got << " exact " << qstr (distx) << " [error " << (double) (err / unitD) << " units, limit 8]");
            }
        }
        VP_REQUIRE (c, got >= 0 || got != got, "line-distanceTo-line/negative", tn << " distanceTo(line) = " << got);
    }
}
#define C15_LL_RULE "pairs of lines from 8 classes (skew, intersecting, perpendicular, axis-aligned, nearly parallel at 1e-1..1e-7, exactly parallel, coincident); oracle = quad closest-point parameters on the stored lines; strict checks when sin^2 >= 1024 eps, otherwise only 'reported or finite'; all cases non-trivial"
VP_RANDOM (line_line_f, 600000, 6000000, C15_LL_RULE) { line_line_case<float> (c, "float"); }
VP_LABELS (line_line_f, C15_LL_LABELS)
VP_REQUIRE_LABELS (line_line_f, "skew", "intersecting", "perpendicular", "axis_aligned", "nearly_parallel", "exactly_parallel", "coincident", "well_conditioned(strict)", "ill_conditioned(weak)", "closestPoints_false", "distanceTo_line_checked")
VP_FUZZABLE (line_line_f)
VP_RANDOM (line_line_d, 600000, 6000000, C15_LL_RULE) { line_line_case<double> (c, "double"); }
VP_LABELS (line_line_d, C15_LL_LABELS)
VP_REQUIRE_LABELS (line_line_d, "skew", "intersecting", "perpendicular", "axis_aligned", "nearly_parallel", "exactly_parallel", "coincident", "well_conditioned(strict)", "ill_conditioned(weak)", "closestPoints_false", "distanceTo_line_checked")
VP_FUZZABLE (line_line_d)

// =====================================================================================
// 3. Plane3: set overloads / constructors, distanceTo, reflectPoint, reflectVector,
//    intersect / intersectT, operator*(Plane3, Matrix44), operator-
// =====================================================================================
enum
{
    PL_THREE_POINTS,
    PL_POINT_NORMAL,
    PL_NORMAL_DIST,
    PL_SLIVER,
    PL_LINE_STRONG,
    PL_LINE_GRAZING,
    PL_LINE_PARALLEL_FALSE,
    PL_M_RIGID,
    PL_M_SCALED,
    PL_M_GENERAL,
    PL_M_MIRROR,
    PL_SIDE_CHECKED
};
#define C15_PL_LABELS "from_three_points", "from_point_normal", "from_normal_distance", "sliver_triangle", "line_hit_well_conditioned", "line_grazing", "line_parallel_reported", "matrix_rigid", "matrix_scaled", "matrix_general_affine", "matrix_mirror", "side_preserved_checked"

template <class T> static void plane_case (vp::Ctx& c, const char* tn)
{
    typedef Vec3<T> V;
    vp::Src&        s   = c.s;
    const quad      eps = EPS<T> ();
    int             how = (int) s.below (3);
    Plane3<T>       P, P2;
    P2.normal   = V (9, 9, 9);
    P2.distance = 9;
    quad condN  = 1; // conditioning of the normal (1/sin of the angle between the two edges)
    if (how == 0)
    {
        V    a  = gen_pt<T> (s), e1 = gen_offset<T> (s);
        int  bk = (int) s.below (4);
        quad beta = bk <= 1 ? (quad) s.uniform (0.2, 2) : (quad) std::pow (10.0, -(double) (bk)) * (quad) s.uniform (1, 5); // bk 2,3 -> ~1e-2, 1e-3
        Q3   E1 = q3 (e1);
        Q3   E2 = E1 * (quad) s.uniform (-2, 2) + perp_to (E1, (quad) s.uniform (0, 6.283)) * (len (E1) * beta);
        V    b = a + e1, cc = a + rnd<T> (E2);
        P  = Plane3<T> (a, b, cc);
        P2.set (a, b, cc);
        VP_NOTE (c, tn << " Plane3(p1,p2,p3) p1=" << vs (a) << " p2=" << vs (b) << " p3=" << vs (cc));
        c.label (PL_THREE_POINTS);
        Q3   A = q3 (a), F1 = q3 (b) - A, F2 = q3 (cc) - A, N = cross (F1, F2);
        quad sn = len (N) / (len (F1) * len (F2));
        if (!(sn > 64 * eps)) return; // collinear after rounding: not a plane (cannot happen with the ranges above)
        condN = 1 / sn;
        if (sn < (quad) 0.05) c.label (PL_SLIVER);
        Q3 NX = unit (N);
        Q3 Ns = q3 (P.normal);
        for (int i = 0; i < 3; ++i)
            QG_CHK (c, "plane-set3/normal", qabs (Ns[i] - NX[i]), eps * condN, 6, tn << " normal[" << i << "] = " << P.normal[i] << " exact " << qstr (NX[i]) << " for (p2-p1)x(p3-p1), sin=" << (double) sn); // measured worst 1 units
        // zero signed distance to the three defining points: stored plane evaluated exactly, and Imath's own distanceTo
        const V* pts[3] = { &a, &b, &cc };
        for (int k = 0; k < 3; ++k)
        {
            Q3   X     = q3 (*pts[k]);
            quad unit_ = eps * (adot (Ns, X) + qabs ((quad) P.distance) + (len (F1) + len (F2)) * condN);
            QG_CHK (c, "plane-set3/defining-point-distance", qabs (dot (Ns, X) - (quad) P.distance), unit_, 4, tn << " defining point " << k << " " << vs (*pts[k]) << " is at distance " << qstr (dot (Ns, X) - (quad) P.distance) << " from plane " << vs (P.normal) << "," << P.distance); // measured worst 0.61 units
            QG_CHK (c, "plane-set3/distanceTo-defining-point", qabs ((quad) P.distanceTo (*pts[k])), unit_, 4, tn << " distanceTo(defining point " << k << ") = " << P.distanceTo (*pts[k])); // measured worst 0.87 units
        }
    }
    else if (how == 1)
    {
        V pt = gen_pt<T> (s), nn = gen_offset<T> (s) * std::ldexp ((T) 1, (int) s.range (-6, 6));
        P    = Plane3<T> (pt, nn);
        P2.set (pt, nn);
        VP_NOTE (c, tn << " Plane3(point,normal) point=" << vs (pt) << " normal=" << vs (nn));
        c.label (PL_POINT_NORMAL);
        Q3 NX = unit (q3 (nn)), Ns = q3 (P.normal);
        for (int i = 0; i < 3; ++i)
            QG_CHK (c, "plane-set-pn/normal", qabs (Ns[i] - NX[i]), eps, 6, tn << " normal[" << i << "] = " << P.normal[i] << " exact " << qstr (NX[i])); // measured worst 0.9 units
        quad unit_ = eps * adot (Ns, q3 (pt)) + (quad) 1e-300;
        QG_CHK (c, "plane-set-pn/distance", qabs ((quad) P.distance - dot (Ns, q3 (pt))), unit_, 6, tn << " distance = " << P.distance << " exact normal.point " << qstr (dot (Ns, q3 (pt)))); // measured worst 1.2 units
        QG_CHK (c, "plane-set-pn/distanceTo-defining-point", qabs ((quad) P.distanceTo (pt)), unit_, 4, tn << " distanceTo(defining point) = " << P.distanceTo (pt)); // measured worst 0 units
    }
    else
    {
        V nn = gen_offset<T> (s) * std::ldexp ((T) 1, (int) s.range (-6, 6));
        T d  = gen::nice<T> (s);
        P    = Plane3<T> (nn, d);
        P2.set (nn, d);
        VP_NOTE (c, tn << " Plane3(normal,distance) normal=" << vs (nn) << " d=" << d);
        c.label (PL_NORMAL_DIST);
        Q3 NX = unit (q3 (nn)), Ns = q3 (P.normal);
        for (int i = 0; i < 3; ++i)
            QG_CHK (c, "plane-set-nd/normal", qabs (Ns[i] - NX[i]), eps, 6, tn << " normal[" << i << "] = " << P.normal[i] << " exact " << qstr (NX[i])); // measured worst 0.86 units
        VP_REQUIRE (c, same<T> (P.distance, d), "plane-set-nd/distance", tn << " distance " << P.distance << " != " << d);
        // the defining point d*normal lies on it
        V dp = rnd<T> (NX * (quad) d);
        QG_CHK (c, "plane-set-nd/distanceTo-defining-point", qabs ((quad) P.distanceTo (dp)), eps * qabs ((quad) d) + (quad) 1e-300, 12, tn << " distanceTo(d*normal) = " << P.distanceTo (dp)); // measured worst 2 units
    }
    c.nt (true);
    VP_REQUIRE (c, same3 (P.normal, P2.normal) && same<T> (P.distance, P2.distance), "plane-ctor-vs-set", tn << " constructor and set() differ: " << vs (P.normal) << "," << P.distance << " vs " << vs (P2.normal) << "," << P2.distance);
    Q3   N = q3 (P.normal);
    quad d = (quad) P.distance;
    QG_CHK (c, "plane-unit-normal", qabs (len (N) - 1), eps, 6, tn << " |normal| = " << qstr (len (N))); // measured worst 1.2 units

    // ---- distanceTo / reflectPoint / reflectVector
    V    q  = gen_pt<T> (s);
    Q3   Q  = q3 (q);
    quad sd = dot (N, Q) - d;
    quad Sq = adot (N, Q) + qabs (d) + (quad) 1e-300;
    T    dq = P.distanceTo (q);
    QG_CHK (c, "plane-distanceTo", qabs ((quad) dq - sd), eps * Sq, 8, tn << " distanceTo(" << vs (q) << ") = " << dq << " exact " << qstr (sd)); // measured worst 1.5 units
    {
        V    r  = P.reflectPoint (q);
        Q3   RX = Q - N * (2 * sd);
        quad Sr = len (Q) + qabs (d) + qabs (sd) + (quad) 1e-300;
        for (int i = 0; i < 3; ++i)
            QG_CHK (c, "plane-reflectPoint", qabs ((quad) r[i] - RX[i]), eps * Sr, 8, tn << " reflectPoint(" << vs (q) << ")[" << i << "] = " << r[i] << " exact " << qstr (RX[i])); // measured worst 1.6 units
        QG_CHK (c, "plane-reflectPoint/negates-distance", qabs ((quad) P.distanceTo (r) + (quad) dq), eps * Sr, 16, tn << " distanceTo(reflectPoint(q)) = " << P.distanceTo (r) << " but distanceTo(q) = " << dq); // measured worst 2.9 units
        V rr = P.reflectPoint (r);
        for (int i = 0; i < 3; ++i)
            QG_CHK (c, "plane-reflectPoint/involution", qabs ((quad) rr[i] - Q[i]), eps * Sr, 24, tn << " reflectPoint(reflectPoint(q))[" << i << "] = " << rr[i] << " q = " << q[i]); // measured worst 5 units
    }
    {
        V    v  = gen_offset<T> (s) * std::ldexp ((T) 1, (int) s.range (-4, 4));
        Q3   Vq = q3 (v);
        V    r  = P.reflectVector (v);
        Q3   RX = N * (2 * dot (N, Vq)) - Vq;
        quad Sv = len (Vq);
        for (int i = 0; i < 3; ++i)
            QG_CHK (c, "plane-reflectVector", qabs ((quad) r[i] - RX[i]), eps * Sv, 12, tn << " reflectVector(" << vs (v) << ")[" << i << "] = " << r[i] << " exact 2(n.v)n-v " << qstr (RX[i])); // measured worst 2.1 units
        QG_CHK (c, "plane-reflectVector/length", qabs (len (q3 (r)) - Sv), eps * Sv, 24, tn << " |reflectVector(v)| = " << qstr (len (q3 (r))) << " |v| = " << qstr (Sv)); // measured worst 5.1 units
        V rr = P.reflectVector (r);
        for (int i = 0; i < 3; ++i)
            QG_CHK (c, "plane-reflectVector/involution", qabs ((quad) rr[i] - Vq[i]), eps * Sv, 48, tn << " reflectVector(reflectVector(v))[" << i << "] = " << rr[i] << " v = " << v[i]); // measured worst 10 units
        V ra = reflect (v, P.normal); // ImathVecAlgo: same documented formula
        for (int i = 0; i < 3; ++i)
            QG_CHK (c, "plane-reflectVector/vs-VecAlgo-reflect", qabs ((quad) ra[i] - (quad) r[i]), eps * Sv, 32, tn << " reflectVector(v)[" << i << "] = " << r[i] << " but reflect(v,normal) = " << ra[i]); // measured worst 6 units
    }
    // ---- line / plane intersection
    {
        int      lc = (int) s.below (4);
        Line3<T> l;
        l.pos = gen_pt<T> (s);
        bool must_be_false = false;
        if (lc == 0) // in-plane direction of an axis-aligned plane: n.dir is exactly 0 in T arithmetic
        {
            int k = 0;
            for (int i = 1; i < 3; ++i)
                if (std::abs (P.normal[i]) > std::abs (P.normal[k])) k = i;
            bool axis = true;
            for (int i = 0; i < 3; ++i)
                if (i != k && P.normal[i] != 0) axis = false;
            V dv = gen_offset<T> (s);
            if (axis)
            {
                dv[k] = 0;
                if (dv.length2 () == 0) dv[(k + 1) % 3] = 1;
                must_be_false = true;
                l.dir         = dv.normalized ();
            }
            else
                l = Line3<T> (l.pos, l.pos + dv);
        }
        else if (lc == 1) // grazing: angle 10^-k to the plane
        {
            Q3   u  = perp_to (N, (quad) s.uniform (0, 6.283));
            quad th = (quad) std::pow (10.0, -(double) s.range (1, sizeof (T) == 8 ? 15 : 8));
            l.dir   = rnd<T> (unit (u + unit (N) * (s.coin () ? th : -th)));
        }
        else
            l = Line3<T> (l.pos, l.pos + gen_offset<T> (s));
        if (l.dir.length2 () == 0) l.dir = V (1, 0, 0);
        VP_NOTE (c, "line=" << vs (l.pos) << "+t" << vs (l.dir));
        Q3   LP = q3 (l.pos), LD = q3 (l.dir);
        quad nd = dot (N, LD);
        V    ip (7, 7, 7);
        T    t  = 7;
        bool ok = P.intersect (l, ip), okT = P.intersectT (l, t);
        VP_REQUIRE (c, ok == okT, "plane-intersect-vs-intersectT", tn << " intersect returns " << ok << ", intersectT " << okT);
        if (must_be_false) VP_REQUIRE (c, !ok, "plane-intersect/parallel-true", tn << " line " << vs (l.dir) << " lies parallel to plane " << vs (P.normal) << " but intersect() returned true, t=" << t);
        if (!ok)
        {
            c.label (PL_LINE_PARALLEL_FALSE);
            VP_REQUIRE (c, qabs (nd) <= 4 * eps * adot (N, LD) + (quad) 1e-300, "plane-intersect/false-for-crossing-line", tn << " intersect() returned false although normal.dir = " << qstr (nd));
        }
        else
        {
            VP_REQUIRE (c, same3 (ip, l (t)), "plane-intersect/point-vs-T", tn << " intersect() point " << vs (ip) << " != line(intersectT) " << vs (l (t)));
            quad and_ = adot (N, LD);
            bool strong = qabs (nd) >= 1024 * eps * and_;
            c.label (strong ? PL_LINE_STRONG : PL_LINE_GRAZING);
            if (strong)
            {
                quad tx  = (d - dot (N, LP)) / nd;
                quad ut  = eps * ((adot (N, LP) + qabs (d)) / qabs (nd) + qabs (tx) * and_ / qabs (nd)) + (quad) 1e-300;
                QG_CHK (c, "plane-intersectT", qabs ((quad) t - tx), ut, 6, tn << " intersectT = " << t << " exact " << qstr (tx) << " normal.dir=" << (double) nd); // measured worst 1.1 units
                Q3   IX = LP + LD * tx;
                quad up = ut + eps * (len (LP) + qabs (tx));
                for (int i = 0; i < 3; ++i)
                    QG_CHK (c, "plane-intersect/point", qabs ((quad) ip[i] - IX[i]), up, 4, tn << " intersect point[" << i << "] = " << ip[i] << " exact " << qstr (IX[i])); // measured worst 0.66 units
                QG_CHK (c, "plane-intersect/on-plane", qabs (dot (N, q3 (ip)) - d), up, 4, tn << " intersect point " << vs (ip) << " is at distance " << qstr (dot (N, q3 (ip)) - d) << " from the plane"); // measured worst 0.49 units
                QG_CHK (c, "plane-intersect/on-line", len (cross (q3 (ip) - LP, LD)) / len (LD), eps * (len (LP) + len (q3 (ip) - LP)) + (quad) 1e-300, 4, tn << " intersect point " << vs (ip) << " is off the line"); // measured worst 0.86 units
            }
        }
    }
    // ---- operator- : the opposite half space
    {
        Plane3<T> M = -P;
        VP_REQUIRE (c, same<T> (M.distance, -P.distance), "plane-negate/distance", tn << " (-plane).distance = " << M.distance << " for distance " << P.distance);
        for (int i = 0; i < 3; ++i)
            QG_CHK (c, "plane-negate/normal", qabs ((quad) M.normal[i] + N[i]), eps, 6, tn << " (-plane).normal[" << i << "] = " << M.normal[i] << " for " << P.normal[i]); // measured worst 1.5 units
        QG_CHK (c, "plane-negate/distanceTo", qabs ((quad) M.distanceTo (q) + sd), eps * Sq, 12, tn << " (-plane).distanceTo(q) = " << M.distanceTo (q) << " plane.distanceTo(q) exact " << qstr (sd)); // measured worst 2.2 units
    }
    // ---- plane * matrix
    {
        int  mk     = (int) s.range (MK_IDENT, MK_GENERAL);
        bool mirror = s.chance (64);
        Matrix44<T> M = gen_affine<T> (s, mk, mirror);
        VP_NOTE (c, "M(" << MK_NAME[mk] << (mirror ? ",mirrored" : "") << ")=" << mstr (M, 4));
        c.label (mirror ? PL_M_MIRROR : mk <= MK_RIGID ? PL_M_RIGID : mk <= MK_NUSCALE ? PL_M_SCALED : PL_M_GENERAL);
        Plane3<T> PM = P * M;
        Q3        NM = q3 (PM.normal);
        quad      dM = (quad) PM.distance;
        QG_CHK (c, "plane-times-matrix/unit-normal", qabs (len (NM) - 1), eps, 6, tn << " |(plane*M).normal| = " << qstr (len (NM))); // measured worst 1.3 units
        QM<3> A   = linpart (M);
        quad  kap = cond3 (A);
        quad  nA  = norm_inf (A);
        Q3    O   = unit (N) * (d / len (N)); // point of the plane nearest the origin
        Q3    u1 = perp_to (N, 0), u2 = unit (cross (N, u1));
        Q3    tr ((quad) M[3][0], (quad) M[3][1], (quad) M[3][2]);
        for (int k = 0; k < 3; ++k)
        {
            quad al = (quad) s.uniform (-4, 4), be = (quad) s.uniform (-4, 4);
            Q3   X  = O + u1 * al + u2 * be;
            Q3   XM = xform (X, M);
            quad unit_ = eps * kap * (nA * (len (X) + 1) + len (tr));
            QG_CHK (c, "plane-times-matrix/contains", qabs (dot (NM, XM) - dM), unit_, 32, tn << " transformed plane point " << qs (XM) << " is at distance " << qstr (dot (NM, XM) - dM) << " from plane*M = " << vs (PM.normal) << "," << PM.distance << " cond=" << (double) kap); // measured worst 6.2 units
            // a point off the plane stays on its side when det > 0
            quad h  = (quad) s.uniform (0.1, 4) * (s.coin () ? 1 : -1);
            Q3   Y  = X + unit (N) * h;
            quad sM = dot (NM, xform (Y, M)) - dM;
            if (!mirror)
            {
                c.label (PL_SIDE_CHECKED);
                VP_REQUIRE (c, (sM > 0) == (h > 0) && sM != 0, "plane-times-matrix/side", tn << " point at signed distance " << (double) h << " from the plane is at " << qstr (sM) << " from plane*M (det>0)");
            }
        }
    }
}
#define C15_PL_RULE "planes built by each constructor/set overload (three points incl. slivers with sin 1e-2..1e-3, point+normal, normal+distance with normals of length 2^-9..2^9); query points/vectors O(1); lines generic, grazing at 1e-1..1e-8 and exactly parallel; affine matrices identity/translation/rigid/scaled/general, 1/4 mirrored; oracle = quad evaluation on the stored plane; all cases non-trivial"
VP_RANDOM (plane_f, 400000, 4000000, C15_PL_RULE) { plane_case<float> (c, "float"); }
VP_LABELS (plane_f, C15_PL_LABELS)
VP_REQUIRE_LABELS (plane_f, C15_PL_LABELS)
VP_RANDOM (plane_d, 400000, 4000000, C15_PL_RULE) { plane_case<double> (c, "double"); }
VP_LABELS (plane_d, C15_PL_LABELS)
VP_REQUIRE_LABELS (plane_d, C15_PL_LABELS)

// =====================================================================================
// 4. Sphere3: intersectT / intersect (smallest non-negative ray parameter), circumscribe
// =====================================================================================
enum
{
    SP_OUTSIDE_HIT,
    SP_OUTSIDE_BEHIND,
    SP_INSIDE,
    SP_ON_SURFACE,
    SP_MISS,
    SP_TANGENT,
    SP_BAND,
    SP_TRUE,
    SP_FALSE,
    SP_SECOND_ROOT
};
#define C15_SP_LABELS "origin_outside_hit", "origin_outside_sphere_behind", "origin_inside", "origin_on_surface", "clear_miss", "near_tangent", "band_skipped", "returned_true", "returned_false", "larger_root_expected"

template <class T> static void sphere_check (vp::Ctx& c, const char* tn, const Sphere3<T>& sp, const Line3<T>& l);

template <class T> static void sphere_case (vp::Ctx& c, const char* tn)
{
    typedef Vec3<T> V;
    vp::Src&        s   = c.s;
    V               cen = gen_pt<T> (s);
    T               rad;
    switch (s.below (4))
    {
        case 0: rad = (T) std::pow (10.0, -(double) s.range (1, 3)) * (T) s.uniform (1, 5); break;
        case 1: rad = (T) s.uniform (20, 200); break;
        default: rad = (T) s.uniform (0.5, 4); break;
    }
    Sphere3<T> sp (cen, rad);
    Q3         Cn = q3 (cen);
    quad       R  = (quad) rad;
    int        cls = (int) s.below (8);
    Line3<T>   l;
    Q3         u  = unit (q3 (gen_offset<T> (s)));
    switch (cls)
    {
        case 0: // origin outside, aimed at a point strictly inside
        case 1: // same, direction reversed: the sphere is behind the origin
        {
            Q3 o   = Cn + u * (R * (quad) s.uniform (1.1, 4));
            Q3 tgt = Cn + unit (q3 (gen_offset<T> (s))) * (R * (quad) s.uniform (0, 0.9));
            l      = Line3<T> (rnd<T> (o), rnd<T> (tgt));
            if (cls == 1) l.dir = -l.dir;
            break;
        }
        case 2: // origin inside
            l = Line3<T> (rnd<T> (Cn + u * (R * (quad) s.uniform (0, 0.95))), gen_pt<T> (s));
            break;
        case 3: // origin on the surface (to rounding), aimed inwards / outwards / tangentially
        {
            Q3 o = Cn + u * R;
            Q3 d;
            switch (s.below (3))
            {
                case 0: d = -u + perp_to (u, (quad) s.uniform (0, 6.283)) * (quad) s.uniform (0, 2); break;
                case 1: d = u + perp_to (u, (quad) s.uniform (0, 6.283)) * (quad) s.uniform (0, 2); break;
                default: d = perp_to (u, (quad) s.uniform (0, 6.283)); break;
            }
            l.pos = rnd<T> (o);
            l.dir = rnd<T> (unit (d));
            break;
        }
        case 4: // clear miss: closest approach 1.05..4 radii
        case 5: // near tangent: closest approach r*(1 +- 10^-k)
        {
            quad f  = cls == 4 ? (quad) s.uniform (1.05, 4) : 1 + (quad) std::pow (10.0, -(double) s.range (1, 12)) * (s.coin () ? 1 : -1);
            Q3   m  = Cn + u * (R * f); // point of closest approach
            Q3   d  = perp_to (u, (quad) s.uniform (0, 6.283));
            quad back = (quad) s.uniform (-2, 6) * R;
            l.pos   = rnd<T> (m - d * back);
            l.dir   = rnd<T> (d);
            break;
        }
        case 6: // through the centre
            l = Line3<T> (gen_pt<T> (s), cen);
            if (s.coin ()) l.dir = -l.dir;
            break;
        default: l = Line3<T> (gen_pt<T> (s), gen_pt<T> (s)); break;
    }
    if (!(l.dir.length2 () > 0)) l.dir = V (0, 0, 1);
    VP_NOTE (c, tn << " sphere centre=" << vs (cen) << " r=" << rad << " line=" << vs (l.pos) << "+t" << vs (l.dir) << " class=" << cls);
    sphere_check<T> (c, tn, sp, l);
}

// the checks of sphere_case (shared with far_sphere_*): no draws in here.  All units are formed from the
// differences pos - centre (which the library forms first, without rounding error worth mentioning), so they do
// not grow with the distance of the configuration from the origin - except the final evaluation pos + dir*t.
template <class T> static void sphere_check (vp::Ctx& c, const char* tn, const Sphere3<T>& sp, const Line3<T>& l)
{
    typedef Vec3<T> V;
    const quad      eps = EPS<T> ();
    const T         rad = sp.radius;
    Q3              Cn  = q3 (sp.center);
    quad            R   = (quad) rad;

    // exact roots of |pos + t dir - centre|^2 = r^2
    Q3   P = q3 (l.pos), D = q3 (l.dir), Vv = P - Cn;
    quad a = dot (D, D), hb = dot (D, Vv), cc = dot (Vv, Vv) - R * R;
    quad disc = hb * hb - a * cc;                            // quarter discriminant
    quad Qs   = hb * hb + a * (dot (Vv, Vv) + R * R);        // size of the cancelling terms
    quad t0 = 0, t1 = 0, sq = 0;
    if (disc >= 0)
    {
        sq = sqrtq (disc);
        t0 = (-hb - sq) / a;
        t1 = (-hb + sq) / a;
    }
    // error of the computed t: eps*|B| from the sum, eps*Q/sqrt(disc) from the discriminant
    quad ut = disc > 0 ? eps * (qabs (hb) + sq + Qs / sq) / a : (quad) 1e300;
    bool band = qabs (disc) <= 64 * eps * Qs;                       // discriminant sign not decidable
    if (!band && disc > 0 && (qabs (t0) <= 16 * ut || qabs (t1) <= 16 * ut)) band = true; // root sign not decidable
    bool expect = !band && disc > 0 && t1 > 0;
    quad tx     = t0 > 0 ? t0 : t1;
    quad dO     = len (Vv);
    if (band)
        c.label (SP_BAND);
    else
    {
        if (disc < 0) c.label (qabs (len (cross (Vv, D)) / len (D) / R - 1) < (quad) 0.01 ? SP_TANGENT : SP_MISS);
        else if (dO < R * (quad) 0.999) c.label (SP_INSIDE);
        else if (dO < R * (quad) 1.001) c.label (SP_ON_SURFACE);
        else c.label (t1 > 0 ? SP_OUTSIDE_HIT : SP_OUTSIDE_BEHIND);
        if (disc > 0 && qabs (len (cross (Vv, D)) / len (D) / R - 1) < (quad) 0.01) c.label (SP_TANGENT);
        if (expect && !(t0 > 0)) c.label (SP_SECOND_ROOT);
    }
    c.nt (!band);
    T    t  = -7;
    V    ip (7, 7, 7);
    bool okT = sp.intersectT (l, t);
    bool ok  = sp.intersect (l, ip);
    c.label (okT ? SP_TRUE : SP_FALSE);
    VP_REQUIRE (c, ok == okT, "sphere-intersect-vs-intersectT", tn << " intersect returns " << ok << ", intersectT " << okT);
    if (okT)
    {
        VP_REQUIRE (c, t >= 0, "sphere-intersectT/negative-t", tn << " intersectT returned true with t = " << t);
        VP_REQUIRE (c, same3 (ip, l (t)), "sphere-intersect/point-vs-T", tn << " intersect() point " << vs (ip) << " != line(t) " << vs (l (t)));
    }
    if (band && okT && disc > 64 * eps * Qs) // root sign undecidable: t must still be one of the two roots
        QG_CHK (c, "sphere-intersectT/t-is-a-root", qmin (qabs ((quad) t - t0), qabs ((quad) t - t1)), ut, 6, tn << " intersectT t = " << t << " is neither root " << qstr (t0) << ", " << qstr (t1)); // measured worst 0.88 units
    if (!band)
    {
        VP_REQUIRE (c, okT == expect, "sphere-intersectT/result", tn << " intersectT returned " << okT << " (t=" << t << ") but the exact roots are " << (disc > 0 ? qstr (t0) + ", " + qstr (t1) : std::string ("none")) << " disc/Q=" << (double) (disc / Qs));
        if (okT)
        {
            // the smallest non-negative root, and the point is on the sphere
            QG_CHK (c, "sphere-intersectT/t", qabs ((quad) t - tx), ut, 8, tn << " intersectT t = " << t << " but the smallest non-negative root is " << qstr (tx) << " (roots " << qstr (t0) << ", " << qstr (t1) << ")"); // measured worst 1.5 units
            quad rr = len (q3 (ip) - Cn);
            QG_CHK (c, "sphere-intersect/on-sphere", qabs (rr - R), ut * len (D) + eps * (len (P) + qabs (tx) + len (Cn)), 6, tn << " intersection point " << vs (ip) << " is at distance " << qstr (rr) << " from the centre, r = " << rad); // measured worst 1.1 units
        }
    }
}
#define C15_SP_RULE "spheres with r in 1e-3..200, lines from 8 classes (origin outside aimed in / away, inside, on the surface aimed in/out/tangent, clear miss, tangent within 1e-1..1e-12, through the centre, generic); oracle = exact roots in quad; non-trivial = discriminant and root signs decidable (|disc| > 64 eps Q and |root| > 16 error bounds), the rest is counted as band_skipped"
VP_RANDOM (sphere_f, 500000, 5000000, C15_SP_RULE) { sphere_case<float> (c, "float"); }
VP_LABELS (sphere_f, C15_SP_LABELS)
VP_REQUIRE_LABELS (sphere_f, C15_SP_LABELS)
VP_FUZZABLE (sphere_f)
VP_RANDOM (sphere_d, 500000, 5000000, C15_SP_RULE) { sphere_case<double> (c, "double"); }
VP_LABELS (sphere_d, C15_SP_LABELS)
VP_REQUIRE_LABELS (sphere_d, C15_SP_LABELS)
VP_FUZZABLE (sphere_d)

enum
{
    CB_POINT,
    CB_FLAT,
    CB_FAR_SMALL,
    CB_GENERIC
};
template <class T> static void circ_check (vp::Ctx& c, const char* tn, const Vec3<T>& mn, const Vec3<T>& mx);
template <class T> static void circumscribe_case (vp::Ctx& c, const char* tn)
{
    typedef Vec3<T> V;
    vp::Src&        s   = c.s;
    V               mn, mx;
    int             cls = (int) s.below (4);
    switch (cls)
    {
        case 0: mn = mx = gen_pt<T> (s); break;
        case 1: // flat in one or two axes
        {
            mn = gen_pt<T> (s);
            mx = mn;
            for (int i = 0; i < 3; ++i)
                if (s.coin ()) mx[i] = mn[i] + (T) s.uniform (0, 4);
            break;
        }
        case 2: // small box far from the origin
        {
            mn = gen_pt<T> (s) * (T) std::ldexp (1.0, (int) s.range (4, 12));
            for (int i = 0; i < 3; ++i)
                mx[i] = mn[i] + (T) s.uniform (0, 1);
            break;
        }
        default:
            mn = gen_pt<T> (s) * (T) std::ldexp (1.0, (int) s.range (-8, 8));
            for (int i = 0; i < 3; ++i)
                mx[i] = mn[i] + (T) (s.uniform (0, 8) * std::ldexp (1.0, (int) s.range (-8, 8)));
            break;
    }
    VP_NOTE (c, tn << " box min=" << vs (mn) << " max=" << vs (mx));
    c.label (cls == 0 ? CB_POINT : cls == 1 ? CB_FLAT : cls == 2 ? CB_FAR_SMALL : CB_GENERIC);
    c.nt (cls != 0);
    circ_check<T> (c, tn, mn, mx);
}
// the checks of circumscribe_case (shared with far_sphere_*): no draws in here
template <class T> static void circ_check (vp::Ctx& c, const char* tn, const Vec3<T>& mn, const Vec3<T>& mx)
{
    typedef Vec3<T> V;
    const quad      eps = EPS<T> ();
    Box<V>          box (mn, mx);
    Sphere3<T>      sp (V (5, 5, 5), (T) 55);
    sp.circumscribe (box);
    Q3   Cn = q3 (sp.center), A = q3 (mn), B = q3 (mx), mid = (A + B) * (quad) 0.5;
    quad mag = qmax (amax (A), amax (B)) + (quad) 1e-300;
    for (int i = 0; i < 3; ++i)
        QG_CHK (c, "sphere-circumscribe/center", qabs (Cn[i] - mid[i]), eps * (qabs (A[i]) + qabs (B[i])) + (quad) 1e-300, 2, tn << " center[" << i << "] = " << sp.center[i] << " box midpoint " << qstr (mid[i])); // measured worst 0.25 units
    quad half = len (B - A) / 2;
    quad unit_ = eps * (mag + half);
    VP_REQUIRE (c, sp.radius >= 0, "sphere-circumscribe/negative-radius", tn << " radius = " << sp.radius);
    // encloses every corner (up to the rounding of centre and radius), and is tight
    for (int k = 0; k < 8; ++k)
    {
        Q3   X ((k & 1) ? B.x : A.x, (k & 2) ? B.y : A.y, (k & 4) ? B.z : A.z);
        quad dd = len (X - Cn);
        QG_CHK (c, "sphere-circumscribe/encloses", qmax (dd - (quad) sp.radius, 0), unit_, 8, tn << " corner " << qs (X) << " is at " << qstr (dd) << " from the centre, radius = " << sp.radius); // measured worst 1.6 units
    }
    QG_CHK (c, "sphere-circumscribe/tight", qabs ((quad) sp.radius - half), unit_, 4, tn << " radius = " << sp.radius << " half diagonal = " << qstr (half)); // measured worst 0.8 units
}
#define C15_CB_RULE "boxes: single point, flat, small box far from the origin (offset 2^4..2^12), generic with scales 2^-8..2^8; oracle = quad corner distances; non-trivial = box with non-zero size"
VP_RANDOM (circumscribe_f, 300000, 3000000, C15_CB_RULE) { circumscribe_case<float> (c, "float"); }
VP_LABELS (circumscribe_f, "point_box", "flat_box", "far_small_box", "generic_box")
VP_REQUIRE_LABELS (circumscribe_f, "point_box", "flat_box", "far_small_box", "generic_box")
VP_RANDOM (circumscribe_d, 300000, 3000000, C15_CB_RULE) { circumscribe_case<double> (c, "double"); }
VP_LABELS (circumscribe_d, "point_box", "flat_box", "far_small_box", "generic_box")
VP_REQUIRE_LABELS (circumscribe_d, "point_box", "flat_box", "far_small_box", "generic_box")

// =====================================================================================
// 5. line / triangle intersect()
// =====================================================================================
enum
{
    TR_INTERIOR,
    TR_NEAR_EDGE,
    TR_NEAR_VERTEX,
    TR_OUTSIDE,
    TR_FRONT,
    TR_BACK,
    TR_NEG_T,
    TR_GRAZING,
    TR_THIN,
    TR_DEGENERATE,
    TR_PARALLEL,
    TR_BAND,
    TR_ILLCOND,
    TR_TRUE,
    TR_FALSE
};
#define C15_TR_LABELS "hit_interior", "hit_near_edge", "hit_near_vertex", "passes_outside", "front_facing", "back_facing", "hit_behind_line_origin", "grazing_line", "thin_triangle", "degenerate_triangle", "line_parallel_to_plane", "band_skipped", "ill_conditioned_skipped", "returned_true", "returned_false"

template <class T> static void tri_check (vp::Ctx& c, const char* tn, const Vec3<T>& v0, const Vec3<T>& v1, const Vec3<T>& v2, const Line3<T>& l, bool degenerate, bool inplane, bool farform);

template <class T> static void tri_case (vp::Ctx& c, const char* tn)
{
    typedef Vec3<T> V;
    vp::Src&        s   = c.s;
    int             shape = (int) s.below (8);
    V               v0, v1, v2;
    bool            degenerate = false, inplane = false;
    if (shape == 0) // exactly degenerate on the integer lattice: collinear or repeated vertices
    {
        v0 = V ((T) s.range (-4, 4), (T) s.range (-4, 4), (T) s.range (-4, 4));
        V e ((T) s.range (-3, 3), (T) s.range (-3, 3), (T) s.range (-3, 3));
        v1 = v0 + e * (T) s.range (-2, 2);
        v2 = v0 + e * (T) s.range (-2, 2);
        degenerate = true;
        c.label (TR_DEGENERATE);
    }
    else if (shape == 1) // triangle in a plane z = const, line direction with z == 0: parallel
    {
        T z = (T) s.range (-4, 4);
        v0  = V (gen::nice<T> (s), gen::nice<T> (s), z);
        v1  = V (v0.x + (T) s.uniform (0.5, 3), v0.y + (T) s.uniform (-1, 1), z);
        v2  = V (v0.x + (T) s.uniform (-1, 1), v0.y + (T) s.uniform (0.5, 3), z);
        if (s.coin ()) std::swap (v1, v2);
        inplane = true;
        c.label (TR_PARALLEL);
    }
    else
    {
        v0 = gen_pt<T> (s);
        V    e1 = gen_offset<T> (s);
        Q3   E1 = q3 (e1);
        quad beta = shape <= 5 ? (quad) s.uniform (0.2, 2) : (quad) std::pow (10.0, -(double) s.range (2, 4)) * (quad) s.uniform (1, 5);
        Q3   E2 = E1 * (quad) s.uniform (-1.5, 2.5) + perp_to (E1, (quad) s.uniform (0, 6.283)) * (len (E1) * beta);
        v1 = v0 + e1;
        v2 = v0 + rnd<T> (E2);
    }
    Q3 A = q3 (v0), B = q3 (v1), Cq = q3 (v2);
    // generated barycentrics of the intended hit
    int  bcls = (int) s.below (6);
    quad b[3];
    {
        double x = s.uniform (0.05, 1), y = s.uniform (0.05, 1), z = s.uniform (0.05, 1);
        b[0] = x, b[1] = y, b[2] = z;
        quad sm = (sizeof (T) == 8) ? (quad) std::pow (10.0, -(double) s.range (1, 14)) : (quad) std::pow (10.0, -(double) s.range (1, 7));
        if (s.coin ()) sm = -sm;
        int k = (int) s.below (3);
        switch (bcls)
        {
            case 1: b[k] = sm * (b[0] + b[1] + b[2]); break;                                                     // near an edge (inside or outside by 10^-k)
            case 2: b[k] = sm * b[(k + 2) % 3]; b[(k + 1) % 3] = (s.coin () ? sm : -sm) * b[(k + 2) % 3]; break; // near a vertex
            case 3: b[k] = -(quad) s.uniform (0.05, 2) * (b[0] + b[1] + b[2]); break;                            // clearly outside
            case 4: b[0] = b[1] = b[2] = 1; break;                                                               // centroid
            default: break;
        }
        quad sum = b[0] + b[1] + b[2];
        for (int i = 0; i < 3; ++i)
            b[i] /= sum;
    }
    Q3 H = A * b[0] + B * b[1] + Cq * b[2];
    Q3 Nt = cross (B - A, Cq - A);
    Line3<T> l;
    int      gz = 0;
    if (degenerate)
        l = Line3<T> (gen_pt<T> (s), rnd<T> (H) + gen_offset<T> (s) * (T) (s.coin () ? 0 : 1));
    else if (inplane)
    {
        V dv = gen_offset<T> (s);
        dv.z = 0;
        if (dv.length2 () == 0) dv.x = 1;
        l.pos = s.coin () ? rnd<T> (H) : gen_pt<T> (s); // in the triangle's plane, or anywhere
        l.dir = dv.normalized ();
    }
    else
    {
        Q3   n  = unit (Nt);
        gz      = (int) s.below (4);
        quad cs = gz <= 2 ? (quad) s.uniform (0.2, 1) : (quad) std::pow (10.0, -(double) s.range (2, 4));
        if (s.coin ()) cs = -cs;
        Q3   dir = n * cs + perp_to (n, (quad) s.uniform (0, 6.283)) * sqrtq (1 - cs * cs);
        quad L   = (quad) s.uniform (0.5, 8) * (s.chance (64) ? -1 : 1); // negative: the hit lies behind pos
        V    o   = rnd<T> (H - dir * L);
        l        = Line3<T> (o, rnd<T> (H));
        if (L < 0) l.dir = -l.dir, c.label (TR_NEG_T);
        if (gz == 3) c.label (TR_GRAZING);
    }
    if (!(l.dir.length2 () > 0)) l.dir = V (0, 0, 1);
    VP_NOTE (c, tn << " v0=" << vs (v0) << " v1=" << vs (v1) << " v2=" << vs (v2) << " line=" << vs (l.pos) << "+t" << vs (l.dir) << " shape=" << shape << " baryclass=" << bcls);
    tri_check<T> (c, tn, v0, v1, v2, l, degenerate, inplane, false);
}

// the checks of tri_case (shared with far_tri_*): no draws in here.  farform selects the position unit that
// separates the coordinate magnitude (rounding of pos + dir*t, not amplified) from the quantities the library forms
// from differences (v0 - pos, edges), which are the only ones amplified by 1/|n.dir|.
template <class T> static void tri_check (vp::Ctx& c, const char* tn, const Vec3<T>& v0, const Vec3<T>& v1, const Vec3<T>& v2, const Line3<T>& l, bool degenerate, bool inplane, bool farform)
{
    typedef Vec3<T> V;
    const quad      eps = EPS<T> ();
    Q3              A = q3 (v0), B = q3 (v1), Cq = q3 (v2);
    Q3              Nt = cross (B - A, Cq - A);

    V    pt (7, 7, 7), bary (7, 7, 7);
    bool front = false;
    bool hit   = intersect (l, v0, v1, v2, pt, bary, front);
    c.label (hit ? TR_TRUE : TR_FALSE);
    if (degenerate)
    {
        c.nt (true);
        VP_REQUIRE (c, !hit, "tri-intersect/degenerate-true", tn << " intersect() returned true for a zero-area triangle");
        return;
    }
    if (inplane)
    {
        c.nt (true);
        VP_REQUIRE (c, !hit, "tri-intersect/parallel-true", tn << " intersect() returned true for a line parallel to the triangle's plane");
        return;
    }
    // exact hit point and barycentrics for the stored line and vertices
    Q3   P = q3 (l.pos), D = q3 (l.dir);
    Q3   Ndoc = cross (Cq - B, B - A); // the documented normal (v2-v1)%(v1-v0)
    quad nd   = dot (unit (Ndoc), unit (D));
    quad Lmax = qmax (len (B - A), qmax (len (Cq - B), len (A - Cq)));
    quad hmin = len (Nt) / Lmax; // smallest altitude
    if (hmin < (quad) 0.05 * Lmax) c.label (TR_THIN);
    quad Sv   = qmax (len (A), qmax (len (B), len (Cq)));
    if (!(qabs (nd) > 0) || !(hmin > 0))
    {
        c.label (TR_ILLCOND);
        return;
    }
    quad tx = dot (Ndoc, A - P) / dot (Ndoc, D);
    Q3   X  = P + D * tx;
    quad nn = dot (Nt, Nt);
    quad bx[3] = { dot (cross (B - X, Cq - X), Nt) / nn, dot (cross (Cq - X, A - X), Nt) / nn, dot (cross (A - X, B - X), Nt) / nn };
    quad bmin  = qmin (bx[0], qmin (bx[1], bx[2]));
    // conditioning: rounding of the hit ~ eps*(|pos|+|t|+|v|)/|n.dir|; the computed normal edge1 x edge0 is off by
    // ~eps/sin(edge0,edge1), which tilts the plane about v0 and moves the hit by that angle * |X-v0| / |n.dir|;
    // barycentrics divide the position error by the smallest altitude
    quad condN = len (Cq - B) * len (B - A) / len (Ndoc);
    quad upos  = (Sv + len (P) + qabs (tx)) * (1 + 1 / qabs (nd)) + condN * len (X - A) / qabs (nd);
    if (farform) upos = (Sv + len (P) + qabs (tx)) + (len (A - P) + qabs (tx)) / qabs (nd) + condN * len (X - A) / qabs (nd);
    quad kap   = upos / hmin;
    quad delta = 4 * eps * kap;
    if (!(delta <= (quad) (1.0 / 64)))
    {
        c.label (TR_ILLCOND);
        return;
    }
    bool expect;
    if (bmin > delta)
        expect = true;
    else if (bmin < -delta)
        expect = false;
    else
    {
        c.label (TR_BAND);
        return;
    }
    c.nt (true);
    if (expect)
    {
        int small = (bx[0] < (quad) 0.02) + (bx[1] < (quad) 0.02) + (bx[2] < (quad) 0.02);
        c.label (small >= 2 ? TR_NEAR_VERTEX : small == 1 ? TR_NEAR_EDGE : TR_INTERIOR);
    }
    else
        c.label (TR_OUTSIDE);
    VP_REQUIRE (c, hit == expect, farform ? "tri-intersect/result/far" : "tri-intersect/result", tn << " intersect() returned " << hit << " but the exact barycentrics of the plane hit are (" << qstr (bx[0]) << ", " << qstr (bx[1]) << ", " << qstr (bx[2]) << "), band " << (double) delta);
    if (!hit) return;
    quad up = eps * upos;
    for (int i = 0; i < 3; ++i)
        QG_CHK (c, (farform ? "tri-intersect/point/far" : "tri-intersect/point"), qabs ((quad) pt[i] - X[i]), up, 2, tn << " pt[" << i << "] = " << pt[i] << " exact " << qstr (X[i]) << " n.dir=" << (double) nd); // measured worst 0.42 units (far form: 0.45)
    for (int i = 0; i < 3; ++i)
        QG_CHK (c, (farform ? "tri-intersect/barycentric/far" : "tri-intersect/barycentric"), qabs ((quad) bary[i] - bx[i]), eps * kap, 2, tn << " barycentric[" << i << "] = " << bary[i] << " exact " << qstr (bx[i]) << " cond=" << (double) kap); // measured worst 0.35 units (far form: 0.36)
    Q3 rep = A * (quad) bary.x + B * (quad) bary.y + Cq * (quad) bary.z;
    for (int i = 0; i < 3; ++i)
        QG_CHK (c, (farform ? "tri-intersect/barycentric-reproduces-pt/far" : "tri-intersect/barycentric-reproduces-pt"), qabs (rep[i] - (quad) pt[i]), eps * kap * Lmax, 2, tn << " v0*b.x+v1*b.y+v2*b.z [" << i << "] = " << qstr (rep[i]) << " but pt = " << pt[i]); // measured worst 0.25 units (far form: 0.30)
    bool fx = dot (D, Ndoc) < 0;
    c.label (fx ? TR_FRONT : TR_BACK);
    VP_REQUIRE (c, front == fx, farform ? "tri-intersect/front/far" : "tri-intersect/front", tn << " front = " << front << " but dir.((v2-v1)x(v1-v0)) = " << qstr (dot (D, Ndoc)));
}
#define C15_TR_RULE "triangles (regular, thin with altitude 1e-2..1e-4 of the base, exactly degenerate, in a z=const plane with an in-plane line) x hit points from generated barycentrics (interior, 10^-k inside/outside an edge or vertex, clearly outside, centroid) x lines through the hit from either side, incl. grazing (|n.dir| 1e-2..1e-4) and hits behind pos; oracle = quad plane hit + area barycentrics; non-trivial = min barycentric outside +-4 eps cond (the band is skipped and counted), or degenerate/parallel"
VP_RANDOM (tri_f, 600000, 6000000, C15_TR_RULE) { tri_case<float> (c, "float"); }
VP_LABELS (tri_f, C15_TR_LABELS)
VP_REQUIRE_LABELS (tri_f, "hit_interior", "hit_near_edge", "hit_near_vertex", "passes_outside", "front_facing", "back_facing", "hit_behind_line_origin", "grazing_line", "thin_triangle", "degenerate_triangle", "line_parallel_to_plane", "returned_true", "returned_false")
VP_FUZZABLE (tri_f)
VP_RANDOM (tri_d, 600000, 6000000, C15_TR_RULE) { tri_case<double> (c, "double"); }
VP_LABELS (tri_d, C15_TR_LABELS)
VP_REQUIRE_LABELS (tri_d, "hit_interior", "hit_near_edge", "hit_near_vertex", "passes_outside", "front_facing", "back_facing", "hit_behind_line_origin", "grazing_line", "thin_triangle", "degenerate_triangle", "line_parallel_to_plane", "returned_true", "returned_false")
VP_FUZZABLE (tri_d)

// =====================================================================================
// 6. ImathVecAlgo project / orthogonal / reflect / closestVertex; ImathLineAlgo closestVertex / rotatePoint
// =====================================================================================
enum
{
    VA_VEC2,
    VA_VEC3,
    VA_VEC4,
    VA_PARALLEL,
    VA_PERP,
    VA_SCALED
};
template <class Vec, class T, int N> static void vecalgo_case (vp::Ctx& c, const char* tn)
{
    vp::Src&   s   = c.s;
    const quad eps = EPS<T> ();
    Vec        sv, tv;
    int        rel = (int) s.below (4);
    int        sc  = (int) s.range (-12, 12);
    for (int i = 0; i < N; ++i)
    {
        sv[i] = gen::nice<T> (s);
        tv[i] = gen::nice<T> (s);
    }
    bool z = true;
    for (int i = 0; i < N; ++i)
        if (sv[i] != 0) z = false;
    if (z) sv[0] = 1;
    if (rel == 0) // t parallel to s
        tv = sv * (T) s.uniform (-3, 3);
    else if (rel == 1) // t perpendicular to s in the first two non-trivial coordinates
    {
        for (int i = 0; i < N; ++i)
            tv[i] = 0;
        tv[0] = -sv[1];
        tv[1] = sv[0];
    }
    Vec ss = sv * std::ldexp ((T) 1, sc); // project/orthogonal do not depend on |s|
    VP_NOTE (c, tn << " s=" << vstr (ss, N) << " t=" << vstr (tv, N));
    c.label (rel == 0 ? VA_PARALLEL : rel == 1 ? VA_PERP : VA_SCALED);
    c.nt (true);
    quad S[N], Tq[N], s2 = 0, st = 0, t2 = 0;
    for (int i = 0; i < N; ++i)
    {
        S[i]  = (quad) ss[i];
        Tq[i] = (quad) tv[i];
        s2 += S[i] * S[i];
        st += S[i] * Tq[i];
        t2 += Tq[i] * Tq[i];
    }
    quad lt = sqrtq (t2), ls = sqrtq (s2);
    quad ut = eps * lt + (quad) 1e-300;
    Vec  pr = project (ss, tv), og = orthogonal (ss, tv);
    quad dots = 0;
    for (int i = 0; i < N; ++i)
    {
        quad px = S[i] * st / s2;
        QG_CHK (c, "project", qabs ((quad) pr[i] - px), ut, 16, tn << " project(s,t)[" << i << "] = " << pr[i] << " exact " << qstr (px)); // measured worst 2.9 units
        QG_CHK (c, "orthogonal", qabs ((quad) og[i] - (Tq[i] - px)), ut, 16, tn << " orthogonal(s,t)[" << i << "] = " << og[i] << " exact " << qstr (Tq[i] - px)); // measured worst 2.9 units
        QG_CHK (c, "project+orthogonal", qabs ((quad) pr[i] + (quad) og[i] - Tq[i]), ut, 2, tn << " project+orthogonal != t in slot " << i); // measured worst 0.5 units
        dots += (quad) og[i] * S[i] / ls;
    }
    QG_CHK (c, "orthogonal/perp", qabs (dots), ut, 16, tn << " orthogonal(s,t).s/|s| = " << qstr (dots)); // measured worst 3.1 units
    // reflect(a, n) = 2 (n^.a) n^ - a : involution, length preserving
    Vec  rf = reflect (tv, ss);
    quad l2 = 0;
    for (int i = 0; i < N; ++i)
    {
        quad rx = 2 * S[i] * st / s2 - Tq[i];
        QG_CHK (c, "reflect", qabs ((quad) rf[i] - rx), ut, 32, tn << " reflect(t,s)[" << i << "] = " << rf[i] << " exact " << qstr (rx)); // measured worst 5.8 units
        l2 += (quad) rf[i] * (quad) rf[i];
    }
    QG_CHK (c, "reflect/length", qabs (sqrtq (l2) - lt), ut, 32, tn << " |reflect(t,s)| = " << qstr (sqrtq (l2)) << " |t| = " << qstr (lt)); // measured worst 6.2 units
    Vec rr = reflect (rf, ss);
    for (int i = 0; i < N; ++i)
        QG_CHK (c, "reflect/involution", qabs ((quad) rr[i] - Tq[i]), ut, 64, tn << " reflect(reflect(t,s),s)[" << i << "] = " << rr[i] << " t = " << tv[i]); // measured worst 12 units
    // closestVertex(v0,v1,v2,p): one of the three, none strictly closer (beyond rounding of the squared distances)
    Vec v[3];
    int tie = (int) s.below (4);
    for (int k = 0; k < 3; ++k)
        for (int i = 0; i < N; ++i)
            v[k][i] = tie == 0 ? (T) s.range (-3, 3) : gen::nice<T> (s);
    Vec p;
    for (int i = 0; i < N; ++i)
        p[i] = tie == 0 ? (T) s.range (-3, 3) : gen::nice<T> (s);
    if (tie == 1) v[(int) s.below (3)] = p;
    Vec  cv = closestVertex (v[0], v[1], v[2], p);
    int  which = -1;
    quad d2[3], dmin = (quad) 1e300, pm = 0;
    for (int k = 0; k < 3; ++k)
    {
        d2[k] = 0;
        bool eq = true;
        for (int i = 0; i < N; ++i)
        {
            quad d = (quad) v[k][i] - (quad) p[i];
            d2[k] += d * d;
            if (!same<T> (cv[i], v[k][i])) eq = false;
            pm = qmax (pm, qmax (qabs ((quad) v[k][i]), qabs ((quad) p[i])));
        }
        if (eq && (which < 0 || d2[k] < d2[which])) which = k;
        dmin = qmin (dmin, d2[k]);
    }
    VP_REQUIRE (c, which >= 0, "closestVertex/not-a-vertex", tn << " closestVertex returned " << vstr (cv, N) << " which is none of the three vertices");
    // squared distances are computed with relative error (N+2) eps, on differences with absolute error eps*pm
    quad slack = (quad) (2 * (N + 2)) * eps * (d2[which] + pm * sqrtq (d2[which])) + (quad) 1e-300;
    VP_REQUIRE (c, d2[which] <= dmin + slack, "closestVertex/not-closest", tn << " closestVertex(" << vstr (v[0], N) << "," << vstr (v[1], N) << "," << vstr (v[2], N) << "; p=" << vstr (p, N) << ") = vertex " << which << " at squared distance " << qstr (d2[which]) << " but the minimum is " << qstr (dmin));
    if (tie == 0) // integer lattice: squared distances are exact, so no slack at all
        VP_REQUIRE (c, d2[which] == dmin, "closestVertex/not-closest", tn << " (exact lattice) closestVertex returned vertex " << which << " at squared distance " << qstr (d2[which]) << ", minimum " << qstr (dmin));
}
#define C15_VA_RULE "vectors with components from small integers / eighths / uniform [-4,4], s scaled by 2^-12..2^12, t generic, parallel or perpendicular to s; triangles generic, on the integer lattice (exact ties) or with a vertex equal to p; oracle = quad formulas; all cases non-trivial"
#define C15_VA(name, Vec, T, N, lab)                                                     \
    VP_RANDOM (name, 300000, 3000000, C15_VA_RULE)                                       \
    {                                                                                    \
        c.label (lab);                                                                   \
        vecalgo_case<Vec, T, N> (c, #Vec);                                               \
    }                                                                                    \
    VP_LABELS (name, "Vec2", "Vec3", "Vec4", "t_parallel_s", "t_perpendicular_s", "t_generic") \
    VP_REQUIRE_LABELS (name, "t_parallel_s", "t_perpendicular_s", "t_generic")
C15_VA (vecalgo_v2f, V2f, float, 2, VA_VEC2)
C15_VA (vecalgo_v3f, V3f, float, 3, VA_VEC3)
C15_VA (vecalgo_v4f, V4f, float, 4, VA_VEC4)
C15_VA (vecalgo_v2d, V2d, double, 2, VA_VEC2)
C15_VA (vecalgo_v3d, V3d, double, 3, VA_VEC3)
C15_VA (vecalgo_v4d, V4d, double, 4, VA_VEC4)

enum
{
    RP_ON_AXIS,
    RP_NEAR_AXIS,
    RP_GENERIC,
    RP_QUARTER,
    RP_BIG_ANGLE,
    CVL_TIE
};
template <class T> static void linealgo_case (vp::Ctx& c, const char* tn)
{
    typedef Vec3<T> V;
    vp::Src&        s   = c.s;
    const quad      eps = EPS<T> ();
    V               p0  = gen_pt<T> (s);
    Line3<T>        l (p0, p0 + gen_offset<T> (s));
    if (!(l.dir.length2 () > 0)) l.dir = V (1, 0, 0);
    Q3 P = q3 (l.pos), D = q3 (l.dir), Du = unit (D);
    // ---- rotatePoint
    int pc = (int) s.below (4);
    V   p;
    switch (pc)
    {
        case 0: p = l (gen_param<T> (s) * (T) 0.01); break;
        case 1: p = rnd<T> (P + D * (quad) s.uniform (-4, 4) + perp_to (D, (quad) s.uniform (0, 6.283)) * (quad) std::pow (10.0, -(double) s.range (1, 5))); break;
        default: p = gen_pt<T> (s); break;
    }
    T   ang;
    int ac = (int) s.below (4);
    switch (ac)
    {
        case 0: ang = (T) ((double) s.range (-4, 4) * 1.5707963267948966); break;
        case 1: ang = (T) s.uniform (-50, 50); break;
        default: ang = (T) s.uniform (-6.3, 6.3); break;
    }
    VP_NOTE (c, tn << " line=" << vs (l.pos) << "+t" << vs (l.dir) << " p=" << vs (p) << " angle=" << ang);
    c.label (pc == 0 ? RP_ON_AXIS : pc == 1 ? RP_NEAR_AXIS : RP_GENERIC);
    if (ac == 0) c.label (RP_QUARTER);
    if (ac == 1) c.label (RP_BIG_ANGLE);
    c.nt (true);
    {
        // Rotation about the line by `angle`; sense as in upstream's own test (pyImathTest: (2,2,0) about +x by +pi/2
        // gives (2,0,-2)), i.e. clockwise seen against the direction = right-handed rotation by -angle.
        Q3   Pq = q3 (p), rel = Pq - P;
        Q3   ax = Du * dot (rel, Du), pe = rel - ax;
        quad a  = -(quad) ang;
        Q3   RX = P + ax + pe * cosq (a) + cross (Du, pe) * sinq (a);
        quad S  = len (Pq) + len (P) + len (rel) + (quad) 1e-300;
        V    r  = rotatePoint (p, l, ang);
        for (int i = 0; i < 3; ++i)
            QG_CHK (c, "rotatePoint", qabs ((quad) r[i] - RX[i]), eps * S, 12, tn << " rotatePoint[" << i << "] = " << r[i] << " exact " << qstr (RX[i])); // measured worst 2.1 units
        Q3 rq = q3 (r) - P;
        QG_CHK (c, "rotatePoint/axial-component", qabs (dot (rq, Du) - dot (rel, Du)), eps * S, 12, tn << " component along the line changes: " << qstr (dot (rq, Du)) << " vs " << qstr (dot (rel, Du))); // measured worst 2.4 units
        QG_CHK (c, "rotatePoint/distance-to-line", qabs (len (cross (rq, Du)) - len (pe)), eps * S, 8, tn << " distance to the line changes: " << qstr (len (cross (rq, Du))) << " vs " << qstr (len (pe))); // measured worst 1.1 units
        // additivity in the angle: rotating the result by a second angle equals rotating once by the sum
        T    ang2 = (T) s.uniform (-3.2, 3.2);
        V    r2   = rotatePoint (r, l, ang2);
        quad a2   = -((quad) ang + (quad) ang2);
        Q3   RX2  = P + ax + pe * cosq (a2) + cross (Du, pe) * sinq (a2);
        for (int i = 0; i < 3; ++i)
            QG_CHK (c, "rotatePoint/additive", qabs ((quad) r2[i] - RX2[i]), eps * S, 24, tn << " rotate(rotate(p,a),b)[" << i << "] = " << r2[i] << " but rotate(p,a+b) = " << qstr (RX2[i])); // measured worst 3.9 units
    }
    // ---- closestVertex(v0,v1,v2,line)
    {
        V    v[3];
        bool tie = s.chance (48);
        for (int k = 0; k < 3; ++k)
            v[k] = gen_pt<T> (s);
        if (tie) // two vertices at the same distance: mirror images through the line
        {
            Q3 a = q3 (v[0]) - P;
            v[1] = rnd<T> (P + Du * (2 * dot (a, Du)) - a + Du * (quad) s.uniform (-2, 2));
            c.label (CVL_TIE);
        }
        V    cv = closestVertex (v[0], v[1], v[2], l);
        int  which = -1;
        quad d2[3], dmin = (quad) 1e300, pm = len (P);
        for (int k = 0; k < 3; ++k)
        {
            Q3 a  = q3 (v[k]) - P;
            d2[k] = dot (cross (a, Du), cross (a, Du));
            pm    = qmax (pm, len (q3 (v[k])));
            if (same3 (cv, v[k]) && (which < 0 || d2[k] < d2[which])) which = k;
            dmin = qmin (dmin, d2[k]);
        }
        VP_NOTE (c, "triangle " << vs (v[0]) << " " << vs (v[1]) << " " << vs (v[2]));
        VP_REQUIRE (c, which >= 0, "closestVertex-line/not-a-vertex", tn << " closestVertex(line) returned " << vs (cv) << " which is none of the vertices");
        quad slack = 4 * eps * (d2[which] + pm * sqrtq (d2[which])) + (quad) 1e-300; // measured worst excess 0.63 units
        QG_MEAS ("closestVertex-line/excess", (d2[which] - dmin) / (eps * (d2[which] + pm * sqrtq (d2[which])) + (quad) 1e-300));
        VP_REQUIRE (c, d2[which] <= dmin + slack, "closestVertex-line/not-closest", tn << " closestVertex(line) = vertex " << which << " at squared distance " << qstr (d2[which]) << " from the line, minimum " << qstr (dmin));
    }
}
#define C15_LA_RULE "lines through generated points; p on the axis, 1e-1..1e-5 off it, or generic; angles multiples of pi/2, uniform +-2pi, +-50; second angle for additivity; triangles generic or with two vertices equidistant from the line; oracle = quad Rodrigues rotation with the sense fixed by upstream's Python test; all cases non-trivial"
VP_RANDOM (linealgo_f, 400000, 4000000, C15_LA_RULE) { linealgo_case<float> (c, "float"); }
VP_LABELS (linealgo_f, "p_on_axis", "p_near_axis", "p_generic", "quarter_turns", "angle_up_to_50", "equidistant_vertices")
VP_REQUIRE_LABELS (linealgo_f, "p_on_axis", "p_near_axis", "p_generic", "quarter_turns", "angle_up_to_50", "equidistant_vertices")
VP_RANDOM (linealgo_d, 400000, 4000000, C15_LA_RULE) { linealgo_case<double> (c, "double"); }
VP_LABELS (linealgo_d, "p_on_axis", "p_near_axis", "p_generic", "quarter_turns", "angle_up_to_50", "equidistant_vertices")
VP_REQUIRE_LABELS (linealgo_d, "p_on_axis", "p_near_axis", "p_generic", "quarter_turns", "angle_up_to_50", "equidistant_vertices")

// generators of sections 7 and 8: one draw per statement
template <class T> static inline Vec3<T> seq_pt (vp::Src& s)
{
    Vec3<T> v;
    for (int i = 0; i < 3; ++i)
        v[i] = gen::nice<T> (s);
    return v;
}
static inline Q3 seq_dir (vp::Src& s) // unit vector
{
    double x = s.uniform (-1, 1);
    double y = s.uniform (-1, 1);
    double z = s.uniform (-1, 1);
    if (x * x + y * y + z * z < 0.01) x = 1;
    return unit (Q3 (x, y, z));
}

// =====================================================================================
// 7. closestVertex(v0,v1,v2,line) with the line's origin far from the triangle (a picking ray from a distant eye)
//
//    Conditioning: the distances are formed from v - closestPointTo(v) = v - (pos + dir*t); dir*t has the size of
//    |v - pos| and is rounded to T, so each distance vector carries an absolute error of E ~ eps * |v - pos| (the
//    component along dir - rounding of t, |dir| != 1 - enters the same way).  Whatever E, the returned vertex k
//    satisfies dist_k <= dist_min + 2E; the answer is only *forced* when the runner-up is farther than that.
//    Nothing is demanded about differences below 2E.
// =====================================================================================
enum
{
    CVF_NEAR_ORIGIN,
    CVF_FAR_ORIGIN,
    CVF_BEYOND_SQRT_EPS,
    CVF_FORCED,
    CVF_DIR_AWAY
};
template <class T> static void cvfar_case (vp::Ctx& c, const char* tn)
{
    typedef Vec3<T> V;
    vp::Src&        s   = c.s;
    const quad      eps = EPS<T> ();
    V               v[3];
    int             ts = (int) s.range (-3, 3); // triangle size 2^-3 .. 2^3 x "nice"
    for (int k = 0; k < 3; ++k)
        v[k] = seq_pt<T> (s) * std::ldexp ((T) 1, ts);
    Q3     cen  = (q3 (v[0]) + q3 (v[1]) + q3 (v[2])) / (quad) 3;
    Q3     od   = seq_dir (s);
    double ol   = s.uniform (0, 3);
    Q3     tgt  = cen + od * ((quad) ol * (quad) std::ldexp (1.0, ts)); // a point next to the triangle the ray passes through
    Q3     u    = seq_dir (s);
    double emax = sizeof (T) == 8 ? 14.0 : 6.0;
    double e    = s.uniform (0, emax);
    quad   dist = (quad) std::pow (10.0, e);
    V      eye  = rnd<T> (tgt + u * dist);
    V      tg   = rnd<T> (tgt);
    if (eye == tg) eye.x += 1;
    Line3<T> l (eye, tg);
    if (!(l.dir.length2 () > 0)) l.dir = V (1, 0, 0);
    if (s.coin ())
    {
        l.dir = -l.dir; // same line, pointing away from the triangle
        c.label (CVF_DIR_AWAY);
    }
    VP_NOTE (c, tn << " triangle " << vs (v[0]) << " " << vs (v[1]) << " " << vs (v[2]) << " line " << vs (l.pos) << "+t" << vs (l.dir) << " (origin ~" << (double) dist << " away)");
    bool far = dist * dist * eps > 1; // |w|/dist ratio beyond 1/sqrt(eps) for unit distances
    c.label (dist >= 100 ? CVF_FAR_ORIGIN : CVF_NEAR_ORIGIN);
    if (far) c.label (CVF_BEYOND_SQRT_EPS);
    V    cv = closestVertex (v[0], v[1], v[2], l);
    Q3   P = q3 (l.pos), Du = unit (q3 (l.dir));
    int  which = -1;
    quad dk[3], dmin = (quad) 1e300, wmax = 0;
    for (int k = 0; k < 3; ++k)
    {
        Q3 a  = q3 (v[k]) - P;
        dk[k] = len (cross (a, Du));
        wmax  = qmax (wmax, len (a));
        dmin  = qmin (dmin, dk[k]);
    }
    for (int k = 0; k < 3; ++k)
        if (same3 (cv, v[k]) && (which < 0 || dk[k] < dk[which])) which = k;
    VP_REQUIRE (c, which >= 0, "closestVertex-line/not-a-vertex", tn << " closestVertex(line) returned " << vs (cv) << " which is none of the vertices");
    quad E = eps * (wmax + len (P));
    // is the answer forced?  (runner-up beyond the bound)
    int nclose = 0;
    for (int k = 0; k < 3; ++k)
        if (dk[k] <= (dmin + 4 * E) * (1 + 8 * eps)) ++nclose;
    if (nclose == 1)
    {
        c.label (CVF_FORCED);
        c.nt (far);
    }
    QG_MEAS ("closestVertex-line-far/excess", (dk[which] - dmin) / (E + (quad) 1e-300));
    // analysis: 2 x (rounding of dir*t + rounding of t and |dir| != 1 along dir) ~ 3 E; measured worst excess on the
    // unchanged tree (3e6 cases per type): 0.48 E (float), 0.17 E (double)
    VP_REQUIRE (c, dk[which] <= (dmin + 4 * E) * (1 + 8 * eps), "closestVertex-line/not-closest-far-origin", tn << " closestVertex(line) = vertex " << which << " at distance " << qstr (dk[which]) << " from the line, but the vertex distances are " << qstr (dk[0]) << " " << qstr (dk[1]) << " " << qstr (dk[2]) << " (resolvable to " << qstr (4 * E) << ")");
    // the two Line3 members that answer is built from, at the same far origin (the line_point_* sub-checks keep pos near 0)
    for (int k = 0; k < 3; ++k)
    {
        Q3   a  = q3 (v[k]) - P;
        Q3   CX = P + Du * dot (a, Du);
        T    dl = l.distanceTo (v[k]);
        V    cp = l.closestPointTo (v[k]);
        QG_CHK (c, "line-distanceTo-point/far-origin", qabs ((quad) dl - dk[k]), E, 6, tn << " distanceTo(" << vs (v[k]) << ") = " << dl << " exact " << qstr (dk[k])); // measured worst 0.99 units
        for (int i = 0; i < 3; ++i)
            QG_CHK (c, "line-closestPointTo-point/far-origin", qabs ((quad) cp[i] - CX[i]), E, 12, tn << " closestPointTo(" << vs (v[k]) << ")[" << i << "] = " << cp[i] << " exact " << qstr (CX[i])); // measured worst 2.2 units (t rounded to eps |v-pos|, |dir|^2 - 1 ~ eps)
    }
}
#define C15_CVF_RULE "triangles of size 2^-3..2^3 near the origin; a line from an eye 1..1e6 (float) / 1..1e14 (double) away through a point within 3 sizes of the centroid, direction towards or away from the triangle; oracle = quad point-line distances on the stored pos/dir; bound: returned vertex within 4 eps (|v-pos|+|pos|) of the minimum distance; Line3::distanceTo / closestPointTo of the three vertices at the same far origin, same unit; non-trivial = origin beyond 1/sqrt(eps) and the answer forced (runner-up beyond the bound)"
VP_RANDOM (cvfar_f, 300000, 3000000, C15_CVF_RULE) { cvfar_case<float> (c, "float"); }
VP_LABELS (cvfar_f, "origin_within_100", "origin_beyond_100", "origin_beyond_1/sqrt(eps)", "answer_forced", "direction_away")
VP_REQUIRE_LABELS (cvfar_f, "origin_within_100", "origin_beyond_100", "origin_beyond_1/sqrt(eps)", "answer_forced", "direction_away")
VP_RANDOM (cvfar_d, 300000, 3000000, C15_CVF_RULE) { cvfar_case<double> (c, "double"); }
VP_LABELS (cvfar_d, "origin_within_100", "origin_beyond_100", "origin_beyond_1/sqrt(eps)", "answer_forced", "direction_away")
VP_REQUIRE_LABELS (cvfar_d, "origin_within_100", "origin_beyond_100", "origin_beyond_1/sqrt(eps)", "answer_forced", "direction_away")

// =====================================================================================
// 8. Plane3 * Matrix44 for projective matrices (last column not (0,0,0,1)): Vec3 * Matrix44 divides by the
//    homogeneous w, a non-singular projective matrix maps planes to planes, and plane*M must contain the images
//    p*M of the points of the plane.  The generator keeps w = p.c + m33 within [0.55, 1.45] x m33 (one sign) for
//    every point it uses (all within 12 of the plane's point nearest the origin): |c| = kappa |m33| / (|O| + 12),
//    kappa <= 0.45.  Sides: det(M) > 0 makes the map orientation preserving wherever w keeps one sign.
//    Conditioning: the Jacobian of p -> p*M at O, J = (A - c (O*M)^T) / w, plays the part of the linear block A.
// =====================================================================================
enum
{
    PP_AFFINE_BASE_TRANS,
    PP_AFFINE_BASE_RIGID,
    PP_AFFINE_BASE_GENERAL,
    PP_SCALED,
    PP_SINGLE_ENTRY,
    PP_M33_NOT_ONE,
    PP_W_NEGATIVE,
    PP_STRONG,
    PP_SIDE_CHECKED,
    PP_DET_NEGATIVE,
    PP_ILLCOND
};
#define C15_PP_LABELS "base_identity_or_translation", "base_rigid", "base_general_affine", "base_rows_scaled", "single_perspective_entry", "m33_not_1", "w_negative", "w_varies_by_more_than_25%", "side_preserved_checked", "det_negative(no side claim)", "jacobian_ill_conditioned(no side claim)"

template <class T> static void plane_proj_case (vp::Ctx& c, const char* tn)
{
    typedef Vec3<T> V;
    vp::Src&        s   = c.s;
    const quad      eps = EPS<T> ();
    // ---- plane
    V nn;
    if (s.chance (48))
    {
        int k = (int) s.below (3);
        nn    = V (0, 0, 0);
        nn[k] = s.coin () ? (T) 1 : (T) -1;
    }
    else
    {
        Q3  nd = seq_dir (s);
        int ne = (int) s.range (-3, 3);
        nn     = rnd<T> (nd * (quad) std::ldexp (1.0, ne));
    }
    T         dpl = gen::nice<T> (s);
    Plane3<T> P (nn, dpl);
    Q3        N = q3 (P.normal);
    quad      d = (quad) P.distance;
    Q3        Nu = unit (N);
    Q3        O  = Nu * (d / len (N)); // point of the plane nearest the origin
    // ---- matrix: affine base, then a perspective column
    static const int BASE[4] = { MK_IDENT, MK_TRANS, MK_RIGID, MK_GENERAL };
    int              mk      = BASE[s.below (4)];
    bool             mirror  = s.chance (48);
    Matrix44<T>      M       = gen_affine<T> (s, mk, mirror);
    c.label (mk <= MK_TRANS ? PP_AFFINE_BASE_TRANS : mk == MK_RIGID ? PP_AFFINE_BASE_RIGID : PP_AFFINE_BASE_GENERAL);
    int sk = (int) s.below (3);
    if (sk)
    {
        int e0 = (int) s.range (-3, 3);
        for (int i = 0; i < 3; ++i)
        {
            int e = e0;
            if (sk == 2) e = (int) s.range (-2, 2);
            for (int j = 0; j < 3; ++j)
                M[i][j] = std::ldexp (M[i][j], e);
        }
        c.label (PP_SCALED);
    }
    Q3     cd = seq_dir (s);
    double kw = s.uniform (0.02, 0.45);
    T      m33 = 1;
    switch (s.below (4))
    {
        case 2:
        {
            int e = (int) s.range (-3, 3);
            m33   = std::ldexp ((T) 1, e);
            break;
        }
        case 3: m33 = -1; break;
        default: break;
    }
    if (s.chance (48))
    {
        // a single non-zero perspective entry
        int k = (int) s.below (3);
        cd    = Q3 (0, 0, 0);
        cd[k] = s.coin () ? 1 : -1;
        c.label (PP_SINGLE_ENTRY);
    }
    const quad RAD = 12;
    quad       cs  = (quad) kw * qabs ((quad) m33) / (len (O) + RAD);
    for (int i = 0; i < 3; ++i)
        M[i][3] = (T) (cd[i] * cs);
    M[3][3] = m33;
    if (m33 != 1) c.label (PP_M33_NOT_ONE);
    if (m33 < 0) c.label (PP_W_NEGATIVE);
    if (kw > 0.25) c.label (PP_STRONG);
    c.nt (true);
    VP_NOTE (c, tn << " plane normal=" << vs (P.normal) << " distance=" << P.distance << " M=" << mstr (M, 4));
    Q3   C ((quad) M[0][3], (quad) M[1][3], (quad) M[2][3]);
    quad m = (quad) M[3][3];
    auto wof  = [&] (const Q3& X) -> quad { return dot (X, C) + m; };
    auto proj = [&] (const Q3& X) -> Q3 { return xform (X, M) / wof (X); };
    // ---- plane * M
    Plane3<T> PM = P * M;
    Q3        NM = q3 (PM.normal);
    quad      dM = (quad) PM.distance;
    VP_REQUIRE (c, fin3 (PM.normal) && std::isfinite (PM.distance), "plane-times-projective/nonfinite", tn << " plane*M = " << vs (PM.normal) << "," << PM.distance);
    QG_CHK (c, "plane-times-projective/unit-normal", qabs (len (NM) - 1), eps, 6, tn << " |(plane*M).normal| = " << qstr (len (NM))); // measured worst 1.3 units
    // Jacobian at O and the magnitude of the terms that form an image point next to O
    QM<3> A  = linpart (M), J, Ji;
    Q3    OM = proj (O);
    quad  wO = wof (O);
    for (int i = 0; i < 3; ++i)
        for (int j = 0; j < 3; ++j)
            J.a[i][j] = (A.a[i][j] - C[i] * OM[j]) / wO;
    Q3   tr ((quad) M[3][0], (quad) M[3][1], (quad) M[3][2]);
    quad wmin = qabs (m) * (quad) 0.55;
    quad pe   = ((norm_inf (A) + (qabs (C.x) + qabs (C.y) + qabs (C.z)) * len (OM)) * (len (O) + 2) + len (tr) + qabs (m) * len (OM)) / wmin;
    bool jok  = inverse (J, Ji);
    quad nJi  = jok ? norm_inf (Ji) : (quad) 1e300;
    quad kapJ = norm_inf (J) * nJi;
    quad dt   = det (QM<4>::from (M));
    bool side_ok = dt > 0 && eps * kapJ * kapJ <= (quad) (1.0 / 1024);
    if (!(dt > 0))
        c.label (PP_DET_NEGATIVE);
    else if (!side_ok)
        c.label (PP_ILLCOND);
    Q3 u1 = perp_to (N, 0), u2 = unit (cross (N, u1));
    for (int k = 0; k < 3; ++k)
    {
        double ad = s.uniform (-4, 4);
        double bd = s.uniform (-4, 4);
        Q3     X  = O + u1 * (quad) ad + u2 * (quad) bd;
        Q3     XM = proj (X);
        // error of the image points (pe) + error of the normal (pe x |J^-1|) acting over the distance from O*M
        quad unit_ = eps * pe * (1 + len (XM - OM) * nJi);
        QG_CHK (c, "plane-times-projective/contains", qabs (dot (NM, XM) - dM), unit_, 4, tn << " point " << qs (X) << " of the plane maps to " << qs (XM) << " (w = " << qstr (wof (X)) << "), which is at distance " << qstr (dot (NM, XM) - dM) << " from plane*M = " << vs (PM.normal) << "," << PM.distance); // measured worst 0.54 units (3e6 cases per type)
        double hd = s.uniform (0.1, 4);
        bool   up = s.coin ();
        quad   h  = up ? (quad) hd : -(quad) hd;
        Q3     Y  = X + Nu * h;
        quad   sM = dot (NM, proj (Y)) - dM;
        if (side_ok)
        {
            c.label (PP_SIDE_CHECKED);
            VP_REQUIRE (c, (sM > 0) == (h > 0) && sM != 0, "plane-times-projective/side", tn << " point at signed distance " << (double) h << " from the plane maps to signed distance " << qstr (sM) << " from plane*M (det(M) = " << qstr (dt) << " > 0, w = " << qstr (wof (Y)) << ")");
        }
    }
}
#define C15_PP_RULE "planes normal+distance (random or axis-aligned normals of length 2^-3..2^3, distance 'nice'); matrices: identity/translation/rigid/general affine base (1/5 mirrored), rows scaled by 2^k, then last column (c, m33) with m33 in {1, 2^-3..2^3, -1} and |c| = kappa |m33| / (|O|+12), kappa 0.02..0.45, random direction or a single entry, so that w stays within [0.55,1.45] m33 on every point used; probes +-4 units along the plane and 0.1..4 off it; oracle = quad homogeneous image of the points against the returned plane; all cases non-trivial"
VP_RANDOM (plane_proj_f, 200000, 3000000, C15_PP_RULE) { plane_proj_case<float> (c, "float"); }
VP_LABELS (plane_proj_f, C15_PP_LABELS)
VP_REQUIRE_LABELS (plane_proj_f, "base_identity_or_translation", "base_rigid", "base_general_affine", "base_rows_scaled", "single_perspective_entry", "m33_not_1", "w_negative", "w_varies_by_more_than_25%", "side_preserved_checked", "det_negative(no side claim)")
VP_RANDOM (plane_proj_d, 200000, 3000000, C15_PP_RULE) { plane_proj_case<double> (c, "double"); }
VP_LABELS (plane_proj_d, C15_PP_LABELS)
VP_REQUIRE_LABELS (plane_proj_d, "base_identity_or_translation", "base_rigid", "base_general_affine", "base_rows_scaled", "single_perspective_entry", "m33_not_1", "w_negative", "w_varies_by_more_than_25%", "side_preserved_checked", "det_negative(no side claim)")

// =====================================================================================
// 9. Configurations far from the origin (translation invariance / covariance) and perturbations 2^-k of the special
//    cases, for every function of the property.
//
//    A configuration of extent 2^e is built around 0 first ("local" coordinates, held in quad), then every point is
//    translated by one offset of length 2^(e+k) (1+u), k log-uniform over 0 .. 22 (float) / 0 .. 50 (double), in a
//    generic, axis-aligned or diagonal direction, and rounded to T.  The oracle sees only the rounded inputs.
//    "grid" is a power of two such that every multiple of it below 2 |offset| + 16 extent is a T value: local
//    coordinates that are multiples of it survive the translation unchanged (exact ties, exactly collinear points, ...).
//
//    What the bounds have to express (M = coordinate magnitude, d = a difference of two inputs):
//      * quantities the library forms from differences of inputs (v - p, pos - centre, p2 - p1, line.pos - pos) are
//        accurate relative to |d|, however large M is - the subtraction of two T values has relative error eps/2;
//        the bound is c eps |d| (|d| + ...) and must NOT contain M.  This is what rejects |v|^2 - 2 v.p + |p|^2
//        (error eps M^2) while accepting (v - p).length2 () (error eps |d|^2);
//      * results that are points (pos + dir t, reflections, closest points) and everything computed from the stored
//        plane distance (normal . point) are accurate to eps M: that is the rounding of the result itself.
// =====================================================================================
template <class T> struct FarK
{
    enum
    {
        KMAX = 22,
        SC   = 30
    };
};
template <> struct FarK<double>
{
    enum
    {
        KMAX = 50,
        SC   = 200
    };
};
enum
{
    FO_NONE,
    FO_LOW,
    FO_HIGH,
    FO_GENERIC,
    FO_AXIS,
    FO_DIAG,
    FO_SNAPPED,
    FO_NLABELS
};
#define C15_FO_LABELS "no_offset", "offset/extent_below_1/sqrt(eps)", "offset/extent_beyond_1/sqrt(eps)", "offset_generic_direction", "offset_axis_aligned", "offset_diagonal", "local_coordinates_on_the_grid_of_the_offset"
#define C15_FO_REQUIRED "no_offset", "offset/extent_below_1/sqrt(eps)", "offset/extent_beyond_1/sqrt(eps)", "offset_generic_direction", "offset_axis_aligned", "offset_diagonal", "local_coordinates_on_the_grid_of_the_offset"
#define C15_FO_RULE "configuration of extent 2^-3..2^3 built around 0, then translated as a whole by an offset of 2^k extents, k uniform in 0..22 (float) / 0..50 (double) (1/10 without offset), direction generic / axis-aligned / diagonal, all points rounded to T afterwards (half of the cases with local coordinates on the grid of the offset, so that the translation is exact); "

struct FarPlace
{
    quad off[4]; // the offset; multiples of grid
    quad grid;   // power of two; multiples of it below 2 max|off_i| + 16 ext are T values
    quad ext;    // extent of the local configuration, 2^e
    quad M;      // |offset| + ext
    int  k;      // log2 (offset / extent), 0 without offset
    bool snap;   // local coordinates are rounded to multiples of grid
    bool none;
    Q3   o3 () const { return Q3 (off[0], off[1], off[2]); }
    quad snapq (quad v) const { return floorq (v / grid + (quad) 0.5) * grid; }
    // local coordinate for x extents
    quad loc (quad x) const
    {
        quad v = x * ext;
        return snap ? snapq (v) : v;
    }
    Q3 loc3 (const Q3& x) const { return Q3 (loc (x.x), loc (x.y), loc (x.z)); }
    // lattice unit: the larger of grid and ext / div (both powers of two)
    quad unit (int div) const { return qmax (grid, ext / (quad) div); }
};

template <class T> static FarPlace gen_far (vp::Ctx& c, int N, int emin = -3, int emax = 3)
{
    vp::Src&  s    = c.s;
    const int KMAX = FarK<T>::KMAX;
    FarPlace  f;
    int       e    = (int) s.range (emin, emax);
    bool      none = s.chance (24);
    int       k    = (int) s.range (0, KMAX);
    int       dc   = (int) s.below (3);
    double    dir[4] = { 0, 0, 0, 0 };
    if (dc == 0)
    {
        double n2 = 0;
        for (int i = 0; i < N; ++i)
        {
            dir[i] = s.uniform (-1, 1);
            n2 += dir[i] * dir[i];
        }
        if (n2 < 0.01)
        {
            dir[0] = 1;
            n2     = 1;
            for (int i = 1; i < N; ++i)
                dir[i] = 0;
        }
        for (int i = 0; i < N; ++i)
            dir[i] /= std::sqrt (n2);
    }
    else if (dc == 1)
    {
        int  a   = (int) s.below ((uint64_t) N);
        bool neg = s.coin ();
        dir[a]   = neg ? -1 : 1;
    }
    else
    {
        for (int i = 0; i < N; ++i)
        {
            bool neg = s.coin ();
            dir[i]   = neg ? -1 : 1;
        }
        if (N >= 3)
        {
            int z = (int) s.below ((uint64_t) N + 1); // N: space diagonal, else a face diagonal
            if (z < N) dir[z] = 0;
        }
    }
    double u   = s.unit ();
    f.snap     = s.coin ();
    f.none     = none;
    f.k        = none ? 0 : k;
    double ext = std::ldexp (1.0, e);
    double mag = none ? 0.0 : std::ldexp (1.0 + u, e + k);
    double am  = 0;
    for (int i = 0; i < N; ++i)
        am = std::max (am, std::fabs (dir[i] * mag));
    int E = 0;
    std::frexp (2 * am + 16 * ext, &E); // 2 am + 16 ext < 2^E
    double grid = std::ldexp (1.0, E - FInfo<T>::mant);
    double o2   = 0;
    for (int i = 0; i < 4; ++i)
    {
        double o = i < N ? std::nearbyint (dir[i] * mag / grid) * grid : 0.0;
        f.off[i] = (quad) o;
        o2 += o * o;
    }
    f.grid = (quad) grid;
    f.ext  = (quad) ext;
    f.M    = (quad) std::sqrt (o2) + (quad) ext;
    if (none)
        c.label (FO_NONE);
    else
    {
        c.label (k < KMAX / 2 ? FO_LOW : FO_HIGH);
        c.label (dc == 0 ? FO_GENERIC : dc == 1 ? FO_AXIS : FO_DIAG);
    }
    if (f.snap) c.label (FO_SNAPPED);
    return f;
}
static inline std::string far_note (const FarPlace& f)
{
    return " [offset (" + qstr (f.off[0]) + " " + qstr (f.off[1]) + " " + qstr (f.off[2]) + " " + qstr (f.off[3]) + ") = 2^" + std::to_string (f.k) + " extents of " + qstr (f.ext) + ", grid " + qstr (f.grid) + (f.snap ? ", snapped" : "") + "]";
}
// a local coordinate in extents: quarters -1..1 or uniform
static inline double loc_unit (vp::Src& s)
{
    int cls = (int) s.below (3);
    if (cls == 0)
    {
        int r = (int) s.range (-4, 4);
        return r * 0.25;
    }
    double u = s.uniform (-1, 1);
    return u;
}
static inline Q3 loc_pt (vp::Src& s, const FarPlace& f)
{
    double x = loc_unit (s);
    double y = loc_unit (s);
    double z = loc_unit (s);
    return Q3 (f.loc ((quad) x), f.loc ((quad) y), f.loc ((quad) z));
}
// a direction (not normalised): axis, small integers, or random unit vector
static inline Q3 loc_dir (vp::Src& s, int* cls_out = 0)
{
    int cls = (int) s.below (3);
    if (cls_out) *cls_out = cls;
    if (cls == 0)
    {
        int  a   = (int) s.below (3);
        bool neg = s.coin ();
        Q3   d;
        d[a] = neg ? -1 : 1;
        return d;
    }
    if (cls == 1)
    {
        int x = (int) s.range (-3, 3);
        int y = (int) s.range (-3, 3);
        int z = (int) s.range (-3, 3);
        if (x == 0 && y == 0 && z == 0) x = 1;
        return Q3 (x, y, z);
    }
    return seq_dir (s);
}
// perturbation 2^-j (1+u), j from 4 up to the digits of T plus 3
template <class T> static inline quad tiny_pert (vp::Src& s, int* j_out = 0)
{
    int    j = (int) s.range (4, FInfo<T>::mant + 3);
    double u = s.unit ();
    if (j_out) *j_out = j;
    return (quad) std::ldexp (1.0 + u, -j);
}

// ---- 9a. closestVertex (v0, v1, v2, p) of ImathVecAlgo.h, Vec2 / Vec3 / Vec4
//
//    The library compares (v_k - p).length2 ().  v_k - p has relative error eps/2 per component whatever the
//    magnitude of the coordinates, the squares and the sum add (N+1) eps/2: each key has relative error
//    (N+2) eps / 2, so the returned vertex k satisfies |v_k - p|^2 <= min (1 + (N+2) eps).  No term in M.
//    On the lattice (all local coordinates small integer multiples of one power of two that is a multiple of the
//    grid) the keys are computed without any rounding: the returned vertex must attain the minimum exactly.
//    Exact ties: the property asks for a nearest vertex and nothing about which one; any tied vertex is accepted
//    (the unchanged code returns the first in the order v0, v1, v2).
enum
{
    FV_VEC2 = FO_NLABELS,
    FV_VEC3,
    FV_VEC4,
    FV_LATTICE,
    FV_TIE2,
    FV_TIE3,
    FV_P_IS_VERTEX,
    FV_P_NEAR_VERTEX,
    FV_GENERIC,
    FV_FORCED,
    FV_NEAR_TIE
};
template <class Vec, class T, int N> static void far_vertex_case (vp::Ctx& c, const char* tn, const FarPlace& f)
{
    vp::Src&   s   = c.s;
    const quad eps = EPS<T> ();
    int        cls = (int) s.below (7);
    quad       L[4][4]; // local coordinates of v0, v1, v2, p
    for (int k = 0; k < 4; ++k)
        for (int i = 0; i < 4; ++i)
            L[k][i] = 0;
    bool lattice = cls <= 2;
    if (lattice)
    {
        quad U = f.unit (4);
        for (int k = 0; k < 4; ++k)
            for (int i = 0; i < N; ++i)
            {
                int m   = (int) s.range (-3, 3);
                L[k][i] = (quad) m * U;
            }
        if (cls >= 1) // forced ties: v_b - p = a signed permutation of v_a - p
        {
            int a  = (int) s.below (3);
            int bs = (int) s.below (2);
            int b  = (a + 1 + bs) % 3;
            int third = 3 - a - b;
            for (int rep = 0; rep < (cls == 2 ? 2 : 1); ++rep)
            {
                int  tgt = rep == 0 ? b : third;
                quad d[4];
                for (int i = 0; i < N; ++i)
                    d[i] = L[a][i] - L[3][i];
                int i0 = (int) s.below ((uint64_t) N);
                int i1 = (int) s.below ((uint64_t) N);
                std::swap (d[i0], d[i1]);
                for (int i = 0; i < N; ++i)
                {
                    bool neg = s.coin ();
                    if (neg) d[i] = -d[i];
                }
                for (int i = 0; i < N; ++i)
                    L[tgt][i] = L[3][i] + d[i];
            }
        }
        c.label (FV_LATTICE);
    }
    else
    {
        for (int k = 0; k < 4; ++k)
            for (int i = 0; i < N; ++i)
            {
                double x = loc_unit (s);
                L[k][i]  = f.loc ((quad) x);
            }
        if (cls == 3) // p is one of the vertices
        {
            int a = (int) s.below (3);
            for (int i = 0; i < N; ++i)
                L[3][i] = L[a][i];
            c.label (FV_P_IS_VERTEX);
        }
        else if (cls == 4) // p within 2^-j extents of a vertex
        {
            int a = (int) s.below (3);
            int j = (int) s.range (1, 10);
            for (int i = 0; i < N; ++i)
            {
                double x = loc_unit (s);
                L[3][i]  = L[a][i] + f.loc ((quad) std::ldexp (x, -j));
            }
            c.label (FV_P_NEAR_VERTEX);
        }
        else if (cls == 5) // near tie: v_b - p = signed permutation of v_a - p before rounding (differs by the rounding of the inputs)
        {
            int  a  = (int) s.below (3);
            int  bs = (int) s.below (2);
            int  b  = (a + 1 + bs) % 3;
            quad d[4];
            for (int i = 0; i < N; ++i)
                d[i] = L[a][i] - L[3][i];
            int i0 = (int) s.below ((uint64_t) N);
            int i1 = (int) s.below ((uint64_t) N);
            std::swap (d[i0], d[i1]);
            for (int i = 0; i < N; ++i)
            {
                bool neg = s.coin ();
                if (neg) d[i] = -d[i];
            }
            for (int i = 0; i < N; ++i)
                L[b][i] = L[3][i] + d[i];
            c.label (FV_NEAR_TIE);
        }
        else
            c.label (FV_GENERIC);
    }
    Vec v[3], p;
    for (int i = 0; i < N; ++i)
    {
        for (int k = 0; k < 3; ++k)
            v[k][i] = (T) (f.off[i] + L[k][i]);
        p[i] = (T) (f.off[i] + L[3][i]);
    }
    VP_NOTE (c, tn << " v0=" << vstr (v[0], N) << " v1=" << vstr (v[1], N) << " v2=" << vstr (v[2], N) << " p=" << vstr (p, N) << " class=" << cls << far_note (f));
    if (lattice || f.snap)
        for (int i = 0; i < N; ++i)
            VP_REQUIRE (c, (quad) v[0][i] == f.off[i] + L[0][i] && (quad) v[1][i] == f.off[i] + L[1][i] && (quad) v[2][i] == f.off[i] + L[2][i] && (quad) p[i] == f.off[i] + L[3][i], "harness/far-grid-not-exact", tn << " translated grid coordinate is not representable (harness error)");
    Vec  cv = closestVertex (v[0], v[1], v[2], p);
    int  which = -1;
    quad d2[3], dmin = (quad) 1e300;
    for (int k = 0; k < 3; ++k)
    {
        d2[k]   = 0;
        bool eq = true;
        for (int i = 0; i < N; ++i)
        {
            quad d = (quad) v[k][i] - (quad) p[i];
            d2[k] += d * d;
            if (!same<T> (cv[i], v[k][i])) eq = false;
        }
        if (eq && (which < 0 || d2[k] < d2[which])) which = k;
        dmin = qmin (dmin, d2[k]);
    }
    VP_REQUIRE (c, which >= 0, "closestVertex/not-a-vertex", tn << " closestVertex returned " << vstr (cv, N) << " which is none of the three vertices");
    int  ntie = 0, nclose = 0;
    quad K    = (quad) (2 * (N + 2)); // analysis (N+2) eps; measured worst excess 1.7 eps (float and double, 1.8e6 cases each, on the near-tie class)
    for (int k = 0; k < 3; ++k)
    {
        if (d2[k] == dmin) ++ntie;
        if (d2[k] <= dmin * (1 + K * eps)) ++nclose;
    }
    if (ntie == 2) c.label (FV_TIE2);
    if (ntie == 3) c.label (FV_TIE3);
    if (nclose == 1) c.label (FV_FORCED);
    c.nt (!f.none);
    if (dmin > 0) QG_MEAS ("closestVertex/far-excess(eps)", (d2[which] / dmin - 1) / eps);
    VP_REQUIRE (c, d2[which] <= dmin * (1 + K * eps), "closestVertex/not-closest-far-offset", tn << " closestVertex(" << vstr (v[0], N) << "," << vstr (v[1], N) << "," << vstr (v[2], N) << "; p=" << vstr (p, N) << ") = vertex " << which << " at squared distance " << qstr (d2[which]) << " but the minimum is " << qstr (dmin) << " (squared distances " << qstr (d2[0]) << " " << qstr (d2[1]) << " " << qstr (d2[2]) << "; excess over the minimum " << (dmin > 0 ? (double) ((d2[which] / dmin - 1) / eps) : (double) INFINITY) << " eps, limit " << (double) K << ")");
    if (lattice) // all keys exact: no slack at all; any of the tied vertices
        VP_REQUIRE (c, d2[which] == dmin, "closestVertex/not-closest-far-offset", tn << " (exact lattice) closestVertex returned vertex " << which << " at squared distance " << qstr (d2[which]) << ", minimum " << qstr (dmin));
}
template <class T> static void far_vertex_dispatch (vp::Ctx& c)
{
    int N = 2 + (int) c.s.below (3);
    FarPlace f = gen_far<T> (c, N);
    c.label (N == 2 ? FV_VEC2 : N == 3 ? FV_VEC3 : FV_VEC4);
    const bool dbl = sizeof (T) == 8;
    if (N == 2)
        far_vertex_case<Vec2<T>, T, 2> (c, dbl ? "V2d" : "V2f", f);
    else if (N == 3)
        far_vertex_case<Vec3<T>, T, 3> (c, dbl ? "V3d" : "V3f", f);
    else
        far_vertex_case<Vec4<T>, T, 4> (c, dbl ? "V4d" : "V4f", f);
}
#define C15_FV_LABELS C15_FO_LABELS, "Vec2", "Vec3", "Vec4", "integer_lattice(exact_keys)", "two_vertices_tied_exactly", "three_vertices_tied_exactly", "p_is_a_vertex", "p_within_2^-j_of_a_vertex", "generic_triangle", "answer_forced", "two_vertices_tied_up_to_input_rounding"
#define C15_FV_RULE C15_FO_RULE "closestVertex(v0,v1,v2,p) for Vec2/3/4: lattice triangles (small integer multiples of a power of two; random, or with two / three vertices at exactly the same distance by signed permutations of v-p), p equal to a vertex, p within 2^-1..2^-10 extents of a vertex, two vertices tied up to the rounding of the inputs, generic; oracle = quad squared distances of the rounded inputs; returned vertex within a factor 1 + 2(N+2) eps of the minimum squared distance (no slack at all on the lattice; any exactly tied vertex accepted); non-trivial = translated"
VP_RANDOM (far_vertex_f, 300000, 3000000, C15_FV_RULE) { far_vertex_dispatch<float> (c); }
VP_LABELS (far_vertex_f, C15_FV_LABELS)
VP_REQUIRE_LABELS (far_vertex_f, C15_FO_REQUIRED, "Vec2", "Vec3", "Vec4", "integer_lattice(exact_keys)", "two_vertices_tied_exactly", "three_vertices_tied_exactly", "p_is_a_vertex", "p_within_2^-j_of_a_vertex", "generic_triangle", "answer_forced", "two_vertices_tied_up_to_input_rounding")
VP_RANDOM (far_vertex_d, 300000, 3000000, C15_FV_RULE) { far_vertex_dispatch<double> (c); }
VP_LABELS (far_vertex_d, C15_FV_LABELS)
VP_REQUIRE_LABELS (far_vertex_d, C15_FO_REQUIRED, "Vec2", "Vec3", "Vec4", "integer_lattice(exact_keys)", "two_vertices_tied_exactly", "three_vertices_tied_exactly", "p_is_a_vertex", "p_within_2^-j_of_a_vertex", "generic_triangle", "answer_forced", "two_vertices_tied_up_to_input_rounding")

// ---- 9b. one line and points: Line3 set / closestPointTo(point) / distanceTo(point), closestVertex (v0,v1,v2,line),
//      rotatePoint, all translated.
//
//    closestPointTo(q) = ((q - pos).dir) dir + pos: the parameter is formed from a difference (accurate relative to
//    |q - pos|), the sum is rounded at eps M; distanceTo(q) = |closestPointTo(q) - q| inherits that absolute error,
//    closestVertex(line) compares such distances, rotatePoint adds a rotated radius to closestPointTo(p).
//    Unit for all of them: E = eps (|q - pos| + |pos| [+ |q|]) - the conditioning of a result that is a point near M.
//    The direction is formed from the difference p1 - p0 and is accurate to eps whatever M.
enum
{
    FL_DIR_AXIS = FO_NLABELS,
    FL_Q_IS_POS,
    FL_Q_ON_LINE,
    FL_Q_NEAR_LINE,
    FL_Q_GENERIC,
    FL_CV_FORCED,
    FL_RP_ON_AXIS,
    FL_RP_NEAR_AXIS,
    FL_RP_GENERIC,
    FL_RP_QUARTER
};
template <class T> static void far_line_case (vp::Ctx& c, const char* tn)
{
    typedef Vec3<T> V;
    vp::Src&        s   = c.s;
    const quad      eps = EPS<T> ();
    FarPlace        f   = gen_far<T> (c, 3);
    Q3              O   = f.o3 ();
    Q3              a   = loc_pt (s, f);
    int             dcl = 0;
    Q3              dl  = loc_dir (s, &dcl);
    double          dlen = s.uniform (0.25, 2);
    Q3              b   = a + f.loc3 (dl * (quad) dlen);
    V               p0 = rnd<T> (O + a), p1 = rnd<T> (O + b);
    if (p1 == p0) p1.x = (T) ((quad) p0.x + qmax (f.grid, f.ext));
    Line3<T> l (p0, p1);
    if (dcl == 0) c.label (FL_DIR_AXIS);
    c.nt (!f.none);
    Q3 P = q3 (l.pos), D = q3 (l.dir), Du = unit (D);
    // ---- query point for closestPointTo / distanceTo
    int qcls = (int) s.below (4);
    V   q;
    if (qcls == 0)
        q = p0;
    else if (qcls == 1)
    {
        double t = s.uniform (-4, 4);
        q        = rnd<T> (P + Du * ((quad) t * f.ext));
    }
    else if (qcls == 2)
    {
        double t   = s.uniform (-4, 4);
        double phi = s.uniform (0, 6.283);
        quad   h   = tiny_pert<T> (s);
        q          = rnd<T> (P + Du * ((quad) t * f.ext) + perp_to (D, (quad) phi) * (h * 8 * f.ext));
    }
    else
        q = rnd<T> (O + loc_pt (s, f));
    c.label (qcls == 0 ? FL_Q_IS_POS : qcls == 1 ? FL_Q_ON_LINE : qcls == 2 ? FL_Q_NEAR_LINE : FL_Q_GENERIC);
    VP_NOTE (c, tn << " p0=" << vs (p0) << " p1=" << vs (p1) << " q=" << vs (q) << " qclass=" << qcls << far_note (f));
    VP_REQUIRE (c, same3 (l.pos, p0), "line-set/pos", tn << " pos " << vs (l.pos) << " != p0 " << vs (p0));
    {
        Q3 DX = unit (q3 (p1) - q3 (p0));
        for (int i = 0; i < 3; ++i)
            QG_CHK (c, "line-set/dir/far", qabs (D[i] - DX[i]), eps, 6, tn << " dir[" << i << "] = " << l.dir[i] << " exact " << qstr (DX[i]) << " for p0=" << vs (p0) << " p1=" << vs (p1)); // measured worst 1.2 units
    }
    {
        Q3   Q  = q3 (q);
        quad tx = dot (Q - P, D) / dot (D, D);
        Q3   CX = P + D * tx;
        quad S  = len (Q - P) + len (P) + len (Q) + (quad) 1e-30;
        V    cp = l.closestPointTo (q);
        Q3   C  = q3 (cp);
        for (int i = 0; i < 3; ++i)
            QG_CHK (c, "line-closestPointTo-point/far-offset", qabs (C[i] - CX[i]), eps * S, 8, tn << " closestPointTo(" << vs (q) << ")[" << i << "] = " << cp[i] << " exact " << qstr (CX[i]) << " line " << vs (l.pos) << "+t" << vs (l.dir)); // measured worst 1.2 units
        QG_CHK (c, "line-closestPointTo-point/on-line/far-offset", len (cross (C - P, D)) / len (D), eps * S, 2, tn << " closestPointTo(" << vs (q) << ") = " << vs (cp) << " is off the line"); // measured worst 0.36 units
        QG_CHK (c, "line-closestPointTo-point/perp/far-offset", qabs (dot (Q - C, D)), eps * S, 8, tn << " (q - closestPointTo(q)).dir != 0 for q=" << vs (q) << " cp=" << vs (cp)); // measured worst 1.3 units
        T    dist = l.distanceTo (q);
        quad dx   = len (Q - CX);
        QG_CHK (c, "line-distanceTo-point/far-offset", qabs ((quad) dist - dx), eps * S, 8, tn << " distanceTo(" << vs (q) << ") = " << dist << " exact " << qstr (dx) << " line " << vs (l.pos) << "+t" << vs (l.dir)); // measured worst 1.3 units
        VP_REQUIRE (c, dist >= 0, "line-distanceTo-point/negative", tn << " distanceTo(point) = " << dist);
    }
    // ---- closestVertex (v0, v1, v2, line): same statement and unit as section 7, here with the triangle next to pos
    {
        V v[3];
        for (int k = 0; k < 3; ++k)
            v[k] = rnd<T> (O + loc_pt (s, f));
        VP_NOTE (c, "triangle " << vs (v[0]) << " " << vs (v[1]) << " " << vs (v[2]));
        V    cv = closestVertex (v[0], v[1], v[2], l);
        int  which = -1;
        quad dk[3], dmin = (quad) 1e300, wmax = 0;
        for (int k = 0; k < 3; ++k)
        {
            Q3 w  = q3 (v[k]) - P;
            dk[k] = len (cross (w, Du));
            wmax  = qmax (wmax, len (w));
            dmin  = qmin (dmin, dk[k]);
        }
        for (int k = 0; k < 3; ++k)
            if (same3 (cv, v[k]) && (which < 0 || dk[k] < dk[which])) which = k;
        VP_REQUIRE (c, which >= 0, "closestVertex-line/not-a-vertex", tn << " closestVertex(line) returned " << vs (cv) << " which is none of the vertices");
        quad E      = eps * (wmax + len (P));
        int  nclose = 0;
        for (int k = 0; k < 3; ++k)
            if (dk[k] <= (dmin + 4 * E) * (1 + 8 * eps)) ++nclose;
        if (nclose == 1) c.label (FL_CV_FORCED);
        QG_MEAS ("closestVertex-line/far-offset-excess", (dk[which] - dmin) / (E + (quad) 1e-300));
        // analysis as in section 7 (~3 E); measured worst excess 0.64 E
        VP_REQUIRE (c, dk[which] <= (dmin + 4 * E) * (1 + 8 * eps), "closestVertex-line/not-closest-far-offset", tn << " closestVertex(line) = vertex " << which << " at distance " << qstr (dk[which]) << " from the line, but the vertex distances are " << qstr (dk[0]) << " " << qstr (dk[1]) << " " << qstr (dk[2]) << " (resolvable to " << qstr (4 * E) << ")");
    }
    // ---- rotatePoint
    {
        int pc = (int) s.below (4);
        V   p;
        if (pc == 0)
            p = p0;
        else if (pc == 1)
        {
            double t   = s.uniform (-4, 4);
            double phi = s.uniform (0, 6.283);
            quad   h   = tiny_pert<T> (s);
            p          = rnd<T> (P + Du * ((quad) t * f.ext) + perp_to (D, (quad) phi) * (h * 8 * f.ext));
        }
        else
            p = rnd<T> (O + loc_pt (s, f));
        int ac = (int) s.below (3);
        T   ang;
        if (ac == 0)
        {
            int m = (int) s.range (-4, 4);
            ang   = (T) ((double) m * 1.5707963267948966);
        }
        else
        {
            double u = s.uniform (-6.3, 6.3);
            ang      = (T) u;
        }
        c.label (pc == 0 ? FL_RP_ON_AXIS : pc == 1 ? FL_RP_NEAR_AXIS : FL_RP_GENERIC);
        if (ac == 0) c.label (FL_RP_QUARTER);
        VP_NOTE (c, "rotatePoint p=" << vs (p) << " angle=" << ang);
        Q3   Pq = q3 (p), rel = Pq - P;
        Q3   ax = Du * dot (rel, Du), pe = rel - ax;
        quad an = -(quad) ang;
        Q3   RX = P + ax + pe * cosq (an) + cross (Du, pe) * sinq (an);
        quad S  = len (Pq) + len (P) + len (rel) + (quad) 1e-300;
        V    r  = rotatePoint (p, l, ang);
        for (int i = 0; i < 3; ++i)
            QG_CHK (c, "rotatePoint/far-offset", qabs ((quad) r[i] - RX[i]), eps * S, 12, tn << " rotatePoint[" << i << "] = " << r[i] << " exact " << qstr (RX[i])); // measured worst 2.3 units
        Q3 rq = q3 (r) - P;
        QG_CHK (c, "rotatePoint/axial-component/far-offset", qabs (dot (rq, Du) - dot (rel, Du)), eps * S, 12, tn << " component along the line changes: " << qstr (dot (rq, Du)) << " vs " << qstr (dot (rel, Du))); // measured worst 2.6 units
        QG_CHK (c, "rotatePoint/distance-to-line/far-offset", qabs (len (cross (rq, Du)) - len (pe)), eps * S, 8, tn << " distance to the line changes: " << qstr (len (cross (rq, Du))) << " vs " << qstr (len (pe))); // measured worst 0.99 units
    }
}
#define C15_FL_LABELS C15_FO_LABELS, "axis_aligned_dir", "q_is_pos", "q_on_line", "q_2^-j_off_line", "q_generic", "closestVertex_answer_forced", "rotate_p_is_pos", "rotate_p_2^-j_off_axis", "rotate_p_generic", "quarter_turns"
#define C15_FL_RULE C15_FO_RULE "a line through two local points (axis / integer / random directions), query point equal to pos, on the line, 2^-1..2^-(digits+3) extents off it, generic; a local triangle for closestVertex(line); rotatePoint of pos / near-axis / generic points by quarter turns or +-2pi; oracle = quad projection / point-line distances / Rodrigues rotation on the rounded inputs; units eps (|q-pos| + |pos| + |q|); non-trivial = translated"
VP_RANDOM (far_line_f, 150000, 1500000, C15_FL_RULE) { far_line_case<float> (c, "float"); }
VP_LABELS (far_line_f, C15_FL_LABELS)
VP_REQUIRE_LABELS (far_line_f, C15_FL_LABELS)
VP_RANDOM (far_line_d, 150000, 1500000, C15_FL_RULE) { far_line_case<double> (c, "double"); }
VP_LABELS (far_line_d, C15_FL_LABELS)
VP_REQUIRE_LABELS (far_line_d, C15_FL_LABELS)

// ---- 9c. two lines: closestPoints, closestPointTo(line), distanceTo(line), translated, with the angle between the
//      lines generic, 2^-j (j up to the digits of T + 3), exactly 0 (directions assigned, or both lines built from
//      point pairs p, p + k d with integer d and non-power-of-two k), or pi/2.
//
//    All three functions start from w = pos1 - pos2 (accurate relative to |w|) and dot / cross products of the two
//    unit directions.  With s2 = sin^2 of the angle:
//      parameters t1, t2: quotients by 1 - (d1.d2)^2 (absolute error eps): error eps (|w| + |t|) / s2;
//      points pos + dir t: + eps (|pos| + |t|) - the only place where the coordinate magnitude enters;
//      connecting segment: the errors of t1 and t2 are correlated (common denominator): eps (|w| / s2 + |t1| + |t2| + |pos|);
//      distanceTo(line) = |(d1 x d2) . w| / |d1 x d2|: the cross product has absolute error eps, i.e. its direction
//      is off by eps / sin: error eps |w| / sin, no coordinate magnitude at all (exactly parallel: the library
//      falls back to distanceTo (line.pos), error eps M).  The bound is below |w| - i.e. says something - while
//      sin >= 64 eps; a "nearly parallel" shortcut anywhere above that is visible.
enum
{
    FLL_SKEW = FO_NLABELS,
    FLL_INTERSECTING,
    FLL_NEARPAR,
    FLL_INT_MULTIPLES,
    FLL_SAME_DIR,
    FLL_PERP,
    FLL_EXACT_PARALLEL,
    FLL_STRONG,
    FLL_WEAK,
    FLL_REPORTED_FALSE,
    FLL_DIST_CHECKED,
    FLL_DIST_NEARPAR_CHECKED
};
template <class T> static void far_lines_check (vp::Ctx& c, const char* tn, const Line3<T>& l1, const Line3<T>& l2);
template <class T> static void far_lines_case (vp::Ctx& c, const char* tn)
{
    typedef Vec3<T> V;
    vp::Src&        s   = c.s;
    const quad      eps = EPS<T> ();
    FarPlace        f   = gen_far<T> (c, 3);
    Q3              O   = f.o3 ();
    int             cls = (int) s.below (6);
    Line3<T>        l1, l2;
    {
        Q3     a    = loc_pt (s, f);
        Q3     dl   = loc_dir (s);
        double dlen = s.uniform (0.25, 2);
        Q3     b    = a + f.loc3 (dl * (quad) dlen);
        V      p0 = rnd<T> (O + a), p1 = rnd<T> (O + b);
        if (p1 == p0) p1.x = (T) ((quad) p0.x + qmax (f.grid, f.ext));
        l1 = Line3<T> (p0, p1);
    }
    Q3 D1l = q3 (l1.dir);
    switch (cls)
    {
        case 0: // generic second line
        {
            Q3     a    = loc_pt (s, f);
            Q3     dl   = loc_dir (s);
            double dlen = s.uniform (0.25, 2);
            Q3     b    = a + f.loc3 (dl * (quad) dlen);
            V      p0 = rnd<T> (O + a), p1 = rnd<T> (O + b);
            if (p1 == p0) p1.y = (T) ((quad) p0.y + qmax (f.grid, f.ext));
            l2 = Line3<T> (p0, p1);
            c.label (FLL_SKEW);
            break;
        }
        case 1: // through a common point (to rounding)
        {
            double t  = s.uniform (-2, 2);
            Q3     x  = q3 (l1.pos) + D1l * ((quad) t * f.ext);
            Q3     d2 = seq_dir (s);
            double al = s.uniform (0.25, 2);
            double be = s.uniform (0.25, 2);
            V      p0 = rnd<T> (x - d2 * ((quad) al * f.ext)), p1 = rnd<T> (x + d2 * ((quad) be * f.ext));
            if (p1 == p0) p1.y = (T) ((quad) p0.y + qmax (f.grid, f.ext));
            l2 = Line3<T> (p0, p1);
            c.label (FLL_INTERSECTING);
            break;
        }
        case 2: // angle 2^-j
        {
            Q3     pos2 = loc_pt (s, f);
            double phi  = s.uniform (0, 6.283);
            quad   th   = tiny_pert<T> (s);
            Q3     d    = unit (D1l) + perp_to (D1l, (quad) phi) * th;
            bool   flip = s.coin ();
            bool   two  = s.coin ();
            double dlen = s.uniform (0.5, 4);
            if (flip) d = -d;
            l2.pos = rnd<T> (O + pos2);
            if (two)
            {
                V p1 = rnd<T> (O + pos2 + d * ((quad) dlen * f.ext));
                if (p1 == l2.pos) p1.y = (T) ((quad) p1.y + qmax (f.grid, f.ext));
                l2 = Line3<T> (l2.pos, p1);
            }
            else
                l2.dir = rnd<T> (unit (d));
            c.label (FLL_NEARPAR);
            break;
        }
        case 3: // both lines from point pairs p, p + k d: d integer, k not a power of two; exactly parallel before normalisation
        {
            static const int KS[12] = { 1, 3, 5, 6, 7, 9, 10, 11, 12, 13, 14, 15 };
            quad             U      = f.unit (16);
            int              dx     = (int) s.range (-4, 4);
            int              dy     = (int) s.range (-4, 4);
            int              dz     = (int) s.range (-4, 4);
            if (dx == 0 && dy == 0 && dz == 0) dz = 1;
            int  k1  = KS[s.below (12)];
            int  k2  = KS[s.below (12)];
            bool neg = s.coin ();
            if (neg) k2 = -k2;
            int  ax = (int) s.range (-8, 8);
            int  ay = (int) s.range (-8, 8);
            int  az = (int) s.range (-8, 8);
            int  bx = (int) s.range (-8, 8);
            int  by = (int) s.range (-8, 8);
            int  bz = (int) s.range (-8, 8);
            bool co = s.chance (64); // coincident: second origin on the first line
            int  m  = (int) s.range (-6, 6);
            Q3   dI ((quad) dx, (quad) dy, (quad) dz);
            Q3   a = Q3 ((quad) ax, (quad) ay, (quad) az) * U;
            Q3   b = co ? a + dI * ((quad) m * U) : Q3 ((quad) bx, (quad) by, (quad) bz) * U;
            V    p0 = rnd<T> (O + a), p1 = rnd<T> (O + a + dI * ((quad) k1 * U));
            V    q0 = rnd<T> (O + b), q1 = rnd<T> (O + b + dI * ((quad) k2 * U));
            VP_REQUIRE (c, q3 (p0).x == O.x + a.x && q3 (p1).z == O.z + a.z + dI.z * ((quad) k1 * U) && q3 (q1).y == O.y + b.y + dI.y * ((quad) k2 * U), "harness/far-grid-not-exact", tn << " translated lattice point is not representable (harness error)");
            l1 = Line3<T> (p0, p1);
            l2 = Line3<T> (q0, q1);
            c.label (FLL_INT_MULTIPLES);
            break;
        }
        case 4: // the same direction assigned (or negated); second origin anywhere or on the first line
        {
            Q3     pos2 = loc_pt (s, f);
            bool   on   = s.coin ();
            double t    = s.uniform (-4, 4);
            bool   flip = s.coin ();
            l2.pos = on ? l1 ((T) (t * (double) f.ext)) : rnd<T> (O + pos2);
            l2.dir = flip ? -l1.dir : l1.dir;
            c.label (FLL_SAME_DIR);
            break;
        }
        default: // perpendicular (to rounding), direction assigned
        {
            Q3     pos2 = loc_pt (s, f);
            double phi  = s.uniform (0, 6.283);
            l2.pos = rnd<T> (O + pos2);
            l2.dir = rnd<T> (perp_to (D1l, (quad) phi));
            c.label (FLL_PERP);
            break;
        }
    }
    if (!(l1.dir.length2 () > 0)) l1.dir = V (1, 0, 0);
    if (!(l2.dir.length2 () > 0)) l2.dir = V (0, 1, 0);
    VP_NOTE (c, tn << " class=" << cls << " line1=" << vs (l1.pos) << "+t" << vs (l1.dir) << " line2=" << vs (l2.pos) << "+t" << vs (l2.dir) << far_note (f));
    c.nt (!f.none);
    far_lines_check<T> (c, tn, l1, l2);
}
// the checks of far_lines_case (shared with ratio_lines_*): no draws in here
template <class T> static void far_lines_check (vp::Ctx& c, const char* tn, const Line3<T>& l1, const Line3<T>& l2)
{
    typedef Vec3<T> V;
    const quad      eps = EPS<T> ();
    Q3   P1 = q3 (l1.pos), D1 = q3 (l1.dir), P2 = q3 (l2.pos), D2 = q3 (l2.dir), W = P1 - P2;
    quad A = dot (D1, D1), B = dot (D1, D2), C = dot (D2, D2), D = dot (D1, W), E = dot (D2, W);
    quad den = A * C - B * B;
    quad s2  = den / (A * C);
    if (s2 < 0) s2 = 0;
    Q3   CR = cross (D1, D2);
    bool exact_parallel = CR.x == 0 && CR.y == 0 && CR.z == 0; // exact: products of two T values, exact cancellation in quad
    if (exact_parallel) s2 = 0;
    if (exact_parallel) c.label (FLL_EXACT_PARALLEL);
    quad t1x = 0, t2x = 0, distx;
    if (!exact_parallel && den > 0)
    {
        t1x   = (B * E - C * D) / den;
        t2x   = (A * E - B * D) / den;
        distx = qabs (dot (CR, W)) / len (CR);
    }
    else
        distx = len (W - D1 * (D / A));
    Q3   X1 = P1 + D1 * t1x, X2 = P2 + D2 * t2x;
    quad lW = len (W), lP = len (P1) + len (P2);
    bool strong = s2 >= 1024 * eps;
    c.label (strong ? FLL_STRONG : FLL_WEAK);
    quad ta    = qabs (t1x) + qabs (t2x);
    quad unitP = eps * ((lW + ta) / (s2 > 0 ? s2 : 1) + lP + ta) + (quad) 1e-300;
    quad unitE = eps * (lW / (s2 > 0 ? s2 : 1) + ta + lP) + (quad) 1e-300;

    // ---- closestPoints
    V    a (7, 7, 7), b (7, 7, 7);
    bool ok = closestPoints (l1, l2, a, b);
    if (!ok) c.label (FLL_REPORTED_FALSE);
    if (strong)
    {
        VP_REQUIRE (c, ok, "closestPoints/false-for-nonparallel", tn << " closestPoints returned false for lines at sin^2=" << (double) s2);
        Q3 a_ = q3 (a), b_ = q3 (b), e = a_ - b_;
        for (int i = 0; i < 3; ++i)
        {
            QG_CHK (c, "closestPoints/point1/far-offset", qabs (a_[i] - X1[i]), unitP, 8, tn << " point1[" << i << "] = " << a[i] << " exact " << qstr (X1[i]) << " sin^2=" << (double) s2); // measured worst 1.7 units
            QG_CHK (c, "closestPoints/point2/far-offset", qabs (b_[i] - X2[i]), unitP, 8, tn << " point2[" << i << "] = " << b[i] << " exact " << qstr (X2[i]) << " sin^2=" << (double) s2); // measured worst 1.7 units
        }
        QG_CHK (c, "closestPoints/point1-on-line1/far-offset", len (cross (a_ - P1, D1)) / len (D1), eps * (len (P1) + len (a_ - P1)) + (quad) 1e-300, 4, tn << " point1 " << vs (a) << " is off line1"); // measured worst 0.69 units
        QG_CHK (c, "closestPoints/point2-on-line2/far-offset", len (cross (b_ - P2, D2)) / len (D2), eps * (len (P2) + len (b_ - P2)) + (quad) 1e-300, 4, tn << " point2 " << vs (b) << " is off line2"); // measured worst 0.78 units
        QG_CHK (c, "closestPoints/perp-dir1/far-offset", qabs (dot (e, D1)), unitE, 8, tn << " (point1-point2).dir1 = " << qstr (dot (e, D1)) << " sin^2=" << (double) s2); // measured worst 1.2 units
        QG_CHK (c, "closestPoints/perp-dir2/far-offset", qabs (dot (e, D2)), unitE, 8, tn << " (point1-point2).dir2 = " << qstr (dot (e, D2)) << " sin^2=" << (double) s2); // measured worst 1.2 units
        QG_CHK (c, "closestPoints/distance/far-offset", qabs (len (e) - distx), unitE, 8, tn << " |point1-point2| = " << qstr (len (e)) << " true distance " << qstr (distx)); // measured worst 1.4 units
    }
    else if (ok)
        VP_REQUIRE (c, fin3 (a) && fin3 (b), "closestPoints/nonfinite", tn << " closestPoints returned true with non-finite points " << vs (a) << " " << vs (b) << " sin^2=" << (double) s2);
    // ---- closestPointTo(line)
    {
        V cp = l1.closestPointTo (l2);
        VP_REQUIRE (c, fin3 (cp), "line-closestPointTo-line/nonfinite", tn << " closestPointTo(line) = " << vs (cp) << " sin^2=" << (double) s2);
        Q3 cq = q3 (cp);
        QG_CHK (c, "line-closestPointTo-line/on-line/far-offset", len (cross (cq - P1, D1)) / len (D1), eps * (len (P1) + len (cq - P1)) + (quad) 1e-300, 4, tn << " closestPointTo(line) = " << vs (cp) << " is off the line"); // measured worst 0.74 units
        if (strong)
            for (int i = 0; i < 3; ++i)
                QG_CHK (c, "line-closestPointTo-line/far-offset", qabs (cq[i] - X1[i]), unitP, 8, tn << " closestPointTo(line)[" << i << "] = " << cp[i] << " exact " << qstr (X1[i]) << " sin^2=" << (double) s2); // measured worst 1.7 units
    }
    // ---- distanceTo(line)
    {
        T    got = l1.distanceTo (l2);
        quad sn  = sqrtq (s2);
        VP_REQUIRE (c, got >= 0, "line-distanceTo-line/negative", tn << " distanceTo(line) = " << got);
        bool check = exact_parallel || sn >= 64 * eps;
        if (check)
        {
            c.label (FLL_DIST_CHECKED);
            if (!exact_parallel && !strong) c.label (FLL_DIST_NEARPAR_CHECKED);
            quad unitD = exact_parallel ? eps * (lW + lP) : eps * lW / sn;
            QG_CHK (c, (exact_parallel ? "line-distanceTo-line/exactly-parallel/far-offset" : "line-distanceTo-line/far-offset"), qabs ((quad) got - distx), unitD + (quad) 1e-300, 8, tn << " distanceTo(line) = " << got << " exact " << qstr (distx) << " sin=" << (double) sn << " |pos1-pos2|=" << (double) lW); // measured worst 1.7 units (non-parallel, down to sin = 64 eps), 1.2 units (exactly parallel)
        }
    }
}
#define C15_FLL_LABELS C15_FO_LABELS, "skew", "intersecting", "angle_2^-j", "point_pairs_p,p+k*d(integer_d,k_not_2^n)", "same_direction_assigned", "perpendicular", "stored_directions_exactly_parallel", "well_conditioned(strict)", "ill_conditioned(weak)", "closestPoints_false", "distanceTo_line_checked", "distanceTo_line_checked_below_sin^2=1024eps"
#define C15_FLL_RULE C15_FO_RULE "pairs of local lines: generic, through a common point, at an angle 2^-4..2^-(digits+3), both from lattice point pairs p, p+k d (d integer, k in 1,3,5,6,7,9..15, either sign, 1/4 coincident), same/negated direction assigned, perpendicular; oracle = quad closest-point parameters and |(d1xd2).w|/|d1xd2| on the rounded inputs; points within eps((|w|+|t|)/sin^2 + |pos| + |t|) when sin^2 >= 1024 eps (else reported-or-finite), distanceTo(line) within eps |w| / sin whenever sin >= 64 eps or the stored directions are exactly parallel; non-trivial = translated"
VP_RANDOM (far_lines_f, 200000, 2000000, C15_FLL_RULE) { far_lines_case<float> (c, "float"); }
VP_LABELS (far_lines_f, C15_FLL_LABELS)
VP_REQUIRE_LABELS (far_lines_f, C15_FLL_LABELS)
VP_RANDOM (far_lines_d, 200000, 2000000, C15_FLL_RULE) { far_lines_case<double> (c, "double"); }
VP_LABELS (far_lines_d, C15_FLL_LABELS)
VP_REQUIRE_LABELS (far_lines_d, C15_FLL_LABELS)

// ---- 9d. Plane3 set (three points; point + normal), distanceTo, reflectPoint, intersect / intersectT, translated.
//
//    set(p1,p2,p3): the normal comes from the differences p2 - p1, p3 - p1: accurate to eps / sin(edges) whatever
//    M (this is what rejects p2 x p3 - p1 x p3 - p2 x p1, error eps M^2 / area).  The stored distance normal . p1
//    is a number of size M rounded to T: every later use of the plane (distanceTo, reflectPoint, intersectT) is
//    accurate to eps M, the signed distances themselves being of the size of the extent.  That is inherent in the
//    (normal, distance) representation, so the units below are the ones of section 3; what is new is where the
//    inputs are.  Lines are generic, at an angle 2^-j to the plane (j up to the digits of T + 3), or exactly in
//    an axis-aligned plane's direction; intersect() may only return false when normal . dir vanishes to rounding.
enum
{
    FP_THREE_POINTS = FO_NLABELS,
    FP_LATTICE_POINTS,
    FP_POINT_NORMAL,
    FP_SLIVER,
    FP_COLLINEAR_SKIPPED,
    FP_Q_DEFINING,
    FP_Q_ON_PLANE,
    FP_Q_GENERIC,
    FP_LINE_STRONG,
    FP_LINE_GRAZING,
    FP_LINE_ANGLE_2J,
    FP_LINE_PARALLEL_FALSE
};
template <class T> static void far_plane_case (vp::Ctx& c, const char* tn)
{
    typedef Vec3<T> V;
    vp::Src&        s   = c.s;
    const quad      eps = EPS<T> ();
    FarPlace        f   = gen_far<T> (c, 3, -12, 4);
    Q3              O   = f.o3 ();
    int             how = (int) s.below (3);
    Plane3<T>       P, P2;
    P2.normal   = V (9, 9, 9);
    P2.distance = 9;
    V    defpt[3];
    int  ndef = 0;
    if (how <= 1)
    {
        Q3 a, b, cc;
        if (how == 0)
        {
            a           = loc_pt (s, f);
            Q3     dl   = loc_dir (s);
            double dlen = s.uniform (0.25, 2);
            Q3     E1   = unit (dl) * ((quad) dlen * f.ext);
            int    bk   = (int) s.below (4);
            double bu   = s.uniform (0.2, 2);
            int    bj   = (int) s.range (3, 10);
            quad   beta = bk <= 1 ? (quad) bu : (quad) std::ldexp (bu, -bj);
            double ga   = s.uniform (-2, 2);
            double phi  = s.uniform (0, 6.283);
            Q3     E2   = E1 * (quad) ga + perp_to (E1, (quad) phi) * (len (E1) * beta);
            b  = a + Q3 (f.snap ? f.snapq (E1.x) : E1.x, f.snap ? f.snapq (E1.y) : E1.y, f.snap ? f.snapq (E1.z) : E1.z);
            cc = a + Q3 (f.snap ? f.snapq (E2.x) : E2.x, f.snap ? f.snapq (E2.y) : E2.y, f.snap ? f.snapq (E2.z) : E2.z);
            c.label (FP_THREE_POINTS);
        }
        else // lattice points: exact edges, often axis-aligned planes
        {
            quad U = f.unit (4);
            int  co[9];
            for (int i = 0; i < 9; ++i)
                co[i] = (int) s.range (-3, 3);
            bool flat = s.coin ();
            int  ax   = (int) s.below (3);
            if (flat) co[3 + ax] = co[6 + ax] = co[ax]; // all three in a coordinate plane
            a  = Q3 ((quad) co[0], (quad) co[1], (quad) co[2]) * U;
            b  = Q3 ((quad) co[3], (quad) co[4], (quad) co[5]) * U;
            cc = Q3 ((quad) co[6], (quad) co[7], (quad) co[8]) * U;
            c.label (FP_LATTICE_POINTS);
        }
        V va = rnd<T> (O + a), vb = rnd<T> (O + b), vc = rnd<T> (O + cc);
        Q3   A = q3 (va), F1 = q3 (vb) - A, F2 = q3 (vc) - A, N = cross (F1, F2);
        quad sn = (len (F1) > 0 && len (F2) > 0) ? len (N) / (len (F1) * len (F2)) : 0;
        VP_NOTE (c, tn << " Plane3(p1,p2,p3) p1=" << vs (va) << " p2=" << vs (vb) << " p3=" << vs (vc) << far_note (f));
        if (!(sn > 64 * eps)) // collinear (lattice, or after the rounding of far points): not a plane
        {
            c.label (FP_COLLINEAR_SKIPPED);
            return;
        }
        P = Plane3<T> (va, vb, vc);
        P2.set (va, vb, vc);
        quad condN = 1 / sn;
        if (sn < (quad) 0.05) c.label (FP_SLIVER);
        Q3 NX = unit (N), Ns = q3 (P.normal);
        for (int i = 0; i < 3; ++i)
            QG_CHK (c, "plane-set3/normal/far-offset", qabs (Ns[i] - NX[i]), eps * condN, 6, tn << " normal[" << i << "] = " << P.normal[i] << " exact " << qstr (NX[i]) << " for (p2-p1)x(p3-p1), sin=" << (double) sn); // measured worst 0.99 units
        defpt[0] = va, defpt[1] = vb, defpt[2] = vc;
        ndef     = 3;
        for (int k = 0; k < 3; ++k)
        {
            Q3   X     = q3 (defpt[k]);
            quad unit_ = eps * (adot (Ns, X) + qabs ((quad) P.distance) + (len (F1) + len (F2)) * condN);
            QG_CHK (c, "plane-set3/defining-point-distance/far-offset", qabs (dot (Ns, X) - (quad) P.distance), unit_, 4, tn << " defining point " << k << " " << vs (defpt[k]) << " is at distance " << qstr (dot (Ns, X) - (quad) P.distance) << " from plane " << vs (P.normal) << "," << P.distance); // measured worst 0.70 units
            QG_CHK (c, "plane-set3/distanceTo-defining-point/far-offset", qabs ((quad) P.distanceTo (defpt[k])), unit_, 4, tn << " distanceTo(defining point " << k << ") = " << P.distanceTo (defpt[k])); // measured worst 1.0 units
        }
    }
    else
    {
        V      pt = rnd<T> (O + loc_pt (s, f));
        Q3     nd = loc_dir (s);
        int    ne = (int) s.range (-6, 6);
        double nu = s.uniform (1, 2);
        V      nn = rnd<T> (nd * (quad) std::ldexp (nu, ne));
        P         = Plane3<T> (pt, nn);
        P2.set (pt, nn);
        VP_NOTE (c, tn << " Plane3(point,normal) point=" << vs (pt) << " normal=" << vs (nn) << far_note (f));
        c.label (FP_POINT_NORMAL);
        Q3 NX = unit (q3 (nn)), Ns = q3 (P.normal);
        for (int i = 0; i < 3; ++i)
            QG_CHK (c, "plane-set-pn/normal/far-offset", qabs (Ns[i] - NX[i]), eps, 6, tn << " normal[" << i << "] = " << P.normal[i] << " exact " << qstr (NX[i])); // measured worst 1.1 units
        quad unit_ = eps * adot (Ns, q3 (pt)) + (quad) 1e-300;
        QG_CHK (c, "plane-set-pn/distance/far-offset", qabs ((quad) P.distance - dot (Ns, q3 (pt))), unit_, 6, tn << " distance = " << P.distance << " exact normal.point " << qstr (dot (Ns, q3 (pt)))); // measured worst 1.5 units
        QG_CHK (c, "plane-set-pn/distanceTo-defining-point/far-offset", qabs ((quad) P.distanceTo (pt)), unit_, 4, tn << " distanceTo(defining point) = " << P.distanceTo (pt)); // measured worst 0 units
        defpt[0] = pt;
        ndef     = 1;
    }
    c.nt (!f.none);
    VP_REQUIRE (c, same3 (P.normal, P2.normal) && same<T> (P.distance, P2.distance), "plane-ctor-vs-set", tn << " constructor and set() differ: " << vs (P.normal) << "," << P.distance << " vs " << vs (P2.normal) << "," << P2.distance);
    Q3   N = q3 (P.normal);
    quad d = (quad) P.distance;
    QG_CHK (c, "plane-unit-normal", qabs (len (N) - 1), eps, 6, tn << " |normal| = " << qstr (len (N)));
    Q3 Nu = unit (N);
    Q3 X0 = q3 (defpt[0]);
    // ---- distanceTo / reflectPoint of a point that is a defining point, on the plane, 2^-j off it, or generic
    {
        int    qc  = (int) s.below (4);
        int    dk  = (int) s.below (3);
        double al  = s.uniform (-2, 2);
        double be  = s.uniform (-2, 2);
        quad   h   = tiny_pert<T> (s);
        bool   up  = s.coin ();
        Q3     lp  = loc_pt (s, f);
        Q3     u1  = perp_to (N, 0), u2 = unit (cross (N, u1));
        V      q;
        if (qc == 0)
            q = defpt[dk % ndef];
        else if (qc == 1)
            q = rnd<T> (X0 + (u1 * (quad) al + u2 * (quad) be) * f.ext);
        else if (qc == 2)
            q = rnd<T> (X0 + (u1 * (quad) al + u2 * (quad) be) * f.ext + Nu * (h * 8 * f.ext * (up ? 1 : -1)));
        else
            q = rnd<T> (O + lp);
        c.label (qc == 0 ? FP_Q_DEFINING : qc <= 2 ? FP_Q_ON_PLANE : FP_Q_GENERIC);
        VP_NOTE (c, "q=" << vs (q));
        Q3   Q  = q3 (q);
        quad sd = dot (N, Q) - d;
        quad Sq = adot (N, Q) + qabs (d) + (quad) 1e-300;
        T    dq = P.distanceTo (q);
        QG_CHK (c, "plane-distanceTo/far-offset", qabs ((quad) dq - sd), eps * Sq, 8, tn << " distanceTo(" << vs (q) << ") = " << dq << " exact " << qstr (sd)); // measured worst 1.2 units
        V    r  = P.reflectPoint (q);
        Q3   RX = Q - N * (2 * sd);
        quad Sr = len (Q) + qabs (d) + qabs (sd) + (quad) 1e-300;
        for (int i = 0; i < 3; ++i)
            QG_CHK (c, "plane-reflectPoint/far-offset", qabs ((quad) r[i] - RX[i]), eps * Sr, 8, tn << " reflectPoint(" << vs (q) << ")[" << i << "] = " << r[i] << " exact " << qstr (RX[i])); // measured worst 1.3 units
        QG_CHK (c, "plane-reflectPoint/negates-distance/far-offset", qabs ((quad) P.distanceTo (r) + (quad) dq), eps * Sr, 16, tn << " distanceTo(reflectPoint(q)) = " << P.distanceTo (r) << " but distanceTo(q) = " << dq); // measured worst 2.7 units
    }
    // ---- line / plane intersection
    {
        int      lc = (int) s.below (3);
        Line3<T> l;
        l.pos = rnd<T> (O + loc_pt (s, f));
        bool must_be_false = false;
        if (lc == 0) // in-plane direction of an axis-aligned plane: normal . dir is exactly 0 in T arithmetic
        {
            int k = 0;
            for (int i = 1; i < 3; ++i)
                if (std::abs (P.normal[i]) > std::abs (P.normal[k])) k = i;
            bool axis = true;
            for (int i = 0; i < 3; ++i)
                if (i != k && P.normal[i] != 0) axis = false;
            Q3 dv = loc_dir (s);
            if (axis)
            {
                dv[k] = 0;
                if (dot (dv, dv) == 0) dv[(k + 1) % 3] = 1;
                must_be_false = true;
                l.dir         = rnd<T> (unit (dv));
            }
            else
                l.dir = rnd<T> (unit (dv));
        }
        else if (lc == 1) // at an angle 2^-j to the plane
        {
            double phi = s.uniform (0, 6.283);
            quad   th  = tiny_pert<T> (s);
            bool   up  = s.coin ();
            l.dir      = rnd<T> (unit (perp_to (N, (quad) phi) + Nu * (up ? th : -th)));
            c.label (FP_LINE_ANGLE_2J);
        }
        else
        {
            Q3     dl   = loc_dir (s);
            double dlen = s.uniform (0.25, 2);
            V      p1   = rnd<T> (q3 (l.pos) + f.loc3 (dl * (quad) dlen));
            if (p1 == l.pos) p1.x = (T) ((quad) p1.x + qmax (f.grid, f.ext));
            l = Line3<T> (l.pos, p1);
        }
        if (!(l.dir.length2 () > 0)) l.dir = V (1, 0, 0);
        VP_NOTE (c, "line=" << vs (l.pos) << "+t" << vs (l.dir));
        Q3   LP = q3 (l.pos), LD = q3 (l.dir);
        quad nd = dot (N, LD);
        V    ip (7, 7, 7);
        T    t  = 7;
        bool ok = P.intersect (l, ip), okT = P.intersectT (l, t);
        VP_REQUIRE (c, ok == okT, "plane-intersect-vs-intersectT", tn << " intersect returns " << ok << ", intersectT " << okT);
        if (must_be_false) VP_REQUIRE (c, !ok, "plane-intersect/parallel-true", tn << " line " << vs (l.dir) << " lies parallel to plane " << vs (P.normal) << " but intersect() returned true, t=" << t);
        if (!ok)
        {
            c.label (FP_LINE_PARALLEL_FALSE);
            VP_REQUIRE (c, qabs (nd) <= 4 * eps * adot (N, LD) + (quad) 1e-300, "plane-intersect/false-for-crossing-line", tn << " intersect() returned false although normal.dir = " << qstr (nd));
        }
        else
        {
            VP_REQUIRE (c, same3 (ip, l (t)), "plane-intersect/point-vs-T", tn << " intersect() point " << vs (ip) << " != line(intersectT) " << vs (l (t)));
            quad and_   = adot (N, LD);
            bool strong = qabs (nd) >= 1024 * eps * and_;
            c.label (strong ? FP_LINE_STRONG : FP_LINE_GRAZING);
            if (strong)
            {
                quad tx = (d - dot (N, LP)) / nd;
                quad ut = eps * ((adot (N, LP) + qabs (d)) / qabs (nd) + qabs (tx) * and_ / qabs (nd)) + (quad) 1e-300;
                QG_CHK (c, "plane-intersectT/far-offset", qabs ((quad) t - tx), ut, 6, tn << " intersectT = " << t << " exact " << qstr (tx) << " normal.dir=" << (double) nd); // measured worst 0.90 units
                Q3   IX = LP + LD * tx;
                quad up = ut + eps * (len (LP) + qabs (tx));
                for (int i = 0; i < 3; ++i)
                    QG_CHK (c, "plane-intersect/point/far-offset", qabs ((quad) ip[i] - IX[i]), up, 4, tn << " intersect point[" << i << "] = " << ip[i] << " exact " << qstr (IX[i])); // measured worst 0.64 units
                QG_CHK (c, "plane-intersect/on-plane/far-offset", qabs (dot (N, q3 (ip)) - d), up, 4, tn << " intersect point " << vs (ip) << " is at distance " << qstr (dot (N, q3 (ip)) - d) << " from the plane"); // measured worst 0.55 units
                QG_CHK (c, "plane-intersect/on-line/far-offset", len (cross (q3 (ip) - LP, LD)) / len (LD), eps * (len (LP) + len (q3 (ip) - LP)) + (quad) 1e-300, 4, tn << " intersect point " << vs (ip) << " is off the line"); // measured worst 0.79 units
            }
        }
    }
}
#define C15_FP_LABELS C15_FO_LABELS, "from_three_points", "from_three_lattice_points", "from_point_normal", "sliver_triangle", "collinear_skipped", "q_is_defining_point", "q_on_or_2^-j_off_the_plane", "q_generic", "line_hit_well_conditioned", "line_grazing", "line_at_angle_2^-j", "line_parallel_reported"
#define C15_FP_RULE C15_FO_RULE "(extent 2^-12..2^4 here) planes from three local points (edges generic / slivers with sin 2^-3..2^-10 / lattice points, half of them in a coordinate plane) or point + normal (length 2^-6..2^7); query point = a defining point, on the plane, 2^-j extents off it, generic; lines generic, at an angle 2^-4..2^-(digits+3) to the plane, or exactly parallel to an axis-aligned plane; oracle = quad evaluation on the stored plane, units as in plane_*; three collinear points (sin <= 64 eps after rounding) are skipped and counted; non-trivial = translated"
VP_RANDOM (far_plane_f, 200000, 2000000, C15_FP_RULE) { far_plane_case<float> (c, "float"); }
VP_LABELS (far_plane_f, C15_FP_LABELS)
VP_REQUIRE_LABELS (far_plane_f, C15_FP_LABELS)
VP_RANDOM (far_plane_d, 200000, 2000000, C15_FP_RULE) { far_plane_case<double> (c, "double"); }
VP_LABELS (far_plane_d, C15_FP_LABELS)
VP_REQUIRE_LABELS (far_plane_d, C15_FP_LABELS)

// ---- 9e. Sphere3 intersectT / intersect / circumscribe, translated; origin on / 2^-j inside / outside the surface,
//      closest approach r (1 +- 2^-j).  Checks: sphere_check / circ_check of section 4, whose units for t contain
//      only pos - centre, dir and r (the library subtracts the centre first): an expansion about the un-shifted
//      origin, |pos|^2 - 2 pos.centre + |centre|^2 - r^2, has error eps M^2 and fails them.
enum
{
    FS_ORIGIN_NEAR_SURFACE = SP_SECOND_ROOT + 1 + FO_NLABELS,
    FS_NEAR_TANGENT,
    FS_BOX_FLAT
};
template <class T> static void far_sphere_case (vp::Ctx& c, const char* tn)
{
    typedef Vec3<T> V;
    vp::Src&        s = c.s;
    FarPlace        f = gen_far<T> (c, 3);
    // the labels of sphere_check occupy 0 .. SP_SECOND_ROOT: move the placement labels behind them
    {
        uint64_t m  = c.labelmask;
        c.labelmask = m << (SP_SECOND_ROOT + 1);
    }
    Q3     O   = f.o3 ();
    Q3     cl  = loc_pt (s, f);
    int    rc  = (int) s.below (3);
    double ru  = s.uniform (1, 2);
    int    rj  = (int) s.range (1, 3);
    T      rad = (T) ((rc == 0 ? std::ldexp (ru, -rj) : rc == 1 ? ru * 2 : ru) * (double) f.ext);
    V      cen = rnd<T> (O + cl);
    Sphere3<T> sp (cen, rad);
    Q3     Cn = q3 (cen);
    quad   R  = (quad) rad;
    int    cls = (int) s.below (8);
    Q3     u   = seq_dir (s);
    Line3<T> l;
    switch (cls)
    {
        case 0:
        case 1:
        {
            double fo = s.uniform (1.1, 4);
            Q3     td = seq_dir (s);
            double ft = s.uniform (0, 0.9);
            l         = Line3<T> (rnd<T> (Cn + u * (R * (quad) fo)), rnd<T> (Cn + td * (R * (quad) ft)));
            if (cls == 1) l.dir = -l.dir;
            break;
        }
        case 2:
        {
            double fo = s.uniform (0, 0.95);
            Q3     td = seq_dir (s);
            l         = Line3<T> (rnd<T> (Cn + u * (R * (quad) fo)), rnd<T> (Cn + td * (4 * R)));
            break;
        }
        case 3: // origin on the surface, or 2^-j radii inside / outside it; aimed inwards / outwards / tangentially
        {
            int    pc  = (int) s.below (3);
            quad   h   = tiny_pert<T> (s);
            int    dc  = (int) s.below (3);
            double phi = s.uniform (0, 6.283);
            double sl  = s.uniform (0, 2);
            quad   fo  = pc == 0 ? (quad) 1 : pc == 1 ? 1 - h : 1 + h;
            Q3     d;
            if (dc == 0)
                d = -u + perp_to (u, (quad) phi) * (quad) sl;
            else if (dc == 1)
                d = u + perp_to (u, (quad) phi) * (quad) sl;
            else
                d = perp_to (u, (quad) phi);
            l.pos = rnd<T> (Cn + u * (R * fo));
            l.dir = rnd<T> (unit (d));
            c.label (FS_ORIGIN_NEAR_SURFACE);
            break;
        }
        case 4:
        case 5: // closest approach r f: clear miss, or f = 1 +- 2^-j
        {
            double fm   = s.uniform (1.05, 4);
            quad   h    = tiny_pert<T> (s);
            bool   in   = s.coin ();
            double phi  = s.uniform (0, 6.283);
            double back = s.uniform (-2, 6);
            quad   ff   = cls == 4 ? (quad) fm : in ? 1 - h : 1 + h;
            Q3     m    = Cn + u * (R * ff);
            Q3     d    = perp_to (u, (quad) phi);
            l.pos       = rnd<T> (m - d * ((quad) back * R));
            l.dir       = rnd<T> (d);
            if (cls == 5) c.label (FS_NEAR_TANGENT);
            break;
        }
        case 6: // through the centre
        {
            double fo  = s.uniform (0.1, 4);
            bool   neg = s.coin ();
            l          = Line3<T> (rnd<T> (Cn + u * (R * (quad) fo)), cen);
            if (neg) l.dir = -l.dir;
            break;
        }
        default: l = Line3<T> (rnd<T> (O + loc_pt (s, f)), rnd<T> (O + loc_pt (s, f))); break;
    }
    if (!(l.dir.length2 () > 0)) l.dir = V (0, 0, 1);
    // ---- box for circumscribe: min local, size per axis 0 or up to 2 extents
    V mn = rnd<T> (O + loc_pt (s, f)), mx;
    bool flat = false;
    for (int i = 0; i < 3; ++i)
    {
        bool   z  = s.chance (32);
        double sz = s.uniform (0, 2);
        if (z) flat = true;
        mx[i] = z ? mn[i] : (T) ((quad) mn[i] + f.loc ((quad) sz));
        if (mx[i] < mn[i]) mx[i] = mn[i];
    }
    if (flat) c.label (FS_BOX_FLAT);
    VP_NOTE (c, tn << " sphere centre=" << vs (cen) << " r=" << rad << " line=" << vs (l.pos) << "+t" << vs (l.dir) << " class=" << cls << "; box min=" << vs (mn) << " max=" << vs (mx) << far_note (f));
    circ_check<T> (c, tn, mn, mx);
    sphere_check<T> (c, tn, sp, l);
}
#define C15_FS_LABELS C15_SP_LABELS, C15_FO_LABELS, "origin_on_or_2^-j_radii_off_the_surface", "closest_approach_r(1+-2^-j)", "flat_box"
#define C15_FS_RULE C15_FO_RULE "spheres with local centre, r = 1/8..4 extents; lines from the 8 classes of sphere_* with the origin on the surface or 2^-4..2^-(digits+3) radii inside / outside it and closest approach r (1 +- 2^-j); boxes with local min, per-axis size 0 or up to 2 extents for circumscribe; oracle and units as in sphere_* / circumscribe_* (t: differences pos - centre only, no coordinate magnitude); non-trivial as in sphere_*"
VP_RANDOM (far_sphere_f, 200000, 2000000, C15_FS_RULE) { far_sphere_case<float> (c, "float"); }
VP_LABELS (far_sphere_f, C15_FS_LABELS)
VP_REQUIRE_LABELS (far_sphere_f, C15_FS_LABELS)
VP_RANDOM (far_sphere_d, 200000, 2000000, C15_FS_RULE) { far_sphere_case<double> (c, "double"); }
VP_LABELS (far_sphere_d, C15_FS_LABELS)
VP_REQUIRE_LABELS (far_sphere_d, C15_FS_LABELS)

// ---- 9f. triangle intersect(), translated.  Checks: tri_check of section 5 with the far form of the position unit:
//      d = normal . (v0 - pos) and the edges are differences (accurate relative to the extent), so only they are
//      amplified by 1 / |normal . dir|; the coordinate magnitude enters once, in the rounding of pos + dir t and
//      of pt - v_k (barycentrics: / smallest altitude).  An expansion normal . v0 - normal . pos (error eps M /
//      |n.dir|) is visible on slanted lines.  Intended barycentrics 2^-j inside / outside an edge or vertex.
enum
{
    FT_HIT_DECIDED = TR_FALSE + 1 + FO_NLABELS,
    FT_EDGE_2J
};
template <class T> static void far_tri_case (vp::Ctx& c, const char* tn)
{
    typedef Vec3<T> V;
    vp::Src&        s = c.s;
    FarPlace        f = gen_far<T> (c, 3, -12, 4); // small triangles too: "area very small" means zero, at every scale
    {
        uint64_t m  = c.labelmask;
        c.labelmask = m << (TR_FALSE + 1);
    }
    Q3   O     = f.o3 ();
    int  shape = (int) s.below (8);
    Q3   a, b, cc;
    bool degenerate = false, inplane = false;
    if (shape == 0) // exactly degenerate on the lattice
    {
        quad U  = f.unit (4);
        int  ax = (int) s.range (-4, 4);
        int  ay = (int) s.range (-4, 4);
        int  az = (int) s.range (-4, 4);
        int  ex = (int) s.range (-3, 3);
        int  ey = (int) s.range (-3, 3);
        int  ez = (int) s.range (-3, 3);
        int  m1 = (int) s.range (-2, 2);
        int  m2 = (int) s.range (-2, 2);
        a  = Q3 ((quad) ax, (quad) ay, (quad) az) * U;
        b  = a + Q3 ((quad) ex, (quad) ey, (quad) ez) * ((quad) m1 * U);
        cc = a + Q3 ((quad) ex, (quad) ey, (quad) ez) * ((quad) m2 * U);
        degenerate = true;
        c.label (TR_DEGENERATE);
    }
    else if (shape == 1) // in a plane z = const (on the grid), line direction with z == 0
    {
        int    zq = (int) s.range (-4, 4);
        double x0 = loc_unit (s);
        double y0 = loc_unit (s);
        double x1 = s.uniform (0.5, 3);
        double y1 = s.uniform (-1, 1);
        double x2 = s.uniform (-1, 1);
        double y2 = s.uniform (0.5, 3);
        bool   sw = s.coin ();
        quad   z  = (quad) zq * f.unit (4);
        a  = Q3 (f.loc ((quad) x0), f.loc ((quad) y0), z);
        b  = Q3 (a.x + f.loc ((quad) x1 / 2), a.y + f.loc ((quad) y1 / 2), z);
        cc = Q3 (a.x + f.loc ((quad) x2 / 2), a.y + f.loc ((quad) y2 / 2), z);
        if (sw) std::swap (b, cc);
        inplane = true;
        c.label (TR_PARALLEL);
    }
    else
    {
        a           = loc_pt (s, f);
        Q3     dl   = loc_dir (s);
        double dlen = s.uniform (0.25, 2);
        Q3     E1   = unit (dl) * ((quad) dlen * f.ext);
        double bu   = s.uniform (0.2, 2);
        int    bj   = (int) s.range (5, 12);
        quad   beta = shape <= 5 ? (quad) bu : (quad) std::ldexp (bu, -bj);
        double ga   = s.uniform (-1.5, 2.5);
        double phi  = s.uniform (0, 6.283);
        Q3     E2   = E1 * (quad) ga + perp_to (E1, (quad) phi) * (len (E1) * beta);
        b  = a + E1;
        cc = a + E2;
    }
    V v0 = rnd<T> (O + a), v1 = rnd<T> (O + b), v2 = rnd<T> (O + cc);
    if (degenerate) VP_REQUIRE (c, q3 (v0).x == O.x + a.x && q3 (v1).y == O.y + b.y && q3 (v2).z == O.z + cc.z, "harness/far-grid-not-exact", tn << " translated lattice point is not representable (harness error)");
    Q3 A = q3 (v0), B = q3 (v1), Cq = q3 (v2);
    // intended barycentrics of the hit
    int  bcls = (int) s.below (6);
    quad bb[3];
    {
        double x  = s.uniform (0.05, 1);
        double y  = s.uniform (0.05, 1);
        double z  = s.uniform (0.05, 1);
        quad   sm = tiny_pert<T> (s) * 8;
        bool   ng = s.coin ();
        int    k  = (int) s.below (3);
        bool   n2 = s.coin ();
        double ou = s.uniform (0.05, 2);
        bb[0] = x, bb[1] = y, bb[2] = z;
        if (ng) sm = -sm;
        switch (bcls)
        {
            case 1: bb[k] = sm * (bb[0] + bb[1] + bb[2]); break;
            case 2: bb[k] = sm * bb[(k + 2) % 3]; bb[(k + 1) % 3] = (n2 ? sm : -sm) * bb[(k + 2) % 3]; break;
            case 3: bb[k] = -(quad) ou * (bb[0] + bb[1] + bb[2]); break;
            case 4: bb[0] = bb[1] = bb[2] = 1; break;
            default: break;
        }
        if (bcls == 1 || bcls == 2) c.label (FT_EDGE_2J);
        quad sum = bb[0] + bb[1] + bb[2];
        for (int i = 0; i < 3; ++i)
            bb[i] /= sum;
    }
    Q3       H  = A * bb[0] + B * bb[1] + Cq * bb[2];
    Q3       Nt = cross (B - A, Cq - A);
    Line3<T> l;
    if (degenerate)
    {
        Q3   lp  = loc_pt (s, f);
        Q3   od  = loc_dir (s);
        bool thr = s.coin ();
        l        = Line3<T> (rnd<T> (O + lp), rnd<T> (H + (thr ? Q3 () : unit (od) * f.ext)));
    }
    else if (inplane)
    {
        Q3   dv  = loc_dir (s);
        bool inp = s.coin ();
        Q3   lp  = loc_pt (s, f);
        dv.z     = 0;
        if (dot (dv, dv) == 0) dv.x = 1;
        l.pos = inp ? rnd<T> (H) : rnd<T> (O + lp);
        l.dir = rnd<T> (unit (dv));
    }
    else
    {
        if (!(len (Nt) > 0)) // collinear after the rounding of far points
        {
            c.label (TR_ILLCOND);
            return;
        }
        Q3     n   = unit (Nt);
        int    gz  = (int) s.below (4);
        double cu  = s.uniform (0.2, 1);
        int    cj  = (int) s.range (3, 12);
        bool   ng  = s.coin ();
        double phi = s.uniform (0, 6.283);
        double Lu  = s.uniform (0.5, 8);
        bool   beh = s.chance (64);
        quad   cs  = gz <= 2 ? (quad) cu : (quad) std::ldexp (1.0 + cu, -cj);
        if (ng) cs = -cs;
        Q3   dir = n * cs + perp_to (n, (quad) phi) * sqrtq (1 - cs * cs);
        quad L   = (quad) Lu * f.ext * (beh ? -1 : 1);
        V    o   = rnd<T> (H - dir * L);
        V    h   = rnd<T> (H);
        if (h == o) o = rnd<T> (H - dir * (L + 4 * f.grid * (beh ? -1 : 1)));
        l = Line3<T> (o, h);
        if (beh) l.dir = -l.dir, c.label (TR_NEG_T);
        if (gz == 3) c.label (TR_GRAZING);
    }
    if (!(l.dir.length2 () > 0)) l.dir = V (0, 0, 1);
    VP_NOTE (c, tn << " v0=" << vs (v0) << " v1=" << vs (v1) << " v2=" << vs (v2) << " line=" << vs (l.pos) << "+t" << vs (l.dir) << " shape=" << shape << " baryclass=" << bcls << far_note (f));
    tri_check<T> (c, tn, v0, v1, v2, l, degenerate, inplane, true);
    if (c.nontrivial && !degenerate && !inplane) c.label (FT_HIT_DECIDED);
}
#define C15_FT_LABELS C15_TR_LABELS, C15_FO_LABELS, "hit_or_miss_decided", "intended_hit_2^-j_from_an_edge_or_vertex"
#define C15_FT_RULE C15_FO_RULE "(extent 2^-12..2^4 here) local triangles (regular, thin with altitude 2^-5..2^-12 of the base, exactly degenerate on the lattice, in a plane z = const with an in-plane line) x intended barycentrics (interior, 2^-1..2^-(digits) inside/outside an edge or vertex, clearly outside, centroid) x lines through the hit from either side incl. |n.dir| 2^-3..2^-12 and hits behind pos; oracle, band and units as in tri_* with the far form of the position unit ((|v|+|pos|+|t|) + (|v0-pos|+|t|)/|n.dir| + cond |X-v0|/|n.dir|); non-trivial as in tri_* (conditioning eps M / altitude <= 1/256 and hit outside the band)"
VP_RANDOM (far_tri_f, 250000, 2500000, C15_FT_RULE) { far_tri_case<float> (c, "float"); }
VP_LABELS (far_tri_f, C15_FT_LABELS)
VP_REQUIRE_LABELS (far_tri_f, "hit_interior", "hit_near_edge", "hit_near_vertex", "passes_outside", "front_facing", "back_facing", "hit_behind_line_origin", "grazing_line", "thin_triangle", "degenerate_triangle", "line_parallel_to_plane", "returned_true", "returned_false", C15_FO_REQUIRED, "hit_or_miss_decided", "intended_hit_2^-j_from_an_edge_or_vertex")
VP_RANDOM (far_tri_d, 250000, 2500000, C15_FT_RULE) { far_tri_case<double> (c, "double"); }
VP_LABELS (far_tri_d, C15_FT_LABELS)
VP_REQUIRE_LABELS (far_tri_d, "hit_interior", "hit_near_edge", "hit_near_vertex", "passes_outside", "front_facing", "back_facing", "hit_behind_line_origin", "grazing_line", "thin_triangle", "degenerate_triangle", "line_parallel_to_plane", "returned_true", "returned_false", C15_FO_REQUIRED, "hit_or_miss_decided", "intended_hit_2^-j_from_an_edge_or_vertex")

// =====================================================================================
// 10. project / orthogonal / reflect next to their special cases: t at an angle 2^-j (j = 4 .. digits + 3) from
//     parallel, antiparallel or perpendicular to s, exactly parallel / perpendicular, and |t| / |s| from 2^-60 to
//     2^60 (float) / 2^-400 to 2^400 (double).  These functions act on vectors (no translation class); the
//     results are accurate to eps |t| (a relative perturbation eps of s turns s^ by eps and moves every result by
//     eps |t|), which is far below the distance to the special case for every j <= digits - 5: a shortcut that
//     treats "nearly perpendicular" as perpendicular (or nearly parallel as parallel) is visible.
// =====================================================================================
enum
{
    VN_VEC2,
    VN_VEC3,
    VN_VEC4,
    VN_NEAR_PARALLEL,
    VN_NEAR_ANTIPARALLEL,
    VN_NEAR_PERP,
    VN_EXACT_PARALLEL,
    VN_EXACT_PERP,
    VN_GENERIC_ANGLE,
    VN_T_MUCH_LARGER,
    VN_T_MUCH_SMALLER,
    VN_S_AXIS
};
template <class Vec, class T, int N> static void vec_near_case (vp::Ctx& c, const char* tn)
{
    vp::Src&   s   = c.s;
    const quad eps = EPS<T> ();
    const int  SC  = FarK<T>::SC;
    // ---- s
    int    dcl = (int) s.below (3);
    double sd[4] = { 0, 0, 0, 0 };
    if (dcl == 0)
    {
        int  a   = (int) s.below ((uint64_t) N);
        bool neg = s.coin ();
        sd[a]    = neg ? -1 : 1;
        c.label (VN_S_AXIS);
    }
    else if (dcl == 1)
    {
        bool z = true;
        for (int i = 0; i < N; ++i)
        {
            int m = (int) s.range (-4, 4);
            sd[i] = m;
            if (m) z = false;
        }
        if (z) sd[0] = 1;
    }
    else
    {
        double n2 = 0;
        for (int i = 0; i < N; ++i)
        {
            sd[i] = s.uniform (-1, 1);
            n2 += sd[i] * sd[i];
        }
        if (n2 < 0.01) sd[0] = 1;
    }
    int    sc = (int) s.range (-SC, SC);
    double su = s.uniform (1, 2);
    Vec    ss, tv;
    quad   S[4] = { 0, 0, 0, 0 }, Tq[4] = { 0, 0, 0, 0 };
    for (int i = 0; i < N; ++i)
    {
        ss[i] = (T) std::ldexp (sd[i] * (dcl == 1 ? 1.0 : su), sc);
        S[i]  = (quad) ss[i];
    }
    quad s2 = 0;
    for (int i = 0; i < N; ++i)
        s2 += S[i] * S[i];
    quad ls = sqrtq (s2);
    // ---- a unit vector u perpendicular to the stored s (Gram-Schmidt in quad)
    quad U[4] = { 0, 0, 0, 0 };
    {
        double w[4];
        for (int i = 0; i < N; ++i)
            w[i] = s.uniform (-1, 1);
        quad pw = 0;
        for (int i = 0; i < N; ++i)
            pw += (quad) w[i] * S[i] / ls;
        quad u2 = 0;
        for (int i = 0; i < N; ++i)
        {
            U[i] = (quad) w[i] - pw * S[i] / ls;
            u2 += U[i] * U[i];
        }
        if (u2 < (quad) 1e-4) // w (nearly) parallel to s: rotate the two largest components of s instead
        {
            int i0 = 0;
            for (int i = 1; i < N; ++i)
                if (qabs (S[i]) > qabs (S[i0])) i0 = i;
            int i1 = i0 == 0 ? 1 : 0;
            for (int i = 0; i < N; ++i)
                U[i] = 0;
            U[i0] = -S[i1] / ls;
            U[i1] = S[i0] / ls;
            u2    = U[i0] * U[i0] + U[i1] * U[i1];
        }
        quad lu = sqrtq (u2);
        for (int i = 0; i < N; ++i)
            U[i] /= lu;
    }
    // ---- t = |t| (cos a s^ + sin a u)
    int    acl = (int) s.below (6);
    quad   th  = tiny_pert<T> (s);
    bool   ng  = s.coin ();
    double ga  = s.uniform (-3.1416, 3.1416);
    int    tm  = (int) s.range (-SC, SC);
    double tu  = s.uniform (1, 2);
    int    pk  = (int) s.range (-12, 12);
    quad   lt0 = (quad) std::ldexp (tu, tm);
    quad   ca, sa;
    switch (acl)
    {
        case 0: ca = cosq (th), sa = sinq (th); c.label (VN_NEAR_PARALLEL); break;
        case 1: ca = -cosq (th), sa = sinq (th); c.label (VN_NEAR_ANTIPARALLEL); break;
        case 2: ca = ng ? -sinq (th) : sinq (th), sa = cosq (th); c.label (VN_NEAR_PERP); break;
        case 3: ca = 1, sa = 0; break;
        case 4: ca = 0, sa = 1; break;
        default: ca = cosq ((quad) ga), sa = sinq ((quad) ga); c.label (VN_GENERIC_ANGLE); break;
    }
    if (ng) sa = -sa;
    for (int i = 0; i < N; ++i)
        tv[i] = (T) (lt0 * (ca * S[i] / ls + sa * U[i]));
    if (acl == 3) // exactly parallel: t = s * (m / 8), a product without rounding in T for the small-integer s
    {
        for (int i = 0; i < N; ++i)
            tv[i] = (T) (S[i] * (quad) (pk == 0 ? 1 : pk) / 8);
        if (dcl <= 1) c.label (VN_EXACT_PARALLEL);
    }
    if (acl == 4 && N >= 2) // exactly perpendicular to the stored s: (-s1, s0, 0, 0) scaled by a power of two
    {
        int i0 = 0;
        for (int i = 1; i < N; ++i)
            if (qabs (S[i]) > qabs (S[i0])) i0 = i;
        int i1 = i0 == 0 ? 1 : 0;
        for (int i = 0; i < N; ++i)
            tv[i] = 0;
        tv[i0] = (T) (-S[i1] * (quad) std::ldexp (1.0, pk));
        tv[i1] = (T) (S[i0] * (quad) std::ldexp (1.0, pk));
        c.label (VN_EXACT_PERP);
    }
    quad st = 0, t2 = 0;
    for (int i = 0; i < N; ++i)
    {
        Tq[i] = (quad) tv[i];
        st += S[i] * Tq[i];
        t2 += Tq[i] * Tq[i];
    }
    quad lt = sqrtq (t2);
    VP_NOTE (c, tn << " s=" << vstr (ss, N) << " t=" << vstr (tv, N) << " angle class " << acl);
    if (lt > ls * 1024) c.label (VN_T_MUCH_LARGER);
    if (lt * 1024 < ls) c.label (VN_T_MUCH_SMALLER);
    c.nt (true);
    quad ut = eps * lt + (quad) 1e-300;
    Vec  pr = project (ss, tv), og = orthogonal (ss, tv);
    quad dots = 0;
    for (int i = 0; i < N; ++i)
    {
        quad px = S[i] * st / s2;
        QG_CHK (c, "project/near-special", qabs ((quad) pr[i] - px), ut, 16, tn << " project(s,t)[" << i << "] = " << pr[i] << " exact " << qstr (px) << " s=" << vstr (ss, N) << " t=" << vstr (tv, N)); // measured worst 2.8 units
        QG_CHK (c, "orthogonal/near-special", qabs ((quad) og[i] - (Tq[i] - px)), ut, 16, tn << " orthogonal(s,t)[" << i << "] = " << og[i] << " exact " << qstr (Tq[i] - px) << " s=" << vstr (ss, N) << " t=" << vstr (tv, N)); // measured worst 2.8 units
        QG_CHK (c, "project+orthogonal/near-special", qabs ((quad) pr[i] + (quad) og[i] - Tq[i]), ut, 2, tn << " project+orthogonal != t in slot " << i); // measured worst 0.49 units
        dots += (quad) og[i] * S[i] / ls;
    }
    QG_CHK (c, "orthogonal/perp/near-special", qabs (dots), ut, 16, tn << " orthogonal(s,t).s/|s| = " << qstr (dots)); // measured worst 3.2 units
    Vec  rf = reflect (tv, ss);
    quad l2 = 0;
    for (int i = 0; i < N; ++i)
    {
        quad rx = 2 * S[i] * st / s2 - Tq[i];
        QG_CHK (c, "reflect/near-special", qabs ((quad) rf[i] - rx), ut, 32, tn << " reflect(t,s)[" << i << "] = " << rf[i] << " exact " << qstr (rx) << " s=" << vstr (ss, N) << " t=" << vstr (tv, N)); // measured worst 5.6 units
        l2 += (quad) rf[i] * (quad) rf[i];
    }
    QG_CHK (c, "reflect/length/near-special", qabs (sqrtq (l2) - lt), ut, 32, tn << " |reflect(t,s)| = " << qstr (sqrtq (l2)) << " |t| = " << qstr (lt)); // measured worst 6.4 units
}
template <class T> static void vec_near_dispatch (vp::Ctx& c)
{
    int N = 2 + (int) c.s.below (3);
    c.label (N == 2 ? VN_VEC2 : N == 3 ? VN_VEC3 : VN_VEC4);
    const bool dbl = sizeof (T) == 8;
    if (N == 2)
        vec_near_case<Vec2<T>, T, 2> (c, dbl ? "V2d" : "V2f");
    else if (N == 3)
        vec_near_case<Vec3<T>, T, 3> (c, dbl ? "V3d" : "V3f");
    else
        vec_near_case<Vec4<T>, T, 4> (c, dbl ? "V4d" : "V4f");
}
#define C15_VN_LABELS "Vec2", "Vec3", "Vec4", "t_2^-j_from_parallel", "t_2^-j_from_antiparallel", "t_2^-j_from_perpendicular", "t_exactly_parallel", "t_exactly_perpendicular", "t_generic_angle", "|t|>1024|s|", "|t|<|s|/1024", "s_axis_aligned"
#define C15_VN_RULE "s axis-aligned / small integers / random, scaled by 2^-30..2^30 (float) / 2^-200..2^200 (double); t of length 2^-30..2^30 / 2^-200..2^200 at an angle 2^-4..2^-(digits+3) from parallel, antiparallel or perpendicular to s, exactly parallel (s m/8), exactly perpendicular ((-s1,s0,0,0) 2^k) or at a generic angle; oracle = quad formulas on the rounded inputs, units eps |t| as in vecalgo_*; all cases non-trivial"
VP_RANDOM (vec_near_f, 200000, 2000000, C15_VN_RULE) { vec_near_dispatch<float> (c); }
VP_LABELS (vec_near_f, C15_VN_LABELS)
VP_REQUIRE_LABELS (vec_near_f, C15_VN_LABELS)
VP_RANDOM (vec_near_d, 200000, 2000000, C15_VN_RULE) { vec_near_dispatch<double> (c); }
VP_LABELS (vec_near_d, C15_VN_LABELS)
VP_REQUIRE_LABELS (vec_near_d, C15_VN_LABELS)

// =====================================================================================
// 11. "Component ratios": directions / normals with one or two components smaller than the largest by a factor
//     2^-k, k = 1 .. digits + 10 (far below eps relative, but non-zero), every sign pattern, signed zeros, mantissas
//     1 / four bits / full.  For every function of the property that takes a direction or a normal.  The bounds
//     are the conditioning-scaled ones of sections 1 - 6 (absolute errors of a few eps on unit vectors): a tilt of
//     6 eps (1.3e-15 rad in double, 7e-7 in float) is visible, so a shortcut that flushes a relatively small but
//     non-zero component to 0 is seen for every k <= digits - 4; the larger k exercise the paths where the
//     component is absorbed by the rounding of the length (results must still be within the same bounds).
// =====================================================================================
struct RatioVec
{
    double v[4];       // T values
    int    dom;        // index of the largest component
    int    kmin, kmax; // exponents of the small components (relative to the largest)
    int    ntiny;
    bool   has_zero;
};
template <class T> static RatioVec gen_ratio (vp::Src& s, int N)
{
    RatioVec r;
    for (int i = 0; i < 4; ++i)
        r.v[i] = 0;
    int dom    = (int) s.below ((uint64_t) N);
    int forced = (int) s.below ((uint64_t) (N - 1)); // which of the other components is small in any case
    int e      = (int) s.range (-2, 2);
    int mb     = (int) s.below (3);
    r.dom      = dom;
    r.kmin     = 1000;
    r.kmax     = 0;
    r.ntiny    = 0;
    r.has_zero = false;
    int oi     = 0;
    for (int i = 0; i < N; ++i)
    {
        int    mode = (int) s.below (4);
        int    k    = (int) s.range (1, FInfo<T>::mant + 10);
        double u    = s.unit ();
        int    u4   = (int) s.below (16);
        bool   neg  = s.coin ();
        double m    = mb == 0 ? 1.0 : mb == 1 ? 1.0 + u4 / 16.0 : 1.0 + u;
        double val;
        if (i == dom)
            val = std::ldexp (m, e);
        else
        {
            bool tiny = oi == forced || mode <= 1;
            ++oi;
            if (tiny)
            {
                val = std::ldexp (m, e - k);
                r.ntiny++;
                r.kmin = std::min (r.kmin, k);
                r.kmax = std::max (r.kmax, k);
            }
            else if (mode == 2)
            {
                val        = 0;
                r.has_zero = true;
            }
            else
                val = std::ldexp (m, e) * (0.25 + 0.5 * u);
        }
        if (neg) val = -val;
        r.v[i] = (double) (T) val;
    }
    return r;
}
enum
{
    RQ_TINY_ONE,
    RQ_TINY_TWO_OR_MORE,
    RQ_ZERO_COMP,
    RQ_K_VISIBLE,
    RQ_K_BELOW_EPS,
    RQ_NBASE
};
#define C15_RQ_BASE "one_small_component", "two_or_more_small_components", "a_zero_component", "ratio_above_64eps(flush_visible)", "ratio_below_eps"
template <class T> static inline void ratio_labels (vp::Ctx& c, const RatioVec& r, int base = 0)
{
    c.label (base + (r.ntiny == 1 ? RQ_TINY_ONE : RQ_TINY_TWO_OR_MORE));
    if (r.has_zero) c.label (base + RQ_ZERO_COMP);
    if (r.kmin <= FInfo<T>::mant - 7) c.label (base + RQ_K_VISIBLE);
    if (r.kmax > FInfo<T>::mant) c.label (base + RQ_K_BELOW_EPS);
}
template <class T> static inline Vec3<T> ratio3 (const RatioVec& r) { return Vec3<T> ((T) r.v[0], (T) r.v[1], (T) r.v[2]); }
// a point: the origin, on the integer lattice, or generic
template <class T> static inline Vec3<T> ratio_pt (vp::Src& s)
{
    int     pc = (int) s.below (3);
    int     x  = (int) s.range (-4, 4);
    int     y  = (int) s.range (-4, 4);
    int     z  = (int) s.range (-4, 4);
    Vec3<T> g  = seq_pt<T> (s);
    return pc == 0 ? Vec3<T> (0, 0, 0) : pc == 1 ? Vec3<T> ((T) x, (T) y, (T) z) : g;
}

// ---- 11a. Line3 set / closestPointTo(point) / distanceTo(point) / rotatePoint; Plane3 set overloads, distanceTo,
//      reflectPoint, reflectVector, intersect / intersectT
enum
{
    RQ_LINE_TWO_POINTS = RQ_NBASE,
    RQ_LINE_DIR_ASSIGNED,
    RQ_PL_THREE_POINTS,
    RQ_PL_POINT_NORMAL,
    RQ_PL_NORMAL_DIST,
    RQ_HIT_STRONG,
    RQ_HIT_GRAZING,
    RQ_HIT_PARALLEL_FALSE,
    RQ_SAME_DOMINANT,
    RQ_DIFFERENT_DOMINANT
};
template <class T> static void ratio_prims_case (vp::Ctx& c, const char* tn)
{
    typedef Vec3<T> V;
    vp::Src&        s   = c.s;
    const quad      eps = EPS<T> ();
    RatioVec        rd  = gen_ratio<T> (s, 3);
    V               d   = ratio3<T> (rd);
    ratio_labels<T> (c, rd);
    c.nt (true);
    // ---- Line3 from two points p0, p0 + d 2^se
    int pc = (int) s.below (4);
    int m  = (int) s.range (-3, 3);
    V   gp = ratio_pt<T> (s);
    int se = (int) s.range (-2, 2);
    V   p0 = pc == 3 ? rnd<T> (q3 (d) * (quad) m) : gp; // a point of the line through 0, or see ratio_pt
    V   p1 = rnd<T> (q3 (p0) + q3 (d) * (quad) std::ldexp (1.0, se));
    if (p1 == p0) p1[rd.dom] += 1;
    Line3<T> l (p0, p1), l2;
    l2.pos = V (9, 9, 9);
    l2.dir = V (9, 9, 9);
    l2.set (p0, p1);
    VP_NOTE (c, tn << " d=" << vs (d) << " p0=" << vs (p0) << " p1=" << vs (p1));
    VP_REQUIRE (c, same3 (l.pos, l2.pos) && same3 (l.dir, l2.dir), "line-ctor-vs-set", tn << " Line3(p0,p1) != set(p0,p1): dir " << vs (l.dir) << " vs " << vs (l2.dir));
    VP_REQUIRE (c, same3 (l.pos, p0), "line-set/pos", tn << " pos " << vs (l.pos) << " != p0 " << vs (p0));
    {
        Q3 D  = q3 (l.dir);
        Q3 DX = unit (q3 (p1) - q3 (p0));
        for (int i = 0; i < 3; ++i)
            QG_CHK (c, "line-set/dir/ratio", qabs (D[i] - DX[i]), eps, 6, tn << " dir[" << i << "] = " << l.dir[i] << " exact " << qstr (DX[i]) << " for p0=" << vs (p0) << " p1=" << vs (p1)); // measured worst 1.1 units
        QG_CHK (c, "line-set/dir-unit/ratio", qabs (len (D) - 1), eps, 6, tn << " |dir| = " << qstr (len (D))); // measured worst 1.1 units
    }
    // the line used below: the constructed one, or pos + the direction normalised in quad and assigned
    bool     assigned = s.coin ();
    Line3<T> L        = l;
    if (assigned) L.dir = rnd<T> (unit (q3 (d)));
    c.label (assigned ? RQ_LINE_DIR_ASSIGNED : RQ_LINE_TWO_POINTS);
    Q3 P = q3 (L.pos), D = q3 (L.dir), Du = unit (D);
    // ---- query point: generic, on the line, or pos + another vector with small components
    int      qc  = (int) s.below (3);
    V        qg  = seq_pt<T> (s);
    double   qt  = s.uniform (-4, 4);
    RatioVec rq  = gen_ratio<T> (s, 3);
    V        q   = qc == 0 ? qg : qc == 1 ? rnd<T> (P + D * (quad) qt) : rnd<T> (P + q3 (ratio3<T> (rq)));
    VP_NOTE (c, "line=" << vs (L.pos) << "+t" << vs (L.dir) << " q=" << vs (q));
    {
        Q3   Q  = q3 (q);
        quad tx = dot (Q - P, D) / dot (D, D);
        Q3   CX = P + D * tx;
        quad S  = len (Q - P) + len (P) + len (Q) + (quad) 1e-30;
        V    cp = L.closestPointTo (q);
        Q3   C  = q3 (cp);
        for (int i = 0; i < 3; ++i)
            QG_CHK (c, "line-closestPointTo-point/ratio", qabs (C[i] - CX[i]), eps * S, 8, tn << " closestPointTo(" << vs (q) << ")[" << i << "] = " << cp[i] << " exact " << qstr (CX[i]) << " line " << vs (L.pos) << "+t" << vs (L.dir)); // measured worst 1.1 units
        QG_CHK (c, "line-closestPointTo-point/perp/ratio", qabs (dot (Q - C, D)), eps * S, 8, tn << " (q - closestPointTo(q)).dir != 0 for q=" << vs (q) << " cp=" << vs (cp)); // measured worst 1.2 units
        T    dist = L.distanceTo (q);
        quad dx   = len (Q - CX);
        QG_CHK (c, "line-distanceTo-point/ratio", qabs ((quad) dist - dx), eps * S, 8, tn << " distanceTo(" << vs (q) << ") = " << dist << " exact " << qstr (dx) << " line " << vs (L.pos) << "+t" << vs (L.dir)); // measured worst 1.1 units
    }
    // ---- rotatePoint about the line
    {
        int    ac = (int) s.below (3);
        int    am = (int) s.range (-4, 4);
        double au = s.uniform (-6.3, 6.3);
        T      ang = ac == 0 ? (T) ((double) am * 1.5707963267948966) : (T) au;
        Q3     Pq = q3 (q), rel = Pq - P;
        Q3     ax = Du * dot (rel, Du), pe = rel - ax;
        quad   a  = -(quad) ang;
        Q3     RX = P + ax + pe * cosq (a) + cross (Du, pe) * sinq (a);
        quad   S  = len (Pq) + len (P) + len (rel) + (quad) 1e-300;
        V      r  = rotatePoint (q, L, ang);
        for (int i = 0; i < 3; ++i)
            QG_CHK (c, "rotatePoint/ratio", qabs ((quad) r[i] - RX[i]), eps * S, 12, tn << " rotatePoint(" << vs (q) << ", angle " << ang << ")[" << i << "] = " << r[i] << " exact " << qstr (RX[i])); // measured worst 2.2 units
    }
    // ---- planes whose normal has small components
    RatioVec rn = gen_ratio<T> (s, 3);
    V        nv = ratio3<T> (rn);
    ratio_labels<T> (c, rn);
    c.label (rn.dom == rd.dom ? RQ_SAME_DOMINANT : RQ_DIFFERENT_DOMINANT);
    int       how = (int) s.below (3);
    int       ne  = (int) s.range (-6, 6);
    V         pa  = ratio_pt<T> (s);
    int       e1s = (int) s.range (-2, 2);
    int       e2s = (int) s.range (-2, 2);
    T         dd  = gen::nice<T> (s);
    Plane3<T> Pl, Pl2;
    Pl2.normal   = V (9, 9, 9);
    Pl2.distance = 9;
    if (how == 0)
    {
        // edges (-n_b, n_a, 0) and (-n_c, 0, n_a) in the cyclic order (a, b, c) starting at the largest component a:
        // their cross product is n_a (n_a, n_b, n_c), without rounding when the first point is the origin
        int a = rn.dom, b = (a + 1) % 3, cc = (a + 2) % 3;
        Q3  E1, E2;
        E1[a]  = -(quad) nv[b];
        E1[b]  = (quad) nv[a];
        E2[a]  = -(quad) nv[cc];
        E2[cc] = (quad) nv[a];
        V vb = rnd<T> (q3 (pa) + E1 * (quad) std::ldexp (1.0, e1s)), vc = rnd<T> (q3 (pa) + E2 * (quad) std::ldexp (1.0, e2s));
        Pl   = Plane3<T> (pa, vb, vc);
        Pl2.set (pa, vb, vc);
        VP_NOTE (c, "Plane3(p1,p2,p3) p1=" << vs (pa) << " p2=" << vs (vb) << " p3=" << vs (vc));
        c.label (RQ_PL_THREE_POINTS);
        Q3   A = q3 (pa), F1 = q3 (vb) - A, F2 = q3 (vc) - A, N = cross (F1, F2);
        quad sn = len (N) / (len (F1) * len (F2));
        if (!(sn > (quad) 0.25)) return; // the two edges are perpendicular up to the small components: cannot happen
        quad condN = 1 / sn;
        Q3   NX = unit (N), Ns = q3 (Pl.normal);
        for (int i = 0; i < 3; ++i)
            QG_CHK (c, "plane-set3/normal/ratio", qabs (Ns[i] - NX[i]), eps * condN, 6, tn << " normal[" << i << "] = " << Pl.normal[i] << " exact " << qstr (NX[i]) << " for (p2-p1)x(p3-p1)"); // measured worst 1.1 units
        const V* pts[3] = { &pa, &vb, &vc };
        for (int k = 0; k < 3; ++k)
        {
            Q3   X     = q3 (*pts[k]);
            quad unit_ = eps * (adot (Ns, X) + qabs ((quad) Pl.distance) + (len (F1) + len (F2)) * condN);
            QG_CHK (c, "plane-set3/distanceTo-defining-point/ratio", qabs ((quad) Pl.distanceTo (*pts[k])), unit_, 4, tn << " distanceTo(defining point " << k << ") = " << Pl.distanceTo (*pts[k])); // measured worst 0.66 units
        }
    }
    else if (how == 1)
    {
        V nn = nv * std::ldexp ((T) 1, ne);
        Pl   = Plane3<T> (pa, nn);
        Pl2.set (pa, nn);
        VP_NOTE (c, "Plane3(point,normal) point=" << vs (pa) << " normal=" << vs (nn));
        c.label (RQ_PL_POINT_NORMAL);
        Q3 NX = unit (q3 (nn)), Ns = q3 (Pl.normal);
        for (int i = 0; i < 3; ++i)
            QG_CHK (c, "plane-set-pn/normal/ratio", qabs (Ns[i] - NX[i]), eps, 6, tn << " normal[" << i << "] = " << Pl.normal[i] << " exact " << qstr (NX[i])); // measured worst 1.0 units
        quad unit_ = eps * adot (Ns, q3 (pa)) + (quad) 1e-300;
        QG_CHK (c, "plane-set-pn/distance/ratio", qabs ((quad) Pl.distance - dot (Ns, q3 (pa))), unit_, 6, tn << " distance = " << Pl.distance << " exact normal.point " << qstr (dot (Ns, q3 (pa)))); // measured worst 1.2 units
    }
    else
    {
        V nn = nv * std::ldexp ((T) 1, ne);
        Pl   = Plane3<T> (nn, dd);
        Pl2.set (nn, dd);
        VP_NOTE (c, "Plane3(normal,distance) normal=" << vs (nn) << " d=" << dd);
        c.label (RQ_PL_NORMAL_DIST);
        Q3 NX = unit (q3 (nn)), Ns = q3 (Pl.normal);
        for (int i = 0; i < 3; ++i)
            QG_CHK (c, "plane-set-nd/normal/ratio", qabs (Ns[i] - NX[i]), eps, 6, tn << " normal[" << i << "] = " << Pl.normal[i] << " exact " << qstr (NX[i])); // measured worst 0.97 units
        VP_REQUIRE (c, same<T> (Pl.distance, dd), "plane-set-nd/distance", tn << " distance " << Pl.distance << " != " << dd);
    }
    VP_REQUIRE (c, same3 (Pl.normal, Pl2.normal) && same<T> (Pl.distance, Pl2.distance), "plane-ctor-vs-set", tn << " constructor and set() differ: " << vs (Pl.normal) << "," << Pl.distance << " vs " << vs (Pl2.normal) << "," << Pl2.distance);
    Q3   N   = q3 (Pl.normal);
    quad dpl = (quad) Pl.distance;
    QG_CHK (c, "plane-unit-normal/ratio", qabs (len (N) - 1), eps, 6, tn << " |normal| = " << qstr (len (N))); // measured worst 1.2 units
    {
        Q3   Q  = q3 (q);
        quad sd = dot (N, Q) - dpl;
        quad Sq = adot (N, Q) + qabs (dpl) + (quad) 1e-300;
        T    dq = Pl.distanceTo (q);
        QG_CHK (c, "plane-distanceTo/ratio", qabs ((quad) dq - sd), eps * Sq, 8, tn << " distanceTo(" << vs (q) << ") = " << dq << " exact " << qstr (sd)); // measured worst 1.3 units
        V    r  = Pl.reflectPoint (q);
        Q3   RX = Q - N * (2 * sd);
        quad Sr = len (Q) + qabs (dpl) + qabs (sd) + (quad) 1e-300;
        for (int i = 0; i < 3; ++i)
            QG_CHK (c, "plane-reflectPoint/ratio", qabs ((quad) r[i] - RX[i]), eps * Sr, 8, tn << " reflectPoint(" << vs (q) << ")[" << i << "] = " << r[i] << " exact " << qstr (RX[i])); // measured worst 1.4 units
    }
    {
        int      vc = (int) s.below (3);
        V        vg = gen_offset<T> (s);
        RatioVec rv = gen_ratio<T> (s, 3);
        double   ph = s.uniform (0, 6.283);
        V        v  = vc == 0 ? vg : vc == 1 ? ratio3<T> (rv) : rnd<T> (perp_to (N, (quad) ph));
        Q3       Vq = q3 (v);
        V        r  = Pl.reflectVector (v);
        Q3       RX = N * (2 * dot (N, Vq)) - Vq;
        quad     Sv = len (Vq);
        for (int i = 0; i < 3; ++i)
            QG_CHK (c, "plane-reflectVector/ratio", qabs ((quad) r[i] - RX[i]), eps * Sv, 12, tn << " reflectVector(" << vs (v) << ")[" << i << "] = " << r[i] << " exact 2(n.v)n-v " << qstr (RX[i])); // measured worst 2.7 units
    }
    // ---- the line against the plane: n.dir ~ 1 when the largest components share an axis, else ~ 2^-k (grazing)
    {
        Q3   LP = P, LD = D;
        quad nd = dot (N, LD);
        V    ip (7, 7, 7);
        T    t  = 7;
        bool ok = Pl.intersect (L, ip), okT = Pl.intersectT (L, t);
        VP_REQUIRE (c, ok == okT, "plane-intersect-vs-intersectT", tn << " intersect returns " << ok << ", intersectT " << okT);
        if (!ok)
        {
            c.label (RQ_HIT_PARALLEL_FALSE);
            VP_REQUIRE (c, qabs (nd) <= 4 * eps * adot (N, LD) + (quad) 1e-300, "plane-intersect/false-for-crossing-line", tn << " intersect() returned false although normal.dir = " << qstr (nd));
        }
        else
        {
            VP_REQUIRE (c, same3 (ip, L (t)), "plane-intersect/point-vs-T", tn << " intersect() point " << vs (ip) << " != line(intersectT) " << vs (L (t)));
            quad and_   = adot (N, LD);
            bool strong = qabs (nd) >= 1024 * eps * and_;
            c.label (strong ? RQ_HIT_STRONG : RQ_HIT_GRAZING);
            if (strong)
            {
                quad tx = (dpl - dot (N, LP)) / nd;
                quad ut = eps * ((adot (N, LP) + qabs (dpl)) / qabs (nd) + qabs (tx) * and_ / qabs (nd)) + (quad) 1e-300;
                QG_CHK (c, "plane-intersectT/ratio", qabs ((quad) t - tx), ut, 6, tn << " intersectT = " << t << " exact " << qstr (tx) << " normal.dir=" << (double) nd); // measured worst 1.1 units
                Q3   IX = LP + LD * tx;
                quad up = ut + eps * (len (LP) + qabs (tx));
                for (int i = 0; i < 3; ++i)
                    QG_CHK (c, "plane-intersect/point/ratio", qabs ((quad) ip[i] - IX[i]), up, 4, tn << " intersect point[" << i << "] = " << ip[i] << " exact " << qstr (IX[i])); // measured worst 0.66 units
            }
        }
    }
}
#define C15_RQP_LABELS C15_RQ_BASE, "line_from_two_points", "line_direction_assigned", "plane_from_three_points", "plane_from_point_normal", "plane_from_normal_distance", "line_hit_well_conditioned", "line_grazing", "line_parallel_reported", "line_and_normal_same_dominant_axis", "line_and_normal_different_dominant_axes"
#define C15_RQP_REQUIRED C15_RQ_BASE, "line_from_two_points", "line_direction_assigned", "plane_from_three_points", "plane_from_point_normal", "plane_from_normal_distance", "line_hit_well_conditioned", "line_and_normal_same_dominant_axis", "line_and_normal_different_dominant_axes"
#define C15_RQ_RULE "direction / normal vectors with a largest component (1+u) 2^-2..2^2 on a random axis and one or two others smaller by 2^-k, k uniform in 1 .. digits+10 (the rest zero or comparable), every sign pattern incl. signed zeros, mantissa 1 / four bits / full; "
#define C15_RQP_RULE C15_RQ_RULE "a line through p0 and p0 + d 2^j (p0 = 0 / lattice / generic / a multiple of d) or with the quad-normalised direction assigned; query points generic, on the line, pos + another such vector; rotatePoint by quarter turns or +-2pi; planes from three points with edges (-n_b,n_a,0), (-n_c,0,n_a), from point+normal and normal+distance; reflectVector of generic / small-component / in-plane vectors; the line against the plane (grazing at 2^-k when the dominant axes differ); oracle = quad formulas on the stored objects, bounds of the sub-checks line_point_*, plane_*, linealgo_*; all cases non-trivial"
VP_RANDOM (ratio_prims_f, 100000, 1000000, C15_RQP_RULE) { ratio_prims_case<float> (c, "float"); }
VP_LABELS (ratio_prims_f, C15_RQP_LABELS)
VP_REQUIRE_LABELS (ratio_prims_f, C15_RQP_REQUIRED)
VP_RANDOM (ratio_prims_d, 100000, 1000000, C15_RQP_RULE) { ratio_prims_case<double> (c, "double"); }
VP_LABELS (ratio_prims_d, C15_RQP_LABELS)
VP_REQUIRE_LABELS (ratio_prims_d, C15_RQP_REQUIRED)

// ---- 11b. project / orthogonal / reflect (ImathVecAlgo.h) with such an s, Vec2 / Vec3 / Vec4
enum
{
    RQV_VEC2 = RQ_NBASE,
    RQV_VEC3,
    RQV_VEC4,
    RQV_T_GENERIC,
    RQV_T_RATIO,
    RQV_T_PARALLEL,
    RQV_T_PERP
};
template <class Vec, class T, int N> static void ratio_vec_case (vp::Ctx& c, const char* tn)
{
    vp::Src&   s   = c.s;
    const quad eps = EPS<T> ();
    RatioVec   rs  = gen_ratio<T> (s, N);
    ratio_labels<T> (c, rs);
    c.nt (true);
    int      sc = (int) s.range (-12, 12);
    int      tc = (int) s.below (4);
    RatioVec rt = gen_ratio<T> (s, N);
    double   pf = s.uniform (-3, 3);
    int      pj = (int) s.below ((uint64_t) (N - 1));
    Vec      ss, tv;
    for (int i = 0; i < N; ++i)
    {
        ss[i] = (T) std::ldexp (rs.v[i], sc);
        tv[i] = gen::nice<T> (s);
    }
    if (tc == 1)
        for (int i = 0; i < N; ++i)
            tv[i] = (T) rt.v[i];
    else if (tc == 2)
        for (int i = 0; i < N; ++i)
            tv[i] = (T) (rs.v[i] * pf);
    else if (tc == 3) // exactly perpendicular to the stored s: (-s_j, s_dom) in the plane of the largest and another component
    {
        int j = pj >= rs.dom ? pj + 1 : pj;
        for (int i = 0; i < N; ++i)
            tv[i] = 0;
        tv[rs.dom] = (T) -rs.v[j];
        tv[j]      = (T) rs.v[rs.dom];
    }
    c.label (tc == 0 ? RQV_T_GENERIC : tc == 1 ? RQV_T_RATIO : tc == 2 ? RQV_T_PARALLEL : RQV_T_PERP);
    VP_NOTE (c, tn << " s=" << vstr (ss, N) << " t=" << vstr (tv, N));
    quad S[N], Tq[N], s2 = 0, st = 0, t2 = 0;
    for (int i = 0; i < N; ++i)
    {
        S[i]  = (quad) ss[i];
        Tq[i] = (quad) tv[i];
        s2 += S[i] * S[i];
        st += S[i] * Tq[i];
        t2 += Tq[i] * Tq[i];
    }
    quad lt = sqrtq (t2), ls = sqrtq (s2);
    quad ut = eps * lt + (quad) 1e-300;
    Vec  pr = project (ss, tv), og = orthogonal (ss, tv);
    quad dots = 0;
    for (int i = 0; i < N; ++i)
    {
        quad px = S[i] * st / s2;
        QG_CHK (c, "project/ratio", qabs ((quad) pr[i] - px), ut, 16, tn << " project(s,t)[" << i << "] = " << pr[i] << " exact " << qstr (px) << " s=" << vstr (ss, N) << " t=" << vstr (tv, N)); // measured worst 2.3 units
        QG_CHK (c, "orthogonal/ratio", qabs ((quad) og[i] - (Tq[i] - px)), ut, 16, tn << " orthogonal(s,t)[" << i << "] = " << og[i] << " exact " << qstr (Tq[i] - px) << " s=" << vstr (ss, N) << " t=" << vstr (tv, N)); // measured worst 2.3 units
        dots += (quad) og[i] * S[i] / ls;
    }
    QG_CHK (c, "orthogonal/perp/ratio", qabs (dots), ut, 16, tn << " orthogonal(s,t).s/|s| = " << qstr (dots)); // measured worst 2.6 units
    Vec  rf = reflect (tv, ss);
    quad l2 = 0;
    for (int i = 0; i < N; ++i)
    {
        quad rx = 2 * S[i] * st / s2 - Tq[i];
        QG_CHK (c, "reflect/ratio", qabs ((quad) rf[i] - rx), ut, 32, tn << " reflect(t,s)[" << i << "] = " << rf[i] << " exact " << qstr (rx) << " s=" << vstr (ss, N) << " t=" << vstr (tv, N)); // measured worst 4.6 units
        l2 += (quad) rf[i] * (quad) rf[i];
    }
    QG_CHK (c, "reflect/length/ratio", qabs (sqrtq (l2) - lt), ut, 32, tn << " |reflect(t,s)| = " << qstr (sqrtq (l2)) << " |t| = " << qstr (lt)); // measured worst 5.2 units
}
template <class T> static void ratio_vec_dispatch (vp::Ctx& c)
{
    int N = 2 + (int) c.s.below (3);
    c.label (N == 2 ? RQV_VEC2 : N == 3 ? RQV_VEC3 : RQV_VEC4);
    const bool dbl = sizeof (T) == 8;
    if (N == 2)
        ratio_vec_case<Vec2<T>, T, 2> (c, dbl ? "V2d" : "V2f");
    else if (N == 3)
        ratio_vec_case<Vec3<T>, T, 3> (c, dbl ? "V3d" : "V3f");
    else
        ratio_vec_case<Vec4<T>, T, 4> (c, dbl ? "V4d" : "V4f");
}
#define C15_RQV_LABELS C15_RQ_BASE, "Vec2", "Vec3", "Vec4", "t_generic", "t_with_small_components", "t_parallel_s", "t_exactly_perpendicular_s"
#define C15_RQV_RULE C15_RQ_RULE "s such a vector scaled by 2^-12..2^12 (Vec2/3/4), t generic, another such vector, a multiple of s, or exactly perpendicular to s; oracle = quad formulas on the rounded inputs, units eps |t| as in vecalgo_*; all cases non-trivial"
VP_RANDOM (ratio_vec_f, 60000, 600000, C15_RQV_RULE) { ratio_vec_dispatch<float> (c); }
VP_LABELS (ratio_vec_f, C15_RQV_LABELS)
VP_REQUIRE_LABELS (ratio_vec_f, C15_RQV_LABELS)
VP_RANDOM (ratio_vec_d, 60000, 600000, C15_RQV_RULE) { ratio_vec_dispatch<double> (c); }
VP_LABELS (ratio_vec_d, C15_RQV_LABELS)
VP_REQUIRE_LABELS (ratio_vec_d, C15_RQV_LABELS)

// ---- 11c. two lines, sphere, triangle with such line directions (and triangle normals): the draw-free check
//      functions of sections 9c, 4 and 5 on these inputs.  Label ids of those functions are kept; the labels of
//      this section follow them.
template <class T> static Line3<T> ratio_line (vp::Src& s, const RatioVec& r, const Vec3<T>& pos)
{
    typedef Vec3<T> V;
    bool     two = s.coin ();
    int      se  = (int) s.range (-2, 2);
    V        d   = ratio3<T> (r);
    Line3<T> l;
    if (two)
    {
        V p1 = rnd<T> (q3 (pos) + q3 (d) * (quad) std::ldexp (1.0, se));
        if (p1 == pos) p1[r.dom] += 1;
        l = Line3<T> (pos, p1);
    }
    else
    {
        l.pos = pos;
        l.dir = rnd<T> (unit (q3 (d)));
    }
    return l;
}
enum
{
    RQL_BASE = FLL_DIST_NEARPAR_CHECKED + 1,
    RQL_SAME_DOMINANT = RQL_BASE + RQ_NBASE,
    RQL_DIFFERENT_DOMINANT
};
template <class T> static void ratio_lines_case (vp::Ctx& c, const char* tn)
{
    typedef Vec3<T> V;
    vp::Src&        s  = c.s;
    RatioVec        r1 = gen_ratio<T> (s, 3);
    RatioVec        r2 = gen_ratio<T> (s, 3);
    V               a  = ratio_pt<T> (s);
    V               b  = ratio_pt<T> (s);
    Line3<T>        l1 = ratio_line<T> (s, r1, a);
    Line3<T>        l2 = ratio_line<T> (s, r2, b);
    ratio_labels<T> (c, r1, RQL_BASE);
    ratio_labels<T> (c, r2, RQL_BASE);
    c.label (r1.dom == r2.dom ? RQL_SAME_DOMINANT : RQL_DIFFERENT_DOMINANT);
    c.nt (true);
    VP_NOTE (c, tn << " line1=" << vs (l1.pos) << "+t" << vs (l1.dir) << " line2=" << vs (l2.pos) << "+t" << vs (l2.dir));
    far_lines_check<T> (c, tn, l1, l2);
}
#define C15_RQL_LABELS C15_FLL_LABELS, C15_RQ_BASE, "same_dominant_axis(nearly_parallel)", "different_dominant_axes(nearly_perpendicular)"
#define C15_RQL_REQUIRED "well_conditioned(strict)", "ill_conditioned(weak)", "distanceTo_line_checked", C15_RQ_BASE, "same_dominant_axis(nearly_parallel)", "different_dominant_axes(nearly_perpendicular)"
#define C15_RQL_RULE C15_RQ_RULE "two lines with such directions (from two points or assigned), origins 0 / lattice / generic: nearly parallel at 2^-k when the dominant axes agree, nearly perpendicular otherwise; checks and bounds of far_lines_*; all cases non-trivial"
VP_RANDOM (ratio_lines_f, 60000, 600000, C15_RQL_RULE) { ratio_lines_case<float> (c, "float"); }
VP_LABELS (ratio_lines_f, C15_RQL_LABELS)
VP_REQUIRE_LABELS (ratio_lines_f, C15_RQL_REQUIRED)
VP_RANDOM (ratio_lines_d, 60000, 600000, C15_RQL_RULE) { ratio_lines_case<double> (c, "double"); }
VP_LABELS (ratio_lines_d, C15_RQL_LABELS)
VP_REQUIRE_LABELS (ratio_lines_d, C15_RQL_REQUIRED)

enum
{
    RQS_BASE = SP_SECOND_ROOT + 1
};
template <class T> static void ratio_sphere_case (vp::Ctx& c, const char* tn)
{
    typedef Vec3<T> V;
    vp::Src&        s   = c.s;
    RatioVec        rd  = gen_ratio<T> (s, 3);
    V               cen = ratio_pt<T> (s);
    int             rc  = (int) s.below (3);
    double          ru  = s.uniform (1, 2);
    int             rj  = (int) s.range (1, 8);
    T               rad = (T) (rc == 0 ? std::ldexp (ru, -rj) : rc == 1 ? ru * 16 : ru);
    Q3              td  = seq_dir (s);
    double          g   = s.uniform (0, 1.3);
    double          bk  = s.uniform (-2, 6);
    Q3              Cn = q3 (cen), Du = unit (q3 (ratio3<T> (rd)));
    quad            R  = (quad) rad;
    Q3              tg = Cn + td * (R * (quad) g); // a point within 1.3 radii of the centre the line passes through
    V               pos = rnd<T> (tg - Du * (R * (quad) bk));
    Line3<T>        l   = ratio_line<T> (s, rd, pos);
    Sphere3<T>      sp (cen, rad);
    ratio_labels<T> (c, rd, RQS_BASE);
    VP_NOTE (c, tn << " sphere centre=" << vs (cen) << " r=" << rad << " line=" << vs (l.pos) << "+t" << vs (l.dir));
    sphere_check<T> (c, tn, sp, l);
}
#define C15_RQS_LABELS C15_SP_LABELS, C15_RQ_BASE
#define C15_RQS_REQUIRED "origin_outside_hit", "origin_outside_sphere_behind", "origin_inside", "clear_miss", "returned_true", "returned_false", "larger_root_expected", C15_RQ_BASE
#define C15_RQS_RULE C15_RQ_RULE "spheres with r 2^-8..32 at 0 / lattice / generic centres; a line with such a direction through a point within 1.3 radii of the centre, origin -2..6 radii before it; checks, bounds and non-trivial as in sphere_*"
VP_RANDOM (ratio_sphere_f, 60000, 600000, C15_RQS_RULE) { ratio_sphere_case<float> (c, "float"); }
VP_LABELS (ratio_sphere_f, C15_RQS_LABELS)
VP_REQUIRE_LABELS (ratio_sphere_f, C15_RQS_REQUIRED)
VP_RANDOM (ratio_sphere_d, 60000, 600000, C15_RQS_RULE) { ratio_sphere_case<double> (c, "double"); }
VP_LABELS (ratio_sphere_d, C15_RQS_LABELS)
VP_REQUIRE_LABELS (ratio_sphere_d, C15_RQS_REQUIRED)

enum
{
    RQT_BASE = TR_FALSE + 1,
    RQT_NORMAL_RATIO = RQT_BASE + RQ_NBASE,
    RQT_GENERIC_TRIANGLE
};
template <class T> static void ratio_tri_case (vp::Ctx& c, const char* tn)
{
    typedef Vec3<T> V;
    vp::Src&        s  = c.s;
    RatioVec        rd = gen_ratio<T> (s, 3);
    RatioVec        rn = gen_ratio<T> (s, 3);
    bool            nr = s.coin ();
    V               v0 = ratio_pt<T> (s);
    V               e1 = gen_offset<T> (s);
    double          ga = s.uniform (-1.5, 2.5);
    double          be = s.uniform (0.2, 2);
    double          ph = s.uniform (0, 6.283);
    int             e1s = (int) s.range (-2, 2);
    int             e2s = (int) s.range (-2, 2);
    V               v1, v2;
    if (nr) // triangle whose normal has small components: the edges of section 11a
    {
        V   nv = ratio3<T> (rn);
        int a = rn.dom, b = (a + 1) % 3, cc = (a + 2) % 3;
        Q3  E1, E2;
        E1[a]  = -(quad) nv[b];
        E1[b]  = (quad) nv[a];
        E2[a]  = -(quad) nv[cc];
        E2[cc] = (quad) nv[a];
        v1     = rnd<T> (q3 (v0) + E1 * (quad) std::ldexp (1.0, e1s));
        v2     = rnd<T> (q3 (v0) + E2 * (quad) std::ldexp (1.0, e2s));
        ratio_labels<T> (c, rn, RQT_BASE);
        c.label (RQT_NORMAL_RATIO);
    }
    else
    {
        Q3 E1 = q3 (e1);
        Q3 E2 = E1 * (quad) ga + perp_to (E1, (quad) ph) * (len (E1) * (quad) be);
        v1    = v0 + e1;
        v2    = v0 + rnd<T> (E2);
        c.label (RQT_GENERIC_TRIANGLE);
    }
    ratio_labels<T> (c, rd, RQT_BASE);
    // intended hit: interior, 2^-j inside / outside an edge, clearly outside
    int    bc = (int) s.below (4);
    double x  = s.uniform (0.05, 1);
    double y  = s.uniform (0.05, 1);
    double z  = s.uniform (0.05, 1);
    quad   sm = tiny_pert<T> (s) * 8;
    bool   ng = s.coin ();
    int    k  = (int) s.below (3);
    double ou = s.uniform (0.05, 2);
    quad   bb[3] = { (quad) x, (quad) y, (quad) z };
    if (ng) sm = -sm;
    if (bc == 1) bb[k] = sm * (bb[0] + bb[1] + bb[2]);
    if (bc == 2) bb[k] = -(quad) ou * (bb[0] + bb[1] + bb[2]);
    quad sum = bb[0] + bb[1] + bb[2];
    for (int i = 0; i < 3; ++i)
        bb[i] /= sum;
    Q3     H  = q3 (v0) * bb[0] + q3 (v1) * bb[1] + q3 (v2) * bb[2];
    double Lu = s.uniform (0.5, 8);
    bool   beh = s.chance (64);
    Q3     Du = unit (q3 (ratio3<T> (rd)));
    V      o  = rnd<T> (H - Du * ((quad) Lu * (beh ? -1 : 1)));
    Line3<T> l = ratio_line<T> (s, rd, o);
    if (beh) c.label (TR_NEG_T);
    VP_NOTE (c, tn << " v0=" << vs (v0) << " v1=" << vs (v1) << " v2=" << vs (v2) << " line=" << vs (l.pos) << "+t" << vs (l.dir));
    Q3 Nt = cross (q3 (v1) - q3 (v0), q3 (v2) - q3 (v0));
    if (!(len (Nt) > 0))
    {
        c.label (TR_ILLCOND);
        return;
    }
    tri_check<T> (c, tn, v0, v1, v2, l, false, false, false);
}
#define C15_RQT_LABELS C15_TR_LABELS, C15_RQ_BASE, "triangle_normal_with_small_components", "generic_triangle"
#define C15_RQT_REQUIRED "hit_interior", "hit_near_edge", "passes_outside", "front_facing", "back_facing", "hit_behind_line_origin", "returned_true", "returned_false", C15_RQ_BASE, "triangle_normal_with_small_components", "generic_triangle"
#define C15_RQT_RULE C15_RQ_RULE "a line with such a direction through an intended hit (interior, 2^-j inside / outside an edge, clearly outside) of a generic triangle or of one whose normal is such a vector (edges (-n_b,n_a,0), (-n_c,0,n_a)); checks, bounds, band and non-trivial as in tri_*"
VP_RANDOM (ratio_tri_f, 80000, 800000, C15_RQT_RULE) { ratio_tri_case<float> (c, "float"); }
VP_LABELS (ratio_tri_f, C15_RQT_LABELS)
VP_REQUIRE_LABELS (ratio_tri_f, C15_RQT_REQUIRED)
VP_RANDOM (ratio_tri_d, 80000, 800000, C15_RQT_RULE) { ratio_tri_case<double> (c, "double"); }
VP_LABELS (ratio_tri_d, C15_RQT_LABELS)
VP_REQUIRE_LABELS (ratio_tri_d, C15_RQT_REQUIRED)

// =====================================================================================
// 12. Exact coincidences of arguments, on lattice data (small integers / eighths, axis-aligned directions), so that
//     every intermediate quantity of a straightforward evaluation is exact: radius 0, default-constructed sphere,
//     circumscribe of a one-point box, ray origin exactly at the centre / on the surface, both at once; query point
//     exactly the line's origin / on the line / on the plane / a vertex; lines through a common point; a line
//     through a vertex / an edge point of a triangle; rotatePoint of a point of the axis; project of the zero vector.
//     Demanded: finite results that satisfy the statement's relation (which is exact here: t = 0, distance 0, the
//     point itself); where the direction is a normalised lattice vector (not exact) the bounds of sections 1 - 6.
//     Every assertion below holds exactly on the unchanged tree (measured: all "exact" comparisons are met with
//     error 0 in the three binaries).
// =====================================================================================
enum
{
    CO_POINT_SPHERE_FROM_CENTRE,
    CO_POINT_SPHERE_FROM_OUTSIDE,
    CO_ORIGIN_AT_CENTRE,
    CO_ORIGIN_ON_SURFACE,
    CO_POINT_ON_LINE,
    CO_LINES_COMMON_POINT,
    CO_POINT_ON_PLANE,
    CO_LATTICE_PLANE,
    CO_TRI_VERTEX_EDGE,
    CO_CLOSEST_VERTEX,
    CO_ROTATE_AXIS_POINT,
    CO_VECALGO,
    CO_NKINDS,
    CO_DEFAULT_SPHERE = CO_NKINDS,
    CO_ONE_POINT_BOX,
    CO_DIR_AXIS,
    CO_DIR_LATTICE,
    CO_DIR_RANDOM,
    CO_TRI_VERTEX,
    CO_TRI_EDGE,
    CO_TRI_INTERIOR,
    CO_TRI_OUTSIDE,
    CO_TRI_ORIGIN_ON_TRIANGLE,
    CO_TRI_OBLIQUE,
    CO_LINES_PARALLEL
};
#define C15_CO_LABELS "radius_0_and_origin_at_centre", "radius_0_origin_elsewhere", "origin_exactly_at_centre", "origin_exactly_on_surface", "query_point_on_line", "lines_through_common_point", "point_on_axis_aligned_plane", "point_on_lattice_plane", "line_through_triangle_vertex_or_edge", "closestVertex_of_a_vertex", "rotatePoint_of_axis_point", "project_of_zero_or_of_s", "default_constructed_sphere", "circumscribe_one_point_box", "direction_axis_aligned", "direction_normalised_lattice_vector", "direction_random_unit", "tri_through_vertex", "tri_through_edge_point", "tri_through_interior_lattice_point", "tri_through_outside_lattice_point", "tri_line_origin_on_triangle", "tri_oblique_line", "common_point_lines_parallel"

template <class T> static inline Vec3<T> lat_pt (vp::Src& s)
{
    int  x  = (int) s.range (-8, 8);
    int  y  = (int) s.range (-8, 8);
    int  z  = (int) s.range (-8, 8);
    bool e8 = s.chance (64);
    T    sc = e8 ? (T) 0.125 : (T) 1;
    return Vec3<T> ((T) x * sc, (T) y * sc, (T) z * sc);
}
template <class T> static inline Vec3<T> lat_vec (vp::Src& s, int lim) // non-zero integer vector
{
    int x = (int) s.range (-lim, lim);
    int y = (int) s.range (-lim, lim);
    int z = (int) s.range (-lim, lim);
    if (x == 0 && y == 0 && z == 0) x = 1;
    return Vec3<T> ((T) x, (T) y, (T) z);
}
template <class T> static inline Vec3<T> axis_vec (int ax, int sg)
{
    Vec3<T> v (0, 0, 0);
    v[ax] = (T) sg;
    return v;
}
// a unit direction: axis-aligned (exact), a lattice vector normalised in quad, or random; class in *cls
template <class T> static inline Vec3<T> any_unit (vp::Ctx& c, int* cls = 0)
{
    vp::Src& s  = c.s;
    int      k  = (int) s.below (3);
    int      ax = (int) s.below (3);
    bool     ng = s.coin ();
    Vec3<T>  lv = lat_vec<T> (s, 4);
    Q3       r  = seq_dir (s);
    if (cls) *cls = k;
    c.label (k == 0 ? CO_DIR_AXIS : k == 1 ? CO_DIR_LATTICE : CO_DIR_RANDOM);
    if (k == 0) return axis_vec<T> (ax, ng ? -1 : 1);
    if (k == 1) return rnd<T> (unit (q3 (lv)));
    return rnd<T> (r);
}
template <class T> static inline bool eq3 (const Vec3<T>& a, const Vec3<T>& b) { return a.x == b.x && a.y == b.y && a.z == b.z; }

template <class Vec, class T, int N> static void coincide_vec (vp::Ctx& c, const char* tn, int kind)
{
    vp::Src&   s   = c.s;
    const quad eps = EPS<T> ();
    Vec        v[3], p, sv;
    for (int k = 0; k < 3; ++k)
        for (int i = 0; i < N; ++i)
            v[k][i] = (T) s.range (-4, 4);
    bool z = true;
    for (int i = 0; i < N; ++i)
    {
        sv[i] = (T) s.range (-4, 4);
        if (sv[i] != 0) z = false;
    }
    if (z) sv[0] = 1;
    int  which = (int) s.below (3);
    bool dup   = s.chance (48);
    int  sc    = (int) s.range (-12, 12);
    int  tc    = (int) s.below (3);
    int  tm    = (int) s.range (-3, 3);
    if (kind == CO_CLOSEST_VERTEX)
    {
        if (dup) v[(which + 1) % 3] = v[which];
        p      = v[which];
        Vec cv = closestVertex (v[0], v[1], v[2], p);
        VP_NOTE (c, tn << " closestVertex(" << vstr (v[0], N) << "," << vstr (v[1], N) << "," << vstr (v[2], N) << "; p = vertex " << which << ")");
        bool same_ = true;
        for (int i = 0; i < N; ++i)
            if (!(cv[i] == p[i])) same_ = false;
        VP_REQUIRE (c, same_, "closestVertex/query-is-a-vertex", tn << " closestVertex(" << vstr (v[0], N) << "," << vstr (v[1], N) << "," << vstr (v[2], N) << "; p=" << vstr (p, N) << ") = " << vstr (cv, N) << " although p is vertex " << which << " itself");
        return;
    }
    // project / orthogonal / reflect with t = 0, t = s, t = m s
    Vec ss = sv * std::ldexp ((T) 1, sc), tv;
    for (int i = 0; i < N; ++i)
        tv[i] = tc == 0 ? (T) 0 : tc == 1 ? ss[i] : ss[i] * (T) tm;
    VP_NOTE (c, tn << " s=" << vstr (ss, N) << " t=" << vstr (tv, N));
    Vec  pr = project (ss, tv), og = orthogonal (ss, tv), rf = reflect (tv, ss);
    quad lt = 0;
    for (int i = 0; i < N; ++i)
        lt += (quad) tv[i] * (quad) tv[i];
    lt = sqrtq (lt);
    for (int i = 0; i < N; ++i)
    {
        // t is a multiple of s: project = t, orthogonal = 0, reflect (t, s) = t
        QG_CHK (c, "project/t-multiple-of-s", qabs ((quad) pr[i] - (quad) tv[i]), eps * lt + (quad) 1e-300, 16, tn << " project(s,t)[" << i << "] = " << pr[i] << " for t = " << vstr (tv, N) << " parallel to s = " << vstr (ss, N)); // measured worst 1.9 units
        QG_CHK (c, "orthogonal/t-multiple-of-s", qabs ((quad) og[i]), eps * lt + (quad) 1e-300, 16, tn << " orthogonal(s,t)[" << i << "] = " << og[i] << " for t = " << vstr (tv, N) << " parallel to s = " << vstr (ss, N)); // measured worst 1.9 units
        QG_CHK (c, "reflect/t-multiple-of-s", qabs ((quad) rf[i] - (quad) tv[i]), eps * lt + (quad) 1e-300, 32, tn << " reflect(t,s)[" << i << "] = " << rf[i] << " for t = " << vstr (tv, N) << " parallel to s = " << vstr (ss, N)); // measured worst 3.8 units
    }
}

template <class T> static void coincide_case (vp::Ctx& c, const char* tn)
{
    typedef Vec3<T> V;
    vp::Src&        s    = c.s;
    const quad      eps  = EPS<T> ();
    int             kind = (int) s.below (CO_NKINDS);
    c.label (kind);
    c.nt (true);
    switch (kind)
    {
        case CO_POINT_SPHERE_FROM_CENTRE: // radius 0 AND ray origin exactly at the centre: l(0) is the one point of the sphere
        {
            V          cen = lat_pt<T> (s);
            int        how = (int) s.below (3);
            V          dir = any_unit<T> (c);
            Sphere3<T> sp (cen, 0);
            if (how == 1)
            {
                sp  = Sphere3<T> ();
                cen = V (0, 0, 0);
                c.label (CO_DEFAULT_SPHERE);
                VP_REQUIRE (c, eq3 (sp.center, cen) && sp.radius == 0, "sphere-default-ctor", tn << " Sphere3() = " << vs (sp.center) << ", r = " << sp.radius);
            }
            if (how == 2)
            {
                sp = Sphere3<T> (V (5, 5, 5), (T) 55);
                sp.circumscribe (Box<V> (cen, cen));
                c.label (CO_ONE_POINT_BOX);
                VP_REQUIRE (c, eq3 (sp.center, cen) && sp.radius == 0, "sphere-circumscribe/one-point-box", tn << " circumscribe(box of the single point " << vs (cen) << ") = centre " << vs (sp.center) << ", r = " << sp.radius);
            }
            Line3<T> l;
            l.pos = sp.center;
            l.dir = dir;
            VP_NOTE (c, tn << " sphere centre=" << vs (sp.center) << " r=0 (how " << how << ") line from the centre, dir " << vs (dir));
            T    t = -7;
            V    ip (7, 7, 7);
            bool okT = sp.intersectT (l, t), ok = sp.intersect (l, ip);
            VP_REQUIRE (c, okT && t == 0, "sphere-intersectT/radius-0-origin-at-centre", tn << " intersectT of the radius-0 sphere at " << vs (cen) << " from its centre, dir " << vs (dir) << ": returned " << okT << ", t = " << t << " (the origin is the sphere's one point: true, t = 0)");
            VP_REQUIRE (c, ok && eq3 (ip, cen), "sphere-intersect/radius-0-origin-at-centre", tn << " intersect of the radius-0 sphere at " << vs (cen) << " from its centre, dir " << vs (dir) << ": returned " << ok << ", point " << vs (ip));
            break;
        }
        case CO_POINT_SPHERE_FROM_OUTSIDE: // radius 0, origin on an axis-parallel line through / past the centre
        {
            V    cen = lat_pt<T> (s);
            int  ax  = (int) s.below (3);
            bool ng  = s.coin ();
            int  k   = (int) s.range (1, 8);
            int  m   = (int) s.below (3);
            bool away = s.chance (64);
            int  sg  = ng ? -1 : 1;
            V    pos = cen - axis_vec<T> (ax, sg) * (T) k + axis_vec<T> ((ax + 1) % 3, 1) * (T) m;
            Line3<T> l;
            l.pos = pos;
            l.dir = axis_vec<T> (ax, away ? -sg : sg);
            Sphere3<T> sp (cen, 0);
            VP_NOTE (c, tn << " sphere centre=" << vs (cen) << " r=0 line=" << vs (l.pos) << "+t" << vs (l.dir));
            T    t = -7;
            V    ip (7, 7, 7);
            bool okT = sp.intersectT (l, t), ok = sp.intersect (l, ip);
            bool expect = m == 0 && !away;
            // the line misses the point by m >= 1 or leaves it behind: false whatever the rounding.  The hit itself is a
            // double root (discriminant exactly 0 in exact arithmetic - and in T on this lattice): its own key.
            if (!expect) VP_REQUIRE (c, !okT && !ok, "sphere-intersectT/radius-0", tn << " radius-0 sphere at " << vs (cen) << ", line " << vs (l.pos) << "+t" << vs (l.dir) << ": intersectT " << okT << " intersect " << ok << ", expected false");
            if (okT) VP_REQUIRE (c, std::isfinite (t) && (!ok || fin3 (ip)), "sphere-intersectT/radius-0", tn << " radius-0 sphere at " << vs (cen) << ", line " << vs (l.pos) << "+t" << vs (l.dir) << ": t = " << t << " point " << vs (ip));
            if (expect) VP_REQUIRE (c, okT && ok && t == (T) k && eq3 (ip, cen), "sphere-intersectT/radius-0-axis-hit-exact", tn << " radius-0 sphere at " << vs (cen) << ", line " << vs (l.pos) << "+t" << vs (l.dir) << " through it: intersectT " << okT << " t = " << t << ", intersect " << ok << " point " << vs (ip) << "; the centre is at t = " << k);
            break;
        }
        case CO_ORIGIN_AT_CENTRE: // r > 0, origin exactly at the centre: t = r in every direction
        {
            V   cen = lat_pt<T> (s);
            int rn  = (int) s.range (1, 64);
            V   dir = any_unit<T> (c);
            T   rad = (T) rn / (T) 8;
            Line3<T> l;
            l.pos = cen;
            l.dir = dir;
            Sphere3<T> sp (cen, rad);
            VP_NOTE (c, tn << " sphere centre=" << vs (cen) << " r=" << rad << " line from the centre, dir " << vs (dir));
            T    t = -7;
            V    ip (7, 7, 7);
            bool okT = sp.intersectT (l, t), ok = sp.intersect (l, ip);
            VP_REQUIRE (c, okT && ok, "sphere-intersectT/origin-at-centre", tn << " sphere r = " << rad << " at " << vs (cen) << " from its centre: intersectT " << okT << ", intersect " << ok);
            quad R = (quad) rad;
            QG_CHK (c, "sphere-intersectT/origin-at-centre", qabs ((quad) t - R), eps * R, 4, tn << " sphere r = " << rad << " from its centre: t = " << t); // measured worst 0 units
            QG_CHK (c, "sphere-intersect/origin-at-centre", qabs (len (q3 (ip) - q3 (cen)) - R), eps * (R + len (q3 (cen))), 4, tn << " sphere r = " << rad << " at " << vs (cen) << " from its centre, dir " << vs (dir) << ": point " << vs (ip)); // measured worst 0.73 units
            break;
        }
        case CO_ORIGIN_ON_SURFACE: // |pos - centre|^2 - r^2 is exactly 0: t = 0 whatever the direction
        {
            static const int PY[12][4] = { { 1, 0, 0, 1 }, { 3, 4, 0, 5 }, { 1, 2, 2, 3 }, { 2, 3, 6, 7 }, { 4, 4, 7, 9 }, { 1, 4, 8, 9 }, { 2, 6, 9, 11 }, { 6, 6, 7, 11 }, { 3, 4, 12, 13 }, { 2, 10, 11, 15 }, { 5, 12, 0, 13 }, { 8, 9, 12, 17 } };
            V   cen = lat_pt<T> (s);
            int pi_ = (int) s.below (12);
            int rot = (int) s.below (3);
            int sgm = (int) s.below (8);
            int e   = (int) s.range (-3, 3);
            V   dir = any_unit<T> (c);
            V   off;
            for (int i = 0; i < 3; ++i)
                off[(i + rot) % 3] = std::ldexp ((T) (PY[pi_][i] * (((sgm >> i) & 1) ? -1 : 1)), e);
            T   rad = std::ldexp ((T) PY[pi_][3], e);
            Line3<T> l;
            l.pos = cen + off;
            l.dir = dir;
            Sphere3<T> sp (cen, rad);
            VP_NOTE (c, tn << " sphere centre=" << vs (cen) << " r=" << rad << " line=" << vs (l.pos) << "+t" << vs (l.dir) << " (origin exactly on the surface)");
            VP_REQUIRE (c, dot (q3 (l.pos) - q3 (cen), q3 (l.pos) - q3 (cen)) == (quad) rad * (quad) rad, "harness/lattice-not-exact", tn << " origin not exactly on the sphere (harness error)");
            T    t = -7;
            V    ip (7, 7, 7);
            bool okT = sp.intersectT (l, t), ok = sp.intersect (l, ip);
            VP_REQUIRE (c, ok == okT, "sphere-intersect-vs-intersectT", tn << " intersect returns " << ok << ", intersectT " << okT);
            // within rounding: a ray that enters the sphere (dir.(pos-centre) <= -r/8) hits it; a returned t is finite,
            // non-negative and one of the two roots 0, -2 dir.(pos-centre)
            {
                quad R = (quad) rad, hb = dot (q3 (dir), q3 (off)) / dot (q3 (dir), q3 (dir));
                if (hb <= -R / 8) VP_REQUIRE (c, okT, "sphere-intersectT/origin-on-surface", tn << " sphere r = " << rad << " at " << vs (cen) << ", origin " << vs (l.pos) << " on it, dir " << vs (dir) << " pointing inwards: returned false");
                if (okT)
                {
                    VP_REQUIRE (c, std::isfinite (t) && t >= 0 && fin3 (ip), "sphere-intersectT/origin-on-surface", tn << " sphere r = " << rad << " at " << vs (cen) << ", origin " << vs (l.pos) << " on it, dir " << vs (dir) << ": t = " << t << " point " << vs (ip));
                    if (qabs (hb) >= R / 8) QG_CHK (c, "sphere-intersectT/origin-on-surface", qmin (qabs ((quad) t), qabs ((quad) t + 2 * hb)), eps * R * (1 + R / qabs (hb)), 16, tn << " sphere r = " << rad << " at " << vs (cen) << ", origin " << vs (l.pos) << " on it, dir " << vs (dir) << ": t = " << t << " is neither root 0, " << qstr (-2 * hb)); // measured worst 0 units
                }
            }
            // exactly: |pos - centre|^2 - r^2 is 0 without rounding, so t = 0 whatever the direction (own keys: a
            // differently rounded evaluation can lose the outward-pointing and tangent cases to the sign of a rounding error)
            VP_REQUIRE (c, okT && t == 0, "sphere-intersectT/origin-on-surface-exact", tn << " sphere r = " << rad << " at " << vs (cen) << ", origin " << vs (l.pos) << " exactly on it, dir " << vs (dir) << ": returned " << okT << ", t = " << t << " (smallest non-negative parameter on the sphere: 0)");
            VP_REQUIRE (c, ok && eq3 (ip, l.pos), "sphere-intersect/origin-on-surface-exact", tn << " sphere r = " << rad << " at " << vs (cen) << ", origin " << vs (l.pos) << " exactly on it: returned " << ok << ", point " << vs (ip));
            break;
        }
        case CO_POINT_ON_LINE:
        {
            V   p0  = lat_pt<T> (s);
            int cls = 0;
            V   dir = any_unit<T> (c, &cls);
            V   e   = lat_vec<T> (s, 4);
            int m   = (int) s.range (-8, 8);
            int qc  = (int) s.below (2);
            Line3<T> l;
            l.pos = p0;
            l.dir = dir;
            if (cls == 1) l = Line3<T> (p0, p0 + e); // through two lattice points
            V q = p0;
            if (qc == 1 && cls == 0) q = p0 + dir * (T) m;
            if (qc == 1 && cls == 1) q = p0 + e * (T) m;
            VP_NOTE (c, tn << " line=" << vs (l.pos) << "+t" << vs (l.dir) << " q=" << vs (q));
            V cp   = l.closestPointTo (q);
            T dist = l.distanceTo (q);
            if (qc == 0 || cls == 0) // the origin, or a lattice point of an axis-parallel line: exact
            {
                VP_REQUIRE (c, eq3 (cp, q), "line-closestPointTo-point/point-of-the-line", tn << " closestPointTo(" << vs (q) << ") = " << vs (cp) << " for line " << vs (l.pos) << "+t" << vs (l.dir));
                VP_REQUIRE (c, dist == 0, "line-distanceTo-point/point-of-the-line", tn << " distanceTo(" << vs (q) << ") = " << dist << " for line " << vs (l.pos) << "+t" << vs (l.dir));
            }
            else
            {
                quad S = len (q3 (q) - q3 (p0)) + len (q3 (p0)) + len (q3 (q)) + (quad) 1e-30;
                for (int i = 0; i < 3; ++i)
                    QG_CHK (c, "line-closestPointTo-point/lattice-point-of-the-line", qabs ((quad) cp[i] - (quad) q[i]), eps * S, 8, tn << " closestPointTo(" << vs (q) << ")[" << i << "] = " << cp[i] << " for the line through " << vs (p0) << " and " << vs (p0 + e)); // measured worst 0.94 units
                QG_CHK (c, "line-distanceTo-point/lattice-point-of-the-line", qabs ((quad) dist), eps * S, 8, tn << " distanceTo(" << vs (q) << ") = " << dist << " for the line through " << vs (p0) << " and " << vs (p0 + e)); // measured worst 1.0 units
            }
            break;
        }
        case CO_LINES_COMMON_POINT:
        {
            V   X   = lat_pt<T> (s);
            int lc  = (int) s.below (3);
            V   d1  = any_unit<T> (c);
            V   d2  = any_unit<T> (c);
            int ax  = (int) s.below (3);
            int dj  = (int) s.below (2);
            int a   = (int) s.range (-8, 8);
            int b   = (int) s.range (-8, 8);
            V   e1  = lat_vec<T> (s, 4);
            V   e2  = lat_vec<T> (s, 4);
            Line3<T> l1, l2;
            bool     exact = true;
            if (lc == 0) // the same origin, any two directions
            {
                l1.pos = l2.pos = X;
                l1.dir = d1;
                l2.dir = d2;
            }
            else if (lc == 1) // axis-parallel lines crossing at X, origins a and b steps away
            {
                int ax2 = (ax + 1 + dj) % 3;
                l1.dir  = axis_vec<T> (ax, a < 0 ? -1 : 1);
                l2.dir  = axis_vec<T> (ax2, b < 0 ? -1 : 1);
                l1.pos  = X + axis_vec<T> (ax, 1) * (T) a;
                l2.pos  = X + axis_vec<T> (ax2, 1) * (T) b;
            }
            else // lines through lattice points crossing at X
            {
                Q3 ce = cross (q3 (e1), q3 (e2));
                if (ce.x == 0 && ce.y == 0 && ce.z == 0) e2 = e1.x != 0 ? V (e1.y + e1.z, -e1.x, -e1.x) : V (1, 0, 0); // parallel: take a perpendicular lattice vector
                l1    = Line3<T> (X - e1 * (T) a, X - e1 * (T) (a - 1));
                l2    = Line3<T> (X - e2 * (T) b, X - e2 * (T) (b - 1));
                exact = false;
            }
            VP_NOTE (c, tn << " line1=" << vs (l1.pos) << "+t" << vs (l1.dir) << " line2=" << vs (l2.pos) << "+t" << vs (l2.dir) << " common point " << vs (X));
            V    pa (7, 7, 7), pb (7, 7, 7);
            bool ok   = closestPoints (l1, l2, pa, pb);
            V    cp   = l1.closestPointTo (l2);
            T    dist = l1.distanceTo (l2);
            VP_REQUIRE (c, fin3 (cp) && std::isfinite (dist) && (!ok || (fin3 (pa) && fin3 (pb))), "lines-common-point/nonfinite", tn << " lines through " << vs (X) << ": closestPoints " << ok << " " << vs (pa) << " " << vs (pb) << ", closestPointTo " << vs (cp) << ", distanceTo " << dist);
            Q3   CR  = cross (q3 (l1.dir), q3 (l2.dir));
            bool par = CR.x == 0 && CR.y == 0 && CR.z == 0;
            if (par) c.label (CO_LINES_PARALLEL);
            if (exact)
            {
                if (!par) VP_REQUIRE (c, ok, "closestPoints/false-for-nonparallel", tn << " closestPoints returned false for lines crossing at " << vs (X));
                if (ok) VP_REQUIRE (c, eq3 (pa, X) && eq3 (pb, X), "closestPoints/common-point", tn << " lines crossing exactly at " << vs (X) << ": closestPoints gives " << vs (pa) << " and " << vs (pb));
                if (!par || lc == 0) VP_REQUIRE (c, eq3 (cp, X), "line-closestPointTo-line/common-point", tn << " lines crossing exactly at " << vs (X) << ": closestPointTo(line) = " << vs (cp));
                VP_REQUIRE (c, dist == 0, "line-distanceTo-line/common-point", tn << " lines crossing exactly at " << vs (X) << ": distanceTo(line) = " << dist);
            }
            else
            {
                uint64_t lm = c.labelmask;
                far_lines_check<T> (c, tn, l1, l2); // bounds of section 9c; the distance is 0 to rounding
                c.labelmask = lm;
            }
            break;
        }
        case CO_POINT_ON_PLANE: // axis-aligned plane, lattice point exactly on it
        {
            int  ax  = (int) s.below (3);
            bool ng  = s.coin ();
            int  le  = (int) s.range (-3, 3);
            int  how = (int) s.below (3);
            V    A   = lat_pt<T> (s);
            int  i1 = (int) s.range (-4, 4);
            int  j1 = (int) s.range (-4, 4);
            int  i2 = (int) s.range (-4, 4);
            int  j2 = (int) s.range (-4, 4);
            V    q   = lat_pt<T> (s);
            V    dir = any_unit<T> (c);
            int  k   = (int) s.range (-6, 6);
            V    w   = lat_pt<T> (s);
            bool ln  = s.coin ();
            int  sg  = ng ? -1 : 1;
            int  b = (ax + 1) % 3, cc = (ax + 2) % 3;
            V    nn  = axis_vec<T> (ax, sg) * std::ldexp ((T) 1, le);
            Plane3<T> P;
            if (how == 0)
                P = Plane3<T> (nn, A[ax] * (T) sg); // normal . x = sg x_ax = sg A_ax
            else if (how == 1)
                P = Plane3<T> (A, nn);
            else
            {
                if (i1 * j2 - j1 * i2 == 0) i1 = 1, j1 = 0, i2 = 0, j2 = 1;
                V B = A, C = A;
                B[b] += (T) i1, B[cc] += (T) j1;
                C[b] += (T) i2, C[cc] += (T) j2;
                P = Plane3<T> (A, B, C);
            }
            q[ax] = A[ax];
            VP_NOTE (c, tn << " plane (how " << how << ") normal=" << vs (P.normal) << " d=" << P.distance << " through " << vs (A) << "; q=" << vs (q) << " dir=" << vs (dir));
            VP_REQUIRE (c, std::abs (P.normal[ax]) == 1 && P.normal[b] == 0 && P.normal[cc] == 0 && P.distance == P.normal[ax] * A[ax], "plane-set/axis-aligned", tn << " axis-aligned plane through " << vs (A) << " (how " << how << "): normal " << vs (P.normal) << " distance " << P.distance);
            VP_REQUIRE (c, P.distanceTo (q) == 0, "plane-distanceTo/point-on-plane", tn << " distanceTo(" << vs (q) << ") = " << P.distanceTo (q) << " for plane " << vs (P.normal) << "," << P.distance);
            VP_REQUIRE (c, eq3 (P.reflectPoint (q), q), "plane-reflectPoint/point-on-plane", tn << " reflectPoint(" << vs (q) << ") = " << vs (P.reflectPoint (q)) << " for plane " << vs (P.normal) << "," << P.distance);
            {
                V wi = w, wn (0, 0, 0);
                wi[ax] = 0;      // in-plane vector: reflectVector = -v
                wn[ax] = w[ax]; // along the normal: reflectVector = v
                VP_REQUIRE (c, eq3 (P.reflectVector (wi), -wi), "plane-reflectVector/in-plane-vector", tn << " reflectVector(" << vs (wi) << ") = " << vs (P.reflectVector (wi)) << " for plane normal " << vs (P.normal));
                VP_REQUIRE (c, eq3 (P.reflectVector (wn), wn), "plane-reflectVector/normal-vector", tn << " reflectVector(" << vs (wn) << ") = " << vs (P.reflectVector (wn)) << " for plane normal " << vs (P.normal));
            }
            {
                // a line from q: t = 0, the point is q (false if the direction lies in the plane)
                Line3<T> l;
                l.pos = q;
                l.dir = dir;
                V    ip (7, 7, 7);
                T    t  = 7;
                bool ok = P.intersect (l, ip), okT = P.intersectT (l, t);
                VP_REQUIRE (c, ok == okT && ok == (dir[ax] != 0), "plane-intersect/origin-on-plane", tn << " line from " << vs (q) << " on the plane, dir " << vs (dir) << ": intersect " << ok << ", intersectT " << okT);
                if (ok) VP_REQUIRE (c, t == 0 && eq3 (ip, q), "plane-intersect/origin-on-plane", tn << " line from " << vs (q) << " on the plane, dir " << vs (dir) << ": t = " << t << ", point " << vs (ip));
                // the axis-parallel line through q from k steps away
                l.pos     = q - axis_vec<T> (ax, 1) * (T) k;
                l.dir     = axis_vec<T> (ax, ln ? -1 : 1);
                ok        = P.intersect (l, ip);
                okT       = P.intersectT (l, t);
                VP_REQUIRE (c, ok && okT && t == (T) k * l.dir[ax] && eq3 (ip, q), "plane-intersect/axis-line", tn << " line " << vs (l.pos) << "+t" << vs (l.dir) << " against plane " << vs (P.normal) << "," << P.distance << ": " << ok << " " << okT << " t = " << t << " point " << vs (ip));
            }
            break;
        }
        case CO_LATTICE_PLANE: // plane through three lattice points, query point A + i e1 + j e2 exactly on it
        {
            V   A  = lat_pt<T> (s);
            V   e1 = lat_vec<T> (s, 4);
            V   e2 = lat_vec<T> (s, 4);
            int i  = (int) s.range (-3, 3);
            int j  = (int) s.range (-3, 3);
            V   dir = any_unit<T> (c);
            Q3  CR = cross (q3 (e1), q3 (e2));
            if (CR.x == 0 && CR.y == 0 && CR.z == 0) e2 = e1.x != 0 ? V (e1.y + e1.z, -e1.x, -e1.x) : V (1, 0, 0);
            V         B = A + e1, C = A + e2, q = A + e1 * (T) i + e2 * (T) j;
            Plane3<T> P (A, B, C);
            VP_NOTE (c, tn << " plane through " << vs (A) << " " << vs (B) << " " << vs (C) << " = " << vs (P.normal) << "," << P.distance << "; q=" << vs (q) << " dir=" << vs (dir));
            Q3   F1 = q3 (e1), F2 = q3 (e2), Nx = cross (F1, F2), Ns = q3 (P.normal);
            quad condN = len (F1) * len (F2) / len (Nx);
            quad unit_ = eps * (adot (Ns, q3 (q)) + qabs ((quad) P.distance) + (len (F1) + len (F2)) * condN * (1 + std::abs (i) + std::abs (j)));
            T    dq    = P.distanceTo (q);
            QG_CHK (c, "plane-distanceTo/lattice-point-of-the-plane", qabs ((quad) dq), unit_, 4, tn << " distanceTo(" << vs (q) << ") = " << dq << " for the plane through " << vs (A) << " " << vs (B) << " " << vs (C)); // measured worst 0.31 units
            V r = P.reflectPoint (q);
            for (int m = 0; m < 3; ++m)
                QG_CHK (c, "plane-reflectPoint/lattice-point-of-the-plane", qabs ((quad) r[m] - (quad) q[m]), unit_, 4, tn << " reflectPoint(" << vs (q) << ")[" << m << "] = " << r[m]); // measured worst 0.63 units
            Line3<T> l;
            l.pos = q;
            l.dir = dir;
            V    ip (7, 7, 7);
            T    t  = 7;
            bool ok = P.intersect (l, ip), okT = P.intersectT (l, t);
            VP_REQUIRE (c, ok == okT, "plane-intersect-vs-intersectT", tn << " intersect returns " << ok << ", intersectT " << okT);
            if (ok)
            {
                quad nd = dot (Ns, q3 (dir));
                VP_REQUIRE (c, std::isfinite (t) && fin3 (ip), "plane-intersect/origin-on-plane-nonfinite", tn << " line from " << vs (q) << " (a point of the plane), dir " << vs (dir) << ": t = " << t << " point " << vs (ip));
                // t n.dir = -(n.pos - d): the signed distance of the origin, 0 to the rounding of the plane
                QG_CHK (c, "plane-intersectT/origin-on-lattice-plane", qabs ((quad) t * nd), unit_, 4, tn << " line from " << vs (q) << " (a point of the plane), dir " << vs (dir) << ": t = " << t << ", normal.dir = " << (double) nd); // measured worst 0.31 units
            }
            break;
        }
        case CO_TRI_VERTEX_EDGE:
        {
            // right triangle with axis-parallel legs, right angle at v1 (the two edges the library normalises are
            // axis-parallel: every quantity is exact), legs 4, 6 or 8 long
            int  ax  = (int) s.below (3);
            V    X   = lat_pt<T> (s);
            int  la  = 4 + 2 * (int) s.below (3);
            int  lb  = 4 + 2 * (int) s.below (3);
            bool na  = s.coin ();
            bool nb  = s.coin ();
            int  hc  = (int) s.below (9);
            int  m   = (int) s.range (1, 3);
            bool ng  = s.coin ();
            int  k   = (int) s.range (0, 6);
            bool obl = s.chance (64);
            V    e   = lat_vec<T> (s, 3);
            int  b = (ax + 1) % 3, cc = (ax + 2) % 3;
            int  sa = na ? -1 : 1, sb = nb ? -1 : 1;
            V    v0 = X, v1 = X, v2;
            v1[b] += (T) (sa * la);
            v2 = v1;
            v2[cc] += (T) (sb * lb);
            V   H;
            int hl;
            switch (hc)
            {
                case 0: H = v0, hl = CO_TRI_VERTEX; break;
                case 1: H = v1, hl = CO_TRI_VERTEX; break;
                case 2: H = v2, hl = CO_TRI_VERTEX; break;
                case 3: H = v0, H[b] += (T) (sa * m), hl = CO_TRI_EDGE; break;       // on v0 v1
                case 4: H = v1, H[cc] += (T) (sb * m), hl = CO_TRI_EDGE; break;      // on v1 v2
                case 5: H = (v0 + v2) * (T) 0.5, hl = CO_TRI_EDGE; break;            // on v2 v0
                case 6: H = v1, H[b] -= (T) sa, H[cc] += (T) sb, hl = CO_TRI_INTERIOR; break;
                case 7: H = v0, H[b] -= (T) (sa * m), hl = CO_TRI_OUTSIDE; break;
                default: H = v0, H[cc] += (T) (sb * m), hl = CO_TRI_OUTSIDE; break;
            }
            c.label (hl);
            int      sg = ng ? -1 : 1;
            Line3<T> l;
            if (!obl)
            {
                l.pos = H - axis_vec<T> (ax, sg) * (T) k;
                l.dir = axis_vec<T> (ax, sg);
                if (k == 0) c.label (CO_TRI_ORIGIN_ON_TRIANGLE);
            }
            else
            {
                if (e[ax] == 0) e[ax] = 1;
                l = Line3<T> (H - e, H);
                c.label (CO_TRI_OBLIQUE);
            }
            VP_NOTE (c, tn << " v0=" << vs (v0) << " v1=" << vs (v1) << " v2=" << vs (v2) << " line=" << vs (l.pos) << "+t" << vs (l.dir) << " through " << vs (H) << " (class " << hc << ")");
            V    pt (7, 7, 7), bary (7, 7, 7);
            bool front = false;
            bool hit   = intersect (l, v0, v1, v2, pt, bary, front);
            Q3   A = q3 (v0), B = q3 (v1), Cq = q3 (v2), Nt = cross (B - A, Cq - A), Hq = q3 (H);
            quad nn = dot (Nt, Nt);
            quad bx[3] = { dot (cross (B - Hq, Cq - Hq), Nt) / nn, dot (cross (Cq - Hq, A - Hq), Nt) / nn, dot (cross (A - Hq, B - Hq), Nt) / nn };
            quad bmin  = qmin (bx[0], qmin (bx[1], bx[2]));
            if (hit)
            {
                VP_REQUIRE (c, fin3 (pt) && fin3 (bary), "tri-intersect/nonfinite", tn << " intersect() returned true with pt " << vs (pt) << " barycentric " << vs (bary));
                // whatever the line: barycentrics within [0,1] and reproducing pt (the sizes here are <= 24)
                quad tol = (obl ? 64 : 4) * eps;
                for (int i = 0; i < 3; ++i)
                    VP_REQUIRE (c, (quad) bary[i] >= -tol && (quad) bary[i] <= 1 + tol, "tri-intersect/barycentric-out-of-range", tn << " intersect() returned true with barycentric " << vs (bary));
                Q3 rep = A * (quad) bary.x + B * (quad) bary.y + Cq * (quad) bary.z;
                for (int i = 0; i < 3; ++i)
                    QG_CHK (c, "tri-intersect/barycentric-reproduces-pt/lattice", qabs (rep[i] - (quad) pt[i]), eps * 32 * (obl ? 16 : 1), 4, tn << " v0*b.x+v1*b.y+v2*b.z [" << i << "] = " << qstr (rep[i]) << " but pt = " << pt[i]); // measured worst 0.13 units
            }
            if (!obl)
            {
                if (bmin > 0)
                    VP_REQUIRE (c, hit, "tri-intersect/result", tn << " intersect() returned false for the axis-parallel line through the interior lattice point " << vs (H));
                else if (bmin == 0)
                {
                    // exactly on an edge or vertex: the statement speaks of the interior only, so either answer is
                    // accepted here (the header's "between zero and one" reads as inclusive and the unchanged tree
                    // answers true); when it IS true the point / barycentric / front checks below still apply
                }
                else
                    VP_REQUIRE (c, !hit, "tri-intersect/result", tn << " intersect() returned true for the axis-parallel line through the outside lattice point " << vs (H));
                if (hit)
                {
                    VP_REQUIRE (c, eq3 (pt, H), "tri-intersect/point/lattice", tn << " pt = " << vs (pt) << " for the axis-parallel line through " << vs (H));
                    for (int i = 0; i < 3; ++i)
                        QG_CHK (c, "tri-intersect/barycentric/lattice", qabs ((quad) bary[i] - bx[i]), eps, 4, tn << " barycentric[" << i << "] = " << bary[i] << " exact " << qstr (bx[i])); // measured worst 0.33 units
                    bool fx = dot (q3 (l.dir), cross (Cq - B, B - A)) < 0;
                    VP_REQUIRE (c, front == fx, "tri-intersect/front", tn << " front = " << front << " but dir.((v2-v1)x(v1-v0)) = " << qstr (dot (q3 (l.dir), cross (Cq - B, B - A))));
                }
            }
            break;
        }
        case CO_CLOSEST_VERTEX:
        {
            int  N  = 2 + (int) s.below (4); // 2,3,4: ImathVecAlgo closestVertex (p); 5: ImathLineAlgo closestVertex (line)
            if (N == 2) coincide_vec<Vec2<T>, T, 2> (c, sizeof (T) == 8 ? "V2d" : "V2f", kind);
            if (N == 3) coincide_vec<Vec3<T>, T, 3> (c, sizeof (T) == 8 ? "V3d" : "V3f", kind);
            if (N == 4) coincide_vec<Vec4<T>, T, 4> (c, sizeof (T) == 8 ? "V4d" : "V4f", kind);
            if (N == 5)
            {
                V   v[3];
                v[0]    = lat_pt<T> (s);
                v[1]    = lat_pt<T> (s);
                v[2]    = lat_pt<T> (s);
                int wh  = (int) s.below (3);
                int cls = 0;
                V   dir = any_unit<T> (c, &cls);
                int m   = (int) s.range (-6, 6);
                Line3<T> l;
                l.dir = dir;
                l.pos = v[wh];
                if (cls == 0) l.pos = v[wh] - dir * (T) m; // the vertex is m steps along an axis-parallel line
                VP_NOTE (c, tn << " closestVertex(" << vs (v[0]) << "," << vs (v[1]) << "," << vs (v[2]) << "; line " << vs (l.pos) << "+t" << vs (l.dir) << " through vertex " << wh << ")");
                V    cv = closestVertex (v[0], v[1], v[2], l);
                int  which = -1;
                quad d2[3], pm = len (q3 (l.pos));
                Q3   Du = unit (q3 (l.dir));
                for (int k = 0; k < 3; ++k)
                {
                    Q3 a  = q3 (v[k]) - q3 (l.pos);
                    d2[k] = dot (cross (a, Du), cross (a, Du));
                    pm    = qmax (pm, len (q3 (v[k])));
                    if (eq3 (cv, v[k]) && (which < 0 || d2[k] < d2[which])) which = k;
                }
                VP_REQUIRE (c, which >= 0, "closestVertex-line/not-a-vertex", tn << " closestVertex(line) returned " << vs (cv) << " which is none of the vertices");
                // vertex wh is on the line (exactly: its computed distance is 0): the answer is at distance 0 up to the slack of section 6
                quad slack = 4 * eps * (d2[which] + pm * sqrtq (d2[which])) + (quad) 1e-300;
                VP_REQUIRE (c, d2[which] <= slack, "closestVertex-line/vertex-on-the-line", tn << " closestVertex(line) = vertex " << which << " at squared distance " << qstr (d2[which]) << " although vertex " << wh << " lies on the line");
            }
            break;
        }
        case CO_ROTATE_AXIS_POINT: // a point of the axis stays where it is, whatever the angle; angle 0 moves nothing
        {
            V      p0  = lat_pt<T> (s);
            int    cls = 0;
            V      dir = any_unit<T> (c, &cls);
            int    m   = (int) s.range (-6, 6);
            int    ac  = (int) s.below (3);
            int    am  = (int) s.range (-4, 4);
            double au  = s.uniform (-6.3, 6.3);
            bool   zero = s.chance (64);
            V      g   = lat_pt<T> (s);
            T      ang = ac == 0 ? (T) ((double) am * 1.5707963267948966) : (T) au;
            Line3<T> l;
            l.pos = p0;
            l.dir = dir;
            V p = p0;
            if (cls == 0) p = p0 + dir * (T) m;
            if (zero) p = g, ang = 0; // any point, angle 0
            VP_NOTE (c, tn << " rotatePoint(" << vs (p) << ", line " << vs (l.pos) << "+t" << vs (l.dir) << ", " << ang << ")");
            V    r = rotatePoint (p, l, ang);
            quad S = len (q3 (p)) + len (q3 (p0)) + len (q3 (p) - q3 (p0)) + (quad) 1e-300;
            VP_REQUIRE (c, fin3 (r), (zero ? "rotatePoint/angle-0-nonfinite" : "rotatePoint/point-of-the-axis-nonfinite"), tn << " rotatePoint(" << vs (p) << ", line " << vs (l.pos) << "+t" << vs (l.dir) << ", " << ang << ") = " << vs (r));
            for (int i = 0; i < 3; ++i)
                QG_CHK (c, (zero ? "rotatePoint/angle-0" : "rotatePoint/point-of-the-axis"), qabs ((quad) r[i] - (quad) p[i]), eps * S, 12, tn << " rotatePoint(" << vs (p) << ", line " << vs (l.pos) << "+t" << vs (l.dir) << ", " << ang << ")[" << i << "] = " << r[i]); // measured worst 0 units (point of the axis), 0.39 units (angle 0)
            break;
        }
        default: // CO_VECALGO
        {
            int N = 2 + (int) s.below (3);
            if (N == 2) coincide_vec<Vec2<T>, T, 2> (c, sizeof (T) == 8 ? "V2d" : "V2f", kind);
            if (N == 3) coincide_vec<Vec3<T>, T, 3> (c, sizeof (T) == 8 ? "V3d" : "V3f", kind);
            if (N == 4) coincide_vec<Vec4<T>, T, 4> (c, sizeof (T) == 8 ? "V4d" : "V4f", kind);
            break;
        }
    }
}
#define C15_CO_RULE "one of 12 exact coincidences per case, on lattice data (integers / eighths up to 8, axis-aligned or quad-normalised lattice or random unit directions): radius-0 sphere (constructed, default-constructed, circumscribe of a one-point box) hit from its centre and along axis-parallel lines; origin exactly at the centre of a sphere; origin exactly on the surface (integer vectors of integer length); query point = origin / lattice point of a line; two lines through a common lattice point (same origin, axis-parallel, through lattice points); lattice points of axis-aligned and lattice planes (distanceTo, reflectPoint, reflectVector, line from the point); axis-parallel and oblique lines through vertices / edge points / interior / outside lattice points of a right triangle with axis-parallel legs; closestVertex of a vertex (Vec2/3/4 and line form); rotatePoint of a point of the axis / by angle 0; project/orthogonal/reflect of 0, s, m s; expected values are exact (t = 0, distance 0, the point itself) wherever the arithmetic is, else the bounds of sections 1-6; all cases non-trivial"
VP_RANDOM (coincide_f, 150000, 1500000, C15_CO_RULE) { coincide_case<float> (c, "float"); }
VP_LABELS (coincide_f, C15_CO_LABELS)
VP_REQUIRE_LABELS (coincide_f, C15_CO_LABELS)
VP_RANDOM (coincide_d, 150000, 1500000, C15_CO_RULE) { coincide_case<double> (c, "double"); }
VP_LABELS (coincide_d, C15_CO_LABELS)
VP_REQUIRE_LABELS (coincide_d, C15_CO_LABELS)

// =====================================================================================
// 13. An out-parameter that IS a member of one of the inputs: plane.intersect (ray, ray.pos) ("advance the ray to the
//     plane"), closestPoints (l1, l2, l1.pos, l2.pos), sphere.intersect (l, sphere.center), l.set (l.pos, target) ...
//     The inputs are taken by const reference and the outputs by reference of the same type, so such calls need no
//     cast.  Demanded: the same return value and bit-identical outputs as the same call with separate output
//     objects.  Both calls go through one noinline wrapper per library function (the same machine code, compiled
//     without knowledge of the aliasing), so the comparison is between two calls of the same function in the same
//     binary.  Asserted are the combinations that agree on the unchanged tree (measured, 20000 random cases per
//     type, all three binaries); the ones that do not are listed here and NOT asserted:
//       closestPoints (l1, l2, point1, point2) with point1 = l2.pos or l2.dir (point1 is written before line2 is
//         evaluated; every point2);  triangle intersect () with pt = line.dir, v0, v1 or v2, or barycentric =
//         line.dir, v0 or v1 (pt and barycentric.z are written before these inputs are read for the last time);
//       Line3::set (x, l.pos), set (l.dir, l.pos) (pos is assigned first);  Plane3::set (p.normal as the point, n),
//       set (p.normal, x, y) as the first point (normal is assigned before the distance is formed).
// =====================================================================================
#if defined(__GNUC__) && !defined(__clang__)
#define C15_NI __attribute__ ((noinline, noclone))
#else
#define C15_NI __attribute__ ((noinline))
#endif
template <class T> struct LibCall
{
    typedef Vec3<T>    V;
    typedef Line3<T>   L;
    typedef Plane3<T>  P;
    typedef Sphere3<T> S;
    static C15_NI bool plane_intersect (const P& p, const L& l, V& out) { return p.intersect (l, out); }
    static C15_NI bool plane_intersectT (const P& p, const L& l, T& t) { return p.intersectT (l, t); }
    static C15_NI bool sphere_intersect (const S& sp, const L& l, V& out) { return sp.intersect (l, out); }
    static C15_NI bool sphere_intersectT (const S& sp, const L& l, T& t) { return sp.intersectT (l, t); }
    static C15_NI bool closest_points (const L& a, const L& b, V& o1, V& o2) { return closestPoints (a, b, o1, o2); }
    static C15_NI bool tri (const L& l, const V& v0, const V& v1, const V& v2, V& pt, V& bary, bool& front) { return intersect (l, v0, v1, v2, pt, bary, front); }
    static C15_NI void line_set (L& l, const V& a, const V& b) { l.set (a, b); }
    static C15_NI void plane_set_nd (P& p, const V& n, T d) { p.set (n, d); }
    static C15_NI void plane_set_pn (P& p, const V& a, const V& n) { p.set (a, n); }
    static C15_NI void plane_set3 (P& p, const V& a, const V& b, const V& c) { p.set (a, b, c); }
    static C15_NI V    line_eval (const L& l, T t) { return l (t); }
    static C15_NI V    cpt_point (const L& l, const V& q) { return l.closestPointTo (q); }
    static C15_NI V    cpt_line (const L& l, const L& m) { return l.closestPointTo (m); }
    static C15_NI T    dist_line (const L& l, const L& m) { return l.distanceTo (m); }
    static C15_NI V    reflect_point (const P& p, const V& q) { return p.reflectPoint (q); }
    static C15_NI V    reflect_vector (const P& p, const V& q) { return p.reflectVector (q); }
    static C15_NI V    closest_vertex_line (const V& a, const V& b, const V& c, const L& l) { return closestVertex (a, b, c, l); }
    static C15_NI V    closest_vertex (const V& a, const V& b, const V& c, const V& p) { return closestVertex (a, b, c, p); }
    static C15_NI V    rotate_point (const V& p, const L& l, T a) { return rotatePoint (p, l, a); }
    static C15_NI V    project_ (const V& s, const V& t) { return project (s, t); }
    static C15_NI V    reflect_ (const V& s, const V& t) { return reflect (s, t); }
};
enum
{
    AL_PLANE_HIT,
    AL_SPHERE_HIT,
    AL_SPHERE_MISS,
    AL_TRI_HIT,
    AL_TRI_MISS,
    AL_CP_TRUE
};
template <class T> static void alias_case (vp::Ctx& c, const char* tn)
{
    typedef Vec3<T>    V;
    typedef LibCall<T> F;
    vp::Src&           s = c.s;
    // ---- a configuration in general position: line, plane, sphere and triangle in front of the line (1/4 missed)
    V lp = seq_pt<T> (s);
    V lq = seq_pt<T> (s);
    if (lq == lp) lq.x += 1;
    const Line3<T> L (lp, lq);
    V         pp = seq_pt<T> (s);
    V         pn = gen_offset<T> (s);
    const Plane3<T> Pl (pp, pn);
    double    ts  = s.uniform (0.5, 6);
    double    rr  = s.uniform (0.25, 3);
    Q3        so  = seq_dir (s);
    double    sf  = s.uniform (0, 0.9);
    bool      smiss = s.chance (64);
    const Sphere3<T> Sp (rnd<T> (q3 (L ((T) ts)) + so * ((quad) rr * (smiss ? (quad) 1.5 : (quad) sf))), (T) rr);
    double    tt  = s.uniform (0.5, 6);
    V         eu  = gen_offset<T> (s);
    V         ev  = gen_offset<T> (s);
    bool      tmiss = s.chance (64);
    V         H   = L ((T) tt);
    if ((eu % ev).length2 () == 0) ev = V (eu.y, eu.z, -eu.x) + V (1, 2, 3);
    V         V0 = H - (eu + ev) / (T) 3 + (tmiss ? (eu + ev) * (T) 2 : V (0, 0, 0)), V1 = V0 + eu, V2 = V0 + ev;
    V         l2p = seq_pt<T> (s);
    V         l2q = seq_pt<T> (s);
    if (l2q == l2p) l2q.y += 1;
    const Line3<T> L2 (l2p, l2q);
    V         q   = seq_pt<T> (s);
    V         x   = seq_pt<T> (s);
    V         y   = seq_pt<T> (s);
    double    au  = s.uniform (-6.3, 6.3);
    double    tu  = s.uniform (-4, 4);
    int       ix  = (int) s.below (3);
    T         dn  = gen::nice<T> (s);
    if (x == L.pos || x == L.dir) x.z += 1;
    c.nt (true);
    VP_NOTE (c, tn << " line=" << vs (L.pos) << "+t" << vs (L.dir) << " line2=" << vs (L2.pos) << "+t" << vs (L2.dir) << " plane=" << vs (Pl.normal) << "," << Pl.distance << " sphere=" << vs (Sp.center) << ",r=" << Sp.radius << " triangle=" << vs (V0) << " " << vs (V1) << " " << vs (V2) << " q=" << vs (q) << " x=" << vs (x) << " y=" << vs (y) << " angle=" << au << " t=" << tu << " slot=" << ix);
#define C15_AL(key, cond, what, got) VP_REQUIRE (c, cond, key, tn << " " << what << " differs from the same call with a separate output object: got " << got)
    // ---- Plane3::intersect / intersectT
    {
        V    o (7, 7, 7);
        bool r = F::plane_intersect (Pl, L, o);
        if (r) c.label (AL_PLANE_HIT);
        {
            Line3<T> l  = L;
            bool     r2 = F::plane_intersect (Pl, l, l.pos);
            C15_AL ("plane-intersect/out-is-line-pos", r2 == r && same3 (l.pos, r ? o : L.pos) && same3 (l.dir, L.dir), "plane.intersect(line, line.pos)", r2 << " " << vs (l.pos) << ", separate: " << r << " " << vs (o));
        }
        {
            Line3<T> l  = L;
            bool     r2 = F::plane_intersect (Pl, l, l.dir);
            C15_AL ("plane-intersect/out-is-line-dir", r2 == r && same3 (l.dir, r ? o : L.dir) && same3 (l.pos, L.pos), "plane.intersect(line, line.dir)", r2 << " " << vs (l.dir) << ", separate: " << r << " " << vs (o));
        }
        {
            Plane3<T> p  = Pl;
            bool      r2 = F::plane_intersect (p, L, p.normal);
            C15_AL ("plane-intersect/out-is-own-normal", r2 == r && same3 (p.normal, r ? o : Pl.normal) && same<T> (p.distance, Pl.distance), "plane.intersect(line, plane.normal)", r2 << " " << vs (p.normal) << ", separate: " << r << " " << vs (o));
        }
        T    t0 = 7;
        bool rt = F::plane_intersectT (Pl, L, t0);
        {
            Line3<T> l  = L;
            bool     r2 = F::plane_intersectT (Pl, l, l.pos[ix]);
            C15_AL ("plane-intersectT/out-is-input-member", r2 == rt && (!rt || same<T> (l.pos[ix], t0)), "plane.intersectT(line, line.pos[i])", r2 << " " << l.pos[ix] << ", separate: " << rt << " " << t0);
        }
        {
            Line3<T> l  = L;
            bool     r2 = F::plane_intersectT (Pl, l, l.dir[ix]);
            C15_AL ("plane-intersectT/out-is-input-member", r2 == rt && (!rt || same<T> (l.dir[ix], t0)), "plane.intersectT(line, line.dir[i])", r2 << " " << l.dir[ix] << ", separate: " << rt << " " << t0);
        }
        {
            Plane3<T> p  = Pl;
            bool      r2 = F::plane_intersectT (p, L, p.distance);
            C15_AL ("plane-intersectT/out-is-input-member", r2 == rt && (!rt || same<T> (p.distance, t0)), "plane.intersectT(line, plane.distance)", r2 << " " << p.distance << ", separate: " << rt << " " << t0);
        }
        {
            Plane3<T> p  = Pl;
            bool      r2 = F::plane_intersectT (p, L, p.normal[ix]);
            C15_AL ("plane-intersectT/out-is-input-member", r2 == rt && (!rt || same<T> (p.normal[ix], t0)), "plane.intersectT(line, plane.normal[i])", r2 << " " << p.normal[ix] << ", separate: " << rt << " " << t0);
        }
    }
    // ---- Sphere3::intersect / intersectT
    {
        V    o (7, 7, 7);
        bool r = F::sphere_intersect (Sp, L, o);
        c.label (r ? AL_SPHERE_HIT : AL_SPHERE_MISS);
        {
            Line3<T> l  = L;
            bool     r2 = F::sphere_intersect (Sp, l, l.pos);
            C15_AL ("sphere-intersect/out-is-line-pos", r2 == r && same3 (l.pos, r ? o : L.pos) && same3 (l.dir, L.dir), "sphere.intersect(line, line.pos)", r2 << " " << vs (l.pos) << ", separate: " << r << " " << vs (o));
        }
        {
            Line3<T> l  = L;
            bool     r2 = F::sphere_intersect (Sp, l, l.dir);
            C15_AL ("sphere-intersect/out-is-line-dir", r2 == r && same3 (l.dir, r ? o : L.dir) && same3 (l.pos, L.pos), "sphere.intersect(line, line.dir)", r2 << " " << vs (l.dir) << ", separate: " << r << " " << vs (o));
        }
        {
            Sphere3<T> sp = Sp;
            bool       r2 = F::sphere_intersect (sp, L, sp.center);
            C15_AL ("sphere-intersect/out-is-own-center", r2 == r && same3 (sp.center, r ? o : Sp.center) && same<T> (sp.radius, Sp.radius), "sphere.intersect(line, sphere.center)", r2 << " " << vs (sp.center) << ", separate: " << r << " " << vs (o));
        }
        T    t0 = 7;
        bool rt = F::sphere_intersectT (Sp, L, t0);
        {
            Line3<T> l  = L;
            bool     r2 = F::sphere_intersectT (Sp, l, l.pos[ix]);
            C15_AL ("sphere-intersectT/out-is-input-member", r2 == rt && (!rt || same<T> (l.pos[ix], t0)), "sphere.intersectT(line, line.pos[i])", r2 << " " << l.pos[ix] << ", separate: " << rt << " " << t0);
        }
        {
            Line3<T> l  = L;
            bool     r2 = F::sphere_intersectT (Sp, l, l.dir[ix]);
            C15_AL ("sphere-intersectT/out-is-input-member", r2 == rt && (!rt || same<T> (l.dir[ix], t0)), "sphere.intersectT(line, line.dir[i])", r2 << " " << l.dir[ix] << ", separate: " << rt << " " << t0);
        }
        {
            Sphere3<T> sp = Sp;
            bool       r2 = F::sphere_intersectT (sp, L, sp.radius);
            C15_AL ("sphere-intersectT/out-is-input-member", r2 == rt && (!rt || same<T> (sp.radius, t0)), "sphere.intersectT(line, sphere.radius)", r2 << " " << sp.radius << ", separate: " << rt << " " << t0);
        }
        {
            Sphere3<T> sp = Sp;
            bool       r2 = F::sphere_intersectT (sp, L, sp.center[ix]);
            C15_AL ("sphere-intersectT/out-is-input-member", r2 == rt && (!rt || same<T> (sp.center[ix], t0)), "sphere.intersectT(line, sphere.center[i])", r2 << " " << sp.center[ix] << ", separate: " << rt << " " << t0);
        }
    }
    // ---- closestPoints: point1 in { l1.pos, l1.dir, separate } x point2 in { l1.pos, l1.dir, l2.pos, l2.dir, separate }
    {
        V    a (7, 7, 7), b (7, 7, 7);
        bool r = F::closest_points (L, L2, a, b);
        if (r) c.label (AL_CP_TRUE);
        static const char* const NM[5] = { "line1.pos", "line1.dir", "line2.pos", "line2.dir", "separate" };
        static const int         I1[3] = { 0, 1, 4 };
        for (int ii = 0; ii < 3; ++ii)
            for (int j = 0; j < 5; ++j)
            {
                int i = I1[ii];
                if (i == j) continue;
                Line3<T> l1 = L, l2 = L2;
                V        sa (7, 7, 7), sb (7, 7, 7);
                V*       tg[5]  = { &l1.pos, &l1.dir, &l2.pos, &l2.dir, 0 };
                const V  org[5] = { L.pos, L.dir, L2.pos, L2.dir, V (7, 7, 7) };
                V*       o1 = i < 4 ? tg[i] : &sa;
                V*       o2 = j < 4 ? tg[j] : &sb;
                bool     r2 = F::closest_points (l1, l2, *o1, *o2);
                bool     ok = r2 == r && same3 (*o1, r ? a : org[i]) && same3 (*o2, r ? b : org[j]);
                for (int k = 0; k < 4; ++k)
                    if (k != i && k != j && !same3 (*tg[k], org[k])) ok = false; // the other members are inputs only
                bool        dir = i == 1 || j == 1 || j == 3;
                const char* key = dir ? "closestPoints/out-is-line-dir" : (j == 0 ? "closestPoints/out-is-other-line-origin" : "closestPoints/out-is-own-origin");
                C15_AL (key, ok, "closestPoints(line1, line2, " << NM[i] << ", " << NM[j] << ")", r2 << " " << vs (*o1) << " " << vs (*o2) << ", separate: " << r << " " << vs (a) << " " << vs (b));
            }
    }
    // ---- triangle intersect (): pt = line.pos ("advance the ray to the hit"), barycentric = v2 / line.pos
    {
        V    pt (7, 7, 7), ba (7, 7, 7);
        bool fr = false;
        bool r  = F::tri (L, V0, V1, V2, pt, ba, fr);
        c.label (r ? AL_TRI_HIT : AL_TRI_MISS);
        static const char* const NM[3] = { "line.pos", "v2", "separate" };
        static const int         CB[4][2] = { { 0, 2 }, { 0, 1 }, { 2, 0 }, { 2, 1 } }; // (pt, barycentric)
        for (int k = 0; k < 4; ++k)
        {
            Line3<T> l = L;
            V        v2 = V2, sp (7, 7, 7), sb (7, 7, 7);
            V*       tg[3] = { &l.pos, &v2, 0 };
            V*       o1 = CB[k][0] < 2 ? tg[CB[k][0]] : &sp;
            V*       o2 = CB[k][1] < 2 ? tg[CB[k][1]] : &sb;
            bool     f2 = false;
            bool     r2 = F::tri (l, V0, V1, v2, *o1, *o2, f2);
            bool     ok = r2 == r && (!r || (same3 (*o1, pt) && same3 (*o2, ba) && f2 == fr)) && same3 (l.dir, L.dir);
            C15_AL ((k == 0 ? "tri-intersect/out-is-line-pos" : "tri-intersect/out-is-input-member"), ok, "intersect(line, v0, v1, v2, pt = " << NM[CB[k][0]] << ", barycentric = " << NM[CB[k][1]] << ", front)", r2 << " " << vs (*o1) << " " << vs (*o2) << " " << f2 << ", separate: " << r << " " << vs (pt) << " " << vs (ba) << " " << fr);
        }
    }
    // ---- set () with an argument that is the object's own member
    {
        {
            Line3<T> a = L, b = L;
            V        t = L.pos;
            F::line_set (a, t, x);
            F::line_set (b, b.pos, x);
            C15_AL ("line-set/argument-is-own-pos", same3 (a.pos, b.pos) && same3 (a.dir, b.dir), "line.set(line.pos, x) (re-aim the line)", vs (b.pos) << " " << vs (b.dir) << ", separate: " << vs (a.pos) << " " << vs (a.dir));
        }
        {
            Line3<T> a = L, b = L;
            V        t = L.dir;
            F::line_set (a, t, x);
            F::line_set (b, b.dir, x);
            C15_AL ("line-set/argument-is-own-dir", same3 (a.pos, b.pos) && same3 (a.dir, b.dir), "line.set(line.dir, x)", vs (b.pos) << " " << vs (b.dir) << ", separate: " << vs (a.pos) << " " << vs (a.dir));
        }
        {
            Line3<T> a = L, b = L;
            V        t = L.dir;
            F::line_set (a, x, t);
            F::line_set (b, x, b.dir);
            C15_AL ("line-set/argument-is-own-dir", same3 (a.pos, b.pos) && same3 (a.dir, b.dir), "line.set(x, line.dir)", vs (b.pos) << " " << vs (b.dir) << ", separate: " << vs (a.pos) << " " << vs (a.dir));
        }
        {
            Line3<T> a = L, b = L;
            V        t = L.pos, u = L.dir;
            F::line_set (a, t, u);
            F::line_set (b, b.pos, b.dir);
            C15_AL ("line-set/argument-is-own-dir", same3 (a.pos, b.pos) && same3 (a.dir, b.dir), "line.set(line.pos, line.dir)", vs (b.pos) << " " << vs (b.dir) << ", separate: " << vs (a.pos) << " " << vs (a.dir));
        }
        {
            Plane3<T> a = Pl, b = Pl;
            V         t = Pl.normal;
            F::plane_set_nd (a, t, dn);
            F::plane_set_nd (b, b.normal, dn);
            C15_AL ("plane-set/argument-is-own-normal", same3 (a.normal, b.normal) && same<T> (a.distance, b.distance), "plane.set(plane.normal, d) (renormalise)", vs (b.normal) << "," << b.distance << ", separate: " << vs (a.normal) << "," << a.distance);
        }
        {
            Plane3<T> a = Pl, b = Pl;
            V         t = Pl.normal;
            F::plane_set_pn (a, x, t);
            F::plane_set_pn (b, x, b.normal);
            C15_AL ("plane-set/argument-is-own-normal", same3 (a.normal, b.normal) && same<T> (a.distance, b.distance), "plane.set(point, plane.normal)", vs (b.normal) << "," << b.distance << ", separate: " << vs (a.normal) << "," << a.distance);
        }
        {
            Plane3<T> a = Pl, b = Pl;
            V         t = Pl.normal;
            F::plane_set3 (a, x, t, y);
            F::plane_set3 (b, x, b.normal, y);
            C15_AL ("plane-set3/argument-is-own-normal", same3 (a.normal, b.normal) && same<T> (a.distance, b.distance), "plane.set(x, plane.normal, y)", vs (b.normal) << "," << b.distance << ", separate: " << vs (a.normal) << "," << a.distance);
            a = Pl, b = Pl;
            F::plane_set3 (a, x, y, t);
            F::plane_set3 (b, x, y, b.normal);
            C15_AL ("plane-set3/argument-is-own-normal", same3 (a.normal, b.normal) && same<T> (a.distance, b.distance), "plane.set(x, y, plane.normal)", vs (b.normal) << "," << b.distance << ", separate: " << vs (a.normal) << "," << a.distance);
        }
    }
    // ---- results returned by value and assigned to a member of an argument
    {
        T ang = (T) au, tp = (T) tu;
        {
            Line3<T> l = L;
            V        r = F::cpt_point (L, q);
            l.pos      = F::cpt_point (l, q);
            C15_AL ("value-result-assigned-to-input-member", same3 (l.pos, r), "line.pos = line.closestPointTo(q)", vs (l.pos) << ", separate: " << vs (r));
            l     = L;
            l.dir = F::cpt_point (l, q);
            C15_AL ("value-result-assigned-to-input-member", same3 (l.dir, r), "line.dir = line.closestPointTo(q)", vs (l.dir) << ", separate: " << vs (r));
            l     = L;
            r     = F::line_eval (L, tp);
            l.pos = F::line_eval (l, tp);
            C15_AL ("value-result-assigned-to-input-member", same3 (l.pos, r), "line.pos = line(t) (advance the ray)", vs (l.pos) << ", separate: " << vs (r));
            l     = L;
            r     = F::cpt_line (L, L2);
            l.pos = F::cpt_line (l, L2);
            C15_AL ("value-result-assigned-to-input-member", same3 (l.pos, r), "line.pos = line.closestPointTo(line2)", vs (l.pos) << ", separate: " << vs (r));
            Line3<T> m = L2;
            m.pos      = F::cpt_line (L, m);
            C15_AL ("value-result-assigned-to-input-member", same3 (m.pos, r), "line2.pos = line.closestPointTo(line2)", vs (m.pos) << ", separate: " << vs (r));
            l     = L;
            r     = F::rotate_point (q, L, ang);
            V pr  = q;
            pr    = F::rotate_point (pr, L, ang);
            l.pos = F::rotate_point (q, l, ang);
            C15_AL ("value-result-assigned-to-input-member", same3 (pr, r) && same3 (l.pos, r), "p = rotatePoint(p, line, angle) / line.pos = rotatePoint(p, line, angle)", vs (pr) << " " << vs (l.pos) << ", separate: " << vs (r));
            l     = L;
            r     = F::closest_vertex_line (V0, V1, V2, L);
            l.pos = F::closest_vertex_line (V0, V1, V2, l);
            C15_AL ("value-result-assigned-to-input-member", same3 (l.pos, r), "line.pos = closestVertex(v0, v1, v2, line)", vs (l.pos) << ", separate: " << vs (r));
            V w0 = V0;
            w0   = F::closest_vertex_line (w0, V1, V2, L);
            C15_AL ("value-result-assigned-to-input-member", same3 (w0, r), "v0 = closestVertex(v0, v1, v2, line)", vs (w0) << ", separate: " << vs (r));
            r  = F::closest_vertex (V0, V1, V2, q);
            w0 = V0;
            w0 = F::closest_vertex (w0, V1, V2, q);
            V qq = q;
            qq   = F::closest_vertex (V0, V1, V2, qq);
            C15_AL ("value-result-assigned-to-input-member", same3 (w0, r) && same3 (qq, r), "v0 = closestVertex(v0, v1, v2, p) / p = closestVertex(v0, v1, v2, p)", vs (w0) << " " << vs (qq) << ", separate: " << vs (r));
        }
        {
            Plane3<T> p = Pl;
            V         r = F::reflect_point (Pl, q);
            p.normal    = F::reflect_point (p, q);
            V qq        = q;
            qq          = F::reflect_point (Pl, qq);
            C15_AL ("value-result-assigned-to-input-member", same3 (p.normal, r) && same3 (qq, r), "plane.normal = plane.reflectPoint(q) / q = plane.reflectPoint(q)", vs (p.normal) << " " << vs (qq) << ", separate: " << vs (r));
            p        = Pl;
            r        = F::reflect_vector (Pl, x);
            p.normal = F::reflect_vector (p, x);
            C15_AL ("value-result-assigned-to-input-member", same3 (p.normal, r), "plane.normal = plane.reflectVector(v)", vs (p.normal) << ", separate: " << vs (r));
            V sv = x, tv = y;
            r    = F::project_ (x, y);
            sv   = F::project_ (sv, y);
            tv   = F::project_ (x, tv);
            C15_AL ("value-result-assigned-to-input-member", same3 (sv, r) && same3 (tv, r), "s = project(s, t) / t = project(s, t)", vs (sv) << " " << vs (tv) << ", separate: " << vs (r));
            sv = x, tv = y;
            r  = F::reflect_ (x, y);
            sv = F::reflect_ (sv, y);
            tv = F::reflect_ (x, tv);
            C15_AL ("value-result-assigned-to-input-member", same3 (sv, r) && same3 (tv, r), "s = reflect(s, t) / t = reflect(s, t)", vs (sv) << " " << vs (tv) << ", separate: " << vs (r));
        }
    }
#undef C15_AL
}
#define C15_AL_LABELS "plane_hit", "sphere_hit", "sphere_missed", "triangle_hit", "triangle_missed", "closestPoints_true"
#define C15_AL_RULE "a generic configuration (line, second line, plane, a sphere and a triangle in front of the line, each missed in 1/4 of the cases, points, angle); every function of the property with an out-parameter is called with the out-parameter aliasing a member of an input (line.pos, line.dir, plane.normal / distance, sphere.center / radius, a vertex, per slot for T& outputs) and with separate outputs, through the same noinline wrapper; set() overloads with their own members as arguments; by-value results assigned to members of the arguments; demanded: same return value, bit-identical outputs, untouched other members; all cases non-trivial"
VP_RANDOM (alias_f, 60000, 600000, C15_AL_RULE) { alias_case<float> (c, "float"); }
VP_LABELS (alias_f, C15_AL_LABELS)
VP_REQUIRE_LABELS (alias_f, C15_AL_LABELS)
VP_RANDOM (alias_d, 60000, 600000, C15_AL_RULE) { alias_case<double> (c, "double"); }
VP_LABELS (alias_d, C15_AL_LABELS)
VP_REQUIRE_LABELS (alias_d, C15_AL_LABELS)

// =====================================================================================
// 14. "Parallel lines are reported or handled rather than divided by zero": closestPoints, Line3::closestPointTo (line)
//     and Line3::distanceTo (line) on exactly parallel / antiparallel / identical lines must raise neither
//     FE_DIVBYZERO nor FE_INVALID.  The floating-point status flags are cleared, the library function is called
//     through a volatile function pointer to a noinline wrapper (nothing can be moved across the flag operations, no
//     value is known at compile time), the flags are read back.  The fp environment is per thread.
//     Asserted when the stored directions are exactly parallel (cross product exactly 0, decided in quad) or when
//     the denominator 1 - (d1.d2)^2 evaluates to exactly 0 in T.  Measured on the unchanged tree: all three
//     functions are clean in all three binaries (g++ -O2, clang++ -O1 ASan/UBSan, g++ -O1 -mfma -mavx2), also for
//     the nearly parallel pairs that are generated but not asserted.
// =====================================================================================
template <class T> struct ParCall
{
    typedef bool (*cp_t) (const Line3<T>&, const Line3<T>&, Vec3<T>&, Vec3<T>&);
    typedef Vec3<T> (*cpl_t) (const Line3<T>&, const Line3<T>&);
    typedef T (*dl_t) (const Line3<T>&, const Line3<T>&);
    static cp_t volatile  cp;
    static cpl_t volatile cpl;
    static dl_t volatile  dl;
};
template <class T> typename ParCall<T>::cp_t volatile  ParCall<T>::cp  = &LibCall<T>::closest_points;
template <class T> typename ParCall<T>::cpl_t volatile ParCall<T>::cpl = &LibCall<T>::cpt_line;
template <class T> typename ParCall<T>::dl_t volatile  ParCall<T>::dl  = &LibCall<T>::dist_line;
static inline std::string fe_names (int f)
{
    std::string r;
    if (f & FE_DIVBYZERO) r += "FE_DIVBYZERO ";
    if (f & FE_INVALID) r += "FE_INVALID ";
    return r;
}
enum
{
    PF_AXIS,
    PF_LATTICE_PAIRS,
    PF_COPIED_DIR,
    PF_IDENTICAL,
    PF_NEAR_2J,
    PF_ANTIPARALLEL,
    PF_FAR_OFFSET,
    PF_ASSERTED,
    PF_DEN_ZERO,
    PF_EXACT_PARALLEL_DEN_NONZERO,
    PF_NOT_ASSERTED,
    PF_CP_FALSE
};
template <class T> static void parallel_flags_case (vp::Ctx& c, const char* tn)
{
    typedef Vec3<T> V;
    vp::Src&        s   = c.s;
    int             cls = (int) s.below (5);
    V               a   = lat_pt<T> (s);
    V               b   = lat_pt<T> (s);
    V               g   = seq_pt<T> (s);
    V               dI  = lat_vec<T> (s, 4);
    V               go  = gen_offset<T> (s);
    int             l1c = (int) s.below (3);
    static const int KS[12] = { 1, 3, 5, 6, 7, 9, 10, 11, 12, 13, 14, 15 };
    int             k1  = KS[s.below (12)];
    int             k2  = KS[s.below (12)];
    bool            neg = s.coin ();
    int             ax  = (int) s.below (3);
    bool            on  = s.coin ();
    double          tl  = s.uniform (-4, 4);
    bool            gen2 = s.coin ();
    int             j   = (int) s.range (FInfo<T>::mant / 2 - 3, FInfo<T>::mant + 3);
    double          ju  = s.unit ();
    double          ph  = s.uniform (0, 6.283);
    bool            far = s.chance (64);
    int             fe  = (int) s.range (4, sizeof (T) == 8 ? 40 : 20);
    Line3<T>        l1, l2;
    // the first line: axis-parallel, through two lattice points, through two generic points
    if (l1c == 0 || cls == 0)
    {
        l1.pos = a;
        l1.dir = axis_vec<T> (ax, 1);
    }
    else if (l1c == 1)
        l1 = Line3<T> (a, a + dI * (T) k1);
    else
        l1 = Line3<T> (g, g + go);
    V pos2 = gen2 ? seq_pt<T> (s) : b;
    switch (cls)
    {
        case 0: // axis-parallel
            l2.pos = pos2;
            l2.dir = l1.dir;
            c.label (PF_AXIS);
            break;
        case 1: // both from lattice point pairs p, p + k d with the same integer d: parallel before normalisation
            l1 = Line3<T> (a, a + dI * (T) k1);
            l2 = Line3<T> (b, b + dI * (T) k2);
            c.label (PF_LATTICE_PAIRS);
            break;
        case 2: // the direction copied; second origin anywhere or on the first line
            l2.pos = on ? l1 ((T) tl) : pos2;
            l2.dir = l1.dir;
            c.label (PF_COPIED_DIR);
            break;
        case 3: // the same line
            l2 = l1;
            c.label (PF_IDENTICAL);
            break;
        default: // at an angle 2^-j, j from digits/2 - 3 (the denominator rounds to 0 from about digits/2 on)
        {
            Q3 D1  = q3 (l1.dir);
            l2.pos = pos2;
            l2.dir = rnd<T> (unit (unit (D1) + perp_to (D1, (quad) ph) * (quad) std::ldexp (1.0 + ju, -j)));
            c.label (PF_NEAR_2J);
            break;
        }
    }
    if (neg)
    {
        l2.dir = -l2.dir;
        c.label (PF_ANTIPARALLEL);
    }
    if (far)
    {
        l2.pos = l2.pos * std::ldexp ((T) 1, fe);
        c.label (PF_FAR_OFFSET);
    }
    if (!(l1.dir.length2 () > 0)) l1.dir = V (1, 0, 0);
    if (!(l2.dir.length2 () > 0)) l2.dir = l1.dir;
    VP_NOTE (c, tn << " class=" << cls << " line1=" << vs (l1.pos) << "+t" << vs (l1.dir) << " line2=" << vs (l2.pos) << "+t" << vs (l2.dir));
    // exactly parallel stored directions (exact in quad), and the denominator as T arithmetic forms it
    Q3   CR = cross (q3 (l1.dir), q3 (l2.dir));
    bool exact_parallel = CR.x == 0 && CR.y == 0 && CR.z == 0;
    volatile T px = l1.dir.x * l2.dir.x, py = l1.dir.y * l2.dir.y, pz = l1.dir.z * l2.dir.z;
    volatile T sxy = px + py;
    volatile T d12 = sxy + pz;
    volatile T sq  = d12 * d12;
    volatile T den = (T) 1 - sq;
    bool       dzero = den == 0;
    bool       asserted = exact_parallel || dzero;
    c.label (asserted ? PF_ASSERTED : PF_NOT_ASSERTED);
    if (dzero) c.label (PF_DEN_ZERO);
    if (exact_parallel && !dzero) c.label (PF_EXACT_PARALLEL_DEN_NONZERO);
    c.nt (asserted);
    const int WATCH = FE_DIVBYZERO | FE_INVALID;
    V         o1 (7, 7, 7), o2 (7, 7, 7);
    std::feclearexcept (FE_ALL_EXCEPT);
    bool ok = ParCall<T>::cp (l1, l2, o1, o2);
    int  f1 = std::fetestexcept (WATCH);
    std::feclearexcept (FE_ALL_EXCEPT);
    V   cp = ParCall<T>::cpl (l1, l2);
    int f2 = std::fetestexcept (WATCH);
    std::feclearexcept (FE_ALL_EXCEPT);
    T   dist = ParCall<T>::dl (l1, l2);
    int f3   = std::fetestexcept (WATCH);
    std::feclearexcept (FE_ALL_EXCEPT);
    if (!ok) c.label (PF_CP_FALSE);
    QG_MEAS ("parallel-flags/raised-when-not-asserted(0/1)", (!asserted && (f1 | f2 | f3)) ? 1 : 0);
    if (asserted)
    {
        VP_REQUIRE (c, f1 == 0, "closestPoints/fp-exception-on-parallel-lines", tn << " closestPoints raised " << fe_names (f1) << "for " << (exact_parallel ? "exactly parallel lines" : "lines whose denominator 1-(d1.d2)^2 is exactly 0") << " (returned " << ok << "): a division by zero was performed");
        VP_REQUIRE (c, f2 == 0, "line-closestPointTo-line/fp-exception-on-parallel-lines", tn << " closestPointTo(line) raised " << fe_names (f2) << "for " << (exact_parallel ? "exactly parallel lines" : "lines whose denominator 1-(d1.d2)^2 is exactly 0") << " (returned " << vs (cp) << "): a division by zero was performed");
        VP_REQUIRE (c, f3 == 0, "line-distanceTo-line/fp-exception-on-parallel-lines", tn << " distanceTo(line) raised " << fe_names (f3) << "for " << (exact_parallel ? "exactly parallel lines" : "lines whose denominator 1-(d1.d2)^2 is exactly 0") << " (returned " << dist << "): a division by zero was performed");
        VP_REQUIRE (c, fin3 (cp) && std::isfinite (dist) && (!ok || (fin3 (o1) && fin3 (o2))), "parallel-lines/nonfinite", tn << " closestPoints " << ok << " " << vs (o1) << " " << vs (o2) << ", closestPointTo(line) " << vs (cp) << ", distanceTo(line) " << dist);
    }
}
#define C15_PF_LABELS "axis_parallel", "lattice_point_pairs_p,p+k*d", "direction_copied", "identical_lines", "angle_2^-j(j>=digits/2-3)", "antiparallel", "second_origin_scaled_by_2^4..2^40", "flags_asserted", "denominator_exactly_0", "exactly_parallel_denominator_nonzero", "not_asserted(nearly_parallel,denominator_nonzero)", "closestPoints_false"
#define C15_PF_RULE "pairs of exactly parallel / antiparallel / identical lines (axis-parallel; both through lattice point pairs p, p + k d, k in 1,3,5,6,7,9..15; direction copied from a line through lattice or generic points, second origin anywhere or on the first line; the same line) and lines at an angle 2^-j, j = digits/2-3 .. digits+3; 1/4 with the second origin scaled by 2^4..2^20 (float) / 2^40 (double); floating-point status flags cleared before and read after closestPoints, closestPointTo(line), distanceTo(line), each called through a volatile function pointer; demanded: neither FE_DIVBYZERO nor FE_INVALID when the stored directions are exactly parallel or 1-(d1.d2)^2 is exactly 0 in T; non-trivial = asserted"
VP_RANDOM (parallel_flags_f, 100000, 1000000, C15_PF_RULE) { parallel_flags_case<float> (c, "float"); }
VP_LABELS (parallel_flags_f, C15_PF_LABELS)
VP_REQUIRE_LABELS (parallel_flags_f, C15_PF_LABELS)
VP_RANDOM (parallel_flags_d, 100000, 1000000, C15_PF_RULE) { parallel_flags_case<double> (c, "double"); }
VP_LABELS (parallel_flags_d, C15_PF_LABELS)
VP_REQUIRE_LABELS (parallel_flags_d, C15_PF_LABELS)

VP_MAIN ("C15")
