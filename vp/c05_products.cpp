// C05: products, transposes, minors and determinants equal their algebraic definitions.
//
// Every function named in the property statement is compared, slot by slot, with the
// textbook sum of products evaluated in __float128 (exact for float operands, 113-bit for
// double operands).  The tolerance is  k * u * SUM|term|  (u = unit roundoff of the result
// type, k = the longest chain of roundings any term goes through, + 1), i.e. the a-priori
// bound of the standard error analysis, so it cannot false-alarm and cannot be tightened
// without rejecting correct roundings.  On integer lattices (all operands small integers,
// SUM|term| < 2^mantissa) every intermediate is exact and equality is demanded.
// Spellings of the same product are compared bit for bit.
//
// Measured worst |err| / (u * SUM|term|) on the unchanged tree (build with -DC05_MEASURE, quick tier, seed 1)
// is quoted above each family next to the k used.  The worst cases come within a few per cent of the
// a-priori bound n*u (e.g. 1.95 for two-term sums), so k cannot be made smaller than the analysis says
// and there is no reason to make it larger.
#include "vpbt.h"
#include "oracles.h"
#include "gens.h"
#include <ImathVec.h>
#include <ImathMatrix.h>
#include <ImathMatrixAlgo.h>
#include <ImathQuat.h>

using namespace orc;
using namespace IMATH_NAMESPACE;

// ---------------------------------------------------------------------------------------
// optional measurement of the worst observed error ratio (development only: -DC05_MEASURE)
#ifdef C05_MEASURE
#include <map>
#include <mutex>
struct Meas
{
    std::mutex                    m;
    std::map<std::string, double> worst;
    void                          add (const char* key, double r)
    {
        static thread_local std::map<const char*, double> local;
        double&                                           lw = local[key];
        if (!(r > lw)) return;
        lw = r;
        std::lock_guard<std::mutex> l (m);
        double&                     w = worst[key];
        if (r > w) w = r;
    }
    ~Meas ()
    {
        for (auto& kv : worst)
            fprintf (stderr, "MEASURE %-40s worst err/(u*sum|terms|) = %.3f\n", kv.first.c_str (), kv.second);
    }
};
static Meas g_meas;
#define MEAS(key, r) g_meas.add (key, (double) (r))
#else
#define MEAS(key, r) ((void) 0)
#endif

// ---------------------------------------------------------------------------------------
template <class T, int N> struct TY;
template <class T> struct TY<T, 2>
{
    typedef Vec2<T>     V;
    typedef Matrix22<T> M;
};
template <class T> struct TY<T, 3>
{
    typedef Vec3<T>     V;
    typedef Matrix33<T> M;
};
template <class T> struct TY<T, 4>
{
    typedef Vec4<T>     V;
    typedef Matrix44<T> M;
};

template <class T> static inline quad unit_roundoff () { return (quad) (FInfo<T>::eps () / 2); }
template <class T> static inline quad two_mant () { return (quad) std::ldexp (1.0, FInfo<T>::mant); }
template <class T> static inline const char* tname () { return sizeof (T) == 4 ? "float" : "double"; }

// operand value classes (per case); smaller = simpler
enum Mode
{
    M_LATTICE, // integers -8..8: every product / sum exact
    M_SPARSE,  // many exact zeros (both signs), structural patterns
    M_GRADED,  // random significand, exponent -20..20 per entry
    M_RANDOM   // well scaled, uniform in (-4,4)
};
static inline int pick_mode (vp::Src& s)
{
    static const int tab[8] = { M_LATTICE, M_LATTICE, M_SPARSE, M_SPARSE, M_GRADED, M_RANDOM, M_RANDOM, M_RANDOM };
    return tab[s.below (8)];
}
static const char* mode_name (int m)
{
    static const char* n[] = { "lattice", "sparse", "graded", "random" };
    return n[m];
}
template <class T> static inline T dense (vp::Src& s)
{
    T v = (T) s.uniform (-4.0, 4.0);
    if (v == 0) v = (T) 1;
    return v;
}
// integer in -8..8; byte 0 -> 0, then 1,-1,2,-2,... so that shrunk cases are readable
static inline int lattice_int (vp::Src& s)
{
    int k = (int) s.below (17);
    return (k & 1) ? (k + 1) / 2 : -(k / 2);
}
// ge: largest |exponent| of the graded class (chosen per family so that no result can overflow)
template <class T> static inline T draw (vp::Src& s, int mode, int ge = 20)
{
    switch (mode)
    {
        case M_LATTICE: return (T) lattice_int (s);
        case M_SPARSE:
            if (s.chance (110)) return s.coin () ? (T) 0 : -(T) 0;
            return s.coin () ? (T) lattice_int (s) : dense<T> (s);
        case M_GRADED: return gen::moderate<T> (s, -ge, ge);
        default: return dense<T> (s);
    }
}

enum
{
    L_LATTICE,
    L_SPARSE,
    L_GRADED,
    L_RANDOM,
    L_EXACT,       // exact equality was demanded
    L_DISTINCT,    // all operand entries non-zero and pairwise distinct
    L_ALIASED,     // an aliased (self) call was made
    L_DIM2,
    L_DIM3,
    L_DIM4,
    L_AFFINE,      // last column (0,..,0,1)
    L_SKIP0,       // Matrix44::determinant skip branch for x[0][3]==0 taken
    L_SKIP1,
    L_SKIP2,
    L_SKIP3,
    L_SKIPALL,     // all four skipped (zero last column)
    L_NEGZERO_SKIP,// a skip taken on -0
    L_W_FIXED,     // homogeneous coordinate forced away from 0 by construction
    L_SINGLE_NZ    // single non-zero entry / row pattern
};
#define C05_LABELS                                                                                                   \
    "lattice", "sparse", "graded", "random", "exact_equality_demanded", "all_nonzero_distinct", "aliased_call", "dim2", "dim3", "dim4", "affine_last_column", "det44_skip0", \
        "det44_skip1", "det44_skip2", "det44_skip3", "det44_skip_all", "det44_skip_on_negative_zero", "w_forced_nonzero", "single_nonzero_pattern"

// matrix generator.  pattern (sparse mode only): 0 independent zeros, 1 affine last column,
// 2 one non-zero per row, 3 dense with a random zero mask on the last column, 4 one non-zero entry
template <class T, int N, class MT> static void gen_mat (vp::Ctx& c, int mode, MT& m, int ge = 20)
{
    vp::Src& s = c.s;
    if (mode != M_SPARSE)
    {
        for (int i = 0; i < N; ++i)
            for (int j = 0; j < N; ++j)
                m[i][j] = draw<T> (s, mode, ge);
        if (mode == M_LATTICE && s.chance (40))
        {
            // lattice with a zero mask / affine last column: exact results through the skip branches
            int mask = (int) s.below (1 << N);
            for (int i = 0; i < N; ++i)
                if (mask & (1 << i)) m[i][N - 1] = 0;
        }
        return;
    }
    int pattern = (int) s.below (5);
    switch (pattern)
    {
        case 0:
            for (int i = 0; i < N; ++i)
                for (int j = 0; j < N; ++j)
                    m[i][j] = draw<T> (s, M_SPARSE);
            break;
        case 1:
            for (int i = 0; i < N; ++i)
                for (int j = 0; j < N; ++j)
                    m[i][j] = j == N - 1 ? (T) (i == N - 1 ? 1 : 0) : dense<T> (s);
            c.label (L_AFFINE);
            break;
        case 2:
            for (int i = 0; i < N; ++i)
            {
                int k = (int) s.below (N);
                for (int j = 0; j < N; ++j)
                    m[i][j] = j == k ? dense<T> (s) : (s.coin () ? (T) 0 : -(T) 0);
            }
            c.label (L_SINGLE_NZ);
            break;
        case 3:
        {
            int mask = (int) s.below (1 << N);
            for (int i = 0; i < N; ++i)
                for (int j = 0; j < N; ++j)
                    m[i][j] = dense<T> (s);
            for (int i = 0; i < N; ++i)
                if (mask & (1 << i)) m[i][N - 1] = s.coin () ? (T) 0 : -(T) 0;
            break;
        }
        default:
        {
            int a = (int) s.below (N), b = (int) s.below (N);
            for (int i = 0; i < N; ++i)
                for (int j = 0; j < N; ++j)
                    m[i][j] = (i == a && j == b) ? dense<T> (s) : (T) 0;
            c.label (L_SINGLE_NZ);
            break;
        }
    }
}
template <class T> static void gen_arr (vp::Src& s, int mode, T* a, int n)
{
    for (int i = 0; i < n; ++i)
        a[i] = draw<T> (s, mode);
}

// "all entries non-zero and pairwise distinct" over a flat list of values
struct Distinct
{
    double v[40];
    int    n  = 0;
    bool   ok = true;
    template <class T> void add (T x)
    {
        if (x == 0) ok = false;
        if (n < 40) v[n++] = (double) x;
    }
    bool result ()
    {
        if (!ok) return false;
        for (int i = 0; i < n; ++i)
            for (int j = i + 1; j < n; ++j)
                if (v[i] == v[j]) return false;
        return true;
    }
};

static inline void mode_label (vp::Ctx& c, int mode) { c.label (L_LATTICE + mode); }

// tolerance: k*u*asum (+k denormals); zero when exactness is guaranteed
template <class T> static inline quad tol_of (quad asum, int k, bool lattice, bool* exact = nullptr)
{
    bool ex = lattice && asum < two_mant<T> ();
    if (exact) *exact = ex;
    if (ex) return 0;
    return (quad) k * unit_roundoff<T> () * asum * (quad) 1.0001 + (quad) k * (quad) std::numeric_limits<T>::denorm_min ();
}

// failure paths are kept out of line (compile time, code size)
[[gnu::noinline, gnu::cold, noreturn]] static void fail_value (vp::Ctx& c, const char* key, const char* tn, const std::string& what, double got, quad exact, quad d, quad tol, quad asum)
{
    VP_FAIL (c, key, tn << " " << what << " = " << got << " but textbook value is " << qstr (exact) << " (|err| " << qstr (d) << " > tol " << qstr (tol) << ", sum|terms| " << qstr (asum) << ")");
}
[[gnu::noinline, gnu::cold, noreturn]] static void fail_same (vp::Ctx& c, const char* key, const char* tn, const std::string& what, double a, double b)
{
    VP_FAIL (c, key, tn << " " << what << ": " << a << " (" << hexf (a) << ") vs " << b << " (" << hexf (b) << ")");
}
#define WHAT_(what) ([&] { std::ostringstream w_; w_ << what; return w_.str (); }())

// compare one computed value with the exact one
#define CHK(T, got, exact, asum, k, lattice, key, what)                                                              \
    do                                                                                                               \
    {                                                                                                                \
        bool ex_;                                                                                                    \
        quad tol_ = tol_of<T> ((asum), (k), (lattice), &ex_);                                                        \
        quad d_   = qabs ((quad) (got) - (exact));                                                                   \
        if (ex_) c.label (L_EXACT);                                                                                  \
        if ((asum) > 0) MEAS (key, d_ / (unit_roundoff<T> () * (asum)));                                             \
        if (!(d_ <= tol_)) fail_value (c, key, tname<T> (), WHAT_ (what), (double) (got), (exact), d_, tol_, (asum)); \
    } while (0)

#define SAME(T, a, b, key, what)                                                                                     \
    do                                                                                                               \
    {                                                                                                                \
        if (!same<T> ((a), (b))) fail_same (c, key, tname<T> (), WHAT_ (what), (double) (a), (double) (b));          \
    } while (0)

// =========================================================================================
// 1. dot and cross products of vectors
// k: dot of n terms -> n+1; cross -> 3.   measured worst (units of u*sum|terms|): dot2 1.95  dot3 2.56  dot4 3.31  cross2 1.97  cross3 1.98
// checks on given operands (no draws): shared by the random-operand sub-checks and the structured ones of section 7
template <class T> static void vec_check (vp::Ctx& c, const T* a, const T* b, int dim, bool lat)
{
    quad dot = 0, adot = 0;
    for (int i = 0; i < dim; ++i)
    {
        dot += (quad) a[i] * (quad) b[i];
        adot += qabs ((quad) a[i] * (quad) b[i]);
    }
    if (dim == 2)
    {
        Vec2<T> A (a[0], a[1]), B (b[0], b[1]);
        T       d1 = A.dot (B), d2 = A ^ B;
        CHK (T, d1, dot, adot, 3, lat, "vec2-dot", "V2.dot");
        SAME (T, d1, d2, "vec2-dot-spellings", "V2 dot() vs operator^");
        T    c1 = A.cross (B), c2 = A % B;
        quad cr = (quad) a[0] * (quad) b[1] - (quad) a[1] * (quad) b[0];
        quad ac = qabs ((quad) a[0] * (quad) b[1]) + qabs ((quad) a[1] * (quad) b[0]);
        CHK (T, c1, cr, ac, 3, lat, "vec2-cross", "V2.cross");
        SAME (T, c1, c2, "vec2-cross-spellings", "V2 cross() vs operator%");
        // self products
        SAME (T, A.cross (A), (T) 0, "vec2-cross-self", "V2 a.cross(a)");
        c.label (L_ALIASED);
    }
    else if (dim == 3)
    {
        Vec3<T> A (a[0], a[1], a[2]), B (b[0], b[1], b[2]);
        T       d1 = A.dot (B), d2 = A ^ B;
        CHK (T, d1, dot, adot, 4, lat, "vec3-dot", "V3.dot");
        SAME (T, d1, d2, "vec3-dot-spellings", "V3 dot() vs operator^");
        Vec3<T> c1 = A.cross (B), c2 = A % B, c3 = A;
        const Vec3<T>& r = (c3 %= B);
        VP_REQUIRE (c, &r == &c3, "vec3-crosseq-returns-this", "V3 operator%= does not return *this");
        for (int i = 0; i < 3; ++i)
        {
            int  j = (i + 1) % 3, k = (i + 2) % 3;
            quad cr = (quad) a[j] * (quad) b[k] - (quad) a[k] * (quad) b[j];
            quad ac = qabs ((quad) a[j] * (quad) b[k]) + qabs ((quad) a[k] * (quad) b[j]);
            CHK (T, c1[i], cr, ac, 3, lat, "vec3-cross", "V3.cross component " << i);
            SAME (T, c1[i], c2[i], "vec3-cross-spellings", "V3 cross() vs operator% component " << i);
            SAME (T, c1[i], c3[i], "vec3-cross-spellings", "V3 cross() vs operator%= component " << i);
        }
        // aliased: a %= a must be the zero vector (each component y*z - z*y)
        Vec3<T> e = A;
        e %= e;
        Vec3<T> f = A.cross (A);
        for (int i = 0; i < 3; ++i)
        {
            SAME (T, f[i], (T) 0, "vec3-cross-self", "V3 a.cross(a) component " << i);
            SAME (T, e[i], (T) 0, "vec3-crosseq-self", "V3 a%=a component " << i);
        }
        c.label (L_ALIASED);
    }
    else
    {
        Vec4<T> A (a[0], a[1], a[2], a[3]), B (b[0], b[1], b[2], b[3]);
        T       d1 = A.dot (B), d2 = A ^ B;
        CHK (T, d1, dot, adot, 5, lat, "vec4-dot", "V4.dot");
        SAME (T, d1, d2, "vec4-dot-spellings", "V4 dot() vs operator^");
    }
}


template <class T> static void vec_case (vp::Ctx& c)
{
    vp::Src& s    = c.s;
    int      mode = pick_mode (s);
    int      dim  = 2 + (int) s.below (3);
    T        a[4], b[4];
    gen_arr (s, mode, a, dim);
    gen_arr (s, mode, b, dim);
    bool lat = mode == M_LATTICE;
    mode_label (c, mode);
    c.label (L_DIM2 + dim - 2);
    Distinct dd;
    for (int i = 0; i < dim; ++i)
    {
        dd.add (a[i]);
        dd.add (b[i]);
    }
    bool dist = dd.result ();
    if (dist) c.label (L_DISTINCT);
    c.nt (lat || dist || mode == M_SPARSE);
    VP_NOTE (c, tname<T> () << " dim=" << dim << " " << mode_name (mode) << " a=" << vstr (a, dim) << " b=" << vstr (b, dim));
    vec_check<T> (c, a, b, dim, lat);
}

#define C05_RULE_COMMON "operand class per case: integer lattice -8..8 (exact), sparse (signed zeros, affine / single-non-zero / masked last column), graded exponents 2^+-20, well-scaled uniform(-4,4); oracle = textbook sum of products in __float128 with k*u*sum|terms| bound, equality on lattices, spellings bit-identical; non-trivial = lattice, sparse, or all operand entries non-zero and pairwise distinct"

VP_RANDOM (vec_f, 2000000, 40000000, "Vec2/3/4<float> dot,^,cross,%,%=; " C05_RULE_COMMON) { vec_case<float> (c); }
VP_LABELS (vec_f, C05_LABELS)
VP_REQUIRE_LABELS (vec_f, "lattice", "sparse", "graded", "random", "exact_equality_demanded", "all_nonzero_distinct", "dim2", "dim3", "dim4")
VP_RANDOM (vec_d, 2000000, 40000000, "Vec2/3/4<double> dot,^,cross,%,%=; " C05_RULE_COMMON) { vec_case<double> (c); }
VP_LABELS (vec_d, C05_LABELS)
VP_REQUIRE_LABELS (vec_d, "lattice", "sparse", "graded", "random", "exact_equality_demanded", "all_nonzero_distinct", "dim2", "dim3", "dim4")

// =========================================================================================
// 2. quaternion (Hamilton) product and 4-D dot
// k = 5 (product, 3-term dot, final subtraction / product, cross subtraction, two additions)
// measured worst: quat-product-r 3.31  quat-product-v 2.85  quat-dot 3.34
template <class T> static void quat_check (vp::Ctx& c, const T* p, const T* q, bool lat)
{
    Quat<T> A (p[0], p[1], p[2], p[3]), B (q[0], q[1], q[2], q[3]);
    // Hamilton product, textbook: (r1 r2 - v1.v2 , r1 v2 + r2 v1 + v1 x v2)
    quad r1 = p[0], x1 = p[1], y1 = p[2], z1 = p[3], r2 = q[0], x2 = q[1], y2 = q[2], z2 = q[3];
    quad terms[4][4] = { { r1 * r2, -x1 * x2, -y1 * y2, -z1 * z2 }, { r1 * x2, x1 * r2, y1 * z2, -z1 * y2 }, { r1 * y2, y1 * r2, z1 * x2, -x1 * z2 }, { r1 * z2, z1 * r2, x1 * y2, -y1 * x2 } };
    Quat<T> R = A * B;
    Quat<T> E = A;
    const Quat<T>& ret = (E *= B);
    VP_REQUIRE (c, &ret == &E, "quat-muleq-returns-this", "Quat operator*= does not return *this");
    T got[4]  = { R.r, R.v.x, R.v.y, R.v.z };
    T got2[4] = { E.r, E.v.x, E.v.y, E.v.z };
    for (int i = 0; i < 4; ++i)
    {
        quad ex = 0, as = 0;
        for (int t = 0; t < 4; ++t)
        {
            ex += terms[i][t];
            as += qabs (terms[i][t]);
        }
        if (i == 0)
            CHK (T, got[i], ex, as, 5, lat, "quat-product-r", "Quat q1*q2 component r");
        else
            CHK (T, got[i], ex, as, 5, lat, "quat-product-v", "Quat q1*q2 component v[" << (i - 1) << "]");
        SAME (T, got[i], got2[i], "quat-product-spellings", "Quat operator* vs operator*= component " << i);
    }
    // aliased square
    Quat<T> S = A;
    S *= S;
    Quat<T> S2    = A * A;
    T       s1[4] = { S.r, S.v.x, S.v.y, S.v.z }, s2[4] = { S2.r, S2.v.x, S2.v.y, S2.v.z };
    for (int i = 0; i < 4; ++i)
        SAME (T, s1[i], s2[i], "quat-muleq-self", "Quat q*=q vs q*q component " << i);
    c.label (L_ALIASED);
    // 4-D dot
    {
        quad ex = 0, as = 0;
        for (int i = 0; i < 4; ++i)
        {
            ex += (quad) p[i] * (quad) q[i];
            as += qabs ((quad) p[i] * (quad) q[i]);
        }
        T d = A ^ B;
        CHK (T, d, ex, as, 5, lat, "quat-dot", "Quat q1^q2");
    }
}
template <class T> static void quat_case (vp::Ctx& c)
{
    vp::Src& s    = c.s;
    int      mode = pick_mode (s);
    T        p[4], q[4];
    gen_arr (s, mode, p, 4);
    gen_arr (s, mode, q, 4);
    bool lat = mode == M_LATTICE;
    mode_label (c, mode);
    Distinct dd;
    for (int i = 0; i < 4; ++i)
    {
        dd.add (p[i]);
        dd.add (q[i]);
    }
    bool dist = dd.result ();
    if (dist) c.label (L_DISTINCT);
    c.nt (lat || dist || mode == M_SPARSE);
    VP_NOTE (c, tname<T> () << " " << mode_name (mode) << " q1=(r,x,y,z)=" << vstr (p, 4) << " q2=" << vstr (q, 4));
    quat_check<T> (c, p, q, lat);
}
VP_RANDOM (quat_f, 1500000, 30000000, "Quat<float> operator*, *=, q*=q, ^; " C05_RULE_COMMON) { quat_case<float> (c); }
VP_LABELS (quat_f, C05_LABELS)
VP_REQUIRE_LABELS (quat_f, "lattice", "sparse", "graded", "random", "exact_equality_demanded", "all_nonzero_distinct")
VP_RANDOM (quat_d, 1500000, 30000000, "Quat<double> operator*, *=, q*=q, ^; " C05_RULE_COMMON) { quat_case<double> (c); }
VP_LABELS (quat_d, C05_LABELS)
VP_REQUIRE_LABELS (quat_d, "lattice", "sparse", "graded", "random", "exact_equality_demanded", "all_nonzero_distinct")

// =========================================================================================
// 3. matrix x matrix
// k = N+1.  measured worst: mat22 1.96  mat33 2.80  mat44 3.55
template <class T, int N> static void matmul_check (vp::Ctx& c, const typename TY<T, N>::M& A, const typename TY<T, N>::M& B, bool lat)
{
    typedef typename TY<T, N>::M MT;
    QM<N> qa = QM<N>::from (A), qb = QM<N>::from (B);
    QM<N> ex = qa * qb, as = absmul (qa, qb);
    MT    P  = A * B;
    const char* key = N == 2 ? "mat22-multiply/slot" : N == 3 ? "mat33-multiply/slot" : "mat44-multiply/slot";
    for (int i = 0; i < N; ++i)
        for (int j = 0; j < N; ++j)
            CHK (T, P[i][j], ex[i][j], as[i][j], N + 1, lat, key, "Matrix" << N << N << " (A*B)[" << i << "][" << j << "]");
    const char* skey = N == 2 ? "mat22-multiply-spellings" : N == 3 ? "mat33-multiply-spellings" : "mat44-multiply-spellings";
    {
        MT        C = A;
        const MT& r = (C *= B);
        VP_REQUIRE (c, &r == &C, skey, "Matrix" << N << N << " operator*= does not return *this");
        for (int i = 0; i < N; ++i)
            for (int j = 0; j < N; ++j)
                SAME (T, P[i][j], C[i][j], skey, "Matrix" << N << N << " operator* vs operator*= slot [" << i << "][" << j << "]");
        // aliased square
        MT D = A;
        D *= D;
        MT D2 = A * A;
        for (int i = 0; i < N; ++i)
            for (int j = 0; j < N; ++j)
                SAME (T, D[i][j], D2[i][j], skey, "Matrix" << N << N << " A*=A vs A*A slot [" << i << "][" << j << "]");
        c.label (L_ALIASED);
    }
}
template <class T, int N> static void matmul_dim (vp::Ctx& c, int mode, typename TY<T, N>::M& A, typename TY<T, N>::M& B)
{
    typedef typename TY<T, N>::M MT;
    gen_mat<T, N> (c, mode, A);
    gen_mat<T, N> (c, mode, B);
    bool     lat = mode == M_LATTICE;
    Distinct da, db;
    for (int i = 0; i < N; ++i)
        for (int j = 0; j < N; ++j)
        {
            da.add (A[i][j]);
            db.add (B[i][j]);
        }
    bool dist = da.result () && db.result ();
    if (dist) c.label (L_DISTINCT);
    c.nt (lat || dist || mode == M_SPARSE);
    VP_NOTE (c, tname<T> () << " N=" << N << " " << mode_name (mode) << " A=" << mstr (A, N) << " B=" << mstr (B, N));
    matmul_check<T, N> (c, A, B, lat);
}
template <class T> static void matmul44_static (vp::Ctx& c, const Matrix44<T>& A, const Matrix44<T>& B)
{
    Matrix44<T> P  = A * B;
    Matrix44<T> S2 = Matrix44<T>::multiply (A, B);
    Matrix44<T> S3 (T (7)); // garbage to be overwritten
    Matrix44<T>::multiply (A, B, S3);
    // NOT checked: multiply(a,b,c) with c aliasing a or b - the header documents "&a != &c and &b != &c" as a
    // precondition, so an implementation that writes straight into c is allowed (operator*= has no such
    // precondition: A *= A is checked above).
    for (int i = 0; i < 4; ++i)
        for (int j = 0; j < 4; ++j)
        {
            SAME (T, P[i][j], S2[i][j], "mat44-multiply-spellings", "Matrix44 operator* vs static multiply(a,b) slot [" << i << "][" << j << "]");
            SAME (T, P[i][j], S3[i][j], "mat44-multiply-spellings", "Matrix44 operator* vs static multiply(a,b,c) slot [" << i << "][" << j << "]");
        }
}
template <class T> static void matmul_case (vp::Ctx& c)
{
    vp::Src& s    = c.s;
    int      mode = pick_mode (s);
    int      dim  = 2 + (int) s.below (4); // 4x4 twice as often (64 unrolled terms)
    if (dim > 4) dim = 4;
    mode_label (c, mode);
    c.label (L_DIM2 + dim - 2);
    if (dim == 2)
    {
        Matrix22<T> A, B;
        matmul_dim<T, 2> (c, mode, A, B);
    }
    else if (dim == 3)
    {
        Matrix33<T> A, B;
        matmul_dim<T, 3> (c, mode, A, B);
    }
    else
    {
        Matrix44<T> A, B;
        matmul_dim<T, 4> (c, mode, A, B);
        matmul44_static<T> (c, A, B);
    }
}
VP_RANDOM (matmul_f, 1500000, 30000000, "Matrix22/33/44<float> operator*, *=, A*=A, Matrix44::multiply 2- and 3-argument (distinct output object, as documented); every slot; " C05_RULE_COMMON) { matmul_case<float> (c); }
VP_LABELS (matmul_f, C05_LABELS)
VP_REQUIRE_LABELS (matmul_f, "lattice", "sparse", "graded", "random", "exact_equality_demanded", "all_nonzero_distinct", "dim2", "dim3", "dim4", "affine_last_column")
VP_RANDOM (matmul_d, 1500000, 30000000, "Matrix22/33/44<double> operator*, *=, A*=A, Matrix44::multiply 2- and 3-argument (distinct output object, as documented); every slot; " C05_RULE_COMMON) { matmul_case<double> (c); }
VP_LABELS (matmul_d, C05_LABELS)
VP_REQUIRE_LABELS (matmul_d, "lattice", "sparse", "graded", "random", "exact_equality_demanded", "all_nonzero_distinct", "dim2", "dim3", "dim4", "affine_last_column")

// =========================================================================================
// 4. vector x matrix (row vector on the left)
// plain:        out_j = sum_i v_i m[i][j]                       k = n+1
// homogeneous:  (v,1).M, divided by the last coordinate w;  |w| >= 2^-10 * sum|terms of w| by construction
//   bound: (k u Sa + |a/w| k u Sw) / (|w| - k u Sw) + 1.001 u |a/w|      (first-order propagation + final division)
// measured worst: plain (u*sum units) v2m22 1.94  v3m33 2.74  v4m44 3.45  multDirMatrix 1.96 / 2.73;
//                 homogeneous err/bound 0.98 (lattice cases: the bound is then the half-ulp of the final division)
template <class S, int NV, class MT> static void vm_exact (const S* v, const MT& m, int ncols, bool homog, quad* out, quad* as)
{
    for (int j = 0; j < ncols; ++j)
    {
        quad e = 0, a = 0;
        for (int i = 0; i < NV; ++i)
        {
            quad t = (quad) v[i] * (quad) m[i][j];
            e += t;
            a += qabs (t);
        }
        if (homog)
        {
            e += (quad) m[NV][j];
            a += qabs ((quad) m[NV][j]);
        }
        out[j] = e;
        as[j]  = a;
    }
}
// force the homogeneous coordinate away from zero (construction, not rejection)
template <class S, class T, int NV, class MT> static void fix_w (vp::Ctx& c, const S* v, MT& m, bool lat)
{
    quad wo = 0, so = 0;
    for (int i = 0; i < NV; ++i)
    {
        quad t = (quad) v[i] * (quad) m[i][NV];
        wo += t;
        so += qabs (t);
    }
    quad w = wo + (quad) m[NV][NV], sw = so + qabs ((quad) m[NV][NV]);
    if (sw > 0 && qabs (w) >= sw / 1024) return;
    c.label (L_W_FIXED);
    if (lat || so == 0)
    {
        m[NV][NV] = (T) (wo + 1 != 0 ? 1 : 2);
        if (so == 0) m[NV][NV] = (T) (c.s.coin () ? 1 : -2);
        return;
    }
    double f  = 1.25 + c.s.unit ();
    T      nv = (T) ((double) so * f);
    if (c.s.coin ()) nv = -nv;
    m[NV][NV] = nv;
}
template <class S> static inline quad homog_tol (quad a, quad sa, quad w, quad sw, int k, bool lat)
{
    quad u  = unit_roundoff<S> ();
    quad ea = lat && sa < two_mant<S> () ? (quad) 0 : (quad) k * u * sa + (quad) k * (quad) std::numeric_limits<S>::denorm_min ();
    quad ew = lat && sw < two_mant<S> () ? (quad) 0 : (quad) k * u * sw;
    quad q  = qabs (a / w);
    quad t  = (ea + q * ew) / (qabs (w) - ew);
    return t + (quad) 1.001 * u * (q + t) + (quad) std::numeric_limits<S>::denorm_min ();
}
#define CHKH(S, got, a, sa, w, sw, k, lat, key, what)                                                                \
    do                                                                                                               \
    {                                                                                                                \
        quad ex_  = (a) / (w);                                                                                       \
        quad tol_ = homog_tol<S> ((a), (sa), (w), (sw), (k), (lat));                                                 \
        quad d_   = qabs ((quad) (got) - ex_);                                                                       \
        MEAS (key, d_ / tol_);                                                                                       \
        if (!(d_ <= tol_)) fail_value (c, key, tname<S> (), WHAT_ (what << " [homogeneous: (v,1).M / w, w=" << qstr (w) << "]"), (double) (got), ex_, d_, tol_, (sa)); \
    } while (0)

// checks on given operands (no draws); shared with the structured sub-checks of section 7
template <class S, class T> static void vm22_check (vp::Ctx& c, const S* v, const Matrix22<T>& m, bool lat)
{
    quad ex[4], as[4];
    vm_exact<S, 2> (v, m, 2, false, ex, as);
    Vec2<S>        V (v[0], v[1]);
    Vec2<S>        r1 = V * m, r2 = V, r3 (S (9), S (9)), r4 = V;
    const Vec2<S>& rr = (r2 *= m);
    VP_REQUIRE (c, &rr == &r2, "v2m22-spellings", "V2 *= M22 does not return the vector");
    m.multDirMatrix (V, r3);
    m.multDirMatrix (r4, r4);
    for (int j = 0; j < 2; ++j)
    {
        CHK (S, r1[j], ex[j], as[j], 3, lat, "v2m22/slot", "V2*M22 component " << j);
        SAME (S, r1[j], r2[j], "v2m22-spellings", "V2*M22 vs V2*=M22 component " << j);
        SAME (S, r1[j], r3[j], "v2m22-spellings", "V2*M22 vs M22.multDirMatrix component " << j);
        SAME (S, r1[j], r4[j], "v2m22-aliased", "V2*M22 vs M22.multDirMatrix(v,v) component " << j);
    }
}
template <class S, class T> static void vm33h_check (vp::Ctx& c, const S* v, const Matrix33<T>& m, bool lat)
{
    quad ex[4], as[4];
    vm_exact<S, 2> (v, m, 3, true, ex, as);
    Vec2<S>        V (v[0], v[1]);
    Vec2<S>        r1 = V * m, r2 = V, r3 (S (9), S (9)), r4 = V;
    const Vec2<S>& rr = (r2 *= m);
    VP_REQUIRE (c, &rr == &r2, "v2m33-spellings", "V2 *= M33 does not return the vector");
    m.multVecMatrix (V, r3);
    m.multVecMatrix (r4, r4);
    for (int j = 0; j < 2; ++j)
    {
        CHKH (S, r1[j], ex[j], as[j], ex[2], as[2], 4, lat, "v2m33-homogeneous/slot", "V2*M33 component " << j);
        SAME (S, r1[j], r2[j], "v2m33-spellings", "V2*M33 vs V2*=M33 component " << j);
        SAME (S, r1[j], r3[j], "v2m33-spellings", "V2*M33 vs M33.multVecMatrix component " << j);
        SAME (S, r1[j], r4[j], "v2m33-aliased", "V2*M33 vs M33.multVecMatrix(v,v) component " << j);
    }
    // direction transform: upper-left 2x2 only, translation ignored
    quad dx[2], da[2];
    vm_exact<S, 2> (v, m, 2, false, dx, da);
    Vec2<S> d1 (S (9), S (9)), d2 = V;
    m.multDirMatrix (V, d1);
    m.multDirMatrix (d2, d2);
    Matrix22<T> ul (m[0][0], m[0][1], m[1][0], m[1][1]);
    Vec2<S>     d3 = V * ul;
    for (int j = 0; j < 2; ++j)
    {
        CHK (S, d1[j], dx[j], da[j], 3, lat, "m33-multDirMatrix/slot", "M33.multDirMatrix component " << j);
        SAME (S, d1[j], d2[j], "m33-multDirMatrix-aliased", "M33.multDirMatrix(v,v) component " << j);
        SAME (S, d1[j], d3[j], "m33-multDirMatrix-vs-2x2", "M33.multDirMatrix vs V2 * upper-left M22 component " << j);
    }
}
template <class S, class T> static void vm33p_check (vp::Ctx& c, const S* v, const Matrix33<T>& m, bool lat)
{
    quad ex[4], as[4];
    vm_exact<S, 3> (v, m, 3, false, ex, as);
    Vec3<S>        V (v[0], v[1], v[2]);
    Vec3<S>        r1 = V * m, r2 = V;
    const Vec3<S>& rr = (r2 *= m);
    VP_REQUIRE (c, &rr == &r2, "v3m33-spellings", "V3 *= M33 does not return the vector");
    for (int j = 0; j < 3; ++j)
    {
        CHK (S, r1[j], ex[j], as[j], 4, lat, "v3m33-plain/slot", "V3*M33 component " << j);
        SAME (S, r1[j], r2[j], "v3m33-spellings", "V3*M33 vs V3*=M33 component " << j);
    }
}
template <class S, class T> static void vm44h_check (vp::Ctx& c, const S* v, const Matrix44<T>& m, bool lat)
{
    quad ex[4], as[4];
    vm_exact<S, 3> (v, m, 4, true, ex, as);
    Vec3<S>        V (v[0], v[1], v[2]);
    Vec3<S>        r1 = V * m, r2 = V, r3 (S (9), S (9), S (9)), r4 = V;
    const Vec3<S>& rr = (r2 *= m);
    VP_REQUIRE (c, &rr == &r2, "v3m44-spellings", "V3 *= M44 does not return the vector");
    m.multVecMatrix (V, r3);
    m.multVecMatrix (r4, r4);
    for (int j = 0; j < 3; ++j)
    {
        CHKH (S, r1[j], ex[j], as[j], ex[3], as[3], 5, lat, "v3m44-homogeneous/slot", "V3*M44 component " << j);
        SAME (S, r1[j], r2[j], "v3m44-spellings", "V3*M44 vs V3*=M44 component " << j);
        SAME (S, r1[j], r3[j], "v3m44-spellings", "V3*M44 vs M44.multVecMatrix component " << j);
        SAME (S, r1[j], r4[j], "v3m44-aliased", "V3*M44 vs M44.multVecMatrix(v,v) component " << j);
    }
    quad dx[3], da[3];
    vm_exact<S, 3> (v, m, 3, false, dx, da);
    Vec3<S> d1 (S (9), S (9), S (9)), d2 = V;
    m.multDirMatrix (V, d1);
    m.multDirMatrix (d2, d2);
    Matrix33<T> ul (m[0][0], m[0][1], m[0][2], m[1][0], m[1][1], m[1][2], m[2][0], m[2][1], m[2][2]);
    Vec3<S>     d3 = V * ul;
    for (int j = 0; j < 3; ++j)
    {
        CHK (S, d1[j], dx[j], da[j], 4, lat, "m44-multDirMatrix/slot", "M44.multDirMatrix component " << j);
        SAME (S, d1[j], d2[j], "m44-multDirMatrix-aliased", "M44.multDirMatrix(v,v) component " << j);
        SAME (S, d1[j], d3[j], "m44-multDirMatrix-vs-3x3", "M44.multDirMatrix vs V3 * upper-left M33 component " << j);
    }
}
template <class S, class T> static void vm44p_check (vp::Ctx& c, const S* v, const Matrix44<T>& m, bool lat)
{
    quad ex[4], as[4];
    vm_exact<S, 4> (v, m, 4, false, ex, as);
    Vec4<S>        V (v[0], v[1], v[2], v[3]);
    Vec4<S>        r1 = V * m, r2 = V;
    const Vec4<S>& rr = (r2 *= m);
    VP_REQUIRE (c, &rr == &r2, "v4m44-spellings", "V4 *= M44 does not return the vector");
    for (int j = 0; j < 4; ++j)
    {
        CHK (S, r1[j], ex[j], as[j], 5, lat, "v4m44-plain/slot", "V4*M44 component " << j);
        SAME (S, r1[j], r2[j], "v4m44-spellings", "V4*M44 vs V4*=M44 component " << j);
    }
}

template <class S, class T> static void vecmat_case (vp::Ctx& c)
{
    vp::Src& s     = c.s;
    int      mode  = pick_mode (s);
    int      combo = (int) s.below (5); // 0 V2xM22, 1 V2xM33, 2 V3xM33, 3 V3xM44, 4 V4xM44
    bool     lat   = mode == M_LATTICE;
    mode_label (c, mode);
    S        v[4];
    Distinct dd;
    switch (combo)
    {
        case 0:
        {
            c.label (L_DIM2);
            Matrix22<T> m;
            gen_mat<T, 2> (c, mode, m);
            gen_arr (s, mode, v, 2);
            VP_NOTE (c, "V2<" << tname<S> () << "> x M22<" << tname<T> () << "> " << mode_name (mode) << " v=" << vstr (v, 2) << " m=" << mstr (m, 2));
            for (int i = 0; i < 2; ++i)
            {
                dd.add (v[i]);
                for (int j = 0; j < 2; ++j)
                    dd.add (m[i][j]);
            }
            vm22_check<S, T> (c, v, m, lat);
            break;
        }
        case 1:
        {
            c.label (L_DIM3);
            Matrix33<T> m;
            gen_mat<T, 3> (c, mode, m);
            gen_arr (s, mode, v, 2);
            fix_w<S, T, 2> (c, v, m, lat);
            VP_NOTE (c, "V2<" << tname<S> () << "> x M33<" << tname<T> () << "> " << mode_name (mode) << " v=" << vstr (v, 2) << " m=" << mstr (m, 3));
            for (int i = 0; i < 3; ++i)
            {
                if (i < 2) dd.add (v[i]);
                for (int j = 0; j < 3; ++j)
                    dd.add (m[i][j]);
            }
            vm33h_check<S, T> (c, v, m, lat);
            break;
        }
        case 2:
        {
            c.label (L_DIM3);
            Matrix33<T> m;
            gen_mat<T, 3> (c, mode, m);
            gen_arr (s, mode, v, 3);
            VP_NOTE (c, "V3<" << tname<S> () << "> x M33<" << tname<T> () << "> " << mode_name (mode) << " v=" << vstr (v, 3) << " m=" << mstr (m, 3));
            for (int i = 0; i < 3; ++i)
            {
                dd.add (v[i]);
                for (int j = 0; j < 3; ++j)
                    dd.add (m[i][j]);
            }
            vm33p_check<S, T> (c, v, m, lat);
            break;
        }
        case 3:
        {
            c.label (L_DIM4);
            Matrix44<T> m;
            gen_mat<T, 4> (c, mode, m);
            gen_arr (s, mode, v, 3);
            fix_w<S, T, 3> (c, v, m, lat);
            VP_NOTE (c, "V3<" << tname<S> () << "> x M44<" << tname<T> () << "> " << mode_name (mode) << " v=" << vstr (v, 3) << " m=" << mstr (m, 4));
            for (int i = 0; i < 4; ++i)
            {
                if (i < 3) dd.add (v[i]);
                for (int j = 0; j < 4; ++j)
                    dd.add (m[i][j]);
            }
            vm44h_check<S, T> (c, v, m, lat);
            break;
        }
        default:
        {
            c.label (L_DIM4);
            Matrix44<T> m;
            gen_mat<T, 4> (c, mode, m);
            gen_arr (s, mode, v, 4);
            VP_NOTE (c, "V4<" << tname<S> () << "> x M44<" << tname<T> () << "> " << mode_name (mode) << " v=" << vstr (v, 4) << " m=" << mstr (m, 4));
            for (int i = 0; i < 4; ++i)
            {
                dd.add (v[i]);
                for (int j = 0; j < 4; ++j)
                    dd.add (m[i][j]);
            }
            vm44p_check<S, T> (c, v, m, lat);
            break;
        }
    }
    bool dist = dd.result ();
    if (dist) c.label (L_DISTINCT);
    c.nt (lat || dist || mode == M_SPARSE);
}
#define C05_VM_RULE "V2xM22 (*,*=,multDirMatrix), V2xM33 (*,*=,multVecMatrix,multDirMatrix), V3xM33 (*,*=), V3xM44 (*,*=,multVecMatrix,multDirMatrix), V4xM44 (*,*=), src==dst aliasing; homogeneous forms vs (v,1).M / w with |w| >= 2^-10 sum|terms| by construction; "
VP_RANDOM (vecmat_f, 2000000, 40000000, "float vector x float matrix: " C05_VM_RULE C05_RULE_COMMON) { vecmat_case<float, float> (c); }
VP_LABELS (vecmat_f, C05_LABELS)
VP_REQUIRE_LABELS (vecmat_f, "lattice", "sparse", "graded", "random", "exact_equality_demanded", "all_nonzero_distinct", "w_forced_nonzero", "affine_last_column")
VP_RANDOM (vecmat_d, 2000000, 40000000, "double vector x double matrix: " C05_VM_RULE C05_RULE_COMMON) { vecmat_case<double, double> (c); }
VP_LABELS (vecmat_d, C05_LABELS)
VP_REQUIRE_LABELS (vecmat_d, "lattice", "sparse", "graded", "random", "exact_equality_demanded", "all_nonzero_distinct", "w_forced_nonzero", "affine_last_column")
VP_RANDOM (vecmat_fd, 500000, 10000000, "float vector x double matrix (mixed base types; result rounded to float): " C05_VM_RULE C05_RULE_COMMON) { vecmat_case<float, double> (c); }
VP_LABELS (vecmat_fd, C05_LABELS)
VP_RANDOM (vecmat_df, 500000, 10000000, "double vector x float matrix (mixed base types): " C05_VM_RULE C05_RULE_COMMON) { vecmat_case<double, float> (c); }
VP_LABELS (vecmat_df, C05_LABELS)
VP_FUZZABLE (vecmat_f)

// =========================================================================================
// 5. outerProduct, transpose, trace
// outerProduct slots are single correctly-rounded products -> bit equality with a[i]*b[j].
// transpose is data movement -> bit equality on arbitrary bit patterns (NaN, inf, -0 included).
// trace: sum of N values, k = N.   measured worst: trace 1.00 / 1.86 / 2.52 (N = 2/3/4)
template <class T, int N> static void transpose_trace_dim (vp::Ctx& c, int mode)
{
    typedef typename TY<T, N>::M MT;
    vp::Src&                     s = c.s;
    // transpose on arbitrary patterns
    MT   A;
    bool anybits = s.coin ();
    for (int i = 0; i < N; ++i)
        for (int j = 0; j < N; ++j)
            A[i][j] = anybits ? gen::fclass<T> (s, true) : draw<T> (s, mode);
    VP_NOTE (c, "transpose/trace N=" << N << " A=" << mstr (A, N));
    MT        B = A.transposed ();
    MT        C = A;
    const MT& r = C.transpose ();
    const char* tkey = N == 2 ? "mat22-transpose" : N == 3 ? "mat33-transpose" : "mat44-transpose";
    VP_REQUIRE (c, &r == &C, tkey, "Matrix" << N << N << " transpose() does not return *this");
    MT D = B;
    D.transpose ();
    for (int i = 0; i < N; ++i)
        for (int j = 0; j < N; ++j)
        {
            SAME (T, B[i][j], A[j][i], tkey, "Matrix" << N << N << " transposed()[" << i << "][" << j << "] vs A[" << j << "][" << i << "]");
            SAME (T, C[i][j], A[j][i], tkey, "Matrix" << N << N << " transpose() in place [" << i << "][" << j << "]");
            SAME (T, D[i][j], A[i][j], tkey, "Matrix" << N << N << " transpose twice [" << i << "][" << j << "]");
        }
    // trace on finite operands
    MT E;
    gen_mat<T, N> (c, mode, E);
    quad ex = 0, as = 0;
    for (int i = 0; i < N; ++i)
    {
        ex += (quad) E[i][i];
        as += qabs ((quad) E[i][i]);
    }
    VP_NOTE (c, "E=" << mstr (E, N));
    const char* key = N == 2 ? "mat22-trace" : N == 3 ? "mat33-trace" : "mat44-trace";
    T           tr  = E.trace ();
    CHK (T, tr, ex, as, N, mode == M_LATTICE, key, "Matrix" << N << N << ".trace()");
}
template <class T> static void outer_check (vp::Ctx& c, const T* a, const T* b)
{
    {
        Vec3<T>     A (a[0], a[1], a[2]), B (b[0], b[1], b[2]);
        Matrix33<T> o = outerProduct (A, B);
        for (int i = 0; i < 3; ++i)
            for (int j = 0; j < 3; ++j)
            {
                T want = a[i] * b[j];
                VP_REQUIRE (c, same<T> (o[i][j], want), "outer33/slot", tname<T> () << " outerProduct(V3,V3)[" << i << "][" << j << "] = " << o[i][j] << " but a[" << i << "]*b[" << j << "] = " << want);
            }
    }
    {
        Vec4<T>     A (a[0], a[1], a[2], a[3]), B (b[0], b[1], b[2], b[3]);
        Matrix44<T> o = outerProduct (A, B);
        // The unchanged tree computes slots [1][3] and [2][3] as a.x*b.w (DESIGN.md section 6 item 2).
        // Those two slots are examined last and get their own key when the value is exactly a[0]*b[3].
        for (int pass = 0; pass < 2; ++pass)
            for (int i = 0; i < 4; ++i)
                for (int j = 0; j < 4; ++j)
                {
                    bool suspect = j == 3 && (i == 1 || i == 2);
                    if (suspect != (pass == 1)) continue;
                    T want = a[i] * b[j];
                    if (same<T> (o[i][j], want)) continue;
                    if (suspect && same<T> (o[i][j], a[0] * b[3]))
                        VP_FAIL (c, "outer44-rows12-col3-use-ax", tname<T> () << " outerProduct(V4,V4)[" << i << "][3] = " << o[i][j] << " = a.x*b.w, but a[" << i << "]*b[3] = " << want);
                    VP_FAIL (c, "outer44/slot", tname<T> () << " outerProduct(V4,V4)[" << i << "][" << j << "] = " << o[i][j] << " but a[" << i << "]*b[" << j << "] = " << want);
                }
    }
}
template <class T> static void outer_case (vp::Ctx& c)
{
    vp::Src& s    = c.s;
    int      mode = pick_mode (s);
    mode_label (c, mode);
    int dim = 2 + (int) s.below (3);
    c.label (L_DIM2 + dim - 2);
    if (dim == 2)
        transpose_trace_dim<T, 2> (c, mode);
    else if (dim == 3)
        transpose_trace_dim<T, 3> (c, mode);
    else
        transpose_trace_dim<T, 4> (c, mode);
    T a[4], b[4];
    gen_arr (s, mode, a, 4);
    gen_arr (s, mode, b, 4);
    Distinct dd;
    for (int i = 0; i < 4; ++i)
    {
        dd.add (a[i]);
        dd.add (b[i]);
    }
    bool dist = dd.result ();
    if (dist) c.label (L_DISTINCT);
    c.nt (mode == M_LATTICE || dist || mode == M_SPARSE);
    VP_NOTE (c, tname<T> () << " outerProduct a=" << vstr (a, 4) << " b=" << vstr (b, 4));
    outer_check<T> (c, a, b);
}
VP_RANDOM (outer_f, 1000000, 20000000, "outerProduct(V3,V3), outerProduct(V4,V4) every slot == a[i]*b[j] bitwise; transposed/transpose (arbitrary bit patterns incl. NaN/inf/-0, bitwise); trace; float; " C05_RULE_COMMON) { outer_case<float> (c); }
VP_LABELS (outer_f, C05_LABELS)
VP_REQUIRE_LABELS (outer_f, "lattice", "sparse", "graded", "random", "all_nonzero_distinct", "dim2", "dim3", "dim4")
VP_RANDOM (outer_d, 1000000, 20000000, "outerProduct(V3,V3), outerProduct(V4,V4) every slot == a[i]*b[j] bitwise; transposed/transpose (arbitrary bit patterns incl. NaN/inf/-0, bitwise); trace; double; " C05_RULE_COMMON) { outer_case<double> (c); }
VP_LABELS (outer_d, C05_LABELS)
VP_REQUIRE_LABELS (outer_d, "lattice", "sparse", "graded", "random", "all_nonzero_distinct", "dim2", "dim3", "dim4")

// =========================================================================================
// 6. determinant, minorOf, fastMinor, cofactor expansion, det(A^T), det(A B)
// k (roundings on the longest path + 1): det2 / 2x2 minors 3;  det3 / 3x3 minors 6;  det4 10.
// cofactor expansion with Imath's minors, summed exactly: bound = sum_c |a_rc| * tol(minor_rc).
// det(A*B) (product and determinant both by Imath) vs det(A)det(B):
//     (N(N+1) + k_det) * u * perm(|A||B|)   (entry errors of the product propagated through the multilinear form)
// measured worst: det22 1.95  det33 3.87  det44 5.03  minorOf33 1.96  minorOf44 4.11  fastMinor33 1.91  fastMinor44 3.82
//                 det(A^T) 1.95 / 3.65 / 4.86;  det(AB) 4.11 / 5.90 / 9.25 (N = 2/3/4) in units of u*perm(|A||B|)
// graded exponents of the determinant family: det(A*B) is a product of 8 entries times 4*4*24 terms ->
// |e| <= 12 keeps it below 2^127 (float) and every term above the subnormal range
#define DET_GE(T) (sizeof (T) == 4 ? 12 : 20)
template <class T, int N> struct DetK;
template <class T> struct DetK<T, 2>
{
    static constexpr int k = 3;
};
template <class T> struct DetK<T, 3>
{
    static constexpr int k = 6;
};
template <class T> struct DetK<T, 4>
{
    static constexpr int k = 10;
};

template <int N> static inline QM<N> qabsm (const QM<N>& m)
{
    QM<N> r;
    for (int i = 0; i < N; ++i)
        for (int j = 0; j < N; ++j)
            r.a[i][j] = qabs (m.a[i][j]);
    return r;
}
// exact minor (delete row r, column c) of an NxN quad matrix and its sum of |permutation products|
template <int N> static inline quad qminor (const QM<N>& m, int r, int c, quad* as)
{
    QM<N - 1> s;
    for (int i = 0, si = 0; i < N; ++i)
    {
        if (i == r) continue;
        for (int j = 0, sj = 0; j < N; ++j)
        {
            if (j == c) continue;
            s.a[si][sj] = m.a[i][j];
            ++sj;
        }
        ++si;
    }
    return det (s, as);
}

template <class T, class MT> static void det_labels44 (vp::Ctx& c, const MT& A)
{
    int  nskip = 0;
    bool neg   = false;
    for (int i = 0; i < 4; ++i)
        if (A[i][3] == 0)
        {
            c.label (L_SKIP0 + i);
            ++nskip;
            if (std::signbit (A[i][3])) neg = true;
        }
    if (nskip == 4) c.label (L_SKIPALL);
    if (neg) c.label (L_NEGZERO_SKIP);
    if (A[0][3] == 0 && A[1][3] == 0 && A[2][3] == 0 && A[3][3] == 1) c.label (L_AFFINE);
}

template <class T, int N> static void det_check (vp::Ctx& c, const typename TY<T, N>::M& A, const typename TY<T, N>::M& B, bool lat, bool with_product = true)
{
    typedef typename TY<T, N>::M MT;
    QM<N> qa = QM<N>::from (A), qb = QM<N>::from (B);
    quad  sa, sb;
    quad  detA = det (qa, &sa), detB = det (qb, &sb);
    const int kd = DetK<T, N>::k;
    const char* dkey = N == 2 ? "det22" : N == 3 ? "det33" : "det44";
    T           dA   = A.determinant ();
    CHK (T, dA, detA, sa, kd, lat, dkey, "Matrix" << N << N << ".determinant()");
    // det(A^T) = det(A)
    {
        T dT = A.transposed ().determinant ();
        CHK (T, dT, detA, sa, kd, lat, N == 2 ? "det22-transpose" : N == 3 ? "det33-transpose" : "det44-transpose", "Matrix" << N << N << " det(transposed A)");
    }
    // det(A B) = det(A) det(B)
    if (with_product)
    {
        MT    P    = A * B;
        T     dP   = P.determinant ();
        QM<N> pabs = absmul (qa, qb);
        quad  perm;
        det (pabs, &perm);
        // (equality is demanded only when the entries of the product are exact integers too; always so for the -8..8 lattice)
        CHK (T, dP, detA * detB, perm, N * (N + 1) + kd, lat && max_abs (pabs) < two_mant<T> (), N == 2 ? "det22-product" : N == 3 ? "det33-product" : "det44-product", "Matrix" << N << N << " det(A*B) vs det(A)det(B)");
    }
}
template <class T, int N> static void det_dim (vp::Ctx& c, int mode)
{
    typedef typename TY<T, N>::M MT;
    MT                           A, B;
    gen_mat<T, N> (c, mode, A, DET_GE (T));
    gen_mat<T, N> (c, mode, B, DET_GE (T));
    bool     lat = mode == M_LATTICE;
    Distinct da;
    for (int i = 0; i < N; ++i)
        for (int j = 0; j < N; ++j)
            da.add (A[i][j]);
    bool dist = da.result ();
    if (dist) c.label (L_DISTINCT);
    bool skip = false;
    if (N == 4)
        for (int i = 0; i < 4; ++i)
            if (A[i][N - 1] == 0) skip = true;
    c.nt (lat || dist || (mode == M_SPARSE && (N < 4 || skip)));
    VP_NOTE (c, tname<T> () << " N=" << N << " " << mode_name (mode) << " A=" << mstr (A, N) << " B=" << mstr (B, N));
    det_check<T, N> (c, A, B, lat);
}

template <class T> static void minors33 (vp::Ctx& c, int mode, const Matrix33<T>& A)
{
    vp::Src& s   = c.s;
    bool     lat = mode == M_LATTICE;
    QM<3>    qa  = QM<3>::from (A);
    quad     sa;
    quad     detA = det (qa, &sa);
    T        dA   = A.determinant ();
    quad     mn[3][3], mt[3][3];
    for (int r = 0; r < 3; ++r)
        for (int cc = 0; cc < 3; ++cc)
        {
            quad as;
            quad ex = qminor<3> (qa, r, cc, &as);
            T    g  = A.minorOf (r, cc);
            CHK (T, g, ex, as, 3, lat, "minorOf33", "Matrix33.minorOf(" << r << "," << cc << ")");
            mn[r][cc] = (quad) g;
            mt[r][cc] = tol_of<T> (as, 3, lat);
        }
    // fastMinor with arbitrary (also repeated / unsorted) row and column selections
    for (int rep = 0; rep < 3; ++rep)
    {
        int  r0 = (int) s.below (3), r1 = (int) s.below (3), c0 = (int) s.below (3), c1 = (int) s.below (3);
        quad p = qa[r0][c0] * qa[r1][c1], q = qa[r0][c1] * qa[r1][c0];
        T    g = A.fastMinor (r0, r1, c0, c1);
        CHK (T, g, p - q, qabs (p) + qabs (q), 3, lat, "fastMinor33", "Matrix33.fastMinor(" << r0 << "," << r1 << "," << c0 << "," << c1 << ")");
    }
    // cofactor expansion along every row and every column reproduces the determinant
    for (int line = 0; line < 6; ++line)
    {
        quad e = 0, tl = 0;
        for (int k = 0; k < 3; ++k)
        {
            int  r = line < 3 ? line : k, cc = line < 3 ? k : line - 3;
            quad t = qa[r][cc] * mn[r][cc];
            e += ((r + cc) & 1) ? -t : t;
            tl += qabs (qa[r][cc]) * mt[r][cc];
        }
        quad d = qabs (e - detA);
        VP_REQUIRE (c, d <= tl, "cofactor-expansion33", tname<T> () << " cofactor expansion by minorOf along " << (line < 3 ? "row " : "column ") << (line % 3) << " = " << qstr (e) << " but det = " << qstr (detA) << " (tol " << qstr (tl) << ")");
        quad d2 = qabs (e - (quad) dA), tl2 = tl + tol_of<T> (sa, 6, lat);
        VP_REQUIRE (c, d2 <= tl2, "cofactor-expansion33-vs-determinant", tname<T> () << " cofactor expansion along " << (line < 3 ? "row " : "column ") << (line % 3) << " = " << qstr (e) << " but determinant() = " << dA << " (tol " << qstr (tl2) << ")");
    }
}
template <class T> static void minors44 (vp::Ctx& c, int mode, const Matrix44<T>& A)
{
    vp::Src& s   = c.s;
    bool     lat = mode == M_LATTICE;
    QM<4>    qa  = QM<4>::from (A);
    quad     sa;
    quad     detA = det (qa, &sa);
    T        dA   = A.determinant ();
    quad     mn[4][4], mt[4][4];
    for (int r = 0; r < 4; ++r)
        for (int cc = 0; cc < 4; ++cc)
        {
            quad as;
            quad ex = qminor<4> (qa, r, cc, &as);
            T    g  = A.minorOf (r, cc);
            CHK (T, g, ex, as, 6, lat, "minorOf44", "Matrix44.minorOf(" << r << "," << cc << ")");
            mn[r][cc] = (quad) g;
            mt[r][cc] = tol_of<T> (as, 6, lat);
        }
    for (int rep = 0; rep < 3; ++rep)
    {
        int r[3], cl[3];
        if (rep == 0)
        {
            // a sorted selection that omits one row and one column (how determinant() uses it)
            int orow = (int) s.below (4), ocol = (int) s.below (4);
            for (int i = 0, k = 0; i < 4; ++i)
                if (i != orow) r[k++] = i;
            for (int i = 0, k = 0; i < 4; ++i)
                if (i != ocol) cl[k++] = i;
        }
        else
            for (int i = 0; i < 3; ++i)
            {
                r[i]  = (int) s.below (4);
                cl[i] = (int) s.below (4);
            }
        QM<3> sub;
        for (int i = 0; i < 3; ++i)
            for (int j = 0; j < 3; ++j)
                sub.a[i][j] = qa[r[i]][cl[j]];
        quad as;
        quad ex = det (sub, &as);
        T    g  = A.fastMinor (r[0], r[1], r[2], cl[0], cl[1], cl[2]);
        CHK (T, g, ex, as, 6, lat, "fastMinor44", "Matrix44.fastMinor(" << r[0] << "," << r[1] << "," << r[2] << "," << cl[0] << "," << cl[1] << "," << cl[2] << ")");
    }
    for (int line = 0; line < 8; ++line)
    {
        quad e = 0, tl = 0;
        for (int k = 0; k < 4; ++k)
        {
            int  r = line < 4 ? line : k, cc = line < 4 ? k : line - 4;
            quad t = qa[r][cc] * mn[r][cc];
            e += ((r + cc) & 1) ? -t : t;
            tl += qabs (qa[r][cc]) * mt[r][cc];
        }
        quad d = qabs (e - detA);
        VP_REQUIRE (c, d <= tl, "cofactor-expansion44", tname<T> () << " cofactor expansion by minorOf along " << (line < 4 ? "row " : "column ") << (line % 4) << " = " << qstr (e) << " but det = " << qstr (detA) << " (tol " << qstr (tl) << ")");
        quad d2 = qabs (e - (quad) dA), tl2 = tl + tol_of<T> (sa, 10, lat);
        VP_REQUIRE (c, d2 <= tl2, "cofactor-expansion44-vs-determinant", tname<T> () << " cofactor expansion along " << (line < 4 ? "row " : "column ") << (line % 4) << " = " << qstr (e) << " but determinant() = " << dA << " (tol " << qstr (tl2) << ")");
    }
}

template <class T> static void det_case (vp::Ctx& c)
{
    vp::Src& s    = c.s;
    int      mode = pick_mode (s);
    int      dim  = 2 + (int) s.below (4);
    if (dim > 4) dim = 4;
    mode_label (c, mode);
    c.label (L_DIM2 + dim - 2);
    if (dim == 2)
        det_dim<T, 2> (c, mode);
    else if (dim == 3)
    {
        Matrix33<T> A;
        gen_mat<T, 3> (c, mode, A, DET_GE (T));
        VP_NOTE (c, "minors of M=" << mstr (A, 3));
        minors33<T> (c, mode, A);
        det_dim<T, 3> (c, mode);
    }
    else
    {
        Matrix44<T> A;
        gen_mat<T, 4> (c, mode, A, DET_GE (T));
        VP_NOTE (c, "minors of M=" << mstr (A, 4));
        det_labels44<T> (c, A);
        // determinant of this matrix too (skip-branch labels refer to it)
        {
            QM<4> qa = QM<4>::from (A);
            quad  sa;
            quad  ex = det (qa, &sa);
            T     d  = A.determinant ();
            CHK (T, d, ex, sa, 10, mode == M_LATTICE, "det44", "Matrix44.determinant()");
            bool skip = false;
            for (int i = 0; i < 4; ++i)
                if (A[i][3] == 0) skip = true;
            c.nt (skip);
        }
        minors44<T> (c, mode, A);
        det_dim<T, 4> (c, mode);
    }
}
#define C05_DET_RULE "determinant (2/3/4), minorOf every (r,c), fastMinor random row/column selections, cofactor expansion along every row and column (vs exact det and vs determinant()), det(A^T), det(A*B)=det(A)det(B); 4x4 last-column zero masks drive the skip branches; "
VP_RANDOM (det_f, 1000000, 30000000, "float: " C05_DET_RULE C05_RULE_COMMON) { det_case<float> (c); }
VP_LABELS (det_f, C05_LABELS)
VP_REQUIRE_LABELS (det_f, "lattice", "sparse", "graded", "random", "exact_equality_demanded", "all_nonzero_distinct", "dim2", "dim3", "dim4", "affine_last_column", "det44_skip0", "det44_skip1", "det44_skip2", "det44_skip3", "det44_skip_all", "det44_skip_on_negative_zero")
VP_RANDOM (det_d, 1000000, 30000000, "double: " C05_DET_RULE C05_RULE_COMMON) { det_case<double> (c); }
VP_LABELS (det_d, C05_LABELS)
VP_REQUIRE_LABELS (det_d, "lattice", "sparse", "graded", "random", "exact_equality_demanded", "all_nonzero_distinct", "dim2", "dim3", "dim4", "affine_last_column", "det44_skip0", "det44_skip1", "det44_skip2", "det44_skip3", "det44_skip_all", "det44_skip_on_negative_zero")
VP_FUZZABLE (det_f)
VP_FUZZABLE (det_d)

// =========================================================================================
// 7. structured and near-special operands
//
// The sub-checks above draw operands whose entries are independent of each other; a code change that
// special-cases a *structure* (identity, unit-diagonal shear, affine last column, w == 1, zero coefficient ...),
// or that replaces an exact special-case test by a tolerance, is invisible to them.  The sub-checks of this
// section run the same per-slot oracles (sections 1-6; same failure keys, same k*u*sum|terms| bounds) on:
//   * structured bases: identity, unit-diagonal upper / lower triangular, unit-diagonal shear (linear block
//     only), signed permutation, diagonal, linear (zero translation, affine), projective column with last row
//     (0..0 1), identity plus one off-diagonal entry (every index pair), affine, rank-deficient (one row an
//     integer multiple of another: det == 0), dense;
//   * a per-entry mask over {+0, -0, 1, -1, generic} laid over the base;
//   * near-special perturbations: an exact 0 becomes +-[1,2)*2^-k, an exact +-1 becomes +-(1 +- 2^-k), k from 4 up
//     to the digits of the WIDER type involved + 3 (double vector x float matrix: 2^-56);
//   * magnitudes: translation row scaled by 2^e, e <= 20, or row/column scalings 2^(r_i + c_j), so that the
//     term a shortcut would drop is large against the k*u*sum|terms| bound of the slot;
//   * an integer mode of all of this (no perturbations; scalings by exact powers of two), where every result
//     is exact and equality is demanded.
// Vectors / quaternions get entries from {+-0, 1, -1, small integer, dense, tiny 2^-k, 1 +- 2^-k, large 2^e} and
// exact relations between the two operands: equal, opposite, integer and small-rational multiples with
// non-power-of-two ratios (cross product exactly 0), exactly perpendicular (dot exactly 0), and 2^-k
// perturbations of those; quaternions: identity, conjugate (vector part of the product exactly 0 on integers).
// Measured worst err/(u*sum|terms|) on the unchanged tree (quick tier, seeds 1-4) for these operand classes is
// quoted at the sub-checks; it stays below the values of the random-operand sub-checks (fewer non-zero terms).
enum
{
    L_B_IDENT = L_SINGLE_NZ + 1,
    L_B_UPPER,
    L_B_LOWER,
    L_B_SHEAR,
    L_B_PERM,
    L_B_DIAG,
    L_B_LINEAR,
    L_B_PROJ,
    L_B_ONEOFF,
    L_B_AFFINE,
    L_B_RANKDEF,
    L_B_DENSE,
    L_MASKED,       // the {0,1,-1,generic} mask replaced at least one entry
    L_NEAR,         // at least one 0 / +-1 entry was perturbed by 2^-k
    L_SCALE_TRANS,  // translation row scaled by 2^e
    L_SCALE_DIAG,   // row / column scalings
    L_UNIT_SHEAR_R, // right operand: unit diagonal, zero translation row and projective column, some non-zero off-diagonal entry in the linear block
    L_NEAR_IDENT_R, // right operand differs from the identity only by entries of magnitude < 2^-10
    L_W_NEAR_ONE,   // homogeneous coordinate 0 < |w-1| <= 2^-20 (exact value)
    L_W_NEAR_ONE_T, // ... 0 < |w-1| <= eps of the NARROWER of the two element types
    L_W_ONE,        // w == 1 exactly although the projective column is not (0..0 1)
    L_REL_EQUAL,
    L_REL_OPPOSITE,
    L_REL_MULTIPLE, // b = (p/q) a, ratio not a power of two: cross product exactly 0
    L_REL_PERP,     // a.b == 0 exactly
    L_REL_PERTURBED,// one component of a related pair scaled by 1 + 2^-k
    L_Q_IDENT,
    L_Q_CONJ,
    L_S_COUNT
};
static_assert (L_S_COUNT <= 64, "label ids are bits of a 64-bit mask");
#define C05S_LABELS                                                                                                  \
    C05_LABELS, "base_identity", "base_unit_upper_triangular", "base_unit_lower_triangular", "base_unit_diagonal_shear", "base_signed_permutation", "base_diagonal", "base_linear_zero_translation", "base_projective_column", \
        "base_identity_plus_one_offdiagonal", "base_affine", "base_rank_deficient", "base_dense", "mask_applied", "near_special_perturbation", "translation_scaled", "rows_columns_scaled", "right_operand_unit_diagonal_shear",          \
        "right_operand_near_identity", "w_within_2^-20_of_one", "w_within_eps_of_narrower_type_of_one", "w_exactly_one_nonaffine", "operands_equal", "operands_opposite", "operands_exact_multiple_non_pow2", "operands_exactly_perpendicular",     \
        "relation_perturbed_2^-k", "quat_identity_operand", "quat_conjugate_operand"

struct SP
{
    int  kmax;   // largest k of the 2^-k perturbations
    int  emax_t; // largest exponent of the translation scaling
    int  emax_d; // largest exponent of one row / column scaling
    bool lat;    // integer mode
};
template <class T> static inline T s_generic (vp::Src& s, const SP& p)
{
    if (p.lat || s.chance (64)) return (T) lattice_int (s);
    return dense<T> (s);
}
template <class T> static inline T s_generic_nz (vp::Src& s, const SP& p)
{
    T v = s_generic<T> (s, p);
    if (v == 0) v = (T) 3;
    return v;
}
template <class T> static inline T s_tiny (vp::Src& s, const SP& p)
{
    int k = (int) s.range (4, p.kmax);
    if (s.coin ())
    {
        T v = std::ldexp ((T) 1, -k);
        return s.coin () ? v : -v;
    }
    return gen::with_exp<T> (s, -k);
}
// +-(1 +- 2^-k), k <= digits-1 so that the value is representable and differs from +-1
template <class T> static inline T s_nearone (vp::Src& s, const SP& p, bool negative)
{
    int kk = p.kmax < FInfo<T>::mant - 1 ? p.kmax : FInfo<T>::mant - 1;
    int k  = (int) s.range (4, kk);
    T   d  = std::ldexp ((T) 1, -k);
    T   v  = s.coin () ? (T) 1 + d : (T) 1 - d;
    return negative ? -v : v;
}
template <class T> static inline T s_large (vp::Src& s, const SP& p)
{
    int e = (int) s.range (1, p.emax_t);
    if (p.lat)
    {
        T v = (T) lattice_int (s);
        return std::ldexp (v, e);
    }
    return gen::with_exp<T> (s, e);
}
template <class T> static inline T s_mask (vp::Src& s, const SP& p)
{
    switch (s.below (6))
    {
        case 0: return (T) 0;
        case 1: return (T) 1;
        case 2: return (T) -1;
        case 3: return -(T) 0;
        default: return s_generic<T> (s, p);
    }
}
// vector / quaternion entry
template <class T> static inline T s_entry (vp::Src& s, const SP& p)
{
    switch (s.below (p.lat ? 5 : 8))
    {
        case 0: return s.coin () ? (T) 0 : -(T) 0;
        case 1: return (T) 1;
        case 2: return (T) -1;
        case 3: return (T) lattice_int (s);
        case 4: return s_large<T> (s, p);
        case 5: return s_tiny<T> (s, p);
        case 6: return s_nearone<T> (s, p, s.coin ());
        default: return dense<T> (s);
    }
}
template <class T> static void gen_svec (vp::Src& s, const SP& p, T* v, int n)
{
    for (int i = 0; i < n; ++i)
        v[i] = s_entry<T> (s, p);
}

enum
{
    SB_IDENT,
    SB_UPPER,
    SB_LOWER,
    SB_SHEAR,
    SB_PERM,
    SB_DIAG,
    SB_LINEAR,
    SB_PROJ,
    SB_ONEOFF,
    SB_AFFINE,
    SB_RANKDEF,
    SB_DENSE,
    SB_COUNT
};
template <class T, int N, class MT> static void gen_struct (vp::Ctx& c, const SP& p, MT& m)
{
    vp::Src& s    = c.s;
    int      base = (int) s.below (SB_COUNT);
    c.label (L_B_IDENT + base);
    for (int i = 0; i < N; ++i)
        for (int j = 0; j < N; ++j)
            m[i][j] = (T) (i == j ? 1 : 0);
    const int L = N == 2 ? 2 : N - 1; // size of the linear block
    switch (base)
    {
        case SB_IDENT: break;
        case SB_UPPER:
            for (int i = 0; i < N; ++i)
                for (int j = i + 1; j < N; ++j)
                    m[i][j] = s_generic<T> (s, p);
            break;
        case SB_LOWER:
            for (int i = 0; i < N; ++i)
                for (int j = 0; j < i; ++j)
                    m[i][j] = s_generic<T> (s, p);
            break;
        case SB_SHEAR:
            for (int i = 0; i < L; ++i)
                for (int j = 0; j < L; ++j)
                    if (i != j) m[i][j] = s_generic<T> (s, p);
            break;
        case SB_PERM:
        {
            int perm[4] = { 0, 1, 2, 3 };
            for (int i = N - 1; i > 0; --i)
            {
                int j   = (int) s.below ((uint64_t) i + 1);
                int t   = perm[i];
                perm[i] = perm[j];
                perm[j] = t;
            }
            for (int i = 0; i < N; ++i)
                for (int j = 0; j < N; ++j)
                    m[i][j] = (T) 0;
            for (int i = 0; i < N; ++i)
                m[i][perm[i]] = s.coin () ? (T) 1 : (T) -1;
            break;
        }
        case SB_DIAG:
            for (int i = 0; i < N; ++i)
                m[i][i] = s_generic<T> (s, p);
            break;
        case SB_LINEAR:
            for (int i = 0; i < L; ++i)
                for (int j = 0; j < L; ++j)
                    m[i][j] = s_generic<T> (s, p);
            break;
        case SB_PROJ:
            for (int i = 0; i < N - 1; ++i)
                for (int j = 0; j < N; ++j)
                    m[i][j] = s_generic<T> (s, p);
            break;
        case SB_ONEOFF:
        {
            int i = (int) s.below (N);
            int j = (int) s.below (N - 1);
            if (j >= i) ++j;
            m[i][j] = s_generic_nz<T> (s, p);
            break;
        }
        case SB_AFFINE:
            for (int i = 0; i < N; ++i)
                for (int j = 0; j < L; ++j)
                    m[i][j] = s_generic<T> (s, p);
            break;
        case SB_RANKDEF:
        {
            for (int i = 0; i < N; ++i)
                for (int j = 0; j < N; ++j)
                    m[i][j] = s_generic<T> (s, p);
            int i = (int) s.below (N);
            int j = (int) s.below (N - 1);
            if (j >= i) ++j;
            int  k     = (int) s.range (2, 7);
            bool byrow = s.coin ();
            if (s.coin ()) k = -k;
            for (int t = 0; t < N; ++t)
                if (byrow)
                    m[j][t] = (T) k * m[i][t];
                else
                    m[t][j] = (T) k * m[t][i];
            break;
        }
        default:
            for (int i = 0; i < N; ++i)
                for (int j = 0; j < N; ++j)
                    m[i][j] = s_generic<T> (s, p);
            break;
    }
    static const int pm_tab[4] = { 0, 0, 40, 120 };
    int              pm        = pm_tab[s.below (4)];
    if (pm)
    {
        for (int i = 0; i < N; ++i)
            for (int j = 0; j < N; ++j)
                if (s.chance (pm)) m[i][j] = s_mask<T> (s, p);
        c.label (L_MASKED);
    }
    static const int pn_tab[4] = { 0, 0, 80, 200 };
    int              pn        = pn_tab[s.below (4)];
    if (pn && !p.lat)
    {
        bool any = false;
        for (int i = 0; i < N; ++i)
            for (int j = 0; j < N; ++j)
            {
                T v = m[i][j];
                if (v != 0 && v != 1 && v != -1) continue;
                if (!s.chance (pn)) continue;
                m[i][j] = v == 0 ? s_tiny<T> (s, p) : s_nearone<T> (s, p, v < 0);
                any     = true;
            }
        if (any) c.label (L_NEAR);
    }
    int sc = (int) s.below (4);
    if (sc == 2 && N > 2)
    {
        int e = (int) s.range (1, p.emax_t);
        for (int j = 0; j < N - 1; ++j)
            m[N - 1][j] = std::ldexp (m[N - 1][j], e);
        c.label (L_SCALE_TRANS);
    }
    else if (sc == 3)
    {
        int re[4], ce[4];
        for (int i = 0; i < N; ++i)
            re[i] = (int) s.range (0, p.emax_d);
        for (int i = 0; i < N; ++i)
            ce[i] = (int) s.range (0, p.emax_d);
        for (int i = 0; i < N; ++i)
            for (int j = 0; j < N; ++j)
                m[i][j] = std::ldexp (m[i][j], re[i] + ce[j]);
        c.label (L_SCALE_DIAG);
    }
}
template <class MT> static void label_right_operand (vp::Ctx& c, const MT& B, int N)
{
    if (N < 3) return;
    bool unit = true, off = false, nearid = true, ident = true;
    for (int i = 0; i < N; ++i)
        for (int j = 0; j < N; ++j)
        {
            double v = (double) B[i][j], d = v - (i == j ? 1 : 0);
            if (d != 0) ident = false;
            if (std::fabs (d) >= 1.0 / 1024) nearid = false;
            if (i == j || i == N - 1 || j == N - 1)
            {
                if (d != 0) unit = false;
            }
            else if (v != 0)
                off = true;
        }
    if (unit && off) c.label (L_UNIT_SHEAR_R);
    if (nearid && !ident) c.label (L_NEAR_IDENT_R);
}

// ---- matrix x matrix ----------------------------------------------------------------------
// measured worst err/(u*sum|terms|) (seeds 1-4, 2e6 cases each): mat22 1.97  mat33 2.84  mat44 3.43 (float), 1.97 / 2.74 / 3.44 (double);  k = N+1
template <class T> static void struct_matmul_case (vp::Ctx& c)
{
    vp::Src& s = c.s;
    SP       p = { FInfo<T>::mant + 3, 20, 20, s.below (4) == 0 };
    int      dim = 2 + (int) s.below (4);
    if (dim > 4) dim = 4;
    mode_label (c, p.lat ? M_LATTICE : M_RANDOM);
    c.label (L_DIM2 + dim - 2);
    c.nt ();
    if (dim == 2)
    {
        Matrix22<T> A, B;
        gen_struct<T, 2> (c, p, A);
        gen_struct<T, 2> (c, p, B);
        VP_NOTE (c, tname<T> () << " N=2 " << (p.lat ? "integer" : "real") << " structured A=" << mstr (A, 2) << " B=" << mstr (B, 2));
        matmul_check<T, 2> (c, A, B, p.lat);
    }
    else if (dim == 3)
    {
        Matrix33<T> A, B;
        gen_struct<T, 3> (c, p, A);
        gen_struct<T, 3> (c, p, B);
        label_right_operand (c, B, 3);
        VP_NOTE (c, tname<T> () << " N=3 " << (p.lat ? "integer" : "real") << " structured A=" << mstr (A, 3) << " B=" << mstr (B, 3));
        matmul_check<T, 3> (c, A, B, p.lat);
    }
    else
    {
        Matrix44<T> A, B;
        gen_struct<T, 4> (c, p, A);
        gen_struct<T, 4> (c, p, B);
        label_right_operand (c, B, 4);
        VP_NOTE (c, tname<T> () << " N=4 " << (p.lat ? "integer" : "real") << " structured A=" << mstr (A, 4) << " B=" << mstr (B, 4));
        matmul_check<T, 4> (c, A, B, p.lat);
        matmul44_static<T> (c, A, B);
    }
}
#define C05S_MAT_RULE "both operands structured: base from {identity, unit-diagonal upper/lower triangular, unit-diagonal shear, signed permutation, diagonal, linear, projective column, identity + one off-diagonal entry (any index pair), affine, rank-deficient, dense} + per-entry mask over {+0,-0,1,-1,generic} + near-special perturbations (0 -> +-2^-k, +-1 -> +-(1 +- 2^-k), k = 4..digits+3) + translation row x 2^e (e <= 20) or row/column scalings; 1/4 of the cases in integer mode (exact, equality demanded); "
VP_RANDOM (struct_matmul_f, 500000, 10000000, "Matrix22/33/44<float> operator*, *=, A*=A, Matrix44::multiply 2-/3-argument on structured operands; " C05S_MAT_RULE "oracle and bounds as matmul_f; every case non-trivial") { struct_matmul_case<float> (c); }
VP_LABELS (struct_matmul_f, C05S_LABELS)
#define C05S_MAT_REQ "lattice", "random", "exact_equality_demanded", "dim2", "dim3", "dim4", "base_identity", "base_unit_upper_triangular", "base_unit_lower_triangular", "base_unit_diagonal_shear", "base_signed_permutation", "base_diagonal", "base_linear_zero_translation", "base_projective_column", "base_identity_plus_one_offdiagonal", "base_affine", "base_rank_deficient", "base_dense", "mask_applied", "near_special_perturbation", "translation_scaled", "rows_columns_scaled"
VP_REQUIRE_LABELS (struct_matmul_f, C05S_MAT_REQ, "right_operand_unit_diagonal_shear", "right_operand_near_identity")
VP_RANDOM (struct_matmul_d, 500000, 10000000, "Matrix22/33/44<double> operator*, *=, A*=A, Matrix44::multiply 2-/3-argument on structured operands; " C05S_MAT_RULE "oracle and bounds as matmul_d; every case non-trivial") { struct_matmul_case<double> (c); }
VP_LABELS (struct_matmul_d, C05S_LABELS)
VP_REQUIRE_LABELS (struct_matmul_d, C05S_MAT_REQ, "right_operand_unit_diagonal_shear", "right_operand_near_identity")

// ---- vector x matrix ----------------------------------------------------------------------
// exact homogeneous coordinate of (v,1).M
template <class S, int NV, class MT> static quad exact_w (const S* v, const MT& m)
{
    quad w = (quad) m[NV][NV];
    for (int i = 0; i < NV; ++i)
        w += (quad) v[i] * (quad) m[i][NV];
    return w;
}
template <class S, class T, int NV, class MT> static void label_w (vp::Ctx& c, const S* v, const MT& m)
{
    quad w = exact_w<S, NV> (v, m), d = qabs (w - 1);
    bool affine = m[NV][NV] == 1;
    for (int i = 0; i < NV; ++i)
        if (m[i][NV] != 0) affine = false;
    quad epsn = (quad) (FInfo<S>::eps () > FInfo<T>::eps () ? FInfo<S>::eps () : FInfo<T>::eps ());
    if (d > 0 && d <= (quad) std::ldexp (1.0, -20)) c.label (L_W_NEAR_ONE);
    if (d > 0 && d <= epsn) c.label (L_W_NEAR_ONE_T);
    if (d == 0 && !affine) c.label (L_W_ONE);
}
// as fix_w, for operands of any magnitude: when |w| < 2^-10 sum|terms of w| the corner entry is replaced by a value
// that dominates the other terms of w (integer mode: +-2^e >= 2 sum|other terms|)
template <class S, class T, int NV, class MT> static void fix_w_struct (vp::Ctx& c, const S* v, MT& m, bool lat)
{
    quad wo = 0, so = 0;
    for (int i = 0; i < NV; ++i)
    {
        quad t = (quad) v[i] * (quad) m[i][NV];
        wo += t;
        so += qabs (t);
    }
    quad w = wo + (quad) m[NV][NV], sw = so + qabs ((quad) m[NV][NV]);
    if (sw > 0 && qabs (w) >= sw / 1024) return;
    c.label (L_W_FIXED);
    if (so == 0)
    {
        m[NV][NV] = (T) (c.s.coin () ? 1 : -2);
        return;
    }
    T nv;
    if (lat)
    {
        int e;
        std::frexp ((double) so, &e);
        nv = std::ldexp ((T) 1, e + 1);
    }
    else
    {
        double f = 1.25 + c.s.unit ();
        nv       = (T) ((double) so * f);
    }
    if (c.s.coin ()) nv = -nv;
    m[NV][NV] = nv;
}
// measured worst (seeds 1-4, 2e6 cases each; units of u*sum|terms|): v2m22 1.95  v3m33 2.72  v4m44 3.06  multDirMatrix 1.97 / 2.73;
// float vector x double matrix 1.00 (one rounding);  homogeneous err/bound 0.999 (the half-ulp of the final division)
template <class S, class T> static void struct_vecmat_case (vp::Ctx& c)
{
    vp::Src&  s    = c.s;
    const int wide = FInfo<S>::mant > FInfo<T>::mant ? FInfo<S>::mant : FInfo<T>::mant;
    SP        p    = { wide + 3, 20, 20, s.below (4) == 0 };
    int       combo = (int) s.below (6); // 0 V2xM22, 1 V2xM33, 2 V3xM33, 3 and 5 V3xM44, 4 V4xM44
    if (combo == 5) combo = 3;
    mode_label (c, p.lat ? M_LATTICE : M_RANDOM);
    c.nt ();
    S v[4];
    switch (combo)
    {
        case 0:
        {
            c.label (L_DIM2);
            Matrix22<T> m;
            gen_struct<T, 2> (c, p, m);
            gen_svec (s, p, v, 2);
            VP_NOTE (c, "V2<" << tname<S> () << "> x M22<" << tname<T> () << "> structured v=" << vstr (v, 2) << " m=" << mstr (m, 2));
            vm22_check<S, T> (c, v, m, p.lat);
            break;
        }
        case 1:
        {
            c.label (L_DIM3);
            Matrix33<T> m;
            gen_struct<T, 3> (c, p, m);
            gen_svec (s, p, v, 2);
            fix_w_struct<S, T, 2> (c, v, m, p.lat);
            label_w<S, T, 2> (c, v, m);
            VP_NOTE (c, "V2<" << tname<S> () << "> x M33<" << tname<T> () << "> structured v=" << vstr (v, 2) << " m=" << mstr (m, 3));
            vm33h_check<S, T> (c, v, m, p.lat);
            break;
        }
        case 2:
        {
            c.label (L_DIM3);
            Matrix33<T> m;
            gen_struct<T, 3> (c, p, m);
            gen_svec (s, p, v, 3);
            VP_NOTE (c, "V3<" << tname<S> () << "> x M33<" << tname<T> () << "> structured v=" << vstr (v, 3) << " m=" << mstr (m, 3));
            vm33p_check<S, T> (c, v, m, p.lat);
            break;
        }
        case 3:
        {
            c.label (L_DIM4);
            Matrix44<T> m;
            gen_struct<T, 4> (c, p, m);
            gen_svec (s, p, v, 3);
            fix_w_struct<S, T, 3> (c, v, m, p.lat);
            label_w<S, T, 3> (c, v, m);
            VP_NOTE (c, "V3<" << tname<S> () << "> x M44<" << tname<T> () << "> structured v=" << vstr (v, 3) << " m=" << mstr (m, 4));
            vm44h_check<S, T> (c, v, m, p.lat);
            break;
        }
        default:
        {
            c.label (L_DIM4);
            Matrix44<T> m;
            gen_struct<T, 4> (c, p, m);
            gen_svec (s, p, v, 4);
            VP_NOTE (c, "V4<" << tname<S> () << "> x M44<" << tname<T> () << "> structured v=" << vstr (v, 4) << " m=" << mstr (m, 4));
            vm44p_check<S, T> (c, v, m, p.lat);
            break;
        }
    }
}
#define C05S_VM_RULE "structured matrix (as struct_matmul) x vector with entries from {+-0, 1, -1, small integer, large 2^e (e <= 20), tiny 2^-k, +-(1 +- 2^-k), dense}; k up to the digits of the wider of the two element types + 3, so that the homogeneous coordinate w of V2xM33 / V3xM44 lies at 1, within 2^-k of 1 down to below the rounding of either type, or anywhere; all spellings (*, *=, multVecMatrix, multDirMatrix, src==dst) bit-identical; oracle and bounds as vecmat_*; every case non-trivial"
#define C05S_VM_REQ "lattice", "random", "exact_equality_demanded", "dim2", "dim3", "dim4", "base_identity", "base_unit_upper_triangular", "base_unit_lower_triangular", "base_unit_diagonal_shear", "base_signed_permutation", "base_diagonal", "base_linear_zero_translation", "base_projective_column", "base_identity_plus_one_offdiagonal", "base_affine", "base_rank_deficient", "base_dense", "mask_applied", "near_special_perturbation", "translation_scaled", "rows_columns_scaled", "w_within_2^-20_of_one", "w_within_eps_of_narrower_type_of_one", "w_exactly_one_nonaffine", "w_forced_nonzero"
VP_RANDOM (struct_vecmat_ff, 500000, 10000000, "float vector x float matrix: " C05S_VM_RULE) { struct_vecmat_case<float, float> (c); }
VP_LABELS (struct_vecmat_ff, C05S_LABELS)
VP_REQUIRE_LABELS (struct_vecmat_ff, C05S_VM_REQ)
VP_RANDOM (struct_vecmat_dd, 500000, 10000000, "double vector x double matrix: " C05S_VM_RULE) { struct_vecmat_case<double, double> (c); }
VP_LABELS (struct_vecmat_dd, C05S_LABELS)
VP_REQUIRE_LABELS (struct_vecmat_dd, C05S_VM_REQ)
VP_RANDOM (struct_vecmat_fd, 500000, 10000000, "float vector x double matrix: " C05S_VM_RULE) { struct_vecmat_case<float, double> (c); }
VP_LABELS (struct_vecmat_fd, C05S_LABELS)
VP_REQUIRE_LABELS (struct_vecmat_fd, C05S_VM_REQ)
VP_RANDOM (struct_vecmat_df, 500000, 10000000, "double vector x float matrix: " C05S_VM_RULE) { struct_vecmat_case<double, float> (c); }
VP_LABELS (struct_vecmat_df, C05S_LABELS)
VP_REQUIRE_LABELS (struct_vecmat_df, C05S_VM_REQ)

// ---- determinants and minors -----------------------------------------------------------------
// float: det(A*B) multiplies eight entries; it is checked only when no partial product can leave the normal
// range (entries of |A||B| below 2^38 and, where non-zero, not below 2^-28)
template <class T, int N, class MT> static bool product_in_range (const MT& A, const MT& B)
{
    if (sizeof (T) > 4) return true;
    double amax = 0, bmax = 0, amin = 1e300, bmin = 1e300;
    for (int i = 0; i < N; ++i)
        for (int j = 0; j < N; ++j)
        {
            double a = std::fabs ((double) A[i][j]), b = std::fabs ((double) B[i][j]);
            if (a > amax) amax = a;
            if (b > bmax) bmax = b;
            if (a != 0 && a < amin) amin = a;
            if (b != 0 && b < bmin) bmin = b;
        }
    if (amax == 0 || bmax == 0) return true;
    return amax * bmax * N < std::ldexp (1.0, 30) && amin * bmin >= std::ldexp (1.0, -28);
}
// measured worst (seeds 1-4, 1.2e6 cases each): det22 1.98  det33 3.41  det44 4.06  det(A^T) 1.98 / 3.31 / 4.09  minorOf33 1.99  minorOf44 3.74
// fastMinor33 1.94  fastMinor44 3.36  det(AB) 3.29 / 4.61 / 5.47 in units of u*perm(|A||B|)   (k = 3 / 6 / 10, minors 3 / 6)
template <class T> static void struct_det_case (vp::Ctx& c)
{
    vp::Src& s = c.s;
    SP       p = { FInfo<T>::mant + 3, sizeof (T) == 4 ? 12 : 20, sizeof (T) == 4 ? 3 : 10, s.below (4) == 0 };
    int      dim = 2 + (int) s.below (4);
    if (dim > 4) dim = 4;
    mode_label (c, p.lat ? M_LATTICE : M_RANDOM);
    c.label (L_DIM2 + dim - 2);
    c.nt ();
    if (dim == 2)
    {
        Matrix22<T> A, B;
        gen_struct<T, 2> (c, p, A);
        gen_struct<T, 2> (c, p, B);
        VP_NOTE (c, tname<T> () << " N=2 structured A=" << mstr (A, 2) << " B=" << mstr (B, 2));
        det_check<T, 2> (c, A, B, p.lat, product_in_range<T, 2> (A, B));
    }
    else if (dim == 3)
    {
        Matrix33<T> A, B;
        gen_struct<T, 3> (c, p, A);
        gen_struct<T, 3> (c, p, B);
        VP_NOTE (c, tname<T> () << " N=3 structured A=" << mstr (A, 3) << " B=" << mstr (B, 3));
        minors33<T> (c, p.lat ? M_LATTICE : M_RANDOM, A);
        det_check<T, 3> (c, A, B, p.lat, product_in_range<T, 3> (A, B));
    }
    else
    {
        Matrix44<T> A, B;
        gen_struct<T, 4> (c, p, A);
        gen_struct<T, 4> (c, p, B);
        VP_NOTE (c, tname<T> () << " N=4 structured A=" << mstr (A, 4) << " B=" << mstr (B, 4));
        det_labels44<T> (c, A);
        minors44<T> (c, p.lat ? M_LATTICE : M_RANDOM, A);
        det_check<T, 4> (c, A, B, p.lat, product_in_range<T, 4> (A, B));
    }
}
#define C05S_DET_RULE "determinant (2/3/4), det(A^T), minorOf every (r,c), fastMinor, cofactor expansion along every row and column, det(A*B)=det(A)det(B) on structured operands; " C05S_MAT_RULE "float: translation scaling e <= 12, row/column scalings e <= 3, det(A*B) only when no partial product can leave the normal range; oracle and bounds as det_*; every case non-trivial"
VP_RANDOM (struct_det_f, 300000, 8000000, "float: " C05S_DET_RULE) { struct_det_case<float> (c); }
VP_LABELS (struct_det_f, C05S_LABELS)
VP_REQUIRE_LABELS (struct_det_f, C05S_MAT_REQ, "affine_last_column", "det44_skip0", "det44_skip1", "det44_skip2", "det44_skip3", "det44_skip_all", "det44_skip_on_negative_zero")
VP_RANDOM (struct_det_d, 300000, 8000000, "double: " C05S_DET_RULE) { struct_det_case<double> (c); }
VP_LABELS (struct_det_d, C05S_LABELS)
VP_REQUIRE_LABELS (struct_det_d, C05S_MAT_REQ, "affine_last_column", "det44_skip0", "det44_skip1", "det44_skip2", "det44_skip3", "det44_skip_all", "det44_skip_on_negative_zero")

// ---- vectors and quaternions: special entries and exact relations between the operands ---------------
// measured worst (seeds 1-4): dot2 1.98  dot3 2.43  dot4 2.81  cross2 1.91  cross3 1.97;  quat r 3.09  v 2.76  dot 3.00
// a: small-integer vector; b in an exact relation to it.  Everything stays an integer, so dot / cross / Hamilton
// products are exact and equality is demanded (cross of exact multiples == 0, dot of perpendicular == 0).
static const int REL_P[] = { 3, 5, 6, 7, 9, 10, 11, 12, 13, 14, 15, 17, 19, 21, 23, 25, 27, 29, 31 };
template <class T> static void struct_vec_case (vp::Ctx& c)
{
    vp::Src& s   = c.s;
    int      dim = 2 + (int) s.below (3);
    int      rel = (int) s.below (8); // 0-2 unrelated special entries, 3 equal, 4 opposite, 5 multiple, 6 perpendicular, 7 perturbed relation
    SP       p   = { FInfo<T>::mant + 3, 20, 20, false };
    T        a[4] = { 0, 0, 0, 0 }, b[4] = { 0, 0, 0, 0 };
    bool     lat  = false;
    int      kind = -1;
    c.label (L_DIM2 + dim - 2);
    c.nt ();
    if (rel <= 2)
    {
        p.lat = lat = rel == 0;
        gen_svec (s, p, a, 4);
        gen_svec (s, p, b, 4);
        mode_label (c, lat ? M_LATTICE : M_RANDOM);
    }
    else
    {
        // base direction with coordinates in -16..16, not all zero
        int ai[4];
        for (int i = 0; i < 4; ++i)
            ai[i] = i < dim ? (int) s.range (-16, 16) : 0;
        if (ai[0] == 0 && ai[1] == 0 && (dim < 3 || ai[2] == 0) && (dim < 4 || ai[3] == 0)) ai[(int) s.below (dim)] = 5;
        int bi[4] = { 0, 0, 0, 0 };
        int q     = 1;
        kind      = rel == 7 ? 3 + (int) s.below (4) : rel;
        lat       = true;
        mode_label (c, M_LATTICE);
        switch (kind)
        {
            case 3:
                for (int i = 0; i < 4; ++i)
                    bi[i] = ai[i];
                c.label (L_REL_EQUAL);
                break;
            case 4:
                for (int i = 0; i < 4; ++i)
                    bi[i] = -ai[i];
                c.label (L_REL_OPPOSITE);
                break;
            case 5:
            {
                int pnum = s.pick (REL_P);
                q        = 1 << (int) s.below (3); // 1, 2, 4: ratio pnum/q with pnum odd or 6, 10, 12, 14
                if (s.coin ()) pnum = -pnum;
                for (int i = 0; i < 4; ++i)
                {
                    bi[i] = pnum * ai[i];
                    ai[i] = q * ai[i];
                }
                c.label (L_REL_MULTIPLE);
                break;
            }
            default:
            {
                // exactly perpendicular: 2-D (-y, x); 3-D a x r for an integer r; 4-D (-y, x, -w, z)
                if (dim == 2)
                {
                    bi[0] = -ai[1];
                    bi[1] = ai[0];
                }
                else if (dim == 3)
                {
                    int r[3];
                    for (int i = 0; i < 3; ++i)
                        r[i] = (int) s.range (-16, 16);
                    bi[0] = ai[1] * r[2] - ai[2] * r[1];
                    bi[1] = ai[2] * r[0] - ai[0] * r[2];
                    bi[2] = ai[0] * r[1] - ai[1] * r[0];
                }
                else
                {
                    bi[0] = -ai[1];
                    bi[1] = ai[0];
                    bi[2] = -ai[3];
                    bi[3] = ai[2];
                }
                int k = (int) s.range (1, 9);
                for (int i = 0; i < 4; ++i)
                    bi[i] *= k;
                c.label (L_REL_PERP);
                break;
            }
        }
        for (int i = 0; i < 4; ++i)
        {
            a[i] = (T) ai[i];
            b[i] = (T) bi[i];
        }
        if (s.coin ())
        {
            // a common power-of-two scale on each operand keeps every product exact
            int ea = (int) s.range (-20, 20);
            int eb = (int) s.range (-20, 20);
            for (int i = 0; i < 4; ++i)
            {
                a[i] = std::ldexp (a[i], ea);
                b[i] = std::ldexp (b[i], eb);
            }
            lat = ea >= 0 && eb >= 0; // (the exactness test of tol_of assumes integers)
        }
        if (rel == 7)
        {
            // perturb one component: the relation holds only to 2^-k
            int i  = (int) s.below (dim);
            int kk = (int) s.range (4, FInfo<T>::mant - 1);
            T   f  = (T) 1 + std::ldexp ((T) 1, -kk);
            if (s.coin ())
                b[i] = b[i] * f;
            else
                a[i] = a[i] * f;
            lat = false;
            c.label (L_REL_PERTURBED);
        }
    }
    VP_NOTE (c, tname<T> () << " dim=" << dim << " structured/related a=" << vstr (a, dim) << " b=" << vstr (b, dim));
    vec_check<T> (c, a, b, dim, lat);
    if (kind >= 3 && rel != 7)
    {
        // whatever the power-of-two scales, every product of components is exact here (integer significands below
        // 2^13): parallel operands have an exactly zero cross product, perpendicular ones an exactly zero dot product
        if (kind <= 5 && dim == 2)
        {
            Vec2<T> A (a[0], a[1]), B (b[0], b[1]);
            T       x1 = A.cross (B), x2 = A % B;
            VP_REQUIRE (c, x1 == 0 && x2 == 0, "vec2-cross-parallel-exact", tname<T> () << " cross of exactly parallel " << vstr (a, 2) << " and " << vstr (b, 2) << " = " << x1 << " / " << x2 << ", not 0");
        }
        if (kind <= 5 && dim == 3)
        {
            Vec3<T> A (a[0], a[1], a[2]), B (b[0], b[1], b[2]);
            Vec3<T> x1 = A.cross (B), x2 = A % B, x3 = A;
            x3 %= B;
            VP_REQUIRE (c, x1.x == 0 && x1.y == 0 && x1.z == 0 && x2.x == 0 && x2.y == 0 && x2.z == 0 && x3.x == 0 && x3.y == 0 && x3.z == 0, "vec3-cross-parallel-exact", tname<T> () << " cross of exactly parallel " << vstr (a, 3) << " and " << vstr (b, 3) << " = " << vstr (x1, 3) << " / " << vstr (x2, 3) << " / " << vstr (x3, 3) << ", not 0");
        }
        if (kind == 6)
        {
            T d = dim == 2 ? Vec2<T> (a[0], a[1]).dot (Vec2<T> (b[0], b[1])) : dim == 3 ? Vec3<T> (a[0], a[1], a[2]).dot (Vec3<T> (b[0], b[1], b[2])) : Vec4<T> (a[0], a[1], a[2], a[3]).dot (Vec4<T> (b[0], b[1], b[2], b[3]));
            VP_REQUIRE (c, d == 0, "vec-dot-perpendicular-exact", tname<T> () << " dot of exactly perpendicular " << vstr (a, dim) << " and " << vstr (b, dim) << " = " << d << ", not 0");
        }
    }
    if (dim >= 3)
    {
        // outerProduct: every slot one correctly rounded product, whatever the operand values
        T a4[4] = { a[0], a[1], a[2], dim == 4 ? a[3] : (T) 0 }, b4[4] = { b[0], b[1], b[2], dim == 4 ? b[3] : (T) 0 };
        outer_check<T> (c, a4, b4);
    }
}
#define C05S_VEC_RULE "Vec2/3/4 dot,^,cross,%,%= and outerProduct on (3/8) operands with entries from {+-0, 1, -1, small integer, large 2^e, tiny 2^-k, +-(1 +- 2^-k), dense}, (5/8) exactly related operands built from a base direction with integer coordinates |c| <= 16: equal, opposite, ratio p/q with p from 19 non-powers-of-two up to 31 and q in {1,2,4} (cross product exactly 0), exactly perpendicular (dot exactly 0), each optionally scaled by 2^e per operand, and the same with one component scaled by 1 + 2^-k; equality demanded on integer operands; every case non-trivial"
VP_RANDOM (struct_vec_f, 500000, 10000000, "float: " C05S_VEC_RULE) { struct_vec_case<float> (c); }
VP_LABELS (struct_vec_f, C05S_LABELS)
#define C05S_VEC_REQ "lattice", "random", "exact_equality_demanded", "dim2", "dim3", "dim4", "operands_equal", "operands_opposite", "operands_exact_multiple_non_pow2", "operands_exactly_perpendicular", "relation_perturbed_2^-k"
VP_REQUIRE_LABELS (struct_vec_f, C05S_VEC_REQ)
VP_RANDOM (struct_vec_d, 500000, 10000000, "double: " C05S_VEC_RULE) { struct_vec_case<double> (c); }
VP_LABELS (struct_vec_d, C05S_LABELS)
VP_REQUIRE_LABELS (struct_vec_d, C05S_VEC_REQ)

template <class T> static void struct_quat_case (vp::Ctx& c)
{
    vp::Src& s   = c.s;
    int      rel = (int) s.below (6); // 0-2 unrelated special entries, 3 identity operand, 4 conjugate, 5 equal
    SP       p   = { FInfo<T>::mant + 3, 20, 20, rel == 0 || s.coin () };
    T        a[4], b[4];
    bool     lat = p.lat;
    c.nt ();
    gen_svec (s, p, a, 4);
    gen_svec (s, p, b, 4);
    if (rel == 3)
    {
        T* id = s.coin () ? a : b;
        id[0] = (T) 1;
        id[1] = id[2] = id[3] = (T) 0;
        if (!p.lat && s.coin ())
        {
            // nearly the identity
            id[0] = s_nearone<T> (s, p, false);
            for (int i = 1; i < 4; ++i)
                id[i] = s_tiny<T> (s, p);
        }
        c.label (L_Q_IDENT);
    }
    else if (rel == 4)
    {
        b[0] = a[0];
        for (int i = 1; i < 4; ++i)
            b[i] = -a[i];
        c.label (L_Q_CONJ);
    }
    else if (rel == 5)
    {
        for (int i = 0; i < 4; ++i)
            b[i] = a[i];
        c.label (L_REL_EQUAL);
    }
    mode_label (c, lat ? M_LATTICE : M_RANDOM);
    VP_NOTE (c, tname<T> () << " structured q1=(r,x,y,z)=" << vstr (a, 4) << " q2=" << vstr (b, 4));
    quat_check<T> (c, a, b, lat);
}
#define C05S_QUAT_RULE "Quat operator*, *=, q*=q, ^ on operands with entries from {+-0, 1, -1, small integer, large 2^e, tiny 2^-k, +-(1 +- 2^-k), dense} (half of the cases integers only: exact, equality demanded), one operand the identity or within 2^-k of it, q2 = conjugate of q1, q2 = q1; oracle and bounds as quat_*; every case non-trivial"
VP_RANDOM (struct_quat_f, 300000, 6000000, "float: " C05S_QUAT_RULE) { struct_quat_case<float> (c); }
VP_LABELS (struct_quat_f, C05S_LABELS)
VP_REQUIRE_LABELS (struct_quat_f, "lattice", "random", "exact_equality_demanded", "quat_identity_operand", "quat_conjugate_operand", "operands_equal")
VP_RANDOM (struct_quat_d, 300000, 6000000, "double: " C05S_QUAT_RULE) { struct_quat_case<double> (c); }
VP_LABELS (struct_quat_d, C05S_LABELS)
VP_REQUIRE_LABELS (struct_quat_d, "lattice", "random", "exact_equality_demanded", "quat_identity_operand", "quat_conjugate_operand", "operands_equal")

// =========================================================================================
// 8. placement of operands and results in memory
//
// Everything above keeps its operands in free-standing locals, which compilers (and ASan) put on 16- or 32-byte
// boundaries although alignof (M44f) is 4 and alignof (M44d) is 8.  A code change that assumes more than the
// type's alignment (an aligned SSE / AVX load or store of a matrix row, a __builtin_assume_aligned, an 8-byte
// access to two floats), that reads or writes past the end of an operand (a 16-byte access to a Vec3<float>), or
// that dispatches on the address ("aligned path / unaligned path") is invisible there.  The sub-checks of this
// section run EVERY product spelling of sections 1-6 twice, on the same operand values: once on ordinary locals
// and once with both operands and the result object living at addresses that are valid for their type but not
// 16- / 32- / 64-byte aligned, and demand the same bits in every object involved (operands included: the
// compound and in-place spellings modify them, the others must not).  Placements (one kind per case):
//   slab      each object placement-constructed in its own 192-byte slot of a 64-byte aligned buffer, at a byte
//             offset drawn from {4,8,12,20,36,28,44,52,60,16,48,32} (4-byte aligned types) / {8,24,40,56,16,48,32}
//             (8-byte aligned types); the rest of the buffer holds a guard pattern that must survive the call
//   heap_tail each object at such an offset in its own 64-byte aligned heap block that ENDS with the object, so
//             that the sanitizer binary sees any access past the end
//   member    struct { int pad; X a; Y b; R r; } and struct { int pad[3]; R r; X a; Y b; } (64-byte aligned: the
//             members sit at offset 4 / 12 (float) or 8 / 16 (double), adjacent to each other); pads are guards
//   vptr      a polymorphic class { virtual ~; X a; Y b; R r; }: members from offset 8
//   pair      std::pair<int, X>, std::pair<int, Y>, std::pair<int, R>: .second at offset 4 (float) / 8 (double)
// A crash (SIGSEGV on a misaligned movaps) or a sanitizer report (UBSan misaligned load, ASan overflow) ends the
// binary, which the driver reports as a violation; a value difference or a damaged guard byte is a failure with
// key <family>-placement.  The pointers to the placed objects go through an empty asm so that the optimiser cannot
// forward the operand values into the call and skip the memory accesses under test.
// Operand values: the classes of sections 1-6 (lattice / sparse / graded / random); homogeneous coordinate kept
// away from 0 as in section 4.  There is no tolerance: both runs execute the same library code in the same binary.
#include <new>
#include <utility>
#include <cstdlib>
#include <cstring>
#include <cstdint>

enum
{
    LP_SLAB = L_SINGLE_NZ + 1,
    LP_HEAPTAIL,
    LP_MEMBER_PAD1,
    LP_MEMBER_PAD3,
    LP_VPTR,
    LP_PAIR,
    LP_NOT16,     // some object of a call at an address that is not a multiple of 16
    LP_ALL_NOT16, // every object of a call
    LP_16NOT32,   // some object at an odd multiple of 16
    LP_32NOT64,   // some object at an odd multiple of 32
    LP_F_VEC,
    LP_F_QUAT,
    LP_F_MATMUL,
    LP_F_VECMAT,
    LP_F_OUTER,
    LP_F_DET,
    LP_COUNT
};
static_assert (LP_COUNT <= 64, "label ids are bits of a 64-bit mask");
#define C05P_LABELS                                                                                                  \
    C05_LABELS, "placed_slab_offset", "placed_heap_block_tail", "placed_member_after_int", "placed_member_after_3_ints", "placed_member_after_vptr", "placed_pair_second", "some_object_not_16_aligned", "all_objects_not_16_aligned", \
        "some_object_16_not_32_aligned", "some_object_32_not_64_aligned", "family_vec_dot_cross", "family_quat", "family_matrix_x_matrix", "family_vector_x_matrix", "family_outer_transpose_trace", "family_det_minors"

enum
{
    PK_SLAB,
    PK_HEAPTAIL,
    PK_MEMBER1,
    PK_MEMBER3,
    PK_VPTR,
    PK_PAIR,
    PK_COUNT
};
static const char* const PK_NAME[PK_COUNT] = { "slot of a 64-byte aligned buffer", "tail of a 64-byte aligned heap block", "member of struct {int pad; X a; Y b; R r;}", "member of struct {int pad[3]; R r; X a; Y b;}", "member of a polymorphic class {vptr; X a; Y b; R r;}", "second of a std::pair<int, .>" };

template <class X> struct ElemOf
{
    typedef typename X::BaseType type;
};
template <> struct ElemOf<float>
{
    typedef float type;
};
template <> struct ElemOf<double>
{
    typedef double type;
};

static const unsigned char P_OFF4[] = { 4, 8, 12, 20, 36, 28, 44, 52, 60, 16, 48, 32 };
static const unsigned char P_OFF8[] = { 8, 24, 40, 56, 16, 48, 32 };
template <class X> static inline size_t draw_off (vp::Src& s)
{
    if (alignof (X) >= 8) return s.pick (P_OFF8);
    return s.pick (P_OFF4);
}
// the optimiser must not know where the pointer points or what the memory holds
template <class X> static inline X* opaque (X* p)
{
    asm volatile ("" : "+r"(p) : : "memory");
    return p;
}

// A misaligned aligned-load instruction kills the process before any failure can be recorded.  So that the driver's
// "binary aborted" line says where, the call in flight is noted in a thread-local and a handler for the fatal
// signals writes it to stderr (async-signal-safe code only) before the default action takes the process down.
// Not installed under ASan / libFuzzer, which print their own reports from their own handlers.
#if defined(__has_feature)
#if __has_feature(address_sanitizer)
#define C05_HAVE_ASAN 1
#endif
#endif
#if defined(__SANITIZE_ADDRESS__) || defined(VP_FUZZ)
#define C05_HAVE_ASAN 1
#endif
struct PCrumb
{
    const char*   what;  // nullptr: no call of this section in flight
    const char*   key;
    const char*   phase; // which of the two runs (or the release of the heap blocks after the placed one)
    int           kind;
    unsigned long off[3];
};
static thread_local PCrumb p_crumb = { nullptr, nullptr, nullptr, 0, { 0, 0, 0 } };
static const char* const   P_PH_LOCAL  = "in the run on ORDINARY LOCALS (their addresses mod 64 follow) of ";
static const char* const   P_PH_PLACED = "in the run on placed objects of ";
static const char* const   P_PH_FREE   = "while releasing the heap blocks after the run on placed objects of ";
#ifndef C05_HAVE_ASAN
#include <csignal>
#include <unistd.h>
static size_t p_app (char* buf, size_t n, size_t cap, const char* t)
{
    while (*t && n + 1 < cap)
        buf[n++] = *t++;
    return n;
}
static size_t p_app_u (char* buf, size_t n, size_t cap, unsigned long v)
{
    char   d[24];
    size_t k = 0;
    do
    {
        d[k++] = (char) ('0' + v % 10);
        v /= 10;
    } while (v && k < sizeof (d));
    while (k && n + 1 < cap)
        buf[n++] = d[--k];
    return n;
}
static void p_on_fatal_signal (int sig)
{
    // (SA_RESETHAND: the default action is back in place; returning re-executes the faulting instruction)
    if (sig == SIGABRT && !p_crumb.what) return;
    char   buf[900];
    size_t n = 0, cap = sizeof (buf);
    n = p_app (buf, n, cap, "\nC05 placement sub-checks: fatal signal ");
    n = p_app_u (buf, n, cap, (unsigned long) sig);
    if (p_crumb.what)
    {
        n = p_app (buf, n, cap, " [");
        n = p_app (buf, n, cap, p_crumb.key);
        n = p_app (buf, n, cap, "] ");
        n = p_app (buf, n, cap, p_crumb.phase);
        n = p_app (buf, n, cap, p_crumb.what);
        n = p_app (buf, n, cap, " with (left, right, result) each a ");
        n = p_app (buf, n, cap, PK_NAME[p_crumb.kind]);
        n = p_app (buf, n, cap, " at byte offsets (");
        n = p_app_u (buf, n, cap, p_crumb.off[0]);
        n = p_app (buf, n, cap, ", ");
        n = p_app_u (buf, n, cap, p_crumb.off[1]);
        n = p_app (buf, n, cap, ", ");
        n = p_app_u (buf, n, cap, p_crumb.off[2]);
        n = p_app (buf, n, cap, ") from a 64-byte boundary");
    }
    else
        n = p_app (buf, n, cap, " outside a placed call");
    n = p_app (buf, n, cap, "\n");
    if (write (2, buf, n) < 0) {}
}
static struct PSigInit
{
    PSigInit ()
    {
        static const int sigs[] = { SIGSEGV, SIGBUS, SIGILL, SIGFPE, SIGABRT };
        for (size_t i = 0; i < sizeof (sigs) / sizeof (sigs[0]); ++i)
        {
            struct sigaction sa;
            memset (&sa, 0, sizeof (sa));
            sa.sa_handler = p_on_fatal_signal;
            sa.sa_flags   = SA_RESETHAND | SA_NODEFER;
            sigemptyset (&sa.sa_mask);
            sigaction (sigs[i], &sa, nullptr);
        }
    }
} p_sig_init;
#endif
struct PCrumbScope
{
    PCrumb saved;
    PCrumbScope (const char* phase, const char* key, const char* what, int kind, size_t oa, size_t ob, size_t oc) : saved (p_crumb)
    {
        p_crumb.key    = key;
        p_crumb.phase  = phase;
        p_crumb.kind   = kind;
        p_crumb.off[0] = (unsigned long) oa;
        p_crumb.off[1] = (unsigned long) ob;
        p_crumb.off[2] = (unsigned long) oc;
        p_crumb.what   = what;
        asm volatile ("" : : : "memory"); // the note is only read by a signal handler: keep the stores, and keep them before the call
    }
    ~PCrumbScope ()
    {
        asm volatile ("" : : : "memory");
        p_crumb = saved;
        asm volatile ("" : : : "memory");
    }
    PCrumbScope (const PCrumbScope&)            = delete;
    PCrumbScope& operator= (const PCrumbScope&) = delete;
};
#define P_OFF_OF(p, base) ((size_t) ((const char*) (p) - (const char*) (base)))

struct Slab
{
    enum
    {
        SLOT  = 192,
        NSLOT = 3,
        FILL  = 0xC5
    };
    alignas (64) unsigned char b[SLOT * NSLOT];
    size_t lo[NSLOT], hi[NSLOT];
    void   reset ()
    {
        memset (b, FILL, sizeof (b));
        for (int i = 0; i < NSLOT; ++i)
            lo[i] = hi[i] = 0;
    }
    template <class X> X* put (int slot, size_t off, const X& init)
    {
        static_assert (sizeof (X) + 60 <= SLOT, "slot too small");
        lo[slot] = off;
        hi[slot] = off + sizeof (X);
        return new (b + slot * SLOT + off) X (init);
    }
};
struct HeapTail
{
    unsigned char* p;
    explicit HeapTail (size_t n) : p (nullptr)
    {
        void* q = nullptr;
        if (posix_memalign (&q, 64, n) != 0) q = nullptr;
        p = (unsigned char*) q;
    }
    ~HeapTail () { free (p); }
    HeapTail (const HeapTail&)            = delete;
    HeapTail& operator= (const HeapTail&) = delete;
};
template <class X, class Y, class R> struct RecPad1
{
    int pad;
    X   a;
    Y   b;
    R   r;
};
template <class X, class Y, class R> struct RecPad3
{
    int pad[3];
    R   r;
    X   a;
    Y   b;
};
template <class X, class Y, class R> struct RecVptr
{
    virtual ~RecVptr () {}
    X a;
    Y b;
    R r;
};

struct PObj
{
    const void* loc;  // after the call on locals
    const void* pl;   // after the call on placed objects
    size_t      size; // bytes
    int         esz;  // element size (4 float, 8 double)
    size_t      off;  // byte offset from a 64-byte boundary
};
struct PCtx
{
    vp::Ctx& c;
    int      kind;
};
static const char* const P_ROLE[3] = { "left operand", "right operand", "result object" };

[[gnu::noinline, gnu::cold, noreturn]] static void placed_fail (vp::Ctx& c, const char* key, const char* what, int kind, const PObj* o, int which, size_t byte, bool guard)
{
    std::ostringstream m;
    m << std::setprecision (17) << what << " with (left, right, result) each a " << PK_NAME[kind] << " at byte offsets (" << o[0].off << ", " << o[1].off << ", " << o[2].off << ") from a 64-byte boundary: ";
    if (guard)
        m << "a byte outside the three objects was overwritten (" << (which < 0 ? "guard field" : P_ROLE[which]) << " slot, byte " << byte << ")";
    else
    {
        size_t e = byte / (size_t) o[which].esz;
        double vl, vp;
        if (o[which].esz == 4)
        {
            float x, y;
            memcpy (&x, (const char*) o[which].loc + 4 * e, 4);
            memcpy (&y, (const char*) o[which].pl + 4 * e, 4);
            vl = x;
            vp = y;
        }
        else
        {
            memcpy (&vl, (const char*) o[which].loc + 8 * e, 8);
            memcpy (&vp, (const char*) o[which].pl + 8 * e, 8);
        }
        m << P_ROLE[which] << " element " << e << " = " << vp << " (" << hexf (vp) << ") but the same call on ordinary locals gives " << vl << " (" << hexf (vl) << ")";
    }
    std::string k (key);
    if (guard) k += "-overrun";
    c.do_fail (k, m.str ());
}
// compare the three objects of a call bit for bit, check the guard bytes, label the address classes
[[gnu::noinline]] static void placed_verify (vp::Ctx& c, const char* key, const char* what, int kind, const PObj* o, const Slab* slab)
{
    int n16 = 0;
    for (int i = 0; i < 3; ++i)
    {
        if (o[i].off % 16)
            ++n16;
        else if (o[i].off % 32)
            c.label (LP_16NOT32);
        else if (o[i].off % 64)
            c.label (LP_32NOT64);
    }
    if (n16) c.label (LP_NOT16);
    if (n16 == 3) c.label (LP_ALL_NOT16);
    c.nt (n16 > 0);
    for (int i = 0; i < 3; ++i)
    {
        if (memcmp (o[i].loc, o[i].pl, o[i].size) == 0) continue;
        const unsigned char *p = (const unsigned char*) o[i].loc, *q = (const unsigned char*) o[i].pl;
        size_t               k = 0;
        while (p[k] == q[k])
            ++k;
        placed_fail (c, key, what, kind, o, i, k, false);
    }
    if (slab)
        for (int i = 0; i < Slab::NSLOT; ++i)
        {
            const unsigned char* b = slab->b + i * Slab::SLOT;
            for (size_t k = 0; k < Slab::SLOT; ++k)
                if ((k < slab->lo[i] || k >= slab->hi[i]) && b[k] != Slab::FILL) placed_fail (c, key, what, kind, o, i, k, true);
        }
}
#define P_OBJS(X, Y, R, la, lb, lr, pa, pb, pr, base)                                                                \
    PObj o_[3] = { { &la, pa, sizeof (X), (int) sizeof (typename ElemOf<X>::type), (size_t) ((const char*) (pa) - (const char*) (base)) },                \
                   { &lb, pb, sizeof (Y), (int) sizeof (typename ElemOf<Y>::type), (size_t) ((const char*) (pb) - (const char*) (base)) },                \
                   { &lr, pr, sizeof (R), (int) sizeof (typename ElemOf<R>::type), (size_t) ((const char*) (pr) - (const char*) (base)) } }

// run op on copies of (a0, b0, r0) in locals and in the placement of this case; compare
template <class Op, class X, class Y, class R> static void run_placed (PCtx& P, const Op& op, const X& a0, const Y& b0, const R& r0)
{
    vp::Ctx& c = P.c;
    X        la (a0);
    Y        lb (b0);
    R        lr (r0);
    {
        PCrumbScope cs (P_PH_LOCAL, op.key, op.what, P.kind, (size_t) ((uintptr_t) &la % 64), (size_t) ((uintptr_t) &lb % 64), (size_t) ((uintptr_t) &lr % 64));
        op.run (la, lb, lr);
    }
    switch (P.kind)
    {
        case PK_SLAB:
        {
            Slab sl;
            sl.reset ();
            size_t oa = draw_off<X> (c.s);
            size_t ob = draw_off<Y> (c.s);
            size_t oc = draw_off<R> (c.s);
            X*     pa = opaque (sl.put (0, oa, a0));
            Y*     pb = opaque (sl.put (1, ob, b0));
            R*     pr = opaque (sl.put (2, oc, r0));
            {
                PCrumbScope cs (P_PH_PLACED, op.key, op.what, P.kind, oa, ob, oc);
                op.run (*pa, *pb, *pr);
            }
            PObj o_[3] = { { &la, pa, sizeof (X), (int) sizeof (typename ElemOf<X>::type), oa }, { &lb, pb, sizeof (Y), (int) sizeof (typename ElemOf<Y>::type), ob }, { &lr, pr, sizeof (R), (int) sizeof (typename ElemOf<R>::type), oc } };
            placed_verify (c, op.key, op.what, P.kind, o_, &sl);
            break;
        }
        case PK_HEAPTAIL:
        {
            size_t   oa = draw_off<X> (c.s);
            size_t   ob = draw_off<Y> (c.s);
            size_t   oc = draw_off<R> (c.s);
            PCrumbScope cf (P_PH_FREE, op.key, op.what, P.kind, oa, ob, oc); // declared before the blocks: still in place when they are released
            HeapTail    ha (oa + sizeof (X)), hb (ob + sizeof (Y)), hr (oc + sizeof (R));
            if (!ha.p || !hb.p || !hr.p) c.discard ("out of memory");
            X* pa = opaque (new (ha.p + oa) X (a0));
            Y* pb = opaque (new (hb.p + ob) Y (b0));
            R* pr = opaque (new (hr.p + oc) R (r0));
            {
                PCrumbScope cs (P_PH_PLACED, op.key, op.what, P.kind, oa, ob, oc);
                op.run (*pa, *pb, *pr);
            }
            PObj o_[3] = { { &la, pa, sizeof (X), (int) sizeof (typename ElemOf<X>::type), oa }, { &lb, pb, sizeof (Y), (int) sizeof (typename ElemOf<Y>::type), ob }, { &lr, pr, sizeof (R), (int) sizeof (typename ElemOf<R>::type), oc } };
            placed_verify (c, op.key, op.what, P.kind, o_, nullptr);
            break;
        }
        case PK_MEMBER1:
        {
            alignas (64) RecPad1<X, Y, R> rec;
            rec.pad = 0x5A5A5A5A;
            rec.a   = a0;
            rec.b   = b0;
            rec.r   = r0;
            RecPad1<X, Y, R>* q = opaque (&rec);
            {
                PCrumbScope cs (P_PH_PLACED, op.key, op.what, P.kind, P_OFF_OF (&q->a, q), P_OFF_OF (&q->b, q), P_OFF_OF (&q->r, q));
                op.run (q->a, q->b, q->r);
            }
            P_OBJS (X, Y, R, la, lb, lr, &q->a, &q->b, &q->r, q);
            placed_verify (c, op.key, op.what, P.kind, o_, nullptr);
            if (q->pad != 0x5A5A5A5A) placed_fail (c, op.key, op.what, P.kind, o_, -1, 0, true);
            break;
        }
        case PK_MEMBER3:
        {
            alignas (64) RecPad3<X, Y, R> rec;
            rec.pad[0] = rec.pad[1] = rec.pad[2] = 0x5A5A5A5A;
            rec.a                                = a0;
            rec.b                                = b0;
            rec.r                                = r0;
            RecPad3<X, Y, R>* q = opaque (&rec);
            {
                PCrumbScope cs (P_PH_PLACED, op.key, op.what, P.kind, P_OFF_OF (&q->a, q), P_OFF_OF (&q->b, q), P_OFF_OF (&q->r, q));
                op.run (q->a, q->b, q->r);
            }
            P_OBJS (X, Y, R, la, lb, lr, &q->a, &q->b, &q->r, q);
            placed_verify (c, op.key, op.what, P.kind, o_, nullptr);
            if (q->pad[0] != 0x5A5A5A5A || q->pad[1] != 0x5A5A5A5A || q->pad[2] != 0x5A5A5A5A) placed_fail (c, op.key, op.what, P.kind, o_, -1, 0, true);
            break;
        }
        case PK_VPTR:
        {
            alignas (64) RecVptr<X, Y, R> rec;
            rec.a = a0;
            rec.b = b0;
            rec.r = r0;
            RecVptr<X, Y, R>* q = opaque (&rec);
            {
                PCrumbScope cs (P_PH_PLACED, op.key, op.what, P.kind, P_OFF_OF (&q->a, q), P_OFF_OF (&q->b, q), P_OFF_OF (&q->r, q));
                op.run (q->a, q->b, q->r);
            }
            P_OBJS (X, Y, R, la, lb, lr, &q->a, &q->b, &q->r, q);
            placed_verify (c, op.key, op.what, P.kind, o_, nullptr);
            break;
        }
        default:
        {
            alignas (64) std::pair<int, X> xa (0x5A5A5A5A, a0);
            alignas (64) std::pair<int, Y> xb (0x5A5A5A5A, b0);
            alignas (64) std::pair<int, R> xr (0x5A5A5A5A, r0);
            std::pair<int, X>*             qa = opaque (&xa);
            std::pair<int, Y>*             qb = opaque (&xb);
            std::pair<int, R>*             qr = opaque (&xr);
            {
                PCrumbScope cs (P_PH_PLACED, op.key, op.what, P.kind, P_OFF_OF (&qa->second, qa), P_OFF_OF (&qb->second, qb), P_OFF_OF (&qr->second, qr));
                op.run (qa->second, qb->second, qr->second);
            }
            PObj o_[3] = { { &la, &qa->second, sizeof (X), (int) sizeof (typename ElemOf<X>::type), (size_t) ((const char*) &qa->second - (const char*) qa) },
                           { &lb, &qb->second, sizeof (Y), (int) sizeof (typename ElemOf<Y>::type), (size_t) ((const char*) &qb->second - (const char*) qb) },
                           { &lr, &qr->second, sizeof (R), (int) sizeof (typename ElemOf<R>::type), (size_t) ((const char*) &qr->second - (const char*) qr) } };
            placed_verify (c, op.key, op.what, P.kind, o_, nullptr);
            if (qa->first != 0x5A5A5A5A || qb->first != 0x5A5A5A5A || qr->first != 0x5A5A5A5A) placed_fail (c, op.key, op.what, P.kind, o_, -1, 0, true);
            break;
        }
    }
}

// the spellings.  run (a, b, r): a = left operand, b = right operand, r = result object (a scalar where the result is one)
struct OpB
{
    const char* key;
    const char* what;
    OpB (const char* k, const char* w) : key (k), what (w) {}
};
#define P_OP(NAME, BODY)                                                                                             \
    struct NAME : OpB                                                                                                \
    {                                                                                                                \
        NAME (const char* k, const char* w) : OpB (k, w) {}                                                          \
        template <class X, class Y, class R> void run (X& a, Y& b, R& r) const                                       \
        {                                                                                                            \
            (void) a;                                                                                                \
            (void) b;                                                                                                \
            (void) r;                                                                                                \
            BODY;                                                                                                    \
        }                                                                                                            \
    };
P_OP (OpDot, r = a.dot (b))
P_OP (OpHat, r = a ^ b)
P_OP (OpCross, r = a.cross (b))
P_OP (OpMod, r = a % b)
P_OP (OpModEq, a %= b)
P_OP (OpModEqSelf, a %= a)
P_OP (OpMul, r = a * b) // quaternion product, matrix x matrix, vector x matrix
P_OP (OpMulEq, a *= b)
P_OP (OpMulSelf, a *= a)
P_OP (OpMultiply2, r = X::multiply (a, b))
P_OP (OpMultiply3, X::multiply (a, b, r))
P_OP (OpMVM, b.multVecMatrix (a, r))
P_OP (OpMVMSelf, b.multVecMatrix (a, a))
P_OP (OpMDM, b.multDirMatrix (a, r))
P_OP (OpMDMSelf, b.multDirMatrix (a, a))
P_OP (OpOuter, r = outerProduct (a, b))
P_OP (OpTransposed, r = a.transposed ())
P_OP (OpTranspose, a.transpose ())
P_OP (OpTrace, r = a.trace ())
P_OP (OpDet, r = a.determinant ())
struct OpMinorOf : OpB
{
    int i, j;
    OpMinorOf (const char* k, const char* w, int i_, int j_) : OpB (k, w), i (i_), j (j_) {}
    template <class X, class Y, class R> void run (X& a, Y&, R& r) const { r = a.minorOf (i, j); }
};
struct OpFastMinor33 : OpB
{
    int r0, r1, c0, c1;
    OpFastMinor33 (const char* k, const char* w, int a_, int b_, int c_, int d_) : OpB (k, w), r0 (a_), r1 (b_), c0 (c_), c1 (d_) {}
    template <class X, class Y, class R> void run (X& a, Y&, R& r) const { r = a.fastMinor (r0, r1, c0, c1); }
};
struct OpFastMinor44 : OpB
{
    int r0, r1, r2, c0, c1, c2;
    OpFastMinor44 (const char* k, const char* w, const int* rr, const int* cc) : OpB (k, w), r0 (rr[0]), r1 (rr[1]), r2 (rr[2]), c0 (cc[0]), c1 (cc[1]), c2 (cc[2]) {}
    template <class X, class Y, class R> void run (X& a, Y&, R& r) const { r = a.fastMinor (r0, r1, r2, c0, c1, c2); }
};

template <class T> static void place_vec (PCtx& P, int mode)
{
    vp::Ctx& c   = P.c;
    vp::Src& s   = c.s;
    int      dim = 2 + (int) s.below (3);
    T        a[4], b[4];
    gen_arr (s, mode, a, 4);
    gen_arr (s, mode, b, 4);
    const T junk = (T) 9;
    c.label (L_DIM2 + dim - 2);
    VP_NOTE (c, tname<T> () << " Vec" << dim << " a=" << vstr (a, dim) << " b=" << vstr (b, dim));
    if (dim == 2)
    {
        Vec2<T> A (a[0], a[1]), B (b[0], b[1]);
        run_placed (P, OpDot ("vec-dot-placement", "V2 a.dot(b)"), A, B, junk);
        run_placed (P, OpHat ("vec-dot-placement", "V2 a^b"), A, B, junk);
        run_placed (P, OpCross ("vec-cross-placement", "V2 a.cross(b)"), A, B, junk);
        run_placed (P, OpMod ("vec-cross-placement", "V2 a%b"), A, B, junk);
    }
    else if (dim == 3)
    {
        Vec3<T> A (a[0], a[1], a[2]), B (b[0], b[1], b[2]), J (junk, junk, junk);
        run_placed (P, OpDot ("vec-dot-placement", "V3 a.dot(b)"), A, B, junk);
        run_placed (P, OpHat ("vec-dot-placement", "V3 a^b"), A, B, junk);
        run_placed (P, OpCross ("vec-cross-placement", "V3 r=a.cross(b)"), A, B, J);
        run_placed (P, OpMod ("vec-cross-placement", "V3 r=a%b"), A, B, J);
        run_placed (P, OpModEq ("vec-cross-placement", "V3 a%=b"), A, B, J);
        run_placed (P, OpModEqSelf ("vec-cross-placement", "V3 a%=a"), A, B, J);
    }
    else
    {
        Vec4<T> A (a[0], a[1], a[2], a[3]), B (b[0], b[1], b[2], b[3]);
        run_placed (P, OpDot ("vec-dot-placement", "V4 a.dot(b)"), A, B, junk);
        run_placed (P, OpHat ("vec-dot-placement", "V4 a^b"), A, B, junk);
    }
}
template <class T> static void place_quat (PCtx& P, int mode)
{
    vp::Ctx& c = P.c;
    T        p[4], q[4];
    gen_arr (c.s, mode, p, 4);
    gen_arr (c.s, mode, q, 4);
    Quat<T> A (p[0], p[1], p[2], p[3]), B (q[0], q[1], q[2], q[3]), J ((T) 9, (T) 9, (T) 9, (T) 9);
    VP_NOTE (c, tname<T> () << " Quat q1=(r,x,y,z)=" << vstr (p, 4) << " q2=" << vstr (q, 4));
    run_placed (P, OpMul ("quat-product-placement", "Quat r=q1*q2"), A, B, J);
    run_placed (P, OpMulEq ("quat-product-placement", "Quat q1*=q2"), A, B, J);
    run_placed (P, OpMulSelf ("quat-product-placement", "Quat q1*=q1"), A, B, J);
    run_placed (P, OpHat ("quat-product-placement", "Quat q1^q2"), A, B, (T) 9);
}
template <class T, int N> static void place_matmul_dim (PCtx& P, int mode)
{
    typedef typename TY<T, N>::M MT;
    vp::Ctx&                     c = P.c;
    MT                           A, B, J ((T) 7);
    gen_mat<T, N> (c, mode, A);
    gen_mat<T, N> (c, mode, B);
    VP_NOTE (c, tname<T> () << " N=" << N << " A=" << mstr (A, N) << " B=" << mstr (B, N));
    const char* key = N == 2 ? "mat22-multiply-placement" : N == 3 ? "mat33-multiply-placement" : "mat44-multiply-placement";
    run_placed (P, OpMul (key, "Matrix r=A*B"), A, B, J);
    run_placed (P, OpMulEq (key, "Matrix A*=B"), A, B, J);
    run_placed (P, OpMulSelf (key, "Matrix A*=A"), A, B, J);
}
template <class T> static void place_matmul (PCtx& P, int mode)
{
    vp::Ctx& c   = P.c;
    int      dim = 2 + (int) c.s.below (4);
    if (dim > 4) dim = 4;
    c.label (L_DIM2 + dim - 2);
    if (dim == 2)
        place_matmul_dim<T, 2> (P, mode);
    else if (dim == 3)
        place_matmul_dim<T, 3> (P, mode);
    else
    {
        place_matmul_dim<T, 4> (P, mode);
        Matrix44<T> A, B, J ((T) 7);
        gen_mat<T, 4> (c, mode, A);
        gen_mat<T, 4> (c, mode, B);
        VP_NOTE (c, "multiply: A=" << mstr (A, 4) << " B=" << mstr (B, 4));
        run_placed (P, OpMultiply2 ("mat44-multiply-placement", "Matrix44 r=multiply(A,B)"), A, B, J);
        run_placed (P, OpMultiply3 ("mat44-multiply-placement", "Matrix44 multiply(A,B,r)"), A, B, J);
    }
}
template <class S, class T> static void place_vecmat (PCtx& P, int mode)
{
    vp::Ctx& c     = P.c;
    vp::Src& s     = c.s;
    int      combo = (int) s.below (6); // 0 V2xM22, 1 V2xM33, 2 V3xM33, 3 and 5 V3xM44, 4 V4xM44
    if (combo == 5) combo = 3;
    bool    lat = mode == M_LATTICE;
    S       v[4];
    const S j = (S) 9;
    switch (combo)
    {
        case 0:
        {
            c.label (L_DIM2);
            Matrix22<T> m;
            gen_mat<T, 2> (c, mode, m);
            gen_arr (s, mode, v, 2);
            VP_NOTE (c, "V2<" << tname<S> () << "> x M22<" << tname<T> () << "> v=" << vstr (v, 2) << " m=" << mstr (m, 2));
            Vec2<S> V (v[0], v[1]), J (j, j);
            run_placed (P, OpMul ("v2m22-placement", "r=V2*M22"), V, m, J);
            run_placed (P, OpMulEq ("v2m22-placement", "V2*=M22"), V, m, J);
            run_placed (P, OpMDM ("v2m22-placement", "M22.multDirMatrix(v,r)"), V, m, J);
            run_placed (P, OpMDMSelf ("v2m22-placement", "M22.multDirMatrix(v,v)"), V, m, J);
            break;
        }
        case 1:
        {
            c.label (L_DIM3);
            Matrix33<T> m;
            gen_mat<T, 3> (c, mode, m);
            gen_arr (s, mode, v, 2);
            fix_w<S, T, 2> (c, v, m, lat);
            VP_NOTE (c, "V2<" << tname<S> () << "> x M33<" << tname<T> () << "> v=" << vstr (v, 2) << " m=" << mstr (m, 3));
            Vec2<S> V (v[0], v[1]), J (j, j);
            run_placed (P, OpMul ("v2m33-placement", "r=V2*M33"), V, m, J);
            run_placed (P, OpMulEq ("v2m33-placement", "V2*=M33"), V, m, J);
            run_placed (P, OpMVM ("v2m33-placement", "M33.multVecMatrix(v,r)"), V, m, J);
            run_placed (P, OpMVMSelf ("v2m33-placement", "M33.multVecMatrix(v,v)"), V, m, J);
            run_placed (P, OpMDM ("v2m33-placement", "M33.multDirMatrix(v,r)"), V, m, J);
            run_placed (P, OpMDMSelf ("v2m33-placement", "M33.multDirMatrix(v,v)"), V, m, J);
            break;
        }
        case 2:
        {
            c.label (L_DIM3);
            Matrix33<T> m;
            gen_mat<T, 3> (c, mode, m);
            gen_arr (s, mode, v, 3);
            VP_NOTE (c, "V3<" << tname<S> () << "> x M33<" << tname<T> () << "> v=" << vstr (v, 3) << " m=" << mstr (m, 3));
            Vec3<S> V (v[0], v[1], v[2]), J (j, j, j);
            run_placed (P, OpMul ("v3m33-placement", "r=V3*M33"), V, m, J);
            run_placed (P, OpMulEq ("v3m33-placement", "V3*=M33"), V, m, J);
            break;
        }
        case 3:
        {
            c.label (L_DIM4);
            Matrix44<T> m;
            gen_mat<T, 4> (c, mode, m);
            gen_arr (s, mode, v, 3);
            fix_w<S, T, 3> (c, v, m, lat);
            VP_NOTE (c, "V3<" << tname<S> () << "> x M44<" << tname<T> () << "> v=" << vstr (v, 3) << " m=" << mstr (m, 4));
            Vec3<S> V (v[0], v[1], v[2]), J (j, j, j);
            run_placed (P, OpMul ("v3m44-placement", "r=V3*M44"), V, m, J);
            run_placed (P, OpMulEq ("v3m44-placement", "V3*=M44"), V, m, J);
            run_placed (P, OpMVM ("v3m44-placement", "M44.multVecMatrix(v,r)"), V, m, J);
            run_placed (P, OpMVMSelf ("v3m44-placement", "M44.multVecMatrix(v,v)"), V, m, J);
            run_placed (P, OpMDM ("v3m44-placement", "M44.multDirMatrix(v,r)"), V, m, J);
            run_placed (P, OpMDMSelf ("v3m44-placement", "M44.multDirMatrix(v,v)"), V, m, J);
            break;
        }
        default:
        {
            c.label (L_DIM4);
            Matrix44<T> m;
            gen_mat<T, 4> (c, mode, m);
            gen_arr (s, mode, v, 4);
            VP_NOTE (c, "V4<" << tname<S> () << "> x M44<" << tname<T> () << "> v=" << vstr (v, 4) << " m=" << mstr (m, 4));
            Vec4<S> V (v[0], v[1], v[2], v[3]), J (j, j, j, j);
            run_placed (P, OpMul ("v4m44-placement", "r=V4*M44"), V, m, J);
            run_placed (P, OpMulEq ("v4m44-placement", "V4*=M44"), V, m, J);
            break;
        }
    }
}
template <class T, int N> static void place_ttt_dim (PCtx& P, int mode)
{
    typedef typename TY<T, N>::M MT;
    vp::Ctx&                     c = P.c;
    MT                           A, J ((T) 7);
    gen_mat<T, N> (c, mode, A);
    VP_NOTE (c, tname<T> () << " N=" << N << " A=" << mstr (A, N));
    const T     junk = (T) 9;
    const char* tkey = N == 2 ? "mat22-transpose-placement" : N == 3 ? "mat33-transpose-placement" : "mat44-transpose-placement";
    run_placed (P, OpTransposed (tkey, "Matrix r=A.transposed()"), A, junk, J);
    run_placed (P, OpTranspose (tkey, "Matrix A.transpose()"), A, junk, J);
    run_placed (P, OpTrace (N == 2 ? "mat22-trace-placement" : N == 3 ? "mat33-trace-placement" : "mat44-trace-placement", "Matrix A.trace()"), A, junk, junk);
}
template <class T> static void place_outer (PCtx& P, int mode)
{
    vp::Ctx& c   = P.c;
    vp::Src& s   = c.s;
    int      dim = 2 + (int) s.below (3);
    c.label (L_DIM2 + dim - 2);
    if (dim == 2)
        place_ttt_dim<T, 2> (P, mode);
    else if (dim == 3)
        place_ttt_dim<T, 3> (P, mode);
    else
        place_ttt_dim<T, 4> (P, mode);
    T a[4], b[4];
    gen_arr (s, mode, a, 4);
    gen_arr (s, mode, b, 4);
    VP_NOTE (c, "outerProduct a=" << vstr (a, 4) << " b=" << vstr (b, 4));
    if (dim <= 3)
    {
        Vec3<T>     A (a[0], a[1], a[2]), B (b[0], b[1], b[2]);
        Matrix33<T> J ((T) 7);
        run_placed (P, OpOuter ("outer33-placement", "outerProduct(V3,V3)"), A, B, J);
    }
    else
    {
        Vec4<T>     A (a[0], a[1], a[2], a[3]), B (b[0], b[1], b[2], b[3]);
        Matrix44<T> J ((T) 7);
        run_placed (P, OpOuter ("outer44-placement", "outerProduct(V4,V4)"), A, B, J);
    }
}
template <class T> static void place_det (PCtx& P, int mode)
{
    vp::Ctx& c   = P.c;
    vp::Src& s   = c.s;
    int      dim = 2 + (int) s.below (4);
    if (dim > 4) dim = 4;
    c.label (L_DIM2 + dim - 2);
    const T junk = (T) 9;
    if (dim == 2)
    {
        Matrix22<T> A;
        gen_mat<T, 2> (c, mode, A, DET_GE (T));
        VP_NOTE (c, tname<T> () << " N=2 A=" << mstr (A, 2));
        run_placed (P, OpDet ("det22-placement", "Matrix22.determinant()"), A, junk, junk);
    }
    else if (dim == 3)
    {
        Matrix33<T> A;
        gen_mat<T, 3> (c, mode, A, DET_GE (T));
        VP_NOTE (c, tname<T> () << " N=3 A=" << mstr (A, 3));
        run_placed (P, OpDet ("det33-placement", "Matrix33.determinant()"), A, junk, junk);
        int i  = (int) s.below (3);
        int j  = (int) s.below (3);
        run_placed (P, OpMinorOf ("minorOf33-placement", "Matrix33.minorOf(i,j)", i, j), A, junk, junk);
        int r0 = (int) s.below (3);
        int r1 = (int) s.below (3);
        int c0 = (int) s.below (3);
        int c1 = (int) s.below (3);
        run_placed (P, OpFastMinor33 ("fastMinor33-placement", "Matrix33.fastMinor(r0,r1,c0,c1)", r0, r1, c0, c1), A, junk, junk);
    }
    else
    {
        Matrix44<T> A;
        gen_mat<T, 4> (c, mode, A, DET_GE (T));
        VP_NOTE (c, tname<T> () << " N=4 A=" << mstr (A, 4));
        det_labels44<T> (c, A);
        run_placed (P, OpDet ("det44-placement", "Matrix44.determinant()"), A, junk, junk);
        int i = (int) s.below (4);
        int j = (int) s.below (4);
        run_placed (P, OpMinorOf ("minorOf44-placement", "Matrix44.minorOf(i,j)", i, j), A, junk, junk);
        int rr[3], cc[3];
        for (int k = 0; k < 3; ++k)
        {
            rr[k] = (int) s.below (4);
            cc[k] = (int) s.below (4);
        }
        run_placed (P, OpFastMinor44 ("fastMinor44-placement", "Matrix44.fastMinor(r0,r1,r2,c0,c1,c2)", rr, cc), A, junk, junk);
    }
}

enum
{
    PF_VEC,
    PF_QUAT,
    PF_MATMUL,
    PF_VECMAT,
    PF_OUTER,
    PF_DET
};
template <class S, class T> static void place_case (vp::Ctx& c, bool vecmat_only)
{
    vp::Src&         s      = c.s;
    int              mode   = pick_mode (s);
    int              kind   = (int) s.below (PK_COUNT);
    static const int tab[8] = { PF_VECMAT, PF_VECMAT, PF_VECMAT, PF_MATMUL, PF_VEC, PF_QUAT, PF_OUTER, PF_DET };
    int              fam    = tab[s.below (8)];
    if (vecmat_only) fam = PF_VECMAT;
    mode_label (c, mode);
    c.label (LP_SLAB + kind);
    c.label (LP_F_VEC + fam);
    PCtx P = { c, kind };
    VP_NOTE (c, "placement: " << PK_NAME[kind] << "; " << mode_name (mode));
    switch (fam)
    {
        case PF_VEC: place_vec<T> (P, mode); break;
        case PF_QUAT: place_quat<T> (P, mode); break;
        case PF_MATMUL: place_matmul<T> (P, mode); break;
        case PF_VECMAT: place_vecmat<S, T> (P, mode); break;
        case PF_OUTER: place_outer<T> (P, mode); break;
        default: place_det<T> (P, mode); break;
    }
}
#define C05P_RULE "every spelling run on ordinary locals and on operands + result object placed at addresses valid for the type but not 16/32/64-byte aligned: own slot of a 64-byte aligned buffer at offset {4,8,12,20,36,28,44,52,60,16,48,32} (float types) / {8,24,40,56,16,48,32} (double types) with guard bytes, tail of a heap block, members of struct{int pad; X a; Y b; R r;} / struct{int pad[3]; R r; X a; Y b;} / a polymorphic class / std::pair<int,.>; all three objects bit-identical to the run on locals, guard bytes intact (a crash or sanitizer report ends the binary = violation); operand values as in sections 1-6; non-trivial = some object of a call not 16-byte aligned"
#define C05P_REQ "lattice", "sparse", "graded", "random", "placed_slab_offset", "placed_heap_block_tail", "placed_member_after_int", "placed_member_after_3_ints", "placed_member_after_vptr", "placed_pair_second", "some_object_not_16_aligned", "all_objects_not_16_aligned", "some_object_16_not_32_aligned", "some_object_32_not_64_aligned", "dim2", "dim3", "dim4"
#define C05P_REQ_ALL C05P_REQ, "family_vec_dot_cross", "family_quat", "family_matrix_x_matrix", "family_vector_x_matrix", "family_outer_transpose_trace", "family_det_minors"
VP_RANDOM (place_f, 1500000, 30000000, "float: V2/3/4 dot,^,cross,%,%=; Quat *,*=,^; M22/33/44 *,*=,A*=A, M44::multiply 2-/3-argument; VxM *,*=,multVecMatrix,multDirMatrix (5 combinations, src==dst); outerProduct, transposed, transpose, trace; determinant, minorOf, fastMinor: " C05P_RULE) { place_case<float, float> (c, false); }
VP_LABELS (place_f, C05P_LABELS)
VP_REQUIRE_LABELS (place_f, C05P_REQ_ALL)
VP_RANDOM (place_d, 1500000, 30000000, "double: V2/3/4 dot,^,cross,%,%=; Quat *,*=,^; M22/33/44 *,*=,A*=A, M44::multiply 2-/3-argument; VxM *,*=,multVecMatrix,multDirMatrix (5 combinations, src==dst); outerProduct, transposed, transpose, trace; determinant, minorOf, fastMinor: " C05P_RULE) { place_case<double, double> (c, false); }
VP_LABELS (place_d, C05P_LABELS)
VP_REQUIRE_LABELS (place_d, C05P_REQ_ALL)
VP_RANDOM (place_fd, 500000, 10000000, "float vector x double matrix, *,*=,multVecMatrix,multDirMatrix (5 combinations, src==dst): " C05P_RULE) { place_case<float, double> (c, true); }
VP_LABELS (place_fd, C05P_LABELS)
VP_REQUIRE_LABELS (place_fd, C05P_REQ, "family_vector_x_matrix")
VP_RANDOM (place_df, 500000, 10000000, "double vector x float matrix, *,*=,multVecMatrix,multDirMatrix (5 combinations, src==dst): " C05P_RULE) { place_case<double, float> (c, true); }
VP_LABELS (place_df, C05P_LABELS)
VP_REQUIRE_LABELS (place_df, C05P_REQ, "family_vector_x_matrix")


VP_MAIN ("C05")
