// C01: float<->half conversion is exact IEEE-754 binary16, round-to-nearest-even.
// Exhaustive over all 2^16 half patterns and all 2^32 float patterns, against
// an independent by-value codec (oracles.h), itself cross-checked against a
// structurally different nearest-neighbour search codec.
#include "vpbt.h"
#include "oracles.h"
#include <half.h>
#include <cfenv>
#if defined(__SSE2__)
#    include <xmmintrin.h>
#    include <pmmintrin.h>
#endif

extern "C" void     c01_fpexc_f2h_block (uint32_t hi, uint16_t* out);
extern "C" uint32_t c01_fpexc_h2f (uint16_t h);
extern "C" int      c01_fpexc_flags (uint32_t u, uint16_t* out);

using namespace orc;
using IMATH_NAMESPACE::half;

enum
{
    L_TIE_NORMAL,
    L_TIE_SUBNORMAL,
    L_OVERFLOW,
    L_FLUSH,
    L_NAN,
    L_SUBNORMAL_RESULT,
    L_ROUNDED,
    L_EXACT
};

// ---------------------------------------------------------------------------
VP_EXHAUSTIVE (h2f_all, 65536, 65536, "every half bit pattern; non-trivial = subnormal, inf or NaN pattern (anything but zero/normal)")
{
    uint16_t h    = (uint16_t) idx;
    uint32_t want = ref_h2f_bits (h);
    uint32_t got  = f2u (imath_half_to_float (h));
    VP_NOTE (c, "half=0x" << std::hex << h << " expect float bits 0x" << want);
    int e = (h >> 10) & 31, m = h & 0x3ff;
    if (e == 31 && m) c.label (L_NAN);
    if (e == 0 && m) c.label (L_SUBNORMAL_RESULT);
    c.nt (e == 31 || (e == 0 && m));
    VP_REQUIRE (c, got == want, "h2f-c-function", "imath_half_to_float(0x" << std::hex << h << ") = 0x" << got << " expected 0x" << want);
    half hh;
    hh.setBits (h);
    uint32_t got2 = f2u ((float) hh);
    VP_REQUIRE (c, got2 == want, "h2f-class-cast", "float(half 0x" << std::hex << h << ") = 0x" << got2 << " expected 0x" << want);
    uint32_t got3 = f2u (hh.operator float ());
    VP_REQUIRE (c, got3 == want, "h2f-class-cast", "half::operator float 0x" << std::hex << h << " = 0x" << got3);
    // value semantics: sign, zero, inf, NaN
    float f = u2f (got);
    if (e == 31 && m)
        VP_REQUIRE (c, f != f && ((got >> 31) == (uint32_t) (h >> 15)) && ((got >> 13) & 0x3ff) == (uint32_t) m, "h2f-nan", "NaN sign/payload lost for 0x" << std::hex << h << " -> 0x" << got);
    else if (e == 31)
        VP_REQUIRE (c, std::isinf (f) && std::signbit (f) == (bool) (h >> 15), "h2f-inf", "inf wrong for 0x" << std::hex << h);
    else if (e == 0 && m == 0)
        VP_REQUIRE (c, f == 0 && std::signbit (f) == (bool) (h >> 15), "h2f-zero", "zero wrong for 0x" << std::hex << h);
}
VP_LABELS (h2f_all, "tie_normal", "tie_subnormal", "overflow", "flush", "nan", "subnormal", "rounded", "exact")

// ---------------------------------------------------------------------------
// one index = one block of 2^16 consecutive float patterns
static inline void classify_f2h (uint32_t u, uint16_t want, uint64_t* lab, uint64_t& nontriv)
{
    uint32_t mag = u & 0x7fffffffu;
    if (mag > 0x7f800000u)
    {
        lab[L_NAN]++;
        nontriv++;
        return;
    }
    if (mag == 0x7f800000u) return;
    if (mag == 0) return;
    // exact?
    uint32_t back = ref_h2f_bits (want);
    if (back == u)
    {
        lab[L_EXACT]++;
        if ((want & 0x7c00) == 0)
        {
            lab[L_SUBNORMAL_RESULT]++;
            nontriv++;
        }
        return;
    }
    nontriv++;
    lab[L_ROUNDED]++;
    if (mag >= 0x477ff000u)
        lab[L_OVERFLOW]++; // >= 65520
    else if (mag <= 0x33000000u)
        lab[L_FLUSH]++; // <= 2^-25
    else
    {
        if ((want & 0x7c00) == 0 || (want & 0x7fff) == 0x0400) lab[L_SUBNORMAL_RESULT]++;
        // tie: exactly half-way between two halfs
        if (mag >= 0x38800000u)
        {
            if ((mag & 0x1fff) == 0x1000) lab[L_TIE_NORMAL]++;
        }
        else
        {
            int      e     = mag >> 23;
            int      shift = 126 - e; // number of dropped bits
            uint32_t mm    = 0x800000 | (mag & 0x7fffff);
            if (shift >= 1 && shift <= 24 && (mm & ((1u << shift) - 1)) == (1u << (shift - 1))) lab[L_TIE_SUBNORMAL]++;
        }
    }
}

VP_EXHAUSTIVE (f2h_all, 65536, 65536, "every float bit pattern (index = block of 2^16 patterns sharing the high 16 bits); non-trivial = needs rounding, subnormal result, overflow, flush or NaN")
{
    uint32_t hi = (uint32_t) idx << 16;
    uint64_t lab[64];
    memset (lab, 0, sizeof lab);
    uint64_t nontriv = 0;
    VP_NOTE (c, "float patterns 0x" << std::hex << hi << "..0x" << (hi | 0xffff) << " e.g. 0x" << (hi | 0x1000) << " -> half 0x" << ref_f2h_bits (hi | 0x1000));
    for (uint32_t lo = 0; lo < 65536; ++lo)
    {
        uint32_t u    = hi | lo;
        uint16_t want = ref_f2h_bits (u);
        float    f    = u2f (u);
        uint16_t got  = imath_float_to_half (f);
        if (got != want) VP_FAIL (c, "f2h-c-function", "imath_float_to_half(0x" << std::hex << u << ") = 0x" << got << " expected 0x" << want);
        half     hh (f);
        uint16_t got2 = hh.bits ();
        if (got2 != want) VP_FAIL (c, "f2h-class-ctor", "half(float 0x" << std::hex << u << ").bits() = 0x" << got2 << " expected 0x" << want);
        classify_f2h (u, want, lab, nontriv);
    }
    c.bulk (65536, nontriv);
    for (int l = 0; l < 8; ++l)
        if (lab[l]) c.bulk_label (l, lab[l]);
}
VP_LABELS (f2h_all, "tie_normal", "tie_subnormal", "overflow", "flush", "nan", "subnormal", "rounded", "exact")
VP_REQUIRE_LABELS (f2h_all, "tie_normal", "tie_subnormal", "overflow", "flush", "nan", "subnormal")

// half = assignment from float, and round trip
VP_EXHAUSTIVE (roundtrip_all, 65536, 65536, "every half pattern: half->float->half identity for non-NaN via C functions, constructor and assignment; non-trivial = subnormal/inf/negative zero")
{
    uint16_t h = (uint16_t) idx;
    int      e = (h >> 10) & 31, m = h & 0x3ff;
    VP_NOTE (c, "half=0x" << std::hex << h);
    float    f    = imath_half_to_float (h);
    uint16_t back = imath_float_to_half (f);
    bool     nan  = (e == 31 && m);
    c.nt (e == 31 || e == 0);
    if (!nan)
    {
        VP_REQUIRE (c, back == h, "roundtrip-c", "f2h(h2f(0x" << std::hex << h << ")) = 0x" << back);
        half a;
        a.setBits (h);
        half b ((float) a);
        VP_REQUIRE (c, b.bits () == h, "roundtrip-class", "half(float(half 0x" << std::hex << h << ")) = 0x" << b.bits ());
        half d;
        d = (float) a;
        VP_REQUIRE (c, d.bits () == h, "roundtrip-assign", "half = float(half 0x" << std::hex << h << ") = 0x" << d.bits ());
        half e2 (a);
        VP_REQUIRE (c, e2.bits () == h, "roundtrip-copy", "copy changes bits");
    }
    else
    {
        // NaN: sign and payload preserved through the software path (payload has top-ten bits = m, nonzero)
        VP_REQUIRE (c, back == h, "roundtrip-nan", "f2h(h2f(NaN 0x" << std::hex << h << ")) = 0x" << back);
    }
}

// half = float over previous contents: the assignment is a float->half conversion and may not depend on what the
// destination held before (a zero of the other sign, the same value, the negated value, infinities, NaNs, junk)
VP_EXHAUSTIVE (assign_over_previous_contents, 65536, 65536, "index i: the float value of half pattern i, the float patterns i<<16, i<<16|0x1000 and i<<16|0xffff, each assigned (half::operator=(float)) to destinations preset to 0x0000, 0x8000, the expected result, the expected result with the sign flipped, +-inf, NaNs 0x7e00 / 0xffff, +-smallest subnormal, 0x3c00 and a hash of i; the bits must equal the independent codec's result every time; non-trivial = expected result is a zero, subnormal, infinity or NaN")
{
    uint16_t h = (uint16_t) idx;
    uint32_t us[4];
    us[0] = f2u (imath_half_to_float (h));
    us[1] = (uint32_t) idx << 16;
    us[2] = ((uint32_t) idx << 16) | 0x1000;
    us[3] = ((uint32_t) idx << 16) | 0xffff;
    VP_NOTE (c, "index 0x" << std::hex << idx << ": floats 0x" << us[0] << " 0x" << us[1] << " 0x" << us[2] << " 0x" << us[3]);
    bool nt = false;
    for (int k = 0; k < 4; ++k)
    {
        uint32_t u    = us[k];
        uint16_t want = ref_f2h_bits (u);
        float    f    = u2f (u);
        int      e    = (want >> 10) & 31;
        if (e == 0 || e == 31) nt = true;
        const uint16_t prevs[12] = { 0x0000, 0x8000, want, (uint16_t) (want ^ 0x8000), 0x7c00, 0xfc00, 0x7e00, 0xffff, 0x0001, 0x8001, 0x3c00, (uint16_t) (idx * 40503u + 12345u) };
        for (int j = 0; j < 12; ++j)
        {
            half d;
            d.setBits (prevs[j]);
            half* p = &(d = f);
            VP_REQUIRE (c, p == &d && d.bits () == want, "assign-float-over-previous", "half holding 0x" << std::hex << prevs[j] << " = float 0x" << u << " gives 0x" << d.bits () << " expected 0x" << want);
        }
    }
    c.nt (nt);
}

// cross-validate the two reference codecs on a stratified subset: for each of the 2^16 high halves,
// 256 low patterns incl. the tie and its neighbours
VP_EXHAUSTIVE (oracle_crosscheck, 65536, 65536, "oracle-vs-oracle: by-value codec vs nearest-neighbour search codec on 2^16 blocks x 320 stratified low words")
{
    static const HalfTable T;
    uint32_t               hi = (uint32_t) idx << 16;
    uint64_t               n  = 0;
    for (uint32_t k = 0; k < 320; ++k)
    {
        uint32_t lo;
        if (k < 256)
            lo = (k * 257u) & 0xffff;
        else
        {
            static const uint32_t sp[] = { 0x0fff, 0x1000, 0x1001, 0x2fff, 0x3000, 0x3001, 0xefff, 0xf000, 0xf001, 0xffff, 0x0001, 0x7fff, 0x8000, 0x8001 };
            lo = sp[(k - 256) % 14] ^ (((k - 256) / 14) << 13 & 0xe000);
        }
        uint32_t u   = hi | lo;
        uint32_t mag = u & 0x7fffffff;
        if (mag >= 0x7f800000u) continue;
        uint16_t a = ref_f2h_bits (mag);
        uint16_t b = T.nearest ((double) u2f (mag));
        ++n;
        if (a != b) VP_FAIL (c, "oracle-disagreement", "reference codecs disagree on 0x" << std::hex << mag << ": 0x" << a << " vs 0x" << b);
    }
    VP_NOTE (c, "block 0x" << std::hex << hi);
    c.bulk (n, n);
}

// ---------------------------------------------------------------------------
// The conversions are integer algorithms: the result must not depend on the thread's floating-point environment.
// Modes: the three non-default rounding directions and (x86) flush-to-zero + denormals-are-zero.
struct FpMode
{
    int   id; // 0 upward, 1 downward, 2 toward zero, 3 FTZ+DAZ
    int   old_round;
#if defined(__SSE2__)
    unsigned old_csr;
#endif
    explicit FpMode (int m) : id (m)
    {
        old_round = fegetround ();
#if defined(__SSE2__)
        old_csr = _mm_getcsr ();
#endif
        switch (m)
        {
            case 0: fesetround (FE_UPWARD); break;
            case 1: fesetround (FE_DOWNWARD); break;
            case 2: fesetround (FE_TOWARDZERO); break;
            default:
#if defined(__SSE2__)
                _MM_SET_FLUSH_ZERO_MODE (_MM_FLUSH_ZERO_ON);
                _MM_SET_DENORMALS_ZERO_MODE (_MM_DENORMALS_ZERO_ON);
#endif
                break;
        }
    }
    ~FpMode ()
    {
#if defined(__SSE2__)
        _mm_setcsr (old_csr);
#endif
        fesetround (old_round);
    }
};
static const char* FPMODE[] = { "FE_UPWARD", "FE_DOWNWARD", "FE_TOWARDZERO", "FTZ+DAZ" };

static inline bool fenv_interesting_block (uint32_t hi16)
{
    uint32_t m = hi16 & 0x7fff;
    return (m >= 0x3200 && m <= 0x3900) || (m >= 0x4700 && m <= 0x4800) || m <= 0x0080 || m >= 0x7f00;
}

VP_EXHAUSTIVE (f2h_fp_environment, 65536, 65536, "every float bit pattern converted while the calling thread's floating-point environment is non-default: rounding direction FE_UPWARD / FE_DOWNWARD / FE_TOWARDZERO and (x86) flush-to-zero + denormals-are-zero; blocks whose results are subnormal, near the overflow threshold, float-subnormal or NaN run in all 4 modes, the others in one rotating mode (thorough: every block in all 4); C function and class constructor; results compared after the environment is restored; non-trivial = as in f2h_all")
{
    uint32_t hi = (uint32_t) idx << 16;
    static thread_local std::vector<uint16_t> a (65536), b (65536);
    bool     all = vp::thorough_flag () || fenv_interesting_block ((uint32_t) idx);
    uint64_t evals = 0, nontriv = 0, lab[64];
    memset (lab, 0, sizeof lab);
    VP_NOTE (c, "float patterns 0x" << std::hex << hi << "..0x" << (hi | 0xffff) << (all ? " in all 4 environments" : " in one environment"));
    for (int m = 0; m < 4; ++m)
    {
        if (!all && m != (int) (idx & 3)) continue;
        {
            FpMode guard (m);
            for (uint32_t lo = 0; lo < 65536; ++lo)
            {
                float f = u2f (hi | lo);
                a[lo]   = imath_float_to_half (f);
                half hh (f);
                b[lo] = hh.bits ();
            }
        }
        for (uint32_t lo = 0; lo < 65536; ++lo)
        {
            uint32_t u    = hi | lo;
            uint16_t want = ref_f2h_bits (u);
            if (a[lo] != want) VP_FAIL (c, "f2h-fp-environment/c-function", "under " << FPMODE[m] << " imath_float_to_half(0x" << std::hex << u << ") = 0x" << a[lo] << " expected 0x" << want);
            if (b[lo] != want) VP_FAIL (c, "f2h-fp-environment/class-ctor", "under " << FPMODE[m] << " half(float 0x" << std::hex << u << ").bits() = 0x" << b[lo] << " expected 0x" << want);
            if (m == 0 || !all) classify_f2h (u, want, lab, nontriv);
        }
        evals += 65536;
        c.bulk_label (8 + m, 65536);
    }
    c.bulk (evals, all ? nontriv * 4 : nontriv);
    for (int l = 0; l < 8; ++l)
        if (lab[l]) c.bulk_label (l, lab[l]);
}
VP_LABELS (f2h_fp_environment, "tie_normal", "tie_subnormal", "overflow", "flush", "nan", "subnormal", "rounded", "exact", "FE_UPWARD", "FE_DOWNWARD", "FE_TOWARDZERO", "FTZ+DAZ")
VP_REQUIRE_LABELS (f2h_fp_environment, "tie_normal", "tie_subnormal", "overflow", "flush", "nan", "subnormal", "FE_UPWARD", "FE_DOWNWARD", "FE_TOWARDZERO", "FTZ+DAZ")

VP_EXHAUSTIVE (h2f_fp_environment, 65536, 65536, "every half bit pattern converted to float (C function and cast) under the same 4 non-default floating-point environments; non-trivial = subnormal, inf or NaN pattern")
{
    uint16_t h    = (uint16_t) idx;
    uint32_t want = ref_h2f_bits (h);
    uint32_t g1[4], g2[4];
    half     hh;
    hh.setBits (h);
    for (int m = 0; m < 4; ++m)
    {
        FpMode guard (m);
        g1[m] = f2u (imath_half_to_float (h));
        g2[m] = f2u ((float) hh);
    }
    int e = (h >> 10) & 31, mm = h & 0x3ff;
    c.nt (e == 31 || (e == 0 && mm));
    VP_NOTE (c, "half=0x" << std::hex << h << " expect float bits 0x" << want << " in every environment");
    for (int m = 0; m < 4; ++m)
    {
        VP_REQUIRE (c, g1[m] == want, "h2f-fp-environment/c-function", "under " << FPMODE[m] << " imath_half_to_float(0x" << std::hex << h << ") = 0x" << g1[m] << " expected 0x" << want);
        VP_REQUIRE (c, g2[m] == want, "h2f-fp-environment/class-cast", "under " << FPMODE[m] << " float(half 0x" << std::hex << h << ") = 0x" << g2[m] << " expected 0x" << want);
    }
}

// ---------------------------------------------------------------------------
// The documented IMATH_HALF_ENABLE_FP_EXCEPTIONS configuration (second TU): same bits for every input; and the
// (which exception flags it raises is not part of the statement and is not asserted: a bit-equivalent change of a
// threshold moves an input from the flush branch to the rounding branch and with it the flag).
VP_EXHAUSTIVE (f2h_fp_exceptions_config, 65536, 65536, "float bit patterns (quick: the blocks around the overflow and flush thresholds, subnormal results, float subnormals, NaNs, and every 4th other block = 1.1e9 patterns; thorough: all 2^32) through imath_float_to_half compiled with IMATH_HALF_ENABLE_FP_EXCEPTIONS defined (separate translation unit), compared with the oracle; plus, per block, 40 patterns (boundaries of the overflow / flush thresholds and a stride) converted one by one with the exception flags cleared before and after; half->float of the block index in that configuration; non-trivial = as in f2h_all")
{
    uint32_t hi = (uint32_t) idx << 16;
    static thread_local std::vector<uint16_t> a (65536);
    // quick tier: threshold / subnormal / NaN blocks and every 4th other block (feraiseexcept on every overflowing or
    // flushed input makes this configuration ~10x slower than the default one); thorough: every block
    if (!vp::thorough_flag () && !fenv_interesting_block ((uint32_t) idx) && (idx & 3) != 1)
    {
        c.bulk (0, 0);
        return;
    }
    c01_fpexc_f2h_block (hi, a.data ());
    uint64_t lab[64], nontriv = 0;
    memset (lab, 0, sizeof lab);
    VP_NOTE (c, "float patterns 0x" << std::hex << hi << "..0x" << (hi | 0xffff) << " (FP-exceptions configuration)");
    for (uint32_t lo = 0; lo < 65536; ++lo)
    {
        uint32_t u    = hi | lo;
        uint16_t want = ref_f2h_bits (u);
        if (a[lo] != want) VP_FAIL (c, "f2h-fpexc-config", "IMATH_HALF_ENABLE_FP_EXCEPTIONS: imath_float_to_half(0x" << std::hex << u << ") = 0x" << a[lo] << " expected 0x" << want);
        classify_f2h (u, want, lab, nontriv);
    }
    static const uint32_t SP[] = { 0x0000, 0x0001, 0x7fff, 0x8000, 0xdfff, 0xe000, 0xe001, 0xefff, 0xf000, 0xf001, 0xffff, 0x1000, 0x0fff, 0x1001 };
    for (uint32_t k = 0; k < 40; ++k)
    {
        uint32_t lo = k < 14 ? SP[k] : (k * 2521u + (uint32_t) idx * 7u) & 0xffff;
        uint32_t u = hi | lo, mag = u & 0x7fffffffu;
        uint16_t got;
        int      fl   = c01_fpexc_flags (u, &got);
        uint16_t want = ref_f2h_bits (u);
        if (got != want) VP_FAIL (c, "f2h-fpexc-config", "IMATH_HALF_ENABLE_FP_EXCEPTIONS: imath_float_to_half(0x" << std::hex << u << ") = 0x" << got << " expected 0x" << want);
        (void) fl; (void) mag; // the raised exception flags are not part of C01's statement (values only): not asserted
    }
    uint32_t w = c01_fpexc_h2f ((uint16_t) idx);
    if (w != ref_h2f_bits ((uint16_t) idx)) VP_FAIL (c, "h2f-fpexc-config", "IMATH_HALF_ENABLE_FP_EXCEPTIONS: imath_half_to_float(0x" << std::hex << idx << ") = 0x" << w);
    c.bulk (65536 + 41, nontriv);
    for (int l = 0; l < 8; ++l)
        if (lab[l]) c.bulk_label (l, lab[l]);
}
VP_LABELS (f2h_fp_exceptions_config, "tie_normal", "tie_subnormal", "overflow", "flush", "nan", "subnormal", "rounded", "exact")

// ---------------------------------------------------------------------------
// Conversions made during static initialisation (a namespace-scope `static const float kMax = half(...)` in user code):
// this TU is linked before the library objects, so its static initialisers run before any dynamic initialiser of
// half.cpp.  The snapshot is taken there and compared here.
struct StaticInitSnapshot
{
    std::vector<uint32_t> h2f_c, h2f_cast;
    std::vector<uint16_t> f2h;
    StaticInitSnapshot () : h2f_c (65536), h2f_cast (65536), f2h (65536)
    {
        for (uint32_t h = 0; h < 65536; ++h)
        {
            h2f_c[h] = f2u (imath_half_to_float ((uint16_t) h));
            half x;
            x.setBits ((uint16_t) h);
            h2f_cast[h] = f2u ((float) x);
            // floats spread over the whole range: high 16 bits = h, low bits a hash
            half y (u2f ((h << 16) | ((h * 40503u) & 0xffff)));
            f2h[h] = y.bits ();
        }
    }
};
static const StaticInitSnapshot g_static_init_snapshot;

VP_EXHAUSTIVE (static_init_time, 65536, 65536, "conversions performed by a static initialiser of the harness TU (linked ahead of the library objects): every half pattern to float (C function and cast) and one float per high-16-bit block to half; compared with the oracle; non-trivial = subnormal, inf or NaN half pattern")
{
    uint16_t h = (uint16_t) idx;
    int      e = (h >> 10) & 31, m = h & 0x3ff;
    c.nt (e == 31 || (e == 0 && m));
    VP_NOTE (c, "half=0x" << std::hex << h << " converted during static initialisation");
    uint32_t want = ref_h2f_bits (h);
    VP_REQUIRE (c, g_static_init_snapshot.h2f_c[h] == want, "static-init/h2f-c-function", "during static initialisation imath_half_to_float(0x" << std::hex << h << ") = 0x" << g_static_init_snapshot.h2f_c[h] << " expected 0x" << want);
    VP_REQUIRE (c, g_static_init_snapshot.h2f_cast[h] == want, "static-init/h2f-class-cast", "during static initialisation float(half 0x" << std::hex << h << ") = 0x" << g_static_init_snapshot.h2f_cast[h] << " expected 0x" << want);
    uint32_t u = ((uint32_t) h << 16) | (((uint32_t) h * 40503u) & 0xffff);
    VP_REQUIRE (c, g_static_init_snapshot.f2h[h] == ref_f2h_bits (u), "static-init/f2h-class-ctor", "during static initialisation half(float 0x" << std::hex << u << ").bits() = 0x" << g_static_init_snapshot.f2h[h] << " expected 0x" << ref_f2h_bits (u));
}

VP_MAIN ("C01")
