// C01: float<->half conversion is exact IEEE-754 binary16, round-to-nearest-even.
// Exhaustive over all 2^16 half patterns and all 2^32 float patterns, against
// an independent by-value codec (oracles.h), itself cross-checked against a
// structurally different nearest-neighbour search codec.
#include "vpbt.h"
#include "oracles.h"
#include <half.h>

using namespace orc;
using IMATH_NAMESPACE::half;

enum
{
    L_TIE_NORMAL,
    L_TIE_SUBNORMAL,
    L_OVERFLOW,
    L_FLUSH,
    L_NAN,
    L_SUBNORMAL_RESULT,
    L_ROUNDED,
    L_EXACT
};

// ---------------------------------------------------------------------------
VP_EXHAUSTIVE (h2f_all, 65536, 65536, "every half bit pattern; non-trivial = subnormal, inf or NaN pattern (anything but zero/normal)")
{
    uint16_t h    = (uint16_t) idx;
    uint32_t want = ref_h2f_bits (h);
    uint32_t got  = f2u (imath_half_to_float (h));
    VP_NOTE (c, "half=0x" << std::hex << h << " expect float bits 0x" << want);
    int e = (h >> 10) & 31, m = h & 0x3ff;
    if (e == 31 && m) c.label (L_NAN);
    if (e == 0 && m) c.label (L_SUBNORMAL_RESULT);
    c.nt (e == 31 || (e == 0 && m));
    VP_REQUIRE (c, got == want, "h2f-c-function", "imath_half_to_float(0x" << std::hex << h << ") = 0x" << got << " expected 0x" << want);
    half hh;
    hh.setBits (h);
    uint32_t got2 = f2u ((float) hh);
    VP_REQUIRE (c, got2 == want, "h2f-class-cast", "float(half 0x" << std::hex << h << ") = 0x" << got2 << " expected 0x" << want);
    uint32_t got3 = f2u (hh.operator float ());
    VP_REQUIRE (c, got3 == want, "h2f-class-cast", "half::operator float 0x" << std::hex << h << " = 0x" << got3);
    // value semantics: sign, zero, inf, NaN
    float f = u2f (got);
    if (e == 31 && m)
        VP_REQUIRE (c, f != f && ((got >> 31) == (uint32_t) (h >> 15)) && ((got >> 13) & 0x3ff) == (uint32_t) m, "h2f-nan", "NaN sign/payload lost for 0x" << std::hex << h << " -> 0x" << got);
    else if (e == 31)
        VP_REQUIRE (c, std::isinf (f) && std::signbit (f) == (bool) (h >> 15), "h2f-inf", "inf wrong for 0x" << std::hex << h);
    else if (e == 0 && m == 0)
        VP_REQUIRE (c, f == 0 && std::signbit (f) == (bool) (h >> 15), "h2f-zero", "zero wrong for 0x" << std::hex << h);
}
VP_LABELS (h2f_all, "tie_normal", "tie_subnormal", "overflow", "flush", "nan", "subnormal", "rounded", "exact")

// ---------------------------------------------------------------------------
// one index = one block of 2^16 consecutive float patterns
static inline void classify_f2h (uint32_t u, uint16_t want, uint64_t* lab, uint64_t& nontriv)
{
    uint32_t mag = u & 0x7fffffffu;
    if (mag > 0x7f800000u)
    {
        lab[L_NAN]++;
        nontriv++;
        return;
    }
    if (mag == 0x7f800000u) return;
    if (mag == 0) return;
    // exact?
    uint32_t back = ref_h2f_bits (want);
    if (back == u)
    {
        lab[L_EXACT]++;
        if ((want & 0x7c00) == 0)
        {
            lab[L_SUBNORMAL_RESULT]++;
            nontriv++;
        }
        return;
    }
    nontriv++;
    lab[L_ROUNDED]++;
    if (mag >= 0x477ff000u)
        lab[L_OVERFLOW]++; // >= 65520
    else if (mag <= 0x33000000u)
        lab[L_FLUSH]++; // <= 2^-25
    else
    {
        if ((want & 0x7c00) == 0 || (want & 0x7fff) == 0x0400) lab[L_SUBNORMAL_RESULT]++;
        // tie: exactly half-way between two halfs
        if (mag >= 0x38800000u)
        {
            if ((mag & 0x1fff) == 0x1000) lab[L_TIE_NORMAL]++;
        }
        else
        {
            int      e     = mag >> 23;
            int      shift = 126 - e; // number of dropped bits
            uint32_t mm    = 0x800000 | (mag & 0x7fffff);
            if (shift >= 1 && shift <= 24 && (mm & ((1u << shift) - 1)) == (1u << (shift - 1))) lab[L_TIE_SUBNORMAL]++;
        }
    }
}

VP_EXHAUSTIVE (f2h_all, 65536, 65536, "every float bit pattern (index = block of 2^16 patterns sharing the high 16 bits); non-trivial = needs rounding, subnormal result, overflow, flush or NaN")
{
    uint32_t hi = (uint32_t) idx << 16;
    uint64_t lab[64];
    memset (lab, 0, sizeof lab);
    uint64_t nontriv = 0;
    VP_NOTE (c, "float patterns 0x" << std::hex << hi << "..0x" << (hi | 0xffff) << " e.g. 0x" << (hi | 0x1000) << " -> half 0x" << ref_f2h_bits (hi | 0x1000));
    for (uint32_t lo = 0; lo < 65536; ++lo)
    {
        uint32_t u    = hi | lo;
        uint16_t want = ref_f2h_bits (u);
        float    f    = u2f (u);
        uint16_t got  = imath_float_to_half (f);
        if (got != want) VP_FAIL (c, "f2h-c-function", "imath_float_to_half(0x" << std::hex << u << ") = 0x" << got << " expected 0x" << want);
        half     hh (f);
        uint16_t got2 = hh.bits ();
        if (got2 != want) VP_FAIL (c, "f2h-class-ctor", "half(float 0x" << std::hex << u << ").bits() = 0x" << got2 << " expected 0x" << want);
        classify_f2h (u, want, lab, nontriv);
    }
    c.bulk (65536, nontriv);
    for (int l = 0; l < 8; ++l)
        if (lab[l]) c.bulk_label (l, lab[l]);
}
VP_LABELS (f2h_all, "tie_normal", "tie_subnormal", "overflow", "flush", "nan", "subnormal", "rounded", "exact")
VP_REQUIRE_LABELS (f2h_all, "tie_normal", "tie_subnormal", "overflow", "flush", "nan", "subnormal")

// half = assignment from float, and round trip
VP_EXHAUSTIVE (roundtrip_all, 65536, 65536, "every half pattern: half->float->half identity for non-NaN via C functions, constructor and assignment; non-trivial = subnormal/inf/negative zero")
{
    uint16_t h = (uint16_t) idx;
    int      e = (h >> 10) & 31, m = h & 0x3ff;
    VP_NOTE (c, "half=0x" << std::hex << h);
    float    f    = imath_half_to_float (h);
    uint16_t back = imath_float_to_half (f);
    bool     nan  = (e == 31 && m);
    c.nt (e == 31 || e == 0);
    if (!nan)
    {
        VP_REQUIRE (c, back == h, "roundtrip-c", "f2h(h2f(0x" << std::hex << h << ")) = 0x" << back);
        half a;
        a.setBits (h);
        half b ((float) a);
        VP_REQUIRE (c, b.bits () == h, "roundtrip-class", "half(float(half 0x" << std::hex << h << ")) = 0x" << b.bits ());
        half d;
        d = (float) a;
        VP_REQUIRE (c, d.bits () == h, "roundtrip-assign", "half = float(half 0x" << std::hex << h << ") = 0x" << d.bits ());
        half e2 (a);
        VP_REQUIRE (c, e2.bits () == h, "roundtrip-copy", "copy changes bits");
    }
    else
    {
        // NaN: sign and payload preserved through the software path (payload has top-ten bits = m, nonzero)
        VP_REQUIRE (c, back == h, "roundtrip-nan", "f2h(h2f(NaN 0x" << std::hex << h << ")) = 0x" << back);
    }
}

// cross-validate the two reference codecs on a stratified subset: for each of the 2^16 high halves,
// 256 low patterns incl. the tie and its neighbours
VP_EXHAUSTIVE (oracle_crosscheck, 65536, 65536, "oracle-vs-oracle: by-value codec vs nearest-neighbour search codec on 2^16 blocks x 320 stratified low words")
{
    static const HalfTable T;
    uint32_t               hi = (uint32_t) idx << 16;
    uint64_t               n  = 0;
    for (uint32_t k = 0; k < 320; ++k)
    {
        uint32_t lo;
        if (k < 256)
            lo = (k * 257u) & 0xffff;
        else
        {
            static const uint32_t sp[] = { 0x0fff, 0x1000, 0x1001, 0x2fff, 0x3000, 0x3001, 0xefff, 0xf000, 0xf001, 0xffff, 0x0001, 0x7fff, 0x8000, 0x8001 };
            lo = sp[(k - 256) % 14] ^ (((k - 256) / 14) << 13 & 0xe000);
        }
        uint32_t u   = hi | lo;
        uint32_t mag = u & 0x7fffffff;
        if (mag >= 0x7f800000u) continue;
        uint16_t a = ref_f2h_bits (mag);
        uint16_t b = T.nearest ((double) u2f (mag));
        ++n;
        if (a != b) VP_FAIL (c, "oracle-disagreement", "reference codecs disagree on 0x" << std::hex << mag << ": 0x" << a << " vs 0x" << b);
    }
    VP_NOTE (c, "block 0x" << std::hex << hi);
    c.bulk (n, n);
}

VP_MAIN ("C01")
