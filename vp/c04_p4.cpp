// C04 part 4: instantiations of component_case<A> (see c04_component.h)
#include "c04_component.h"

C04_SUB (V2h, Vec2<half>, 250000, 5000000)
C04_SUB (V3h, Vec3<half>, 250000, 5000000)
C04_SUB (V4h, Vec4<half>, 250000, 5000000)
C04_SUB (Quatd_, Quat<double>, 250000, 5000000)
