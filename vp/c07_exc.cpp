// C07: throwing and non-throwing variants of every operation agree.
//
// Paired differential oracle (DESIGN.md "### C07"): for every operation offered in a checked and an
// unchecked form
//   * the checked form either returns or throws exactly the documented exception type
//     (std::domain_error: normalize / Vec3(Vec4) / Frustum / decomposition; std::invalid_argument: inversion);
//   * if it returns, every output slot is bit-identical (NaN == NaN) to the unchecked form's;
//   * if it throws, the unchecked form reports failure (zero vector / identity / false / returns its input);
//   * a guard may fire only if the guarded quotient, evaluated exactly (quad) from the inputs, is >= max/4 in
//     magnitude or undefined (division by exact zero).  Where the guard is applied to a quantity that the code
//     computed with rounding (determinants, cancelling sums), the exact value is widened by the forward error
//     bound of that computation (K * eps * sum|terms| + underflow terms); the bound is stated at each use;
//   * well-conditioned input never throws.
#include "vpbt.h"
#include "oracles.h"
#include "gens.h"
#include <ImathVec.h>
#include <ImathMatrix.h>
#include <ImathFrustum.h>
#include <ImathMatrixAlgo.h>
#include <ImathEuler.h>
#include <stdexcept>
#include <typeinfo>
#include <climits>

using namespace IMATH_NAMESPACE;
using orc::quad;
using orc::qabs;
using orc::qmax;
using orc::same;
using orc::mstr;
using orc::vstr;
using orc::qstr;

// Development aid: scales every forward-error allowance below (1 = as documented).  Used once to measure how much of
// each allowance the unchanged tree needs; never set in normal builds.
// Measured on the unchanged tree (3x the quick case counts): with -DC07_ESCALE=0.25 only the underflow term of the
// decomposition allowance is exceeded (needs between 1 and 4 denorm_min/|r_p|); with 0.0625 the determinant allowances
// (inversion, 8 eps sum|terms| -> needs between 0.5 and 2 eps sum|terms|), the ZToDepth conversion allowance and the
// decomposition allowance are exceeded; the other allowances are still sufficient at 1/64.  I.e. every allowance is
// a factor 4-16 above the measured worst case and follows the rounding-error analysis stated where it is defined.
#ifndef C07_ESCALE
#define C07_ESCALE 1
#endif

// ---------------------------------------------------------------------------
// calling a possibly-throwing form and classifying what it threw
enum
{
    TH_NONE = 0,
    TH_DOMAIN,
    TH_INVALID,
    TH_OTHER
};
static const char* thname (int t)
{
    static const char* n[] = { "nothing", "std::domain_error", "std::invalid_argument", "another exception type" };
    return n[t];
}
template <class F> static int call_checked (F&& f)
{
    try
    {
        f ();
    }
    catch (vp::Fail&)
    {
        throw;
    }
    catch (vp::Discard&)
    {
        throw;
    }
    catch (const std::exception& e)
    {
        if (typeid (e) == typeid (std::domain_error)) return TH_DOMAIN;
        if (typeid (e) == typeid (std::invalid_argument)) return TH_INVALID;
        return TH_OTHER;
    }
    catch (...)
    {
        return TH_OTHER;
    }
    return TH_NONE;
}

// ---------------------------------------------------------------------------
// constants and value generators
template <class T> struct KT
{
    typedef std::numeric_limits<T> L;
    static T      max () { return L::max (); }
    static T      min () { return L::min (); }
    static T      dmin () { return L::denorm_min (); }
    static double eps () { return orc::FInfo<T>::eps (); }     // ulp(1) = 2 * unit roundoff
    static int    emax () { return L::max_exponent - 1; }       // 127 / 1023
    static int    emin () { return L::min_exponent - 1; }       // -126 / -1022
    static int    esub () { return emin () - (L::digits - 1); } // -149 / -1074
    static quad   qmax4 () { return (quad) max () / 4; }
};

// 2^e in T (subnormal results allowed; clamped to the finite range)
template <class T> static inline T pow2 (int e)
{
    if (e > KT<T>::emax ()) e = KT<T>::emax ();
    if (e < KT<T>::esub ()) return (T) 0;
    return std::ldexp ((T) 1, e);
}
// move |v| by k units in the last place (bit pattern arithmetic), keep sign, stay finite
template <class T> static inline T bump (T v, long k)
{
    typedef typename gen::Bits<T>::U U;
    if (!(v == v) || std::isinf (v)) return v;
    bool neg = std::signbit (v);
    T    a   = neg ? -v : v;
    U    u   = gen::to_bits<T> (a);
    U    top = gen::to_bits<T> (KT<T>::max ());
    if (k < 0)
    {
        U d = (U) (-k);
        u   = d > u ? 0 : u - d;
    }
    else
    {
        U d = (U) k;
        u   = (top - u < d) ? top : u + d;
    }
    a = gen::from_bits<T> (u);
    return neg ? -a : a;
}
template <class T> static inline T finite_clamp (T v)
{
    if (!(v == v)) return (T) 0;
    if (v > KT<T>::max ()) return KT<T>::max ();
    if (v < -KT<T>::max ()) return -KT<T>::max ();
    return v;
}
// random significand, exponent e (clamped to the finite range; subnormal exponents give subnormal values)
template <class T> static inline T mant_exp (vp::Src& s, int e)
{
    if (e > KT<T>::emax ()) e = KT<T>::emax ();
    T m = (T) 1 + (T) s.unit ();
    if (m >= (T) 2) m = (T) 1;
    return std::ldexp (m, e);
}
// non-negative magnitude from classes covering 0, denormals, the 2/max and min thresholds, 1, and the whole exponent range
template <class T> static T gmag (vp::Src& s)
{
    switch (s.below (13))
    {
        case 0: return (T) 0;
        case 1: return (T) s.range (1, 4) * KT<T>::dmin ();
        case 2: return gen::from_bits<T> ((typename gen::Bits<T>::U) s.bits (gen::Bits<T>::mant)); // random subnormal
        case 3: return bump (KT<T>::min (), s.range (-4, 4));
        case 4: return bump ((T) 2 / KT<T>::max (), s.range (-4, 4));
        case 5: return mant_exp<T> (s, (int) s.range (KT<T>::emin (), -40));
        case 6: return mant_exp<T> (s, (int) s.range (-40, -1));
        case 7: return bump ((T) 1, s.range (-4, 4));
        case 8:
        {
            T v = gen::nice<T> (s);
            return v < 0 ? -v : v;
        }
        case 9: return mant_exp<T> (s, (int) s.range (1, 40));
        case 10: return s.coin () ? KT<T>::max () : mant_exp<T> (s, KT<T>::emax () - (int) s.below (4));
        case 11: return pow2<T> ((int) s.range (KT<T>::esub (), KT<T>::emax ()));
        default: return mant_exp<T> (s, (int) s.range (KT<T>::esub (), KT<T>::emax ()));
    }
}
template <class T> static inline T gsigned (vp::Src& s)
{
    T v = gmag<T> (s);
    return s.coin () ? -v : v;
}
// a magnitude near max*|b| (the right-hand side of the overflow guards), +-2 ulps or within 2^+-3
template <class T> static T near_product (vp::Src& s, T b)
{
    T ab = b < 0 ? -b : b;
    T m  = ab < (T) 1 ? KT<T>::max () * ab : KT<T>::max ();
    m    = finite_clamp (m);
    switch (s.below (4))
    {
        case 0: return bump (m, s.range (-2, 2));
        case 1: return finite_clamp ((T) (m * pow2<T> ((int) s.range (-3, 3))));
        case 2: return bump ((T) (m / 2), s.range (-2, 2));
        default: return finite_clamp ((T) (m * (T) s.uniform (0.25, 4.0)));
    }
}
template <class T> static inline bool all_finite (const T* p, int n)
{
    for (int i = 0; i < n; ++i)
        if (!std::isfinite (p[i])) return false;
    return true;
}

// ===========================================================================
// 1. Vec normalize / normalizeExc / normalizeNonNull / normalized / normalizedExc / normalizedNonNull
//
// Documented failure condition: length() == 0, i.e. the null vector.  (A finite vector whose squared length
// overflows has length() == inf: every spelling returns x/inf = 0 and nothing throws; that is not a failure
// report and all forms stay bit-identical, which is what is checked.)
enum
{
    NL_DIM2,
    NL_DIM3,
    NL_DIM4,
    NL_THREW,
    NL_TINY,
    NL_HUGE,
    NL_NONFINITE,
    NL_SIGNED_ZERO
};
#define NL_LABELS "dim2", "dim3", "dim4", "null_vector_threw", "tiny_path", "length2_overflows", "nan_or_inf_component", "negative_zero_component"

template <class V, class T, int N> static void normalize_case (vp::Ctx& c, const char* tn)
{
    vp::Src& s = c.s;
    V        v;
    int      cls = (int) s.below (12);
    for (int i = 0; i < N; ++i)
        v[i] = 0;
    switch (cls)
    {
        case 10: // the output of an earlier normalisation (a stored normal), optionally off by a few ulps per component
        {
            for (int i = 0; i < N; ++i)
                v[i] = gen::nice<T> (s);
            bool nz = false;
            for (int i = 0; i < N; ++i)
                if (v[i] != 0) nz = true;
            if (!nz) v[0] = 1;
            v = v.normalized ();
            if (s.coin ())
                for (int i = 0; i < N; ++i)
                    v[i] = bump (v[i], s.range (-2, 2));
            break;
        }
        case 11: // length 1 +- 2^-k, k = 6 .. digits
        {
            for (int i = 0; i < N; ++i)
                v[i] = gen::nice<T> (s);
            quad n2 = 0;
            for (int i = 0; i < N; ++i)
                n2 += (quad) v[i] * (quad) v[i];
            if (n2 == 0)
            {
                v[0] = 1;
                n2   = 1;
            }
            int  k  = (int) s.range (6, std::numeric_limits<T>::digits);
            bool up = s.coin ();
            quad d  = (quad) std::ldexp (1.0, -k);
            quad f  = (up ? 1 + d : 1 - d) / sqrtq (n2);
            for (int i = 0; i < N; ++i)
                v[i] = (T) ((quad) v[i] * f);
            break;
        }
        case 0: // null vector, random zero signs
            for (int i = 0; i < N; ++i)
                v[i] = s.coin () ? (T) 0 : -(T) 0;
            break;
        case 1: // null except one smallest-magnitude component
            for (int i = 0; i < N; ++i)
                v[i] = s.coin () ? (T) 0 : -(T) 0;
        {
            // (one draw per statement: the two compilers order operands differently)
            T   mag = (T) s.range (1, 3) * KT<T>::dmin ();
            int k   = (int) s.below (N);
            v[k]    = s.coin () ? -mag : mag;
        }
            break;
        case 2: // subnormal components (some zero)
            for (int i = 0; i < N; ++i)
            {
                T mag = gen::from_bits<T> ((typename gen::Bits<T>::U) s.bits (gen::Bits<T>::mant));
                if (s.coin ()) mag = 0;
                v[i] = s.coin () ? -mag : mag;
            }
            break;
        case 3: // squares underflow
            for (int i = 0; i < N; ++i)
            {
                T mag = mant_exp<T> (s, KT<T>::emin () / 2 - (int) s.below (40));
                v[i]  = s.coin () ? -mag : mag;
            }
            break;
        case 4:
            for (int i = 0; i < N; ++i)
                v[i] = gen::nice<T> (s);
            break;
        case 5:
            for (int i = 0; i < N; ++i)
                v[i] = gen::any_finite<T> (s);
            break;
        case 6: // length2 overflows
            for (int i = 0; i < N; ++i)
            {
                T mag = mant_exp<T> (s, KT<T>::emax () - (int) s.below (30));
                v[i]  = s.coin () ? -mag : mag;
            }
            break;
        case 7: // one NaN / inf
            for (int i = 0; i < N; ++i)
                v[i] = gen::nice<T> (s);
        {
            int k   = (int) s.below (N);
            T   bad = s.coin () ? std::numeric_limits<T>::quiet_NaN () : std::numeric_limits<T>::infinity ();
            v[k]    = s.coin () ? -bad : bad;
        }
            break;
        case 8: // around the 2*min threshold of length2
            for (int i = 0; i < N; ++i)
                v[i] = s.coin () ? (T) 0 : mant_exp<T> (s, KT<T>::emin () / 2 - 8 - (int) s.below (20));
        {
            int k = (int) s.below (N);
            v[k]  = bump (std::sqrt ((T) 2 * KT<T>::min ()), s.range (-8, 8));
        }
            break;
        default: // small integers (the null vector appears with probability 7^-N)
            for (int i = 0; i < N; ++i)
                v[i] = (T) s.range (-3, 3);
            break;
    }
    VP_NOTE (c, tn << " v=" << vstr (v, N) << " class=" << cls);
    bool allzero = true, nonfinite = false, negzero = false;
    quad s2 = 0;
    for (int i = 0; i < N; ++i)
    {
        if (!(v[i] == 0)) allzero = false;
        if (!std::isfinite (v[i])) nonfinite = true;
        if (v[i] == 0 && std::signbit (v[i])) negzero = true;
        s2 += (quad) v[i] * (quad) v[i];
    }
    c.label (N == 2 ? NL_DIM2 : N == 3 ? NL_DIM3 : NL_DIM4);
    bool tiny = !nonfinite && !allzero && s2 < 2 * (quad) KT<T>::min ();
    bool huge = !nonfinite && s2 > (quad) KT<T>::max ();
    if (tiny) c.label (NL_TINY);
    if (huge) c.label (NL_HUGE);
    if (nonfinite) c.label (NL_NONFINITE);
    if (negzero) c.label (NL_SIGNED_ZERO);
    c.nt (allzero || tiny || huge || nonfinite);

    // checked spellings
    V   a  = v, b (v);
    int t1 = call_checked ([&] { a.normalizeExc (); });
    int t2 = call_checked ([&] { b = v.normalizedExc (); });
    // unchecked spellings
    V u1 = v;
    u1.normalize ();
    V u2 = v.normalized ();
    VP_REQUIRE (c, t1 == t2, "normalize/exc-spellings-disagree", tn << " normalizeExc threw " << thname (t1) << " but normalizedExc threw " << thname (t2) << " on " << vstr (v, N));
    if (t1 != TH_NONE)
    {
        c.label (NL_THREW);
        VP_REQUIRE (c, t1 == TH_DOMAIN, "normalize/exception-type", tn << " normalizeExc threw " << thname (t1) << ", documented std::domain_error");
        VP_REQUIRE (c, allzero, "normalize/threw-on-non-null-vector", tn << " normalizeExc threw on " << vstr (v, N) << " whose exact length is " << qstr (sqrtq (s2)));
        for (int i = 0; i < N; ++i)
            VP_REQUIRE (c, u1[i] == 0 && u2[i] == 0, "normalize/unchecked-not-null-after-throw", tn << " checked form threw but normalize()/normalized() give " << vstr (u1, N) << " / " << vstr (u2, N));
        return;
    }
    VP_REQUIRE (c, !allzero, "normalize/no-throw-on-null-vector", tn << " normalizeExc returned " << vstr (a, N) << " for the null vector " << vstr (v, N));
    V n1 = v;
    n1.normalizeNonNull ();
    V           n2     = v.normalizedNonNull ();
    const V*    all[5] = { &b, &u1, &u2, &n1, &n2 };
    const char* nm[5]  = { "normalizedExc", "normalize", "normalized", "normalizeNonNull", "normalizedNonNull" };
    for (int k = 0; k < 5; ++k)
        for (int i = 0; i < N; ++i)
            VP_REQUIRE (c, same<T> ((*all[k])[i], a[i]), "normalize/bits-differ", tn << " " << nm[k] << "(" << vstr (v, N) << ") = " << vstr (*all[k], N) << " differs from normalizeExc = " << vstr (a, N) << " in slot " << i);
}

template <class T> static void normalize_any (vp::Ctx& c, const char* t2, const char* t3, const char* t4)
{
    switch (c.s.below (3))
    {
        case 0: normalize_case<Vec2<T>, T, 2> (c, t2); break;
        case 1: normalize_case<Vec3<T>, T, 3> (c, t3); break;
        default: normalize_case<Vec4<T>, T, 4> (c, t4); break;
    }
}
#define NL_RULE "Vec2/3/4 from 10 classes (null with signed zeros, null+one denormal, subnormal, underflowing squares, nice, any finite, overflowing length2, NaN/inf component, 2*min threshold, small integers); all six spellings compared; non-trivial = null vector (checked form throws) or tiny-path or overflowing or non-finite input"
VP_RANDOM (normalize_f, 400000, 8000000, NL_RULE) { normalize_any<float> (c, "V2f", "V3f", "V4f"); }
VP_LABELS (normalize_f, NL_LABELS)
VP_REQUIRE_LABELS (normalize_f, "dim2", "dim3", "dim4", "null_vector_threw", "tiny_path", "length2_overflows", "nan_or_inf_component")
VP_RANDOM (normalize_d, 400000, 8000000, NL_RULE) { normalize_any<double> (c, "V2d", "V3d", "V4d"); }
VP_LABELS (normalize_d, NL_LABELS)
VP_REQUIRE_LABELS (normalize_d, "dim2", "dim3", "dim4", "null_vector_threw", "tiny_path", "length2_overflows", "nan_or_inf_component")

// ===========================================================================
// 2. Vec3(Vec4<S>, InfException) vs Vec3(Vec4<S>)        (S == T; see DESIGN.md for why S != T is not paired)
//
// Guard: absW < 1 && |v_i| >= max*absW  -> std::domain_error.  Guarded quotient: v_i / w.
enum
{
    VL_THREW,
    VL_W_ZERO,
    VL_W_DENORM,
    VL_W_LT1,
    VL_W_ONE,
    VL_W_GE1,
    VL_BOUNDARY,
    VL_NONFINITE,
    VL_MIXED
};
#define VL_LABELS "threw", "w_zero", "w_denormal", "w_lt_1", "w_exactly_1", "w_ge_1", "component_within_2ulp_of_max_w", "nan_or_inf_input", "V3d_from_V4f"

template <class T> static void vec3_from_vec4_case (vp::Ctx& c, const char* tn)
{
    vp::Src& s = c.s;
    T        w;
    switch (s.below (9))
    {
        case 0: w = 0; break;
        case 1: w = (T) s.range (1, 4) * KT<T>::dmin (); break;
        case 2: w = gen::from_bits<T> ((typename gen::Bits<T>::U) s.bits (gen::Bits<T>::mant)); break;
        case 3: w = mant_exp<T> (s, (int) s.range (KT<T>::emin (), -30)); break;
        case 4: w = (T) s.uniform (0.0, 1.0); break;
        case 5: w = bump ((T) 1, s.range (-1, 1)); break;
        case 6: w = (T) s.uniform (1.0, 16.0); break;
        case 7: w = pow2<T> ((int) s.range (KT<T>::esub (), KT<T>::emax ())); break;
        default: w = s.chance (40) ? gen::special<T> (s, true) : mant_exp<T> (s, (int) s.range (1, KT<T>::emax ())); break;
    }
    if (s.coin ()) w = -w;
    T    aw = w < 0 ? -w : w;
    T    x[3];
    bool boundary = false;
    for (int i = 0; i < 3; ++i)
    {
        switch (s.below (7))
        {
            case 0: // exactly max*|w| +- 2 ulps
                if (aw <= (T) 1)
                {
                    x[i]     = bump (finite_clamp ((T) (KT<T>::max () * aw)), s.range (-2, 2));
                    boundary = true;
                }
                else
                    x[i] = KT<T>::max ();
                break;
            case 1: x[i] = aw <= (T) 1 ? finite_clamp ((T) (KT<T>::max () * aw * pow2<T> ((int) s.range (-3, 3)))) : mant_exp<T> (s, KT<T>::emax () - (int) s.below (3)); break;
            case 2: x[i] = gen::nice<T> (s); break;
            case 3: x[i] = 0; break;
            case 4: x[i] = gen::any_finite<T> (s); break;
            case 5: x[i] = KT<T>::max (); break;
            default: x[i] = s.chance (24) ? gen::special<T> (s, true) : gmag<T> (s); break;
        }
        if (s.coin ()) x[i] = -x[i];
    }
    Vec4<T> v4 (x[0], x[1], x[2], w);
    VP_NOTE (c, tn << " v4=" << vstr (v4, 4));
    bool finite_in = all_finite (x, 3) && std::isfinite (w);
    if (!finite_in) c.label (VL_NONFINITE);
    if (w == 0)
        c.label (VL_W_ZERO);
    else if (aw < KT<T>::min ())
        c.label (VL_W_DENORM);
    else if (aw < 1)
        c.label (VL_W_LT1);
    else if (aw == 1)
        c.label (VL_W_ONE);
    else
        c.label (VL_W_GE1);
    if (boundary) c.label (VL_BOUNDARY);

    Vec3<T> C ((T) 0);
    int     t = call_checked ([&] { C = Vec3<T> (v4, INF_EXCEPTION); });
    Vec3<T> U (v4);
    // exact guarded quotients
    bool near_overflow = false;
    for (int i = 0; i < 3; ++i)
    {
        if (!std::isfinite (x[i])) near_overflow = true;
        if (w == 0 || !(w == w))
            near_overflow = true;
        else if (std::isfinite (x[i]) && std::isfinite (w) && qabs ((quad) x[i] / (quad) w) >= KT<T>::qmax4 ())
            near_overflow = true;
    }
    c.nt (t != TH_NONE || boundary || near_overflow);
    if (t != TH_NONE)
    {
        c.label (VL_THREW);
        VP_REQUIRE (c, t == TH_DOMAIN, "vec3-from-vec4/exception-type", tn << " Vec3(Vec4,INF_EXCEPTION) threw " << thname (t) << ", documented std::domain_error");
        VP_REQUIRE (c, aw < 1, "vec3-from-vec4/threw-with-absw-ge-1", tn << " threw for " << vstr (v4, 4) << " although |w| >= 1 (the quotient cannot exceed |v|)");
        VP_REQUIRE (c, near_overflow, "vec3-from-vec4/threw-far-from-overflow", tn << " threw for " << vstr (v4, 4) << " although every exact |v_i/w| < max/4");
        bool ureports = false;
        for (int i = 0; i < 3; ++i)
            if (!std::isfinite (U[i]) || qabs ((quad) U[i]) >= KT<T>::qmax4 ()) ureports = true;
        VP_REQUIRE (c, ureports, "vec3-from-vec4/unchecked-finite-after-throw", tn << " threw for " << vstr (v4, 4) << " but Vec3(Vec4) = " << vstr (U, 3) << " is far from overflow");
        return;
    }
    for (int i = 0; i < 3; ++i)
        VP_REQUIRE (c, same<T> (C[i], U[i]), "vec3-from-vec4/bits-differ", tn << " Vec3(v,INF_EXCEPTION) = " << vstr (C, 3) << " but Vec3(v) = " << vstr (U, 3) << " for v=" << vstr (v4, 4));
    if (finite_in)
        for (int i = 0; i < 3; ++i)
            VP_REQUIRE (c, std::isfinite (U[i]), "vec3-from-vec4/overflow-without-throw", tn << " Vec3(v,INF_EXCEPTION) returned the non-finite " << vstr (C, 3) << " for finite v=" << vstr (v4, 4));
}
// V3d from V4f: conversions to double are exact, |x/w| <= max_f/denorm_f << max_d, so the guard can fire only for w == 0
static void vec3d_from_vec4f_case (vp::Ctx& c)
{
    vp::Src& s = c.s;
    float    w = s.chance (80) ? 0.0f : gsigned<float> (s);
    float    x0 = gsigned<float> (s);
    float    x1 = gen::nice<float> (s);
    float    x2 = gsigned<float> (s);
    V4f      v4 (x0, x1, x2, w);
    VP_NOTE (c, "V3d(V4f) v4=" << vstr (v4, 4));
    c.label (VL_MIXED);
    V3d C (0.0);
    int t = call_checked ([&] { C = V3d (v4, INF_EXCEPTION); });
    c.nt (t != TH_NONE);
    if (t != TH_NONE)
    {
        c.label (VL_THREW);
        VP_REQUIRE (c, t == TH_DOMAIN, "vec3-from-vec4/exception-type", "V3d(V4f,INF_EXCEPTION) threw " << thname (t));
        VP_REQUIRE (c, w == 0, "vec3-from-vec4/threw-far-from-overflow", "V3d(V4f,INF_EXCEPTION) threw for " << vstr (v4, 4) << " whose quotients are far below the double maximum");
    }
    else
        VP_REQUIRE (c, w != 0, "vec3-from-vec4/overflow-without-throw", "V3d(V4f,INF_EXCEPTION) returned " << vstr (C, 3) << " for w == 0");
}
#define VL_RULE "w from {0, denormal, tiny, (0,1), 1+-1ulp, >=1, power of two, special}, components from {max*|w| +-2ulp, max*|w|*2^+-3, nice, 0, any finite, max, special}; non-trivial = threw, or a component within 2 ulps of the guard, or an exact quotient >= max/4 or undefined"
VP_RANDOM (vec3_from_vec4_f, 400000, 8000000, VL_RULE)
{
    if (c.s.chance (16))
        vec3d_from_vec4f_case (c);
    else
        vec3_from_vec4_case<float> (c, "V3f(V4f)");
}
VP_LABELS (vec3_from_vec4_f, VL_LABELS)
VP_REQUIRE_LABELS (vec3_from_vec4_f, "threw", "w_zero", "w_denormal", "w_lt_1", "w_exactly_1", "w_ge_1", "component_within_2ulp_of_max_w", "V3d_from_V4f")
VP_FUZZABLE (vec3_from_vec4_f)
VP_RANDOM (vec3_from_vec4_d, 400000, 8000000, VL_RULE) { vec3_from_vec4_case<double> (c, "V3d(V4d)"); }
VP_LABELS (vec3_from_vec4_d, VL_LABELS)
VP_REQUIRE_LABELS (vec3_from_vec4_d, "threw", "w_zero", "w_denormal", "w_lt_1", "w_exactly_1", "w_ge_1", "component_within_2ulp_of_max_w")
VP_FUZZABLE (vec3_from_vec4_d)

// ===========================================================================
// 3. Matrix22/33/44 inverse(bool) / inverse() / invert(bool) / invert() and the gj* family
//
// Determinant forms: guard  mr = |r|/min > |s_ij|  for every adjugate entry s_ij, r = determinant of the guarded
// block (full 2x2; full 3x3 or the 2x2 block when the last column is (0,0,1); the 3x3 block of an affine 4x4;
// a non-affine 4x4 is forwarded to gjInverse).  Guarded quotient: s_ij / r, limit 1/min = max/4.
// Gauss-Jordan forms: singular = exact zero pivot in working precision.

// quad Gauss-Jordan inverse with partial pivoting on an n x n row-major array; false if a pivot is exactly zero
static bool qinverse (int n, const quad* a_in, quad* out)
{
    quad a[16], b[16];
    for (int i = 0; i < n; ++i)
        for (int j = 0; j < n; ++j)
        {
            a[i * n + j] = a_in[i * n + j];
            b[i * n + j] = i == j ? 1 : 0;
        }
    for (int col = 0; col < n; ++col)
    {
        int  piv  = col;
        quad best = qabs (a[col * n + col]);
        for (int r = col + 1; r < n; ++r)
            if (qabs (a[r * n + col]) > best)
            {
                best = qabs (a[r * n + col]);
                piv  = r;
            }
        if (!(best > 0)) return false;
        if (piv != col)
            for (int j = 0; j < n; ++j)
            {
                std::swap (a[col * n + j], a[piv * n + j]);
                std::swap (b[col * n + j], b[piv * n + j]);
            }
        quad d = a[col * n + col];
        for (int j = 0; j < n; ++j)
        {
            a[col * n + j] /= d;
            b[col * n + j] /= d;
        }
        for (int r = 0; r < n; ++r)
            if (r != col)
            {
                quad f = a[r * n + col];
                if (f == 0) continue;
                for (int j = 0; j < n; ++j)
                {
                    a[r * n + j] -= f * a[col * n + j];
                    b[r * n + j] -= f * b[col * n + j];
                }
            }
    }
    for (int i = 0; i < n * n; ++i)
        out[i] = b[i];
    return true;
}

struct GInfo
{
    bool justified = false; // a throw of the overflow guard is consistent with the exact values +- forward error
    bool skip      = false; // products overflow: computed r / s_ij may be inf or NaN, rule not evaluated
    bool wellcond  = false; // every guarded quantity within 2^+-20 of 1 and the determinant is computed accurately
    bool near      = false; // within 2^8 of the guard boundary
    bool singular  = false; // exact determinant is zero
    quad D         = 0;
};
// x: K x K guarded block (row-major), K = 2 or 3.
//   E_D = 8*eps*sum|permutation products| + underflow, E_A = 4*eps*(|pq|+|rs|) + underflow  (forward error of the
//   3-term / 2-term evaluations in the code; eps = ulp(1)); throw justified iff for some minor A:
//   |A| + E_A >= (1 - 2^-10) * max(|D| - E_D, 0) / min.
template <class T> static GInfo guard_info (const quad* x, int K)
{
    GInfo      g;
    const quad eps = KT<T>::eps (), dm = (quad) KT<T>::dmin (), lim = (quad) KT<T>::max () / 4;
    quad       A[9], EA[9], SA[9];
    int        nA = 0;
    quad       D, SD, ED, maxx = 0;
    for (int i = 0; i < K * K; ++i)
    {
        if (!(x[i] == x[i]) || qabs (x[i]) > (quad) KT<T>::max ())
        {
            g.skip = true;
            return g;
        }
        maxx = qmax (maxx, qabs (x[i]));
    }
    if (K == 2)
    {
        D  = x[0] * x[3] - x[2] * x[1];
        SD = qabs (x[0] * x[3]) + qabs (x[2] * x[1]);
        ED = 4 * eps * SD + 4 * dm;
        for (int i = 0; i < 4; ++i)
        {
            A[nA]  = x[i];
            SA[nA] = qabs (x[i]);
            EA[nA] = 0;
            ++nA;
        }
    }
    else
    {
        quad M[3][3], S[3][3];
        for (int i = 0; i < 3; ++i)
            for (int j = 0; j < 3; ++j)
            {
                int  r0 = i == 0 ? 1 : 0, r1 = i == 2 ? 1 : 2, c0 = j == 0 ? 1 : 0, c1 = j == 2 ? 1 : 2;
                quad p = x[r0 * 3 + c0] * x[r1 * 3 + c1], q = x[r1 * 3 + c0] * x[r0 * 3 + c1];
                M[i][j] = p - q;
                S[i][j] = qabs (p) + qabs (q);
                A[nA]   = M[i][j];
                SA[nA]  = S[i][j];
                EA[nA]  = 4 * eps * S[i][j] + 4 * dm;
                ++nA;
            }
        D  = x[0] * M[0][0] - x[1] * M[0][1] + x[2] * M[0][2];
        SD = qabs (x[0]) * S[0][0] + qabs (x[1]) * S[0][1] + qabs (x[2]) * S[0][2];
        ED = 8 * eps * SD + 8 * dm * (1 + maxx);
    }
    g.D        = D;
    g.singular = D == 0;
    quad maxA = 0, maxSA = 0;
    for (int k = 0; k < nA; ++k)
    {
        maxA  = qmax (maxA, qabs (A[k]));
        maxSA = qmax (maxSA, SA[k]);
    }
    if (SD >= lim || maxSA >= lim)
    {
        g.skip = true;
        return g;
    }
    ED *= (quad) C07_ESCALE;
    quad den = qabs (D) - ED;
    if (den < 0) den = 0;
    quad thr = (1 - (quad) 0.0009765625) / (quad) KT<T>::min ();
    for (int k = 0; k < nA; ++k)
        if (qabs (A[k]) + (quad) C07_ESCALE * EA[k] >= thr * den) g.justified = true;
    const quad two20 = 1048576;
    g.wellcond       = qabs (D) >= 1 / two20 && qabs (D) <= two20 && maxA <= two20 && maxx <= two20 && ED <= qabs (D) / 2;
    if (D != 0 && qabs (D) < 1)
    {
        quad ratio = maxA / qabs (D) * (quad) KT<T>::min ();
        g.near     = ratio >= (quad) (1.0 / 256) && ratio <= 256;
    }
    return g;
}

enum
{
    IL_THREW_DET,
    IL_THREW_GJ,
    IL_GENERAL,
    IL_AFFINE,
    IL_NEAR_AFFINE,
    IL_WELLCOND,
    IL_NEAR_GUARD,
    IL_EXACT_BOUNDARY,
    IL_SINGULAR,
    IL_DET_GE1,
    IL_DET_LT1,
    IL_OVERFLOWY,
    IL_IDENTITY_IN
};
#define IL_LABELS "determinant_form_threw", "gauss_jordan_form_threw", "general_path", "affine_path", "affine_perturbed_1ulp", "well_conditioned", "within_2^8_of_guard", "exact_guard_boundary_class", "exactly_singular", "abs_det_ge_1", "abs_det_lt_1", "overflowing_products_rule_skipped", "identity_input"

// K x K block from 10 classes; q row-major with stride 4
template <class T> static int gen_block (vp::Src& s, int K, T q[4][4])
{
    int cls = (int) s.below (10);
    for (int i = 0; i < 4; ++i)
        for (int j = 0; j < 4; ++j)
            q[i][j] = 0;
    auto fill_nice = [&] () {
        for (int i = 0; i < K; ++i)
            for (int j = 0; j < K; ++j)
                q[i][j] = gen::nice<T> (s);
    };
    switch (cls)
    {
        case 0: fill_nice (); break;
        case 1: // |det| around 1: nice matrix times a small power of two
        {
            fill_nice ();
            T sc = pow2<T> ((int) s.range (-3, 3));
            for (int i = 0; i < K; ++i)
                for (int j = 0; j < K; ++j)
                    q[i][j] *= sc;
            break;
        }
        case 2: // one row (or column) scaled so that the largest inverse entry is 2^(j) / min, j in [-4,4]
        {
            fill_nice ();
            quad a[16], inv[16];
            for (int i = 0; i < K; ++i)
                for (int j = 0; j < K; ++j)
                    a[i * K + j] = (quad) q[i][j];
            int  i0  = (int) s.below (K);
            bool col = s.coin ();
            int  jj  = (int) s.range (-4, 4);
            int  b   = (int) s.range (0, 30);
            if (qinverse (K, a, inv))
            {
                quad rho = 0;
                for (int k = 0; k < K; ++k)
                    rho = qmax (rho, qabs (col ? inv[i0 * K + k] : inv[k * K + i0]));
                if (rho > 0)
                {
                    int sh = orc::ilogbq_ (rho) + KT<T>::emin () - jj; // 2^-sh * rho ~ 2^jj / min
                    for (int i = 0; i < K; ++i)
                        for (int j = 0; j < K; ++j)
                        {
                            bool target = col ? j == i0 : i == i0;
                            q[i][j]     = std::ldexp (q[i][j], target ? sh : b);
                        }
                }
            }
            break;
        }
        case 3: // permuted diagonal of powers of two with one entry min +- ulps: mr == |s_ij| exactly when the offset is 0
        {
            int perm[4] = { 0, 1, 2, 3 };
            for (int i = K - 1; i > 0; --i)
                std::swap (perm[i], perm[(int) s.below (i + 1)]);
            int i0 = (int) s.below (K);
            for (int i = 0; i < K; ++i)
            {
                T d = i == i0 ? bump (KT<T>::min (), s.range (-1, 2)) : pow2<T> ((int) s.range (0, 12));
                if (s.coin ()) d = -d;
                q[i][perm[i]] = d;
            }
            break;
        }
        case 4: // exactly singular lattice matrices
        {
            for (int i = 0; i < K; ++i)
                for (int j = 0; j < K; ++j)
                    q[i][j] = (T) s.range (-4, 4);
            int a = (int) s.below (K), b = (int) s.below (K);
            switch (s.below (5))
            {
                case 0:
                    for (int j = 0; j < K; ++j)
                        q[a][j] = 0;
                    break;
                case 1:
                    for (int i = 0; i < K; ++i)
                        q[i][a] = 0;
                    break;
                case 2:
                    if (a == b) b = (a + 1) % K;
                    for (int j = 0; j < K; ++j)
                        q[a][j] = q[b][j] * pow2<T> ((int) s.range (-2, 2));
                    break;
                case 3:
                    if (a == b) b = (a + 1) % K;
                    for (int i = 0; i < K; ++i)
                        q[i][a] = -q[i][b];
                    break;
                default: // rank one
                {
                    T u[4], v[4];
                    for (int i = 0; i < K; ++i)
                    {
                        u[i] = (T) s.range (-3, 3);
                        v[i] = (T) s.range (-3, 3);
                    }
                    for (int i = 0; i < K; ++i)
                        for (int j = 0; j < K; ++j)
                            q[i][j] = u[i] * v[j];
                }
            }
            break;
        }
        case 5: // nearly dependent rows
        {
            fill_nice ();
            int a = (int) s.below (K);
            T   d = pow2<T> (-(int) s.range (1, std::numeric_limits<T>::digits + 6));
            for (int j = 0; j < K; ++j)
            {
                T acc = 0;
                for (int i = 0; i < K; ++i)
                    if (i != a) acc += q[i][j] * (T) (i + 1) / (T) 2;
                q[a][j] = acc + d * q[a][j];
            }
            break;
        }
        case 6: // uniform scale over a wide exponent range (determinant / cofactors under- or overflow)
        {
            fill_nice ();
            int lo = (int) (KT<T>::emin () * 0.6), hi = (int) (KT<T>::emax () * 0.5);
            T   sc = pow2<T> ((int) s.range (lo, hi));
            for (int i = 0; i < K; ++i)
                for (int j = 0; j < K; ++j)
                    q[i][j] *= sc;
            break;
        }
        case 7: // wild
            for (int i = 0; i < K; ++i)
                for (int j = 0; j < K; ++j)
                    q[i][j] = s.chance (4) ? gen::any_bits<T> (s) : gen::any_finite<T> (s);
            break;
        case 8: // identity and near-identity
            for (int i = 0; i < K; ++i)
                q[i][i] = 1;
            if (s.coin ())
            {
                int i = (int) s.below (K), j = (int) s.below (K);
                q[i][j] = i == j ? bump ((T) 1, s.range (-2, 2)) : (T) (s.coin () ? KT<T>::dmin () : pow2<T> (-(int) s.range (1, 60)));
            }
            break;
        default: // sparse: zeros force pivoting
            for (int i = 0; i < K; ++i)
                for (int j = 0; j < K; ++j)
                    q[i][j] = s.coin () ? (T) 0 : gen::nice<T> (s);
            break;
    }
    return cls;
}

template <class M, int N> static bool is_identity (const M& m)
{
    for (int i = 0; i < N; ++i)
        for (int j = 0; j < N; ++j)
            if (!(m[i][j] == (i == j ? 1 : 0))) return false;
    return true;
}
template <class M, class T, int N> static bool same_matrix (const M& a, const M& b, int* si = nullptr, int* sj = nullptr)
{
    for (int i = 0; i < N; ++i)
        for (int j = 0; j < N; ++j)
            if (!same<T> (a[i][j], b[i][j]))
            {
                if (si) *si = i;
                if (sj) *sj = j;
                return false;
            }
    return true;
}

// run the six spellings of one family and apply the pairing rules; returns what the checked form threw
template <class M, class T, int N> static int invert_family (vp::Ctx& c, const std::string& fam, const M& m, bool gj, M& result)
{
    M           R[6];
    int         th[6];
    bool        self[6] = { true, true, true, true, true, true };
    const char* nm[6]   = { "(true)", "(false)", "()", " in-place (true)", " in-place (false)", " in-place ()" };
    if constexpr (N == 2)
    {
        (void) gj;
        th[0] = call_checked ([&] { R[0] = m.inverse (true); });
        th[1] = call_checked ([&] { R[1] = m.inverse (false); });
        th[2] = call_checked ([&] { R[2] = m.inverse (); });
        th[3] = call_checked ([&] { M a (m); const M& r = a.invert (true); self[3] = &r == &a; R[3] = a; });
        th[4] = call_checked ([&] { M a (m); const M& r = a.invert (false); self[4] = &r == &a; R[4] = a; });
        th[5] = call_checked ([&] { M a (m); const M& r = a.invert (); self[5] = &r == &a; R[5] = a; });
    }
    else
    {
        if (!gj)
        {
            th[0] = call_checked ([&] { R[0] = m.inverse (true); });
            th[1] = call_checked ([&] { R[1] = m.inverse (false); });
            th[2] = call_checked ([&] { R[2] = m.inverse (); });
            th[3] = call_checked ([&] { M a (m); const M& r = a.invert (true); self[3] = &r == &a; R[3] = a; });
            th[4] = call_checked ([&] { M a (m); const M& r = a.invert (false); self[4] = &r == &a; R[4] = a; });
            th[5] = call_checked ([&] { M a (m); const M& r = a.invert (); self[5] = &r == &a; R[5] = a; });
        }
        else
        {
            th[0] = call_checked ([&] { R[0] = m.gjInverse (true); });
            th[1] = call_checked ([&] { R[1] = m.gjInverse (false); });
            th[2] = call_checked ([&] { R[2] = m.gjInverse (); });
            th[3] = call_checked ([&] { M a (m); const M& r = a.gjInvert (true); self[3] = &r == &a; R[3] = a; });
            th[4] = call_checked ([&] { M a (m); const M& r = a.gjInvert (false); self[4] = &r == &a; R[4] = a; });
            th[5] = call_checked ([&] { M a (m); const M& r = a.gjInvert (); self[5] = &r == &a; R[5] = a; });
        }
    }
    for (int k : { 1, 2, 4, 5 })
        VP_REQUIRE (c, th[k] == TH_NONE, fam + "/unchecked-form-threw", fam << nm[k] << " threw " << thname (th[k]) << " on " << mstr (m, N));
    for (int k = 3; k < 6; ++k)
        VP_REQUIRE (c, self[k], fam + "/in-place-return", fam << nm[k] << " does not return *this");
    VP_REQUIRE (c, th[0] == th[3], fam + "/checked-spellings-disagree", fam << "(true) threw " << thname (th[0]) << " but the in-place form threw " << thname (th[3]) << " on " << mstr (m, N));
    if (th[0] != TH_NONE)
    {
        VP_REQUIRE (c, th[0] == TH_INVALID, fam + "/exception-type", fam << "(true) threw " << thname (th[0]) << ", documented std::invalid_argument");
        for (int k : { 1, 2, 4, 5 })
            VP_REQUIRE (c, (is_identity<M, N> (R[k])), fam + "/unchecked-not-identity-after-throw", fam << "(true) threw on " << mstr (m, N) << " but " << fam << nm[k] << " returned " << mstr (R[k], N) << " instead of the identity");
        return th[0];
    }
    for (int k = 1; k < 6; ++k)
    {
        int si = 0, sj = 0;
        VP_REQUIRE (c, (same_matrix<M, T, N> (R[k], R[0], &si, &sj)), fam + "/bits-differ", fam << nm[k] << " = " << mstr (R[k], N) << " differs from " << fam << "(true) = " << mstr (R[0], N) << " in slot [" << si << "][" << sj << "] for " << mstr (m, N));
    }
    result = R[0];
    return TH_NONE;
}

template <class M, class T, int N> static void invert_eval (vp::Ctx& c, const char* tn, const M& m, int cls, int mode, GInfo* gout = nullptr);
template <class M, class T, int N> static void invert_case (vp::Ctx& c, const char* tn)
{
    vp::Src& s = c.s;
    T        q[4][4];
    M        m; // identity
    int      mode = N == 2 ? 0 : (int) s.below (4);
    bool     want_affine = N > 2 && mode >= (N == 4 ? 1 : 2); // 3x3: general path is a guard path too; 4x4: only the affine path is
    int      K    = want_affine ? N - 1 : N;
    int      cls  = gen_block<T> (s, K, q);
    for (int i = 0; i < K; ++i)
        for (int j = 0; j < K; ++j)
            m[i][j] = q[i][j];
    if (want_affine)
    {
        for (int j = 0; j < N - 1; ++j)
            m[N - 1][j] = s.coin () ? gen::nice<T> (s) : gsigned<T> (s);
        if (mode == 3)
        {
            switch (s.below (3))
            {
                case 0: m[N - 1][N - 1] = bump ((T) 1, s.coin () ? 1 : -1); break;
                case 1: m[0][N - 1] = s.coin () ? KT<T>::dmin () : -pow2<T> (-(int) s.range (1, 80)); break;
                default: m[N - 2][N - 1] = s.coin () ? KT<T>::dmin () : pow2<T> (-(int) s.range (1, 80)); break;
            }
        }
    }
    VP_NOTE (c, tn << " m=" << mstr (m, N) << " class=" << cls << " mode=" << mode);
    invert_eval<M, T, N> (c, tn, m, cls, mode);
}
// the rules of section 3 applied to one matrix (shared by invert* and invert_unitdet*; draws nothing)
template <class M, class T, int N> static void invert_eval (vp::Ctx& c, const char* tn, const M& m, int cls, int mode, GInfo* gout)
{
    // which block does the determinant form guard?  (documented fast path: last column (0,..,0,1))
    bool affine = false;
    if (N > 2)
    {
        affine = m[N - 1][N - 1] == 1;
        for (int i = 0; i < N - 1; ++i)
            if (m[i][N - 1] != 0) affine = false;
    }
    bool det_is_gj = N == 4 && !affine; // Matrix44::inverse forwards non-affine input to gjInverse
    int  KB        = N == 2 ? 2 : (affine ? N - 1 : N);
    quad xb[9];
    GInfo g;
    if (!det_is_gj)
    {
        for (int i = 0; i < KB; ++i)
            for (int j = 0; j < KB; ++j)
                xb[i * KB + j] = (quad) m[i][j];
        g = guard_info<T> (xb, KB);
    }
    // exact inverse of the whole matrix
    quad xm[16], xinv[16];
    bool finite_m = true;
    for (int i = 0; i < N; ++i)
        for (int j = 0; j < N; ++j)
        {
            xm[i * N + j] = (quad) m[i][j];
            if (!std::isfinite (m[i][j])) finite_m = false;
        }
    bool invertible = finite_m && qinverse (N, xm, xinv);
    quad cond = 0, dev_from_I = 0, maxm = 0;
    if (invertible)
    {
        quad n1 = 0, n2 = 0;
        for (int i = 0; i < N; ++i)
        {
            quad r1 = 0, r2 = 0;
            for (int j = 0; j < N; ++j)
            {
                r1 += qabs (xm[i * N + j]);
                r2 += qabs (xinv[i * N + j]);
                dev_from_I = qmax (dev_from_I, qabs (xinv[i * N + j] - (i == j ? 1 : 0)));
                maxm       = qmax (maxm, qabs (xm[i * N + j]));
            }
            n1 = qmax (n1, r1);
            n2 = qmax (n2, r2);
        }
        cond = n1 * n2;
    }
    bool input_identity = is_identity<M, N> (m);
    if (input_identity) c.label (IL_IDENTITY_IN);
    c.label (affine ? IL_AFFINE : IL_GENERAL);
    if (mode == 3 && !affine) c.label (IL_NEAR_AFFINE);
    if (cls == 3) c.label (IL_EXACT_BOUNDARY);
    if (!det_is_gj)
    {
        if (g.skip) c.label (IL_OVERFLOWY);
        if (g.near) c.label (IL_NEAR_GUARD);
        if (g.singular) c.label (IL_SINGULAR);
        if (!g.skip) c.label (qabs (g.D) >= 1 ? IL_DET_GE1 : IL_DET_LT1);
        if (g.wellcond) c.label (IL_WELLCOND);
    }
    if (gout) *gout = g;
    std::string T0 = tn;
    // ---- determinant family
    M   X;
    int td = invert_family<M, T, N> (c, T0 + "::inverse", m, false, X);
    if (td != TH_NONE) c.label (det_is_gj ? IL_THREW_GJ : IL_THREW_DET);
    c.nt (td != TH_NONE || g.near || g.singular);
    auto reverse_rule = [&] (const std::string& fam, int thrown, const M& R) {
        // the unchecked form reports failure by returning the identity for a matrix that is not the identity
        if (thrown == TH_NONE && finite_m && !input_identity && is_identity<M, N> (R))
            VP_REQUIRE (c, invertible && dev_from_I <= (quad) 0.0009765625, fam + "/identity-without-throw", fam << " returned exactly the identity for " << mstr (m, N) << " whose exact inverse " << (invertible ? "differs from the identity" : "does not exist") << ", but the checked form did not throw");
    };
    reverse_rule (T0 + "::inverse", td, X);
    if (!det_is_gj && td != TH_NONE)
    {
        VP_REQUIRE (c, !g.wellcond, T0 + "::inverse/threw-on-well-conditioned", T0 << "::inverse(true) threw on " << mstr (m, N) << " whose determinant " << qstr (g.D) << " and cofactors are within 2^+-20 of 1");
        if (!g.skip)
            VP_REQUIRE (c, g.justified, T0 + "::inverse/threw-far-from-overflow", T0 << "::inverse(true) threw on " << mstr (m, N) << ": exact determinant of the guarded block " << qstr (g.D) << ", every exact |cofactor/det| (widened by the rounding error bound) is below max/4");
    }
    // ---- Gauss-Jordan family
    if constexpr (N >= 3)
    {
        M   Y;
        int tg = invert_family<M, T, N> (c, T0 + "::gjInverse", m, true, Y);
        if (tg != TH_NONE)
        {
            c.label (IL_THREW_GJ);
            c.nt ();
        }
        reverse_rule (T0 + "::gjInverse", tg, Y);
        // well-conditioned: moderate entries and cond_inf <= 2^8 -> elimination with partial pivoting cannot meet a zero pivot
        bool gj_well = invertible && cond <= 256 && maxm <= 1048576 && maxm >= (quad) 1 / 1048576;
        if (gj_well) c.label (IL_WELLCOND);
        if (tg != TH_NONE)
            VP_REQUIRE (c, !gj_well, T0 + "::gjInverse/threw-on-well-conditioned", T0 << "::gjInverse(true) threw on " << mstr (m, N) << " with cond_inf = " << qstr (cond));
        if (det_is_gj)
            VP_REQUIRE (c, td == tg && (td != TH_NONE || (same_matrix<M, T, N> (X, Y))), T0 + "::inverse/non-affine-differs-from-gjInverse", T0 << "::inverse(true) and gjInverse(true) disagree on the non-affine " << mstr (m, N));
    }
}

#define IL_RULE "matrix (or its affine block + translation row; last column exact (0,..,1) / perturbed by 1 ulp) from 10 classes: nice, |det| near 1, one row/column power-of-two scaled to put the largest inverse entry within 2^+-4 of 1/min, permuted power-of-two diagonal with one entry min-1..+2 ulps, exactly singular lattice, nearly dependent rows, uniform scale 2^(0.6 emin..0.5 emax), wild finite/any bits, (near-)identity, sparse; oracle = quad determinant/cofactors/inverse; non-trivial = a checked form threw, or exact max|cofactor|/|det| within 2^8 of 1/min, or exactly singular"
#define IL_REQ "determinant_form_threw", "general_path", "well_conditioned", "within_2^8_of_guard", "exact_guard_boundary_class", "exactly_singular", "abs_det_ge_1", "abs_det_lt_1"
VP_RANDOM (invert22_f, 300000, 6000000, IL_RULE) { invert_case<M22f, float, 2> (c, "M22f"); }
VP_LABELS (invert22_f, IL_LABELS)
VP_REQUIRE_LABELS (invert22_f, IL_REQ)
VP_FUZZABLE (invert22_f)
VP_RANDOM (invert22_d, 300000, 6000000, IL_RULE) { invert_case<M22d, double, 2> (c, "M22d"); }
VP_LABELS (invert22_d, IL_LABELS)
VP_REQUIRE_LABELS (invert22_d, IL_REQ)
VP_RANDOM (invert33_f, 300000, 6000000, IL_RULE) { invert_case<M33f, float, 3> (c, "M33f"); }
VP_LABELS (invert33_f, IL_LABELS)
VP_REQUIRE_LABELS (invert33_f, IL_REQ, "affine_path", "affine_perturbed_1ulp", "gauss_jordan_form_threw")
VP_FUZZABLE (invert33_f)
VP_RANDOM (invert33_d, 300000, 6000000, IL_RULE) { invert_case<M33d, double, 3> (c, "M33d"); }
VP_LABELS (invert33_d, IL_LABELS)
VP_REQUIRE_LABELS (invert33_d, IL_REQ, "affine_path", "affine_perturbed_1ulp", "gauss_jordan_form_threw")
VP_RANDOM (invert44_f, 300000, 6000000, IL_RULE) { invert_case<M44f, float, 4> (c, "M44f"); }
VP_LABELS (invert44_f, IL_LABELS)
VP_REQUIRE_LABELS (invert44_f, IL_REQ, "affine_path", "affine_perturbed_1ulp", "gauss_jordan_form_threw")
VP_FUZZABLE (invert44_f)
VP_RANDOM (invert44_d, 300000, 6000000, IL_RULE) { invert_case<M44d, double, 4> (c, "M44d"); }
VP_LABELS (invert44_d, IL_LABELS)
VP_REQUIRE_LABELS (invert44_d, IL_REQ, "affine_path", "affine_perturbed_1ulp", "gauss_jordan_form_threw")
VP_FUZZABLE (invert44_d)

// ---- 3b. guarded determinants that are EXACTLY +-2^k (mostly +-1) built from entries of widely different magnitude
//
// The classes of gen_block reach |det| == 1 only with ordinary entries, and huge cofactors only with tiny determinants.
// Here both meet: products of powers of two (2^e x 2^-e), power-of-two row/column scalings of small integer
// unimodular matrices, and (permuted) unitriangular matrices with huge off-diagonal entries, with entries / cofactors
// at and beyond 1/min and sqrt(max).  The determinant the code computes is then exact (no rounding as long as no
// product over- or underflows), so the |r| >= 1 boundary of every copy is evaluated with |r| exactly 1 (or 2^k).
// The rules are those of invert_eval (pairing of the six spellings of both families, throw => unchecked returns the
// identity, throw justified by exact |cofactor/det| >= max/4, well-conditioned never throws).
enum
{
    IU_PERM = IL_IDENTITY_IN + 1,
    IU_UNIMOD,
    IU_TRI,
    IU_DET_PM1,
    IU_DET_POW2,
    IU_COF_GE_INVMIN,
    IU_ENTRY_GE_SQRTMAX,
    IU_TRANS_HUGE
};
#define IU_LABELS IL_LABELS, "scaled_signed_permutation", "scaled_integer_unimodular", "permuted_unitriangular_huge_offdiagonal", "guarded_det_exactly_pm1", "guarded_det_exactly_pm_2^k_k_nonzero", "det_exactly_pm1_and_finite_cofactor_ge_1/min", "entry_ge_sqrt_max", "huge_translation"

// n exponents in [-E,E] with the given sum (|total| <= n*E): uniform / balanced / some pinned near -E or +E and the
// rest balanced; the start position is rotated
static void split_exponents (vp::Src& s, int n, int total, int E, int* out)
{
    int e[8];
    int style = (int) s.below (4);
    int pinned = (int) s.range (1, n > 1 ? n - 1 : 1);
    int R = total;
    for (int i = 0; i < n; ++i)
    {
        int rem = n - i;
        int lo = std::max (-E, R - (rem - 1) * E), hi = std::min (E, R + (rem - 1) * E);
        int v;
        if (rem == 1)
            v = R;
        else if (style == 0)
            v = (int) s.range (lo, hi);
        else if (style >= 2 && i < pinned)
        {
            int j = (int) s.range (0, 2);
            v     = style == 2 ? -E + j : E - j;
        }
        else
        {
            int j = (int) s.range (-2, 2);
            v     = R / rem + j;
        }
        if (v < lo) v = lo;
        if (v > hi) v = hi;
        e[i] = v;
        R -= v;
    }
    int rot = (int) s.below (n);
    for (int i = 0; i < n; ++i)
        out[(i + rot) % n] = e[i];
}
static void random_perm (vp::Src& s, int K, int* perm)
{
    for (int i = 0; i < 4; ++i)
        perm[i] = i;
    for (int i = K - 1; i > 0; --i)
        std::swap (perm[i], perm[(int) s.below (i + 1)]);
}
// a huge (or boundary) magnitude: around 1/min, sqrt(max), max, or anything
template <class T> static T huge_mag (vp::Src& s)
{
    int j = (int) s.range (-2, 2);
    switch (s.below (6))
    {
        case 0: return pow2<T> (-KT<T>::emin () + j);      // 1/min = 2^126 / 2^1022 and neighbours
        case 1: return pow2<T> ((KT<T>::emax () + 1) / 2 + j); // sqrt(max) ~ 2^64 / 2^512
        case 2: return pow2<T> (KT<T>::emax () - (j < 0 ? -j : j));
        case 3: return KT<T>::max ();
        case 4: return bump ((T) 1 / KT<T>::min (), j);
        default: return gmag<T> (s);
    }
}
// K x K block with determinant exactly +-2^k (as long as no entry under-/overflows); returns the class label
template <class T> static int gen_unitdet_block (vp::Src& s, int K, T q[4][4])
{
    for (int i = 0; i < 4; ++i)
        for (int j = 0; j < 4; ++j)
            q[i][j] = 0;
    int k;
    switch (s.below (4))
    {
        case 0:
        case 1: k = 0; break;
        case 2: k = (int) s.range (-3, 3); break;
        default: k = (int) s.range (-40, 40); break;
    }
    int cls = (int) s.below (3);
    int sigma[4], tau[4], ex[8];
    if (cls == 0) // signed permutation, entries 2^e_i with sum e_i == k
    {
        random_perm (s, K, tau);
        split_exponents (s, K, k, KT<T>::emax (), ex);
        for (int i = 0; i < K; ++i)
        {
            T d = pow2<T> (ex[i]);
            if (s.coin ()) d = -d;
            q[i][tau[i]] = d;
        }
        return IU_PERM;
    }
    if (cls == 1) // D1 * U * D2, U = small integer unimodular, D1, D2 = powers of two
    {
        int u[4][4];
        random_perm (s, K, tau);
        for (int i = 0; i < 4; ++i)
            for (int j = 0; j < 4; ++j)
                u[i][j] = 0;
        for (int i = 0; i < K; ++i)
            u[i][tau[i]] = s.coin () ? -1 : 1;
        int nops = (int) s.range (1, 4);
        for (int o = 0; o < nops; ++o)
        {
            int a = (int) s.below (K);
            int b = (int) s.below (K - 1);
            int t = (int) s.range (-2, 2);
            if (b >= a) ++b;
            for (int j = 0; j < K; ++j)
                u[a][j] += t * u[b][j];
        }
        split_exponents (s, 2 * K, k, KT<T>::emax () / 2, ex);
        for (int i = 0; i < K; ++i)
            for (int j = 0; j < K; ++j)
                q[i][j] = finite_clamp ((T) std::ldexp ((T) u[i][j], ex[i] + ex[K + j]));
        return IU_UNIMOD;
    }
    // permuted unitriangular: diagonal +-2^e_i (sum k, |e_i| <= 20, mostly 0), huge entries above it
    {
        T   t[4][4];
        int E = s.coin () ? 0 : 20;
        random_perm (s, K, sigma);
        random_perm (s, K, tau);
        split_exponents (s, K, (k > K * E || k < -K * E) ? 0 : k, E, ex);
        for (int i = 0; i < K; ++i)
            for (int j = 0; j < K; ++j)
            {
                t[i][j] = 0;
                if (i == j)
                {
                    t[i][j] = pow2<T> (ex[i]);
                    if (s.chance (64)) t[i][j] = -t[i][j];
                }
                else if (i < j && !s.chance (64))
                {
                    t[i][j] = huge_mag<T> (s);
                    if (s.coin ()) t[i][j] = -t[i][j];
                }
            }
        bool transpose = s.coin ();
        for (int i = 0; i < K; ++i)
            for (int j = 0; j < K; ++j)
                q[sigma[i]][tau[j]] = transpose ? t[j][i] : t[i][j];
        return IU_TRI;
    }
}

template <class M, class T, int N> static void invert_unitdet_case (vp::Ctx& c, const char* tn)
{
    vp::Src& s = c.s;
    T        q[4][4];
    M        m; // identity
    int      mode        = N == 2 ? 0 : (int) s.below (3);
    bool     want_affine = N > 2 && mode >= 1;
    int      K           = want_affine ? N - 1 : N;
    int      cls         = gen_unitdet_block<T> (s, K, q);
    for (int i = 0; i < K; ++i)
        for (int j = 0; j < K; ++j)
            m[i][j] = q[i][j];
    bool trans_huge = false;
    if (want_affine)
        for (int j = 0; j < N - 1; ++j)
        {
            int w = (int) s.below (4);
            T   v;
            if (w == 0)
                v = (T) 0;
            else if (w == 1)
                v = gen::nice<T> (s);
            else if (w == 2)
                v = gsigned<T> (s);
            else
            {
                v          = huge_mag<T> (s);
                trans_huge = true;
            }
            if (s.coin ()) v = -v;
            m[N - 1][j] = v;
        }
    VP_NOTE (c, tn << " m=" << mstr (m, N) << " unit-det class=" << cls << " mode=" << mode);
    c.label (cls);
    if (trans_huge) c.label (IU_TRANS_HUGE);
    // exact determinant and cofactors of the block the determinant form guards (quad: exact for these entries)
    bool guarded = N != 4 || want_affine;
    if (guarded)
    {
        quad x[3][3], D, maxc = 0, maxe = 0;
        for (int i = 0; i < K; ++i)
            for (int j = 0; j < K; ++j)
            {
                x[i][j] = (quad) m[i][j];
                maxe    = qmax (maxe, qabs (x[i][j]));
            }
        if (K == 2)
        {
            D    = x[0][0] * x[1][1] - x[1][0] * x[0][1];
            maxc = maxe;
        }
        else
        {
            D = 0;
            for (int i = 0; i < 3; ++i)
                for (int j = 0; j < 3; ++j)
                {
                    int  r0 = i == 0 ? 1 : 0, r1 = i == 2 ? 1 : 2, c0 = j == 0 ? 1 : 0, c1 = j == 2 ? 1 : 2;
                    quad mn = x[r0][c0] * x[r1][c1] - x[r1][c0] * x[r0][c1];
                    maxc    = qmax (maxc, qabs (mn));
                    if (i == 0) D += (j == 1 ? -1 : 1) * x[0][j] * mn;
                }
        }
        bool finite_cof = maxc <= (quad) KT<T>::max ();
        if (qabs (D) == 1)
        {
            c.label (IU_DET_PM1);
            if (finite_cof && maxc >= 1 / (quad) KT<T>::min ())
            {
                c.label (IU_COF_GE_INVMIN);
                c.nt ();
            }
        }
        else if (D != 0)
        {
            quad aD = qabs (D);
            if (aD <= (quad) 1e4000L && aD >= (quad) 1e-4000L && aD == (quad) std::ldexp (1.0L, orc::ilogbq_ (aD))) c.label (IU_DET_POW2);
        }
        if (maxe >= (quad) std::sqrt ((double) KT<T>::max ())) c.label (IU_ENTRY_GE_SQRTMAX);
    }
    invert_eval<M, T, N> (c, tn, m, -1, want_affine ? 2 : 0);
}
#define IU_RULE "matrix (or its affine block + translation row from {0, nice, any magnitude, huge}) whose guarded determinant is exactly +-2^k (k = 0 half of the time, else |k| <= 3 / <= 40) from 3 classes: signed permutation of powers of two 2^e_i with sum e_i = k (|e_i| up to emax; uniform / balanced / some pinned within 2 of -emax or +emax), D1*U*D2 with U a small integer unimodular matrix (signed permutation + 1..4 integer row operations) and power-of-two row/column scalings (|e| <= emax/2, same splits), row/column-permuted (transposed) unitriangular matrix with diagonal +-2^e (|e| <= 20, mostly 0) and off-diagonal entries from {1/min x 2^+-2, 1/min +-2ulp, sqrt(max) x 2^+-2, max / 2^0..2, max, any magnitude}; rules of invert*; non-trivial = a checked form threw, or |det| exactly 1 with a finite cofactor >= 1/min, or within 2^8 of the guard"
#define IU_REQ "scaled_signed_permutation", "scaled_integer_unimodular", "permuted_unitriangular_huge_offdiagonal", "guarded_det_exactly_pm1", "guarded_det_exactly_pm_2^k_k_nonzero", "det_exactly_pm1_and_finite_cofactor_ge_1/min", "entry_ge_sqrt_max"
VP_RANDOM (invert_unitdet22_f, 150000, 3000000, IU_RULE) { invert_unitdet_case<M22f, float, 2> (c, "M22f"); }
VP_LABELS (invert_unitdet22_f, IU_LABELS)
VP_REQUIRE_LABELS (invert_unitdet22_f, IU_REQ, "general_path")
VP_RANDOM (invert_unitdet22_d, 150000, 3000000, IU_RULE) { invert_unitdet_case<M22d, double, 2> (c, "M22d"); }
VP_LABELS (invert_unitdet22_d, IU_LABELS)
VP_REQUIRE_LABELS (invert_unitdet22_d, IU_REQ, "general_path")
VP_RANDOM (invert_unitdet33_f, 150000, 3000000, IU_RULE) { invert_unitdet_case<M33f, float, 3> (c, "M33f"); }
VP_LABELS (invert_unitdet33_f, IU_LABELS)
VP_REQUIRE_LABELS (invert_unitdet33_f, IU_REQ, "general_path", "affine_path", "huge_translation")
VP_RANDOM (invert_unitdet33_d, 150000, 3000000, IU_RULE) { invert_unitdet_case<M33d, double, 3> (c, "M33d"); }
VP_LABELS (invert_unitdet33_d, IU_LABELS)
VP_REQUIRE_LABELS (invert_unitdet33_d, IU_REQ, "general_path", "affine_path", "huge_translation")
VP_RANDOM (invert_unitdet44_f, 150000, 3000000, IU_RULE) { invert_unitdet_case<M44f, float, 4> (c, "M44f"); }
VP_LABELS (invert_unitdet44_f, IU_LABELS)
VP_REQUIRE_LABELS (invert_unitdet44_f, IU_REQ, "general_path", "affine_path", "huge_translation")
VP_RANDOM (invert_unitdet44_d, 150000, 3000000, IU_RULE) { invert_unitdet_case<M44d, double, 4> (c, "M44d"); }
VP_LABELS (invert_unitdet44_d, IU_LABELS)
VP_REQUIRE_LABELS (invert_unitdet44_d, IU_REQ, "general_path", "affine_path", "huge_translation")

// ===========================================================================
// 4. Frustum: aspectExc, projectionMatrixExc, localToScreenExc, projectPointToScreenExc, screenRadiusExc,
//    worldRadiusExc, normalizedZToDepthExc, ZToDepthExc, DepthToZExc, setExc
//
// Every guard has the shape  |den| < 1 && |num| > max*|den|  (or its complement).  "Guarded quotient" below is
// num/den evaluated in quad from the frustum parameters and arguments; where the code computes num or den as a sum
// that can cancel, the stated forward error bound widens the exact value.
template <class T> struct FrX : public Frustum<T>
{
    FrX (T n, T f, T l, T r, T t, T b, bool o) : Frustum<T> (n, f, l, r, t, b, o) {}
    using Frustum<T>::localToScreen;
    using Frustum<T>::localToScreenExc;
};
template <class T> struct FP
{
    T    n, f, l, r, t, b;
    bool ortho, standard;
};
struct GQ
{
    quad num, den, enum_ = 0, eden = 0;
    GQ (quad n, quad d, quad en = 0, quad ed = 0) : num (n), den (d), enum_ (en), eden (ed) {}
};
template <class T> static inline bool gq_justified (const GQ& g)
{
    quad d = qabs (g.den) - (quad) C07_ESCALE * g.eden;
    if (d < 0) d = 0;
    return qabs (g.num) + (quad) C07_ESCALE * g.enum_ >= KT<T>::qmax4 () * d;
}
template <class T> static inline bool gq_near (const GQ& g) // within 2^8 of the limit, or undefined
{
    return qabs (g.num) * 256 >= KT<T>::qmax4 () * qabs (g.den);
}
// (lo,hi) with hi-lo from 0 through denormals to huge
template <class T> static void gen_pair (vp::Src& s, T& lo, T& hi)
{
    T d = gmag<T> (s);
    switch (s.below (7))
    {
        case 0:
            lo = s.coin () ? (T) 0 : -(T) 0;
            hi = d;
            break;
        case 1:
            lo = -d / 2;
            hi = d / 2;
            break;
        case 2:
            lo = gen::nice<T> (s);
            hi = lo + d;
            if (hi == lo && s.chance (192)) hi = bump (lo, s.range (1, 3)); // difference absorbed: smallest representable one instead
            break;
        case 3:
            lo = hi = s.coin () ? gen::nice<T> (s) : gsigned<T> (s);
            if (s.coin ()) hi = lo + d;
            break;
        case 4:
            lo = s.coin () ? gen::nice<T> (s) : gsigned<T> (s);
            hi = bump (lo, s.range (-3, 3));
            break;
        case 5:
            lo = gsigned<T> (s);
            hi = gsigned<T> (s);
            break;
        default:
            lo = gsigned<T> (s);
            hi = lo + d;
            if (hi == lo && s.chance (192)) hi = bump (lo, s.range (1, 3));
            break;
    }
    lo = finite_clamp (lo);
    hi = finite_clamp (hi);
    if (s.chance (32)) std::swap (lo, hi);
}
template <class T> static FP<T> gen_frustum (vp::Src& s)
{
    FP<T> p;
    p.ortho    = s.coin ();
    p.standard = s.chance (64);
    if (p.standard)
    {
        p.n = (T) s.uniform (0.01, 10.0);
        p.f = p.n + (T) s.uniform (0.1, 1000.0);
        p.l = -(T) s.uniform (0.1, 4.0);
        p.r = (T) s.uniform (0.1, 4.0);
        p.b = -(T) s.uniform (0.1, 4.0);
        p.t = (T) s.uniform (0.1, 4.0);
    }
    else
    {
        // each pair independently ordinary or from the difference classes, so that usually one guard is exercised at a time
        p.l = -(T) s.uniform (0.1, 4.0);
        p.r = (T) s.uniform (0.1, 4.0);
        p.b = -(T) s.uniform (0.1, 4.0);
        p.t = (T) s.uniform (0.1, 4.0);
        p.n = (T) s.uniform (0.01, 10.0);
        p.f = p.n + (T) s.uniform (0.1, 1000.0);
        int which = (int) s.below (8); // bit mask of the pairs to replace; 0 -> all three
        if (which == 0) which = 7;
        if (which & 1) gen_pair<T> (s, p.l, p.r);
        if (which & 2) gen_pair<T> (s, p.b, p.t);
        if (which & 4) gen_pair<T> (s, p.n, p.f);
    }
    return p;
}
template <class T> static std::string fstr (const FP<T>& p)
{
    std::ostringstream o;
    o << std::setprecision (17) << "frustum(near=" << (double) p.n << " far=" << (double) p.f << " left=" << (double) p.l << " right=" << (double) p.r << " top=" << (double) p.t << " bottom=" << (double) p.b << (p.ortho ? " ortho" : " persp") << ")";
    return o.str ();
}
template <class T> static inline bool reports_overflow (T u) { return !std::isfinite (u) || qabs ((quad) u) >= KT<T>::qmax4 (); }

enum
{
    FL_THREW,
    FL_STANDARD,
    FL_ORTHO,
    FL_PERSP,
    FL_NEAR_GUARD,
    FL_DEGENERATE,
    FL_A,
    FL_B,
    FL_C,
    FL_D,
    FL_E,
    FL_F
};

// ---- 4a. aspectExc / projectionMatrixExc
#define FPROJ_LABELS "threw", "standard_frustum", "orthographic", "perspective", "quotient_within_2^8_of_guard_or_undefined", "degenerate_exact", "aspectExc_threw", "projectionMatrixExc_threw", "near_plane_targeted_at_2n_guard", "width_targeted_at_aspect_guard", "-", "-"
template <class T> static void frustum_proj_case (vp::Ctx& c, const char* tn)
{
    vp::Src& s = c.s;
    FP<T>    p = gen_frustum<T> (s);
    if (!p.standard)
    {
        switch (s.below (6))
        {
            case 1:
            case 2:
            {
                T d = s.coin () ? (T) (p.r - p.l) : (T) (p.t - p.b);
                if (d != 0 && d > -(T) 1 && d < (T) 1)
                {
                    p.n = near_product<T> (s, d) / 2;
                    if (s.coin ()) p.n = -p.n;
                    p.f = finite_clamp ((T) (p.n + gmag<T> (s)));
                    c.label (FL_C);
                }
                break;
            }
            case 3:
            {
                T d = p.t - p.b;
                if (d > -(T) 1 && d < (T) 1)
                {
                    p.l = 0;
                    p.r = near_product<T> (s, d);
                    if (s.coin ()) p.r = -p.r;
                    c.label (FL_D);
                }
                break;
            }
            default: break;
        }
    }
    VP_NOTE (c, tn << " " << fstr (p));
    Frustum<T> fr (p.n, p.f, p.l, p.r, p.t, p.b, p.ortho);
    quad       n = p.n, f = p.f, l = p.l, r = p.r, t = p.t, b = p.b;
    c.label (p.ortho ? FL_ORTHO : FL_PERSP);
    if (p.standard) c.label (FL_STANDARD);
    if (p.l == p.r || p.t == p.b || p.n == p.f) c.label (FL_DEGENERATE);
    // aspect
    {
        GQ  g (r - l, t - b);
        T   C = 0;
        int th = call_checked ([&] { C = fr.aspectExc (); });
        T   U = fr.aspect ();
        bool nr = gq_near<T> (g);
        if (nr) c.label (FL_NEAR_GUARD);
        c.nt (th != TH_NONE || nr);
        if (th != TH_NONE)
        {
            c.label (FL_THREW);
            c.label (FL_A);
            VP_REQUIRE (c, th == TH_DOMAIN, "frustum-aspect/exception-type", tn << " aspectExc threw " << thname (th));
            VP_REQUIRE (c, !p.standard, "frustum-aspect/threw-on-standard-frustum", tn << " aspectExc threw on " << fstr (p));
            VP_REQUIRE (c, gq_justified<T> (g), "frustum-aspect/threw-far-from-overflow", tn << " aspectExc threw on " << fstr (p) << ": exact (right-left)/(top-bottom) = " << qstr (g.num) << "/" << qstr (g.den));
            VP_REQUIRE (c, reports_overflow (U), "frustum-aspect/unchecked-finite-after-throw", tn << " aspectExc threw but aspect() = " << U << " on " << fstr (p));
        }
        else
            VP_REQUIRE (c, same<T> (C, U), "frustum-aspect/bits-differ", tn << " aspectExc = " << C << " but aspect = " << U << " on " << fstr (p));
    }
    // projection matrix
    {
        std::vector<GQ> gs;
        gs.emplace_back (r + l, r - l);
        gs.emplace_back (t + b, t - b);
        gs.emplace_back (f + n, f - n);
        if (p.ortho)
        {
            gs.emplace_back (2, r - l);
            gs.emplace_back (2, t - b);
            gs.emplace_back (2, f - n);
        }
        else
        {
            gs.emplace_back (2 * f * n, f - n);
            gs.emplace_back (2 * n, r - l);
            gs.emplace_back (2 * n, t - b);
        }
        bool just = false, nr = false;
        for (auto& g : gs)
        {
            if (gq_justified<T> (g)) just = true;
            if (gq_near<T> (g)) nr = true;
        }
        Matrix44<T> C, U = fr.projectionMatrix ();
        int         th = call_checked ([&] { C = fr.projectionMatrixExc (); });
        if (nr) c.label (FL_NEAR_GUARD);
        c.nt (th != TH_NONE || nr);
        if (th != TH_NONE)
        {
            c.label (FL_THREW);
            c.label (FL_B);
            VP_REQUIRE (c, th == TH_DOMAIN, "frustum-projection/exception-type", tn << " projectionMatrixExc threw " << thname (th));
            VP_REQUIRE (c, !p.standard, "frustum-projection/threw-on-standard-frustum", tn << " projectionMatrixExc threw on " << fstr (p));
            VP_REQUIRE (c, just, "frustum-projection/threw-far-from-overflow", tn << " projectionMatrixExc threw on " << fstr (p) << " although every exact matrix entry is below max/4 and defined");
            bool rep = false;
            for (int i = 0; i < 4; ++i)
                for (int j = 0; j < 4; ++j)
                    if (reports_overflow (U[i][j])) rep = true;
            VP_REQUIRE (c, rep, "frustum-projection/unchecked-finite-after-throw", tn << " projectionMatrixExc threw but projectionMatrix() = " << mstr (U, 4) << " on " << fstr (p));
        }
        else
        {
            int si = 0, sj = 0;
            VP_REQUIRE (c, (same_matrix<Matrix44<T>, T, 4> (C, U, &si, &sj)), "frustum-projection/bits-differ", tn << " projectionMatrixExc = " << mstr (C, 4) << " but projectionMatrix = " << mstr (U, 4) << " (slot [" << si << "][" << sj << "]) on " << fstr (p));
        }
    }
}
#define FPROJ_RULE "frustum: 1/4 standard (near 0.01..10, far-near 0.1..1000, half-widths 0.1..4), else (left,right),(bottom,top),(near,far) pairs whose difference runs over {0, denormal, 2/max+-4ulp, min+-4ulp, 2^e over the whole range, 1+-4ulp, huge} around bases {0, symmetric, nice, equal, +-3 ulps, independent}; 1/3 of those re-targeted: near = max*|right-left|/2 (or top-bottom) +-2ulp / 2^+-3, or right-left = max*|top-bottom| +-2ulp; non-trivial = a checked form threw or a guarded quotient is within 2^8 of max/4 or undefined"
VP_RANDOM (frustum_proj_f, 400000, 8000000, FPROJ_RULE) { frustum_proj_case<float> (c, "Frustumf"); }
VP_LABELS (frustum_proj_f, FPROJ_LABELS)
VP_REQUIRE_LABELS (frustum_proj_f, "standard_frustum", "orthographic", "perspective", "degenerate_exact", "aspectExc_threw", "projectionMatrixExc_threw", "near_plane_targeted_at_2n_guard", "width_targeted_at_aspect_guard")
VP_FUZZABLE (frustum_proj_f)
VP_RANDOM (frustum_proj_d, 400000, 8000000, FPROJ_RULE) { frustum_proj_case<double> (c, "Frustumd"); }
VP_LABELS (frustum_proj_d, FPROJ_LABELS)
VP_REQUIRE_LABELS (frustum_proj_d, "standard_frustum", "orthographic", "perspective", "degenerate_exact", "aspectExc_threw", "projectionMatrixExc_threw", "near_plane_targeted_at_2n_guard", "width_targeted_at_aspect_guard")
VP_FUZZABLE (frustum_proj_d)

// ---- 4b. localToScreenExc / projectPointToScreenExc / screenRadiusExc / worldRadiusExc
#define FSCR_LABELS "threw", "standard_frustum", "orthographic", "perspective", "quotient_within_2^8_of_guard_or_undefined", "degenerate_exact", "localToScreenExc_threw", "projectPointToScreenExc_threw", "screenRadiusExc_threw", "worldRadiusExc_threw", "point_z_zero", "numerator_cancels"
template <class T> static void frustum_screen_case (vp::Ctx& c, const char* tn)
{
    vp::Src& s = c.s;
    FP<T>    p = gen_frustum<T> (s);
    quad     n = p.n, l = p.l, r = p.r, t = p.t, b = p.b;
    const quad eps = KT<T>::eps (), dm = (quad) KT<T>::dmin ();
    c.label (p.ortho ? FL_ORTHO : FL_PERSP);
    if (p.standard) c.label (FL_STANDARD);
    if (p.l == p.r || p.t == p.b) c.label (FL_DEGENERATE);
    FrX<T> fr (p.n, p.f, p.l, p.r, p.t, p.b, p.ortho);
    // one screen coordinate: ordinary, any magnitude, placed at the guard, or making left - 2x + right cancel
    bool cancels = false;
    auto coord   = [&] (T lo, T hi, bool ordinary) -> T {
        if (ordinary) return gen::nice<T> (s);
        switch (s.below (5))
        {
            case 0: return gen::nice<T> (s);
            case 1: return gsigned<T> (s);
            case 2:
            {
                T d = lo - hi;
                T v = near_product<T> (s, d) / 2;
                return s.coin () ? -v : v;
            }
            case 3: cancels = true; return bump ((T) ((lo + hi) / 2), s.range (-3, 3));
            default: return (T) s.uniform (-8.0, 8.0);
        }
    };
    // ---- localToScreenExc (protected; reached through a deriving class)
    {
        bool    ox = p.standard && s.coin ();
        T       qx = coord (p.l, p.r, ox);
        bool    oy = p.standard && s.coin ();
        T       qy = coord (p.b, p.t, oy);
        Vec2<T> q (qx, qy);
        VP_NOTE (c, tn << " " << fstr (p) << " local point " << vstr (q, 2));
        if (cancels) c.label (FL_F);
        // computed numerator fl(fl(lo - 2x) + hi): |error| <= 2 eps (|lo| + 2|x| + |hi|); bound used: 4 eps (...)
        GQ gx (l - 2 * (quad) q.x + r, l - r, 4 * eps * (qabs (l) + 2 * qabs ((quad) q.x) + qabs (r)));
        GQ gy (b - 2 * (quad) q.y + t, b - t, 4 * eps * (qabs (b) + 2 * qabs ((quad) q.y) + qabs (t)));
        Vec2<T> C ((T) 0), U = fr.localToScreen (q);
        int     th = call_checked ([&] { C = fr.localToScreenExc (q); });
        bool    nr = gq_near<T> (gx) || gq_near<T> (gy);
        if (nr) c.label (FL_NEAR_GUARD);
        c.nt (th != TH_NONE || nr);
        if (th != TH_NONE)
        {
            c.label (FL_THREW);
            c.label (FL_A);
            VP_REQUIRE (c, th == TH_DOMAIN, "frustum-localToScreen/exception-type", tn << " localToScreenExc threw " << thname (th));
            VP_REQUIRE (c, !(p.standard && qabs ((quad) q.x) <= 1048576 && qabs ((quad) q.y) <= 1048576), "frustum-localToScreen/threw-on-standard-frustum", tn << " localToScreenExc threw on " << fstr (p) << " point " << vstr (q, 2));
            VP_REQUIRE (c, gq_justified<T> (gx) || gq_justified<T> (gy), "frustum-localToScreen/threw-far-from-overflow", tn << " localToScreenExc(" << vstr (q, 2) << ") threw on " << fstr (p) << ": exact quotients " << qstr (gx.num) << "/" << qstr (gx.den) << " and " << qstr (gy.num) << "/" << qstr (gy.den));
            VP_REQUIRE (c, reports_overflow (U.x) || reports_overflow (U.y), "frustum-localToScreen/unchecked-finite-after-throw", tn << " localToScreenExc threw but localToScreen = " << vstr (U, 2) << " on " << fstr (p) << " point " << vstr (q, 2));
        }
        else
            VP_REQUIRE (c, same<T> (C.x, U.x) && same<T> (C.y, U.y), "frustum-localToScreen/bits-differ", tn << " localToScreenExc = " << vstr (C, 2) << " but localToScreen = " << vstr (U, 2) << " on " << fstr (p) << " point " << vstr (q, 2));
    }
    // ---- 3-D point: z from {0, denormal, ... huge}, or placed at the near/max (screenRadius) resp. max*near (worldRadius) guards
    T z;
    switch (s.below (6))
    {
        case 0: z = s.coin () ? (T) 0 : -(T) 0; break;
        case 1: z = near_product<T> (s, p.n); break; // |z| ~ max*|near|  (worldRadius guard when |near| < 1)
        case 2:                                       // |near| ~ max*|z|  (screenRadius guard, point projection overflow)
        {
            T an = p.n < 0 ? -p.n : p.n;
            z    = bump ((T) (an / KT<T>::max ()), s.range (-2, 2));
            if (s.coin ()) z = (T) (z * pow2<T> ((int) s.range (-3, 3)));
            break;
        }
        case 3: z = -(T) s.uniform (0.01, 1000.0); break;
        default: z = gmag<T> (s); break;
    }
    if (s.coin ()) z = -z;
    z = finite_clamp (z);
    // domain: x*near and y*near must not overflow by themselves (an intermediate of the projection, not a guarded quotient)
    auto pcoord = [&] () -> T {
        T v = s.coin () ? gen::nice<T> (s) : gsigned<T> (s);
        if (qabs ((quad) v * n) >= KT<T>::qmax4 ()) v = gen::nice<T> (s);
        if (qabs ((quad) v * n) >= KT<T>::qmax4 ()) v = 0;
        return v;
    };
    T       Px = pcoord ();
    T       Py = pcoord ();
    Vec3<T> P (Px, Py, z);
    T       radius = s.coin () ? gen::nice<T> (s) : gsigned<T> (s);
    VP_NOTE (c, "point " << vstr (P, 3) << " radius " << radius);
    if (z == 0) c.label (FL_E);
    // ---- projectPointToScreenExc
    {
        bool direct = p.ortho || z == 0;
        quad px = direct ? (quad) P.x : (quad) P.x * n / -(quad) z, py = direct ? (quad) P.y : (quad) P.y * n / -(quad) z;
        // computed local point fl(fl(x*near)/-z): relative 2 eps, plus underflow of the product amplified by 1/|z|
        quad epx = direct ? 0 : 2 * eps * qabs (px) + dm / qabs ((quad) z) + dm, epy = direct ? 0 : 2 * eps * qabs (py) + dm / qabs ((quad) z) + dm;
        GQ   gx (l - 2 * px + r, l - r, 4 * eps * (qabs (l) + 2 * qabs (px) + qabs (r)) + 4 * epx);
        GQ   gy (b - 2 * py + t, b - t, 4 * eps * (qabs (b) + 2 * qabs (py) + qabs (t)) + 4 * epy);
        Vec2<T> C ((T) 0), U = fr.projectPointToScreen (P);
        int     th = call_checked ([&] { C = fr.projectPointToScreenExc (P); });
        bool    nr = gq_near<T> (gx) || gq_near<T> (gy);
        if (nr) c.label (FL_NEAR_GUARD);
        c.nt (th != TH_NONE || nr);
        if (th != TH_NONE)
        {
            c.label (FL_THREW);
            c.label (FL_B);
            VP_REQUIRE (c, th == TH_DOMAIN, "frustum-projectPoint/exception-type", tn << " projectPointToScreenExc threw " << thname (th));
            VP_REQUIRE (c, !(p.standard && qabs (px) <= 1048576 && qabs (py) <= 1048576), "frustum-projectPoint/threw-on-standard-frustum", tn << " projectPointToScreenExc threw on " << fstr (p) << " point " << vstr (P, 3));
            VP_REQUIRE (c, gq_justified<T> (gx) || gq_justified<T> (gy), "frustum-projectPoint/threw-far-from-overflow", tn << " projectPointToScreenExc(" << vstr (P, 3) << ") threw on " << fstr (p) << ": exact quotients " << qstr (gx.num) << "/" << qstr (gx.den) << " and " << qstr (gy.num) << "/" << qstr (gy.den));
            VP_REQUIRE (c, reports_overflow (U.x) || reports_overflow (U.y), "frustum-projectPoint/unchecked-finite-after-throw", tn << " projectPointToScreenExc threw but projectPointToScreen = " << vstr (U, 2) << " on " << fstr (p) << " point " << vstr (P, 3));
        }
        {
            // documented composition: projectPointToScreenExc(P) == localToScreenExc(projected local point), both checked
            Vec2<T> lp = direct ? Vec2<T> (P.x, P.y) : Vec2<T> (P.x * p.n / -P.z, P.y * p.n / -P.z), CI ((T) 0);
            int     ti = call_checked ([&] { CI = fr.localToScreenExc (lp); });
            VP_REQUIRE (c, ti == th && (th != TH_NONE || (same<T> (C.x, CI.x) && same<T> (C.y, CI.y))), "frustum-projectPoint/disagrees-with-localToScreenExc", tn << " projectPointToScreenExc(" << vstr (P, 3) << ") threw " << thname (th) << " / returned " << vstr (C, 2) << " but localToScreenExc(" << vstr (lp, 2) << ") threw " << thname (ti) << " / returned " << vstr (CI, 2) << " on " << fstr (p));
        }
        if (th == TH_NONE)
            VP_REQUIRE (c, same<T> (C.x, U.x) && same<T> (C.y, U.y), "frustum-projectPoint/bits-differ", tn << " projectPointToScreenExc = " << vstr (C, 2) << " but projectPointToScreen = " << vstr (U, 2) << " on " << fstr (p) << " point " << vstr (P, 3));
    }
    // ---- screenRadiusExc: returns iff |z| > 1 or |near| < max*|z|; guarded quotient near / z
    {
        GQ   g (n, (quad) z);
        T    C = 0, U = fr.screenRadius (P, radius);
        int  th = call_checked ([&] { C = fr.screenRadiusExc (P, radius); });
        bool nr = gq_near<T> (g);
        if (nr) c.label (FL_NEAR_GUARD);
        c.nt (th != TH_NONE || nr);
        if (th != TH_NONE)
        {
            c.label (FL_THREW);
            c.label (FL_C);
            VP_REQUIRE (c, th == TH_DOMAIN, "frustum-screenRadius/exception-type", tn << " screenRadiusExc threw " << thname (th));
            VP_REQUIRE (c, qabs ((quad) z) <= 1 && gq_justified<T> (g), "frustum-screenRadius/threw-far-from-overflow", tn << " screenRadiusExc threw for near=" << p.n << " p.z=" << z << ": exact |near/z| is below max/4");
        }
        else
            VP_REQUIRE (c, same<T> (C, U), "frustum-screenRadius/bits-differ", tn << " screenRadiusExc = " << C << " but screenRadius = " << U << " for near=" << p.n << " p.z=" << z << " radius=" << radius);
    }
    // ---- worldRadiusExc: returns iff |near| > 1 or |z| < max*|near|; guarded quotient z / near
    {
        GQ   g ((quad) z, n);
        T    C = 0, U = fr.worldRadius (P, radius);
        int  th = call_checked ([&] { C = fr.worldRadiusExc (P, radius); });
        bool nr = gq_near<T> (g);
        if (nr) c.label (FL_NEAR_GUARD);
        c.nt (th != TH_NONE || nr);
        if (th != TH_NONE)
        {
            c.label (FL_THREW);
            c.label (FL_D);
            VP_REQUIRE (c, th == TH_DOMAIN, "frustum-worldRadius/exception-type", tn << " worldRadiusExc threw " << thname (th));
            VP_REQUIRE (c, qabs (n) <= 1 && gq_justified<T> (g), "frustum-worldRadius/threw-far-from-overflow", tn << " worldRadiusExc threw for near=" << p.n << " p.z=" << z << ": exact |z/near| is below max/4");
        }
        else
            VP_REQUIRE (c, same<T> (C, U), "frustum-worldRadius/bits-differ", tn << " worldRadiusExc = " << C << " but worldRadius = " << U << " for near=" << p.n << " p.z=" << z << " radius=" << radius);
    }
}
#define FSCR_RULE "frustum as in frustum_proj; local point coordinates from {nice, any magnitude, max*|left-right|/2 +-2ulp, (left+right)/2 +-3ulp (cancelling numerator), uniform}; 3-D point with z from {+-0, max*|near| +-2ulp, |near|/max +-2ulp (x 2^+-3), ordinary depth, any magnitude}, x,y restricted so that x*near does not overflow; non-trivial = a checked form threw or a guarded quotient is within 2^8 of max/4 or undefined"
#define FSCR_REQ "standard_frustum", "orthographic", "perspective", "degenerate_exact", "localToScreenExc_threw", "projectPointToScreenExc_threw", "screenRadiusExc_threw", "worldRadiusExc_threw", "point_z_zero", "numerator_cancels"
VP_RANDOM (frustum_screen_f, 400000, 8000000, FSCR_RULE) { frustum_screen_case<float> (c, "Frustumf"); }
VP_LABELS (frustum_screen_f, FSCR_LABELS)
VP_REQUIRE_LABELS (frustum_screen_f, FSCR_REQ)
VP_FUZZABLE (frustum_screen_f)
VP_RANDOM (frustum_screen_d, 400000, 8000000, FSCR_RULE) { frustum_screen_case<double> (c, "Frustumd"); }
VP_LABELS (frustum_screen_d, FSCR_LABELS)
VP_REQUIRE_LABELS (frustum_screen_d, FSCR_REQ)
VP_FUZZABLE (frustum_screen_d)

// ---- 4c. normalizedZToDepthExc / ZToDepthExc / DepthToZExc
#define FDEP_LABELS "threw", "standard_frustum", "orthographic", "perspective", "quotient_within_2^8_of_guard_or_undefined", "near_equals_far", "normalizedZToDepthExc_threw", "ZToDepthExc_threw", "DepthToZExc_threw", "zmin_equals_zmax", "DepthToZ_skipped_conversion_out_of_range", "denominator_cancels"

// DepthToZ converts 0.5*(Zp+1)*zdiff to long; when that value is NaN or outside the range of long the conversion is
// undefined behaviour in *both* forms, so such inputs are outside the domain.  This model (the documented formula in
// T arithmetic) is used only to decide whether the pair may be called, never as an oracle.
template <class T> static bool depth_to_z_callable (const FP<T>& p, T depth, long zmin, long zmax)
{
    auto ab    = [] (T v) { return v > 0 ? v : -v; };
    long zdiff = zmax - zmin;
    T    fmn   = p.f - p.n, Zp;
    bool fires;
    if (p.ortho)
    {
        T fpn = (T) 2 * depth + p.f + p.n;
        fires = ab (fmn) < (T) 1 && ab (fpn) > KT<T>::max () * ab (fmn);
        Zp    = -fpn / fmn;
    }
    else
    {
        T    ftn = (T) 2 * p.f * p.n;
        bool g1  = ab (depth) < (T) 1 && ab (ftn) > KT<T>::max () * ab (depth);
        T    fpn = ftn / depth + p.f + p.n;
        bool g2  = ab (fmn) < (T) 1 && ab (fpn) > KT<T>::max () * ab (fmn);
        fires    = g1 || g2;
        Zp       = fpn / fmn;
    }
    double v = 0.5 * (Zp + 1) * zdiff;
    return fires || (v == v && std::fabs (v) < 4.0e18);
}

template <class T> static void frustum_depth_case (vp::Ctx& c, const char* tn)
{
    vp::Src& s = c.s;
    FP<T>    p;
    p.ortho    = s.coin ();
    p.standard = s.chance (64);
    p.l = p.b = -1;
    p.r = p.t = 1;
    p.n       = (T) s.uniform (0.01, 10.0);
    p.f       = p.n + (T) s.uniform (0.1, 1000.0);
    if (!p.standard)
    {
        gen_pair<T> (s, p.n, p.f);
        if (s.chance (24)) p.f = -p.n; // far + near == 0
        // domain: |near|, |far| <= max/4, so that the literal 2*far (an intermediate of 2*far*near, evaluated left to
        // right) does not overflow by itself; 2*far*near as a whole may still overflow and is then a genuine overflow
        const T q4 = KT<T>::max () / 4;
        p.n        = std::max (-q4, std::min (q4, p.n));
        p.f        = std::max (-q4, std::min (q4, p.f));
    }
    quad       n = p.n, f = p.f;
    const quad eps = KT<T>::eps (), dm = (quad) KT<T>::dmin ();
    Frustum<T> fr (p.n, p.f, p.l, p.r, p.t, p.b, p.ortho);
    c.label (p.ortho ? FL_ORTHO : FL_PERSP);
    if (p.standard) c.label (FL_STANDARD);
    if (p.n == p.f) c.label (FL_DEGENERATE);
    // guarded quotient of normalizedZToDepth(z) (perspective): 2 f n / ((2z-1)(f-n) - f - n)
    //   computed denominator: 5 roundings over the terms |2z-1||f-n|, |f|, |n| -> bound 16 eps (sum) + underflow;
    //   ez = absolute error of a z value that was itself computed (ZToDepth: (T(zval) - T(zmin)) / T(zdiff), where the
    //   conversions of large integers round and the difference cancels)
    auto nz_quot = [&] (quad z, quad ez) {
        quad Zp  = 2 * z - 1;
        quad den = Zp * (f - n) - f - n;
        quad ed  = 16 * eps * ((qabs (Zp) + 1) * qabs (f - n) + qabs (f) + qabs (n)) + 2 * ez * qabs (f - n) + 4 * dm;
        return GQ (2 * f * n, den, 4 * eps * qabs (2 * f * n), ed);
    };
    // ---- normalizedZToDepthExc
    bool cancels = false;
    {
        T z;
        switch (s.below (5))
        {
            case 0: z = (T) s.uniform (0.0, 1.0); break;
            case 1: z = gen::nice<T> (s); break;
            case 2: z = gsigned<T> (s); break;
            case 3: // denominator cancels: Zp = (f+n)/(f-n)
                z       = bump ((T) ((((p.f + p.n) / (p.f - p.n)) + (T) 1) / (T) 2), s.range (-3, 3));
                z       = finite_clamp (z);
                cancels = true;
                break;
            default: z = (T) 0.5; break; // Zp == 0
        }
        VP_NOTE (c, tn << " " << fstr (p) << " zval=" << z);
        if (cancels) c.label (FL_F);
        GQ   g  = nz_quot ((quad) z, 0);
        T    C  = 0, U = fr.normalizedZToDepth (z);
        int  th = call_checked ([&] { C = fr.normalizedZToDepthExc (z); });
        bool nr = !p.ortho && gq_near<T> (g);
        if (nr) c.label (FL_NEAR_GUARD);
        c.nt (th != TH_NONE || nr);
        if (th != TH_NONE)
        {
            c.label (FL_THREW);
            c.label (FL_A);
            VP_REQUIRE (c, th == TH_DOMAIN, "frustum-normalizedZToDepth/exception-type", tn << " normalizedZToDepthExc threw " << thname (th));
            VP_REQUIRE (c, !p.ortho, "frustum-normalizedZToDepth/threw-orthographic", tn << " normalizedZToDepthExc threw on an orthographic frustum (no division by a frustum quantity there)");
            VP_REQUIRE (c, !(p.standard && z >= 0 && z <= 1), "frustum-normalizedZToDepth/threw-on-standard-frustum", tn << " normalizedZToDepthExc(" << z << ") threw on " << fstr (p));
            VP_REQUIRE (c, gq_justified<T> (g), "frustum-normalizedZToDepth/threw-far-from-overflow", tn << " normalizedZToDepthExc(" << z << ") threw on " << fstr (p) << ": exact quotient " << qstr (g.num) << "/" << qstr (g.den) << " (denominator error bound " << qstr (g.eden) << ")");
        }
        else
            VP_REQUIRE (c, same<T> (C, U), "frustum-normalizedZToDepth/bits-differ", tn << " normalizedZToDepthExc(" << z << ") = " << C << " but normalizedZToDepth = " << U << " on " << fstr (p));
    }
    // ---- z-buffer range: |values| <= 2^30 so that zmax - zmin fits the int the functions store it in
    long zmin, zmax, zval;
    {
        long big = s.chance (48) ? (1L << 30) : (1L << 22);
        zmin     = s.coin () ? (long) s.range (-16, 16) : (long) s.range (-big, big);
        switch (s.below (5))
        {
            case 0: zmax = zmin; break;
            case 1: zmax = zmin + (long) s.range (1, 16); break;
            case 2: zmax = zmin - (long) s.range (1, 1000); break;
            default: zmax = zmin + (long) s.range (1, big); break;
        }
        if (zmax > (1L << 30)) zmax = 1L << 30;
        if (zmax < -(1L << 30)) zmax = -(1L << 30);
        long lo = std::min (zmin, zmax), hi = std::max (zmin, zmax);
        switch (s.below (4))
        {
            case 0: zval = (long) s.range (lo, hi); break;
            case 1: zval = hi + (long) s.range (0, 3); break; // around the zval > zmax+1 wrap
            case 2: zval = lo - (long) s.range (0, 3); break;
            default: zval = (long) s.range (lo - (hi - lo) - 2, hi + (hi - lo) + 2); break;
        }
    }
    if (zmin == zmax) c.label (FL_D);
    // ---- ZToDepthExc
    {
        VP_NOTE (c, "zval=" << zval << " zmin=" << zmin << " zmax=" << zmax);
        int  zdiff = (int) (zmax - zmin);
        long zv    = zval > zmax + 1 ? zval - zdiff : zval;
        T    C     = 0;
        int  th    = call_checked ([&] { C = fr.ZToDepthExc (zval, zmin, zmax); });
        T    U     = fr.ZToDepth (zval, zmin, zmax); // division by T(0) when zmin == zmax: defined (IEEE), result unconstrained
        c.nt (th != TH_NONE);
        if (th != TH_NONE)
        {
            c.label (FL_THREW);
            c.label (FL_B);
            VP_REQUIRE (c, th == TH_DOMAIN, "frustum-ZToDepth/exception-type", tn << " ZToDepthExc threw " << thname (th));
            if (zdiff != 0)
            {
                quad zx = (quad) (zv - zmin) / (quad) zdiff;
                quad ez = 2 * eps * (qabs ((quad) zv) + qabs ((quad) zmin)) / qabs ((quad) zdiff) + 4 * eps * qabs (zx);
                GQ   g  = nz_quot (zx, ez);
                VP_REQUIRE (c, !p.ortho, "frustum-ZToDepth/threw-orthographic", tn << " ZToDepthExc threw on an orthographic frustum with zmin != zmax");
                VP_REQUIRE (c, !(p.standard && zv >= std::min (zmin, zmax) && zv <= std::max (zmin, zmax)), "frustum-ZToDepth/threw-on-standard-frustum", tn << " ZToDepthExc(" << zval << "," << zmin << "," << zmax << ") threw on " << fstr (p));
                VP_REQUIRE (c, gq_justified<T> (g), "frustum-ZToDepth/threw-far-from-overflow", tn << " ZToDepthExc(" << zval << "," << zmin << "," << zmax << ") threw on " << fstr (p) << ": exact quotient " << qstr (g.num) << "/" << qstr (g.den));
            }
        }
        if (zdiff != 0)
        {
            // documented composition: ZToDepthExc(zval,zmin,zmax) == normalizedZToDepthExc((zval' - zmin)/zdiff), both checked
            T   fz = (T (zv) - T (zmin)) / T (zdiff), CI = 0;
            int ti = call_checked ([&] { CI = fr.normalizedZToDepthExc (fz); });
            VP_REQUIRE (c, ti == th && (th != TH_NONE || same<T> (C, CI)), "frustum-ZToDepth/disagrees-with-normalizedZToDepthExc", tn << " ZToDepthExc(" << zval << "," << zmin << "," << zmax << ") " << (th ? "threw " : "returned ") << (th ? thname (th) : "") << C << " but normalizedZToDepthExc(" << fz << ") " << (ti ? "threw " : "returned ") << (ti ? thname (ti) : "") << CI << " on " << fstr (p));
        }
        if (th == TH_NONE)
        {
            VP_REQUIRE (c, zdiff != 0, "frustum-ZToDepth/no-throw-for-empty-range", tn << " ZToDepthExc(" << zval << "," << zmin << "," << zmax << ") returned " << C << " although zmax == zmin");
            VP_REQUIRE (c, same<T> (C, U), "frustum-ZToDepth/bits-differ", tn << " ZToDepthExc(" << zval << "," << zmin << "," << zmax << ") = " << C << " but ZToDepth = " << U << " on " << fstr (p));
        }
    }
    // ---- DepthToZExc
    {
        T depth;
        switch (s.below (6))
        {
            case 0: depth = -(T) s.uniform (0.01, 1000.0); break;
            case 1: depth = s.coin () ? (T) 0 : -(T) 0; break;
            case 2: // |2 f n| ~ max*|depth|
            {
                T ftn = (T) 2 * p.f * p.n;
                if (ftn < 0) ftn = -ftn;
                depth = bump ((T) (finite_clamp (ftn) / KT<T>::max ()), s.range (-2, 2));
                if (s.coin ()) depth = (T) (depth * pow2<T> ((int) s.range (-3, 3)));
                break;
            }
            case 3: // 2fn/depth + f + n cancels
                depth   = bump ((T) (-(T) 2 * p.f * p.n / (p.f + p.n)), s.range (-3, 3));
                cancels = true;
                c.label (FL_F);
                break;
            case 4: depth = gen::nice<T> (s); break;
            default: depth = gsigned<T> (s); break;
        }
        depth = finite_clamp (depth);
        // the conversion is exercised with an ordinary range; the guards mostly with zmin == zmax (then 0.5*(Zp+1)*0 == 0 is convertible)
        long dzmin = zmin, dzmax = zmax;
        if (!depth_to_z_callable (p, depth, dzmin, dzmax) || s.chance (64)) dzmax = dzmin;
        VP_NOTE (c, "depth=" << depth << " DepthToZ range [" << dzmin << "," << dzmax << "]");
        if (!depth_to_z_callable (p, depth, dzmin, dzmax))
            c.label (FL_E);
        else
        {
            quad d = depth;
            std::vector<GQ> gs;
            if (p.ortho)
                gs.emplace_back (2 * d + f + n, f - n, 4 * eps * (2 * qabs (d) + qabs (f) + qabs (n)));
            else
            {
                gs.emplace_back (2 * f * n, d, 4 * eps * qabs (2 * f * n)); // "depth too small"
                if (d != 0)
                {
                    quad a = 2 * f * n / d;
                    gs.emplace_back (a + f + n, f - n, 8 * eps * (qabs (a) + qabs (f) + qabs (n)) + 4 * dm + 4 * dm / qabs (d));
                }
                else
                    gs.emplace_back (1, 0); // undefined
            }
            bool just = false, nr = false;
            for (auto& g : gs)
            {
                if (gq_justified<T> (g)) just = true;
                if (gq_near<T> (g)) nr = true;
            }
            long C  = 0;
            int  th = call_checked ([&] { C = fr.DepthToZExc (depth, dzmin, dzmax); });
            if (nr) c.label (FL_NEAR_GUARD);
            c.nt (th != TH_NONE || nr);
            if (th != TH_NONE)
            {
                // the unchecked form is not executed after a throw: it would convert an overflowed value to long
                c.label (FL_THREW);
                c.label (FL_C);
                VP_REQUIRE (c, th == TH_DOMAIN, "frustum-DepthToZ/exception-type", tn << " DepthToZExc threw " << thname (th));
                VP_REQUIRE (c, !(p.standard && depth <= -(T) 0.01 && depth >= -(T) 1000), "frustum-DepthToZ/threw-on-standard-frustum", tn << " DepthToZExc(" << depth << ") threw on " << fstr (p));
                VP_REQUIRE (c, just, "frustum-DepthToZ/threw-far-from-overflow", tn << " DepthToZExc(" << depth << "," << dzmin << "," << dzmax << ") threw on " << fstr (p) << " although every guarded exact quotient is below max/4 and defined");
            }
            else
            {
                long U = fr.DepthToZ (depth, dzmin, dzmax);
                VP_REQUIRE (c, C == U, "frustum-DepthToZ/values-differ", tn << " DepthToZExc(" << depth << "," << dzmin << "," << dzmax << ") = " << C << " but DepthToZ = " << U << " on " << fstr (p));
            }
        }
    }
}
#define FDEP_RULE "near/far: 1/4 standard else a pair whose difference runs over {0, denormal, ..., huge} (far = -near sometimes); zval normalised from {[0,1], nice, any magnitude, the value cancelling the denominator +-3ulp, 0.5}; z-buffer triples with |values| <= 2^22 (2^30 sometimes), zmax-zmin in {0, 1..16, negative, large}, zval inside / at the wrap / outside; depth from {ordinary, +-0, |2fn|/max +-2ulp (x2^+-3), value cancelling 2fn/depth+f+n, nice, any}; DepthToZ only where 0.5*(Zp+1)*zdiff converts to long (else zmin==zmax, else skipped and labelled); non-trivial = a checked form threw or a guarded quotient within 2^8 of max/4 or undefined"
#define FDEP_REQ "standard_frustum", "orthographic", "perspective", "near_equals_far", "normalizedZToDepthExc_threw", "ZToDepthExc_threw", "DepthToZExc_threw", "zmin_equals_zmax", "denominator_cancels"
VP_RANDOM (frustum_depth_f, 400000, 8000000, FDEP_RULE) { frustum_depth_case<float> (c, "Frustumf"); }
VP_LABELS (frustum_depth_f, FDEP_LABELS)
VP_REQUIRE_LABELS (frustum_depth_f, FDEP_REQ)
VP_FUZZABLE (frustum_depth_f)
VP_RANDOM (frustum_depth_d, 400000, 8000000, FDEP_RULE) { frustum_depth_case<double> (c, "Frustumd"); }
VP_LABELS (frustum_depth_d, FDEP_LABELS)
VP_REQUIRE_LABELS (frustum_depth_d, FDEP_REQ)
VP_FUZZABLE (frustum_depth_d)

// ---- 4c'. ZToDepthExc / DepthToZExc over the full range of their integer (long) arguments
//
// frustum_depth_* keeps |zmin|, |zmax| <= 2^30.  Here the z-buffer range runs over everything a `long` argument can
// express without signed overflow inside the functions (|values| <= 2^60): ranges wider than INT_MAX and UINT_MAX
// (0..4294967295, -2^31..2^31-1, 0..3e9, widths k*2^32 +- small, up to 2^61), zmin > zmax, equal, negative.
// Only what the property states is asserted - the two forms agree bit-for-bit whenever the checked form returns,
// the exception type, a really empty range (zmax == zmin) throws, no throw on a standard frustum for an in-range zval
// of a range that fits an int - never a model of how the range is narrowed inside the functions.
// Measured on the unchanged tree: both ZToDepth forms store zmax - zmin in an `int` (wraps modulo 2^32), both DepthToZ
// forms in a `long`; within each pair the two forms agree for every class generated here.  Observed, not asserted:
// for zmax - zmin a non-zero multiple of 2^32 ZToDepthExc throws "zmax == zmin" while ZToDepth divides by T(0).
enum
{
    ZR_THREW_Z,
    ZR_THREW_D,
    ZR_STANDARD,
    ZR_ORTHO,
    ZR_PERSP,
    ZR_W_ZERO,
    ZR_W_NEG,
    ZR_W_FITS_INT,
    ZR_W_GT_INTMAX,
    ZR_W_GT_UINTMAX,
    ZR_W_MULT_2_32,
    ZR_ZVAL_INSIDE,
    ZR_ZVAL_WRAP,
    ZR_D_CALLED_WIDE,
    ZR_D_SKIPPED
};
#define ZRL_LABELS "ZToDepthExc_threw", "DepthToZExc_threw", "standard_frustum", "orthographic", "perspective", "zmin_equals_zmax", "zmax_lt_zmin", "width_fits_int", "width_gt_INT_MAX", "width_gt_UINT_MAX", "width_nonzero_multiple_of_2^32", "zval_inside_range", "zval_above_zmax_plus_1", "DepthToZ_pair_called_with_width_gt_INT_MAX", "DepthToZ_skipped_conversion_out_of_range"

template <class T> static void frustum_zrange_case (vp::Ctx& c, const char* tn)
{
    vp::Src& s = c.s;
    FP<T>    p;
    p.ortho    = s.coin ();
    p.standard = !s.chance (64);
    p.l = p.b = -1;
    p.r = p.t = 1;
    p.n       = (T) s.uniform (0.01, 10.0);
    p.f       = p.n + (T) s.uniform (0.1, 1000.0);
    if (!p.standard)
    {
        gen_pair<T> (s, p.n, p.f);
        const T q4 = KT<T>::max () / 4; // domain as in frustum_depth_*
        p.n        = std::max (-q4, std::min (q4, p.n));
        p.f        = std::max (-q4, std::min (q4, p.f));
    }
    Frustum<T> fr (p.n, p.f, p.l, p.r, p.t, p.b, p.ortho);
    c.label (p.ortho ? ZR_ORTHO : ZR_PERSP);
    if (p.standard) c.label (ZR_STANDARD);
    // ---- the range
    const long two31 = 1L << 31, two32 = 1L << 32, lim = 1L << 60;
    long       zmin, width;
    switch (s.below (6))
    {
        case 0: zmin = 0; break;
        case 1: zmin = -two31; break;
        case 2: zmin = (long) s.range (-16, 16); break;
        case 3: zmin = (long) s.range (-two32, two32); break;
        case 4: zmin = -(1L << (int) s.range (0, 59)); break;
        default: zmin = (long) s.range (-lim, lim); break;
    }
    long j = (long) s.range (-2, 2);
    switch (s.below (12))
    {
        case 0: width = 0; break;
        case 1: width = (long) s.range (1, 65536); break;
        case 2: width = two31 - 1 + j; break;              // INT_MAX and neighbours
        case 3: width = two32 - 1 + j; break;              // UINT_MAX and neighbours
        case 4: width = 3000000000L + j; break;
        case 5: width = (long) s.range (two31, two32); break;
        case 6: width = (long) s.range (1, 1L << 28) * two32 + j; break; // multiples of 2^32 +- small
        case 7: width = (1L << (int) s.range (31, 60)) + j; break;
        case 8: width = (long) s.range (two32, lim); break;
        case 9: width = (long) s.range (1, two31 - 1); break;
        case 10: width = (long) s.range (1, 1L << 24); break;
        default: width = (long) s.range (1, 255); break;
    }
    if (s.chance (40)) width = -width;
    long zmax = zmin + width; // |zmin| <= 2^60, |width| <= 2^60 + 2
    if (zmax > lim) zmax = lim;
    if (zmax < -lim) zmax = -lim;
    width   = zmax - zmin;
    long lo = std::min (zmin, zmax), hi = std::max (zmin, zmax), aw = hi - lo, zval;
    int  zcls = (int) s.below (5);
    switch (zcls)
    {
        case 0:
        case 1: zval = (long) s.range (lo, hi); break;
        case 2: zval = zmax + (long) s.range (0, 3); break; // around the zval > zmax+1 wrap
        case 3: zval = lo - (long) s.range (0, 3); break;
        default: zval = (long) s.range (lo - aw - 2, hi + aw + 2); break;
    }
    if (width == 0) c.label (ZR_W_ZERO);
    if (width < 0) c.label (ZR_W_NEG);
    if (aw <= (long) INT_MAX) c.label (ZR_W_FITS_INT);
    if (aw > (long) INT_MAX) c.label (ZR_W_GT_INTMAX);
    if (aw > (long) UINT_MAX) c.label (ZR_W_GT_UINTMAX);
    bool mult32 = width != 0 && width % two32 == 0;
    if (mult32) c.label (ZR_W_MULT_2_32);
    bool inside = zval >= lo && zval <= hi;
    if (inside) c.label (ZR_ZVAL_INSIDE);
    if (zval > zmax + 1) c.label (ZR_ZVAL_WRAP);
    VP_NOTE (c, tn << " " << fstr (p) << " zval=" << zval << " zmin=" << zmin << " zmax=" << zmax);
    // ---- ZToDepthExc / ZToDepth  (no signed overflow: |zval|, |zmin|, |zmax| < 2^62; long -> int narrowing is
    //      implementation-defined (modulo 2^32), not undefined)
    {
        T   C  = 0;
        int th = call_checked ([&] { C = fr.ZToDepthExc (zval, zmin, zmax); });
        T   U  = fr.ZToDepth (zval, zmin, zmax);
        c.nt (aw > (long) INT_MAX || th != TH_NONE);
        if (th != TH_NONE)
        {
            c.label (ZR_THREW_Z);
            VP_REQUIRE (c, th == TH_DOMAIN, "frustum-ZToDepth-wide/exception-type", tn << " ZToDepthExc threw " << thname (th));
            VP_REQUIRE (c, !(p.standard && inside && width > 0 && aw <= (long) INT_MAX), "frustum-ZToDepth-wide/threw-on-standard-frustum", tn << " ZToDepthExc(" << zval << "," << zmin << "," << zmax << ") threw on " << fstr (p));
        }
        else
        {
            VP_REQUIRE (c, width != 0, "frustum-ZToDepth-wide/no-throw-for-empty-range", tn << " ZToDepthExc(" << zval << "," << zmin << "," << zmax << ") returned " << C << " although zmax == zmin");
            VP_REQUIRE (c, same<T> (C, U), "frustum-ZToDepth-wide/bits-differ", tn << " ZToDepthExc(" << zval << "," << zmin << "," << zmax << ") = " << C << " but ZToDepth = " << U << " on " << fstr (p));
        }
    }
    // ---- DepthToZExc / DepthToZ
    {
        T depth;
        switch (s.below (4))
        {
            case 0:
            case 1: depth = -(T) s.uniform (0.01, 1000.0); break;
            case 2: // inside the frustum: Zp in [-1,1]
            {
                T u   = (T) s.unit ();
                depth = -(p.n + u * (p.f - p.n));
                break;
            }
            default: depth = s.coin () ? gen::nice<T> (s) : gsigned<T> (s); break;
        }
        depth = finite_clamp (depth);
        VP_NOTE (c, "depth=" << depth);
        if (!depth_to_z_callable (p, depth, zmin, zmax))
            c.label (ZR_D_SKIPPED); // conversion of 0.5*(Zp+1)*zdiff to long undefined in both forms: outside the domain
        else
        {
            long C  = 0;
            int  th = call_checked ([&] { C = fr.DepthToZExc (depth, zmin, zmax); });
            if (th != TH_NONE)
            {
                // the unchecked form is not executed after a throw: it would convert an overflowed value to long
                c.label (ZR_THREW_D);
                c.nt ();
                VP_REQUIRE (c, th == TH_DOMAIN, "frustum-DepthToZ-wide/exception-type", tn << " DepthToZExc threw " << thname (th));
                VP_REQUIRE (c, !(p.standard && depth <= -(T) 0.01 && depth >= -(T) 1000), "frustum-DepthToZ-wide/threw-on-standard-frustum", tn << " DepthToZExc(" << depth << "," << zmin << "," << zmax << ") threw on " << fstr (p));
            }
            else
            {
                if (aw > (long) INT_MAX)
                {
                    c.label (ZR_D_CALLED_WIDE);
                    c.nt ();
                }
                long U = fr.DepthToZ (depth, zmin, zmax);
                VP_REQUIRE (c, C == U, "frustum-DepthToZ-wide/values-differ", tn << " DepthToZExc(" << depth << "," << zmin << "," << zmax << ") = " << C << " but DepthToZ = " << U << " on " << fstr (p));
            }
        }
    }
}
#define ZRL_RULE "near/far: 3/4 standard else a pair whose difference runs over {0, denormal, ..., huge}; z-buffer range over the long arguments' range without signed overflow (|values| <= 2^60): zmin from {0, -2^31, small, |.| <= 2^32, -2^j, any}, zmax - zmin from {0, 1..65536, INT_MAX+-2, UINT_MAX+-2, 3e9+-2, [2^31,2^32], k 2^32 +-2, 2^j +-2 (j in 31..60), [2^32,2^60], [1,2^31), small}, negated 1/6 of the time; zval inside / at the zval > zmax+1 wrap / below / far outside; depth from {ordinary, inside the frustum, nice/any}; DepthToZ pair only where 0.5*(Zp+1)*zdiff converts to long (else skipped and labelled); non-trivial = width beyond INT_MAX, or a checked form threw"
#define ZRL_REQ "ZToDepthExc_threw", "standard_frustum", "orthographic", "perspective", "zmin_equals_zmax", "zmax_lt_zmin", "width_fits_int", "width_gt_INT_MAX", "width_gt_UINT_MAX", "width_nonzero_multiple_of_2^32", "zval_inside_range", "zval_above_zmax_plus_1", "DepthToZ_pair_called_with_width_gt_INT_MAX"
VP_RANDOM (frustum_zrange_f, 200000, 4000000, ZRL_RULE) { frustum_zrange_case<float> (c, "Frustumf"); }
VP_LABELS (frustum_zrange_f, ZRL_LABELS)
VP_REQUIRE_LABELS (frustum_zrange_f, ZRL_REQ)
VP_RANDOM (frustum_zrange_d, 200000, 4000000, ZRL_RULE) { frustum_zrange_case<double> (c, "Frustumd"); }
VP_LABELS (frustum_zrange_d, ZRL_LABELS)
VP_REQUIRE_LABELS (frustum_zrange_d, ZRL_REQ)

// ---- 4d. setExc vs set vs the (near, far, fovx, fovy, aspect) constructor
#define FSET_LABELS "threw", "fovx_zero", "fovy_zero", "both_zero", "both_nonzero", "aspect_zero"
template <class T> static void frustum_set_case (vp::Ctx& c, const char* tn)
{
    vp::Src& s   = c.s;
    auto     fov = [&] () -> T {
        switch (s.below (6))
        {
            case 0: return (T) 0;
            case 1: return -(T) 0;
            case 2: return (T) s.uniform (0.05, 3.0);
            case 3: return s.coin () ? -KT<T>::dmin () : KT<T>::dmin ();
            case 4: return gen::nice<T> (s);
            default: return gsigned<T> (s);
        }
    };
    T fovx = fov (), fovy = fov ();
    T n = s.coin () ? (T) s.uniform (0.01, 10.0) : gsigned<T> (s), f = s.coin () ? (T) (n + (T) s.uniform (0.1, 100.0)) : gsigned<T> (s);
    T aspect = s.chance (40) ? (T) 0 : s.coin () ? (T) s.uniform (0.2, 4.0) : gsigned<T> (s);
    VP_NOTE (c, tn << " near=" << n << " far=" << f << " fovx=" << fovx << " fovy=" << fovy << " aspect=" << aspect);
    bool xz = fovx == 0, yz = fovy == 0;
    c.label (xz && yz ? 3 : xz ? 1 : yz ? 2 : 4);
    if (aspect == 0) c.label (5);
    // prior state differs from what set() produces, so a field that is not written shows up
    Frustum<T> A ((T) 3, (T) 7, (T) -5, (T) 6, (T) 8, (T) -9, true), B (A);
    int        th = call_checked ([&] { A.setExc (n, f, fovx, fovy, aspect); });
    B.set (n, f, fovx, fovy, aspect);
    Frustum<T> D (n, f, fovx, fovy, aspect);
    c.nt (th != TH_NONE || xz || yz);
    if (th != TH_NONE)
    {
        c.label (0);
        VP_REQUIRE (c, th == TH_DOMAIN, "frustum-setExc/exception-type", tn << " setExc threw " << thname (th));
        VP_REQUIRE (c, !xz && !yz, "frustum-setExc/threw-with-a-zero-fov", tn << " setExc threw for fovx=" << fovx << " fovy=" << fovy << " (documented: only when both are non-zero)");
        return;
    }
    VP_REQUIRE (c, xz || yz, "frustum-setExc/no-throw-both-fov-nonzero", tn << " setExc accepted fovx=" << fovx << " and fovy=" << fovy << " both non-zero");
    const Frustum<T>* o[2]  = { &B, &D };
    const char*       on[2] = { "set", "constructor" };
    for (int k = 0; k < 2; ++k)
    {
        const Frustum<T>& X  = *o[k];
        bool              eq = same<T> (A.nearPlane (), X.nearPlane ()) && same<T> (A.farPlane (), X.farPlane ()) && same<T> (A.left (), X.left ()) && same<T> (A.right (), X.right ()) && same<T> (A.top (), X.top ()) && same<T> (A.bottom (), X.bottom ()) && A.orthographic () == X.orthographic ();
        VP_REQUIRE (c, eq, "frustum-setExc/fields-differ", tn << " setExc(near=" << n << ",far=" << f << ",fovx=" << fovx << ",fovy=" << fovy << ",aspect=" << aspect << ") gives (" << A.nearPlane () << "," << A.farPlane () << "," << A.left () << "," << A.right () << "," << A.top () << "," << A.bottom () << "," << A.orthographic () << ") but " << on[k] << " gives (" << X.nearPlane () << "," << X.farPlane () << "," << X.left () << "," << X.right () << "," << X.top () << "," << X.bottom () << "," << X.orthographic () << ")");
    }
}
#define FSET_RULE "fovx, fovy independently from {+0, -0, ordinary angle, denormal, nice, any magnitude}, near/far/aspect ordinary or any magnitude, aspect 0 sometimes; prior object state differs in every field; non-trivial = threw or at least one fov is zero"
VP_RANDOM (frustum_set_f, 200000, 4000000, FSET_RULE) { frustum_set_case<float> (c, "Frustumf"); }
VP_LABELS (frustum_set_f, FSET_LABELS)
VP_REQUIRE_LABELS (frustum_set_f, "threw", "fovx_zero", "fovy_zero", "both_zero", "both_nonzero", "aspect_zero")
VP_RANDOM (frustum_set_d, 200000, 4000000, FSET_RULE) { frustum_set_case<double> (c, "Frustumd"); }
VP_LABELS (frustum_set_d, FSET_LABELS)
VP_REQUIRE_LABELS (frustum_set_d, "threw", "fovx_zero", "fovy_zero", "both_zero", "both_nonzero", "aspect_zero")

// ===========================================================================
// 5. Matrix decomposition functions with an exc flag (ImathMatrixAlgo.h), 4x4/Vec3 and 3x3/Vec2 families
//
// Documented failure reports for exc == false: extract*/remove*/extractSHRT/checkForZeroScaleInRow return false,
// remove*/extractAndRemove* leave the matrix unchanged, sans* return their input.  With exc == true the same
// situations throw std::domain_error.  The guard (checkForZeroScaleInRow: |scl| < 1 && |row_i| >= max*|scl|) is
// applied to rows that were already divided by the largest entry and Gram-Schmidt-orthogonalised, where
// |row_i| <= scl*(1+eps): it can fire only when the orthogonalised row is the null vector in working precision.
// A throw is therefore justified iff an exact (quad) Gram-Schmidt residual r_k satisfies
//     |r_k| <= |R_k| (64 eps (1 + sum |R_p|/|r_p|) + sum 4 denorm_min/|r_p|) + 4 denorm_min     (R_k = row k / maxVal, p < k)
// i.e. the rows are dependent up to the forward error of the working-precision orthogonalisation, or the row vanishes
// after normalisation.
enum
{
    DL_THREW,
    DL_WELL,
    DL_ZERO_ROW,
    DL_DEPENDENT,
    DL_NEAR_DEPENDENT,
    DL_TINY_ROW,
    DL_EXTREME_SCALE,
    DL_WILD,
    DL_NEGATIVE_DET
};
#define DL_LABELS "threw", "well_conditioned", "zero_row_class", "exactly_dependent_class", "nearly_dependent_class", "tiny_row_class", "extreme_uniform_scale_class", "wild_class", "negative_determinant"

struct DInfo
{
    bool justified = false, well = false, negdet = false;
};
// rows: K rows of K entries (quad), already the upper-left block
template <class T> static DInfo decomp_info (const quad* m, int K)
{
    DInfo      d;
    const quad eps = KT<T>::eps (), dm = (quad) KT<T>::dmin ();
    quad       maxv = 0;
    for (int i = 0; i < K * K; ++i)
        maxv = qmax (maxv, qabs (m[i]));
    if (maxv == 0)
    {
        d.justified = true;
        return d;
    }
    quad R[3][3], u[3][3], nR[3], nr[3];
    for (int i = 0; i < K; ++i)
        for (int j = 0; j < K; ++j)
            R[i][j] = m[i * K + j] / maxv;
    bool well = true;
    for (int k = 0; k < K; ++k)
    {
        quad r[3];
        quad s2 = 0;
        for (int j = 0; j < K; ++j)
        {
            r[j] = R[k][j];
            s2 += R[k][j] * R[k][j];
        }
        nR[k] = sqrtq (s2);
        for (int p = 0; p < k; ++p)
        {
            quad h = 0;
            for (int j = 0; j < K; ++j)
                h += u[p][j] * R[k][j];
            for (int j = 0; j < K; ++j)
                r[j] -= h * u[p][j];
        }
        s2 = 0;
        for (int j = 0; j < K; ++j)
            s2 += r[j] * r[j];
        nr[k]    = sqrtq (s2);
        // amp: rounding error of an earlier direction u_p is amplified by |R_p|/|r_p|; und: a component of r_p that
        // underflowed (absolute error denorm_min after the division by maxVal) turns u_p by up to denorm_min/|r_p|
        quad amp = 1, und = 0;
        for (int p = 0; p < k; ++p)
        {
            amp += nR[p] / nr[p];
            und += 4 * dm / nr[p];
        }
        if (nr[k] <= (quad) C07_ESCALE * (64 * eps * nR[k] * amp + nR[k] * und + 4 * dm))
        {
            d.justified = true;
            return d;
        }
        if (!(nr[k] >= nR[k] / 1024 && nR[k] >= (quad) 1 / 1048576)) well = false;
        for (int j = 0; j < K; ++j)
            u[k][j] = r[j] / nr[k];
    }
    d.well = well && maxv <= 1048576 && maxv >= (quad) 1 / 1048576;
    quad det = K == 2 ? u[0][0] * u[1][1] - u[0][1] * u[1][0] : u[0][0] * (u[1][1] * u[2][2] - u[1][2] * u[2][1]) - u[0][1] * (u[1][0] * u[2][2] - u[1][2] * u[2][0]) + u[0][2] * (u[1][0] * u[2][1] - u[1][1] * u[2][0]);
    d.negdet = det < 0;
    return d;
}

// K x K linear block for the decomposition functions
template <class T> static int gen_decomp_block (vp::Src& s, int K, T q[3][3])
{
    int cls = (int) s.below (9);
    for (int i = 0; i < K; ++i)
        for (int j = 0; j < K; ++j)
            q[i][j] = gen::nice<T> (s);
    switch (cls)
    {
        case 0: break;
        case 1: // a null row (signed zeros)
        {
            int a = (int) s.below (K);
            for (int j = 0; j < K; ++j)
                q[a][j] = s.coin () ? (T) 0 : -(T) 0;
            if (s.chance (32))
                for (int i = 0; i < K; ++i)
                    for (int j = 0; j < K; ++j)
                        q[i][j] = 0;
            break;
        }
        case 2: // exactly dependent in a way the working-precision Gram-Schmidt reproduces: axis-aligned rows
        {
            int ax = (int) s.below (K);
            int a = (int) s.below (K), b = (a + 1 + (int) s.below (K - 1)) % K;
            for (int j = 0; j < K; ++j)
            {
                q[a][j] = j == ax ? gen::nice_nz<T> (s) : (T) 0;
                q[b][j] = j == ax ? gen::nice_nz<T> (s) : (T) 0;
            }
            if (K == 3 && s.coin ())
            { // third row inside the plane spanned by two axis-aligned rows
                int ay = (ax + 1) % 3, az = (ax + 2) % 3;
                q[0][ax] = gen::nice_nz<T> (s); q[0][ay] = 0; q[0][az] = 0;
                q[1][ax] = gen::nice<T> (s); q[1][ay] = gen::nice_nz<T> (s); q[1][az] = 0;
                q[2][ax] = gen::nice<T> (s); q[2][ay] = gen::nice<T> (s); q[2][az] = 0;
            }
            break;
        }
        case 3: // nearly dependent
        {
            int a = 1 + (int) s.below (K - 1);
            T   d = pow2<T> (-(int) s.range (1, std::numeric_limits<T>::digits + 8));
            for (int j = 0; j < K; ++j)
            {
                T acc = 0;
                for (int i = 0; i < a; ++i)
                    acc += q[i][j] * (T) (i + 1);
                q[a][j] = acc + d * q[a][j];
            }
            break;
        }
        case 4: // one row scaled down through the whole exponent range (to denormals and zero)
        {
            int a  = (int) s.below (K);
            int e  = -(int) s.range (1, -KT<T>::esub () + 8);
            for (int j = 0; j < K; ++j)
                q[a][j] = std::ldexp (q[a][j], e);
            break;
        }
        case 5: // uniform scale over the whole exponent range
        {
            int e = (int) s.range (KT<T>::esub (), KT<T>::emax () - 4);
            for (int i = 0; i < K; ++i)
                for (int j = 0; j < K; ++j)
                    q[i][j] = std::ldexp (q[i][j], e);
            break;
        }
        case 6: // wild finite
            for (int i = 0; i < K; ++i)
                for (int j = 0; j < K; ++j)
                    q[i][j] = gen::any_finite<T> (s);
            break;
        case 7: // small integers (often singular or with null rows)
            for (int i = 0; i < K; ++i)
                for (int j = 0; j < K; ++j)
                    q[i][j] = (T) s.range (-2, 2);
            break;
        default: // scale * rotation-like: orthogonal-ish rows with independent scales incl. negative
        {
            for (int i = 0; i < K; ++i)
                for (int j = 0; j < K; ++j)
                    q[i][j] = i == j ? gen::nice_nz<T> (s) : (T) (gen::nice<T> (s) / 8);
            break;
        }
    }
    return cls;
}
static void decomp_class_label (vp::Ctx& c, int cls)
{
    switch (cls)
    {
        case 1: c.label (DL_ZERO_ROW); break;
        case 2: c.label (DL_DEPENDENT); break;
        case 3: c.label (DL_NEAR_DEPENDENT); break;
        case 4: c.label (DL_TINY_ROW); break;
        case 5: c.label (DL_EXTREME_SCALE); break;
        case 6: c.label (DL_WILD); break;
        default: break;
    }
}

// shared verdict logic for one (exc=true, exc=false) pair.
//   thC/retC: what the checked call threw / returned; thU/retU same for exc=false.
// Returns true when the checked form returned (outputs must then be compared by the caller).
static bool decomp_pair (vp::Ctx& c, const std::string& fn, const DInfo& d, int thC, bool retC, int thU, bool retU, const std::string& in)
{
    VP_REQUIRE (c, thU == TH_NONE, fn + "/unchecked-form-threw", fn << "(..., false) threw " << thname (thU) << " on " << in);
    if (thC != TH_NONE)
    {
        c.label (DL_THREW);
        VP_REQUIRE (c, thC == TH_DOMAIN, fn + "/exception-type", fn << "(..., true) threw " << thname (thC) << ", documented std::domain_error");
        VP_REQUIRE (c, !retU, fn + "/unchecked-no-failure-report-after-throw", fn << "(..., true) threw on " << in << " but " << fn << "(..., false) reported success");
        VP_REQUIRE (c, !d.well, fn + "/threw-on-well-conditioned", fn << "(..., true) threw on the well-conditioned " << in);
        VP_REQUIRE (c, d.justified, fn + "/threw-far-from-zero-scale", fn << "(..., true) threw on " << in << " whose rows are independent far beyond rounding error");
        return false;
    }
    VP_REQUIRE (c, retC, fn + "/checked-returned-false", fn << "(..., true) returned false instead of throwing on " << in);
    VP_REQUIRE (c, retU, fn + "/unchecked-failed-without-throw", fn << "(..., false) reported failure on " << in << " but " << fn << "(..., true) returned normally");
    return true;
}
template <class T, class V, int N> static bool same_vec (const V& a, const V& b)
{
    for (int i = 0; i < N; ++i)
        if (!same<T> (a[i], b[i])) return false;
    return true;
}

template <class T> static const typename Euler<T>::Order* euler_orders ()
{
    typedef Euler<T> E;
    static const typename E::Order o[24] = { E::XYZ, E::XZY, E::YZX, E::YXZ, E::ZXY, E::ZYX, E::XZX, E::XYX, E::YXY, E::YZY, E::ZYZ, E::ZXZ, E::XYZr, E::XZYr, E::YZXr, E::YXZr, E::ZXYr, E::ZYXr, E::XZXr, E::XYXr, E::YXYr, E::YZYr, E::ZYZr, E::ZXZr };
    return o;
}

template <class T> static void decomp44_case (vp::Ctx& c, const char* tn)
{
    typedef Matrix44<T> M;
    typedef Vec3<T>     V;
    vp::Src&            s = c.s;
    T                   q[3][3];
    int                 cls = gen_decomp_block<T> (s, 3, q);
    M                   m;
    for (int i = 0; i < 3; ++i)
        for (int j = 0; j < 3; ++j)
            m[i][j] = q[i][j];
    for (int j = 0; j < 3; ++j)
        m[3][j] = s.coin () ? gen::nice<T> (s) : gsigned<T> (s);
    if (s.chance (32)) // the functions ignore the last column; make sure they keep ignoring it
        for (int i = 0; i < 4; ++i)
            m[i][3] = gen::nice<T> (s);
    M m2; // fallback argument of the two-matrix sansScalingAndShear
    for (int i = 0; i < 4; ++i)
        for (int j = 0; j < 4; ++j)
            m2[i][j] = (T) s.range (-9, 9);
    typename Euler<T>::Order order = euler_orders<T> ()[s.below (24)];
    std::string in = std::string (tn) + " " + mstr (m, 4);
    VP_NOTE (c, in << " class=" << cls << " order=" << (int) order);
    quad xb[9];
    for (int i = 0; i < 3; ++i)
        for (int j = 0; j < 3; ++j)
            xb[i * 3 + j] = (quad) m[i][j];
    DInfo d = decomp_info<T> (xb, 3);
    decomp_class_label (c, cls);
    if (d.well) c.label (DL_WELL);
    if (d.negdet) c.label (DL_NEGATIVE_DET);
    c.nt (d.justified || cls == 3 || cls == 4);
    const V  v0 ((T) 0);
    const M  id;
    // extractScaling
    {
        V    a (v0), b (v0);
        bool ra = false, rb = false;
        int  ta = call_checked ([&] { ra = extractScaling (m, a, true); }), tb = call_checked ([&] { rb = extractScaling (m, b, false); });
        if (decomp_pair (c, "extractScaling(M44)", d, ta, ra, tb, rb, in))
            VP_REQUIRE (c, (same_vec<T, V, 3> (a, b)), "extractScaling(M44)/outputs-differ", "extractScaling exc=true gives " << vstr (a, 3) << " exc=false gives " << vstr (b, 3) << " on " << in);
    }
    // sansScaling
    {
        M   a (id), b (id);
        int ta = call_checked ([&] { a = sansScaling (m, true); }), tb = call_checked ([&] { b = sansScaling (m, false); });
        bool failed_u = tb == TH_NONE && ta != TH_NONE; // after a throw the unchecked form must hand back its input
        if (decomp_pair (c, "sansScaling(M44)", d, ta, true, tb, !(failed_u && same_matrix<M, T, 4> (b, m)), in))
            VP_REQUIRE (c, (same_matrix<M, T, 4> (a, b)), "sansScaling(M44)/outputs-differ", "sansScaling exc=true gives " << mstr (a, 4) << " exc=false gives " << mstr (b, 4) << " on " << in);
    }
    // removeScaling
    {
        M    a (m), b (m);
        bool ra = false, rb = false;
        int  ta = call_checked ([&] { ra = removeScaling (a, true); }), tb = call_checked ([&] { rb = removeScaling (b, false); });
        if (decomp_pair (c, "removeScaling(M44)", d, ta, ra, tb, rb, in))
            VP_REQUIRE (c, (same_matrix<M, T, 4> (a, b)), "removeScaling(M44)/outputs-differ", "removeScaling exc=true gives " << mstr (a, 4) << " exc=false gives " << mstr (b, 4) << " on " << in);
        else
            VP_REQUIRE (c, (same_matrix<M, T, 4> (b, m)), "removeScaling(M44)/matrix-changed-on-failure", "removeScaling(m,false) returned false but changed m to " << mstr (b, 4) << " on " << in);
    }
    // extractScalingAndShear
    {
        V    a (v0), b (v0), ha (v0), hb (v0);
        bool ra = false, rb = false;
        int  ta = call_checked ([&] { ra = extractScalingAndShear (m, a, ha, true); }), tb = call_checked ([&] { rb = extractScalingAndShear (m, b, hb, false); });
        if (decomp_pair (c, "extractScalingAndShear(M44)", d, ta, ra, tb, rb, in))
            VP_REQUIRE (c, (same_vec<T, V, 3> (a, b)) && (same_vec<T, V, 3> (ha, hb)), "extractScalingAndShear(M44)/outputs-differ", "extractScalingAndShear exc=true gives " << vstr (a, 3) << vstr (ha, 3) << " exc=false gives " << vstr (b, 3) << vstr (hb, 3) << " on " << in);
    }
    // sansScalingAndShear (value-returning)
    {
        M   a (id), b (id);
        int ta = call_checked ([&] { a = sansScalingAndShear (m, true); }), tb = call_checked ([&] { b = sansScalingAndShear (m, false); });
        bool failed_u = tb == TH_NONE && ta != TH_NONE;
        if (decomp_pair (c, "sansScalingAndShear(M44)", d, ta, true, tb, !(failed_u && same_matrix<M, T, 4> (b, m)), in))
            VP_REQUIRE (c, (same_matrix<M, T, 4> (a, b)), "sansScalingAndShear(M44)/outputs-differ", "sansScalingAndShear exc=true gives " << mstr (a, 4) << " exc=false gives " << mstr (b, 4) << " on " << in);
    }
    // sansScalingAndShear (result, mat): decomposes `result` in place, falls back to `mat`
    {
        M   a (m), b (m);
        int ta = call_checked ([&] { sansScalingAndShear (a, m2, true); }), tb = call_checked ([&] { sansScalingAndShear (b, m2, false); });
        bool failed_u = tb == TH_NONE && ta != TH_NONE;
        if (decomp_pair (c, "sansScalingAndShear(M44,M44)", d, ta, true, tb, !(failed_u && same_matrix<M, T, 4> (b, m2)), in))
            VP_REQUIRE (c, (same_matrix<M, T, 4> (a, b)), "sansScalingAndShear(M44,M44)/outputs-differ", "sansScalingAndShear(result,mat) exc=true gives " << mstr (a, 4) << " exc=false gives " << mstr (b, 4) << " on " << in);
    }
    // removeScalingAndShear
    {
        M    a (m), b (m);
        bool ra = false, rb = false;
        int  ta = call_checked ([&] { ra = removeScalingAndShear (a, true); }), tb = call_checked ([&] { rb = removeScalingAndShear (b, false); });
        if (decomp_pair (c, "removeScalingAndShear(M44)", d, ta, ra, tb, rb, in))
            VP_REQUIRE (c, (same_matrix<M, T, 4> (a, b)), "removeScalingAndShear(M44)/outputs-differ", "removeScalingAndShear exc=true gives " << mstr (a, 4) << " exc=false gives " << mstr (b, 4) << " on " << in);
        else
            VP_REQUIRE (c, (same_matrix<M, T, 4> (b, m)), "removeScalingAndShear(M44)/matrix-changed-on-failure", "removeScalingAndShear(m,false) returned false but changed m to " << mstr (b, 4) << " on " << in);
    }
    // extractAndRemoveScalingAndShear
    {
        M    a (m), b (m);
        V    sa (v0), sb (v0), ha (v0), hb (v0);
        bool ra = false, rb = false;
        int  ta = call_checked ([&] { ra = extractAndRemoveScalingAndShear (a, sa, ha, true); }), tb = call_checked ([&] { rb = extractAndRemoveScalingAndShear (b, sb, hb, false); });
        if (decomp_pair (c, "extractAndRemoveScalingAndShear(M44)", d, ta, ra, tb, rb, in))
            VP_REQUIRE (c, (same_matrix<M, T, 4> (a, b)) && (same_vec<T, V, 3> (sa, sb)) && (same_vec<T, V, 3> (ha, hb)), "extractAndRemoveScalingAndShear(M44)/outputs-differ", "extractAndRemoveScalingAndShear exc=true gives " << mstr (a, 4) << vstr (sa, 3) << vstr (ha, 3) << " exc=false gives " << mstr (b, 4) << vstr (sb, 3) << vstr (hb, 3) << " on " << in);
        else
            VP_REQUIRE (c, (same_matrix<M, T, 4> (b, m)), "extractAndRemoveScalingAndShear(M44)/matrix-changed-on-failure", "extractAndRemoveScalingAndShear(m,...,false) returned false but changed m to " << mstr (b, 4) << " on " << in);
    }
    // extractSHRT, three overloads
    for (int ov = 0; ov < 3; ++ov)
    {
        V        sa (v0), sb (v0), ha (v0), hb (v0), ra_ (v0), rb_ (v0), ta_ (v0), tb_ (v0);
        Euler<T> ea (order), eb (order);
        bool     ra = false, rb = false;
        int      ta, tb;
        const char* fn;
        if (ov == 0)
        {
            fn = "extractSHRT(M44,order)";
            ta = call_checked ([&] { ra = extractSHRT (m, sa, ha, ra_, ta_, true, order); });
            tb = call_checked ([&] { rb = extractSHRT (m, sb, hb, rb_, tb_, false, order); });
        }
        else if (ov == 1)
        {
            fn = "extractSHRT(M44)";
            ta = call_checked ([&] { ra = extractSHRT (m, sa, ha, ra_, ta_, true); });
            tb = call_checked ([&] { rb = extractSHRT (m, sb, hb, rb_, tb_, false); });
        }
        else
        {
            fn = "extractSHRT(M44,Euler)";
            ta = call_checked ([&] { ra = extractSHRT (m, sa, ha, ea, ta_, true); });
            tb = call_checked ([&] { rb = extractSHRT (m, sb, hb, eb, tb_, false); });
            ra_ = V (ea.x, ea.y, ea.z);
            rb_ = V (eb.x, eb.y, eb.z);
        }
        if (decomp_pair (c, fn, d, ta, ra, tb, rb, in))
            VP_REQUIRE (c, (same_vec<T, V, 3> (sa, sb)) && (same_vec<T, V, 3> (ha, hb)) && (same_vec<T, V, 3> (ra_, rb_)) && (same_vec<T, V, 3> (ta_, tb_)) && ea.order () == eb.order (), std::string (fn) + "/outputs-differ", fn << " exc=true gives s=" << vstr (sa, 3) << " h=" << vstr (ha, 3) << " r=" << vstr (ra_, 3) << " t=" << vstr (ta_, 3) << " exc=false gives s=" << vstr (sb, 3) << " h=" << vstr (hb, 3) << " r=" << vstr (rb_, 3) << " t=" << vstr (tb_, 3) << " on " << in);
    }
}

template <class T> static void decomp33_case (vp::Ctx& c, const char* tn)
{
    typedef Matrix33<T> M;
    typedef Vec2<T>     V;
    vp::Src&            s = c.s;
    T                   q[3][3];
    int                 cls = gen_decomp_block<T> (s, 2, q);
    M                   m;
    for (int i = 0; i < 2; ++i)
        for (int j = 0; j < 2; ++j)
            m[i][j] = q[i][j];
    for (int j = 0; j < 2; ++j)
        m[2][j] = s.coin () ? gen::nice<T> (s) : gsigned<T> (s);
    if (s.chance (32))
        for (int i = 0; i < 3; ++i)
            m[i][2] = gen::nice<T> (s);
    std::string in = std::string (tn) + " " + mstr (m, 3);
    VP_NOTE (c, in << " class=" << cls);
    quad xb[4] = { (quad) m[0][0], (quad) m[0][1], (quad) m[1][0], (quad) m[1][1] };
    DInfo d    = decomp_info<T> (xb, 2);
    decomp_class_label (c, cls);
    if (d.well) c.label (DL_WELL);
    if (d.negdet) c.label (DL_NEGATIVE_DET);
    c.nt (d.justified || cls == 3 || cls == 4);
    const V v0 ((T) 0);
    const M id;
    {
        V    a (v0), b (v0);
        bool ra = false, rb = false;
        int  ta = call_checked ([&] { ra = extractScaling (m, a, true); }), tb = call_checked ([&] { rb = extractScaling (m, b, false); });
        if (decomp_pair (c, "extractScaling(M33)", d, ta, ra, tb, rb, in))
            VP_REQUIRE (c, (same_vec<T, V, 2> (a, b)), "extractScaling(M33)/outputs-differ", "extractScaling exc=true gives " << vstr (a, 2) << " exc=false gives " << vstr (b, 2) << " on " << in);
    }
    {
        M   a (id), b (id);
        int ta = call_checked ([&] { a = sansScaling (m, true); }), tb = call_checked ([&] { b = sansScaling (m, false); });
        bool failed_u = tb == TH_NONE && ta != TH_NONE;
        if (decomp_pair (c, "sansScaling(M33)", d, ta, true, tb, !(failed_u && same_matrix<M, T, 3> (b, m)), in))
            VP_REQUIRE (c, (same_matrix<M, T, 3> (a, b)), "sansScaling(M33)/outputs-differ", "sansScaling exc=true gives " << mstr (a, 3) << " exc=false gives " << mstr (b, 3) << " on " << in);
    }
    {
        M    a (m), b (m);
        bool ra = false, rb = false;
        int  ta = call_checked ([&] { ra = removeScaling (a, true); }), tb = call_checked ([&] { rb = removeScaling (b, false); });
        if (decomp_pair (c, "removeScaling(M33)", d, ta, ra, tb, rb, in))
            VP_REQUIRE (c, (same_matrix<M, T, 3> (a, b)), "removeScaling(M33)/outputs-differ", "removeScaling exc=true gives " << mstr (a, 3) << " exc=false gives " << mstr (b, 3) << " on " << in);
        else
            VP_REQUIRE (c, (same_matrix<M, T, 3> (b, m)), "removeScaling(M33)/matrix-changed-on-failure", "removeScaling(m,false) returned false but changed m to " << mstr (b, 3) << " on " << in);
    }
    {
        V    a (v0), b (v0);
        T    ha = 0, hb = 0;
        bool ra = false, rb = false;
        int  ta = call_checked ([&] { ra = extractScalingAndShear (m, a, ha, true); }), tb = call_checked ([&] { rb = extractScalingAndShear (m, b, hb, false); });
        if (decomp_pair (c, "extractScalingAndShear(M33)", d, ta, ra, tb, rb, in))
            VP_REQUIRE (c, (same_vec<T, V, 2> (a, b)) && same<T> (ha, hb), "extractScalingAndShear(M33)/outputs-differ", "extractScalingAndShear exc=true gives " << vstr (a, 2) << " " << ha << " exc=false gives " << vstr (b, 2) << " " << hb << " on " << in);
    }
    {
        M   a (id), b (id);
        int ta = call_checked ([&] { a = sansScalingAndShear (m, true); }), tb = call_checked ([&] { b = sansScalingAndShear (m, false); });
        bool failed_u = tb == TH_NONE && ta != TH_NONE;
        if (decomp_pair (c, "sansScalingAndShear(M33)", d, ta, true, tb, !(failed_u && same_matrix<M, T, 3> (b, m)), in))
            VP_REQUIRE (c, (same_matrix<M, T, 3> (a, b)), "sansScalingAndShear(M33)/outputs-differ", "sansScalingAndShear exc=true gives " << mstr (a, 3) << " exc=false gives " << mstr (b, 3) << " on " << in);
    }
    {
        M    a (m), b (m);
        bool ra = false, rb = false;
        int  ta = call_checked ([&] { ra = removeScalingAndShear (a, true); }), tb = call_checked ([&] { rb = removeScalingAndShear (b, false); });
        if (decomp_pair (c, "removeScalingAndShear(M33)", d, ta, ra, tb, rb, in))
            VP_REQUIRE (c, (same_matrix<M, T, 3> (a, b)), "removeScalingAndShear(M33)/outputs-differ", "removeScalingAndShear exc=true gives " << mstr (a, 3) << " exc=false gives " << mstr (b, 3) << " on " << in);
        else
            VP_REQUIRE (c, (same_matrix<M, T, 3> (b, m)), "removeScalingAndShear(M33)/matrix-changed-on-failure", "removeScalingAndShear(m,false) returned false but changed m to " << mstr (b, 3) << " on " << in);
    }
    {
        M    a (m), b (m);
        V    sa (v0), sb (v0);
        T    ha = 0, hb = 0;
        bool ra = false, rb = false;
        int  ta = call_checked ([&] { ra = extractAndRemoveScalingAndShear (a, sa, ha, true); }), tb = call_checked ([&] { rb = extractAndRemoveScalingAndShear (b, sb, hb, false); });
        if (decomp_pair (c, "extractAndRemoveScalingAndShear(M33)", d, ta, ra, tb, rb, in))
            VP_REQUIRE (c, (same_matrix<M, T, 3> (a, b)) && (same_vec<T, V, 2> (sa, sb)) && same<T> (ha, hb), "extractAndRemoveScalingAndShear(M33)/outputs-differ", "extractAndRemoveScalingAndShear exc=true gives " << mstr (a, 3) << vstr (sa, 2) << ha << " exc=false gives " << mstr (b, 3) << vstr (sb, 2) << hb << " on " << in);
        else
            VP_REQUIRE (c, (same_matrix<M, T, 3> (b, m)), "extractAndRemoveScalingAndShear(M33)/matrix-changed-on-failure", "extractAndRemoveScalingAndShear(m,...,false) returned false but changed m to " << mstr (b, 3) << " on " << in);
    }
    {
        V    sa (v0), sb (v0), ta_ (v0), tb_ (v0);
        T    ha = 0, hb = 0, ra_ = 0, rb_ = 0;
        bool ra = false, rb = false;
        int  ta = call_checked ([&] { ra = extractSHRT (m, sa, ha, ra_, ta_, true); }), tb = call_checked ([&] { rb = extractSHRT (m, sb, hb, rb_, tb_, false); });
        if (decomp_pair (c, "extractSHRT(M33)", d, ta, ra, tb, rb, in))
            VP_REQUIRE (c, (same_vec<T, V, 2> (sa, sb)) && same<T> (ha, hb) && same<T> (ra_, rb_) && (same_vec<T, V, 2> (ta_, tb_)), "extractSHRT(M33)/outputs-differ", "extractSHRT exc=true gives s=" << vstr (sa, 2) << " h=" << ha << " r=" << ra_ << " t=" << vstr (ta_, 2) << " exc=false gives s=" << vstr (sb, 2) << " h=" << hb << " r=" << rb_ << " t=" << vstr (tb_, 2) << " on " << in);
    }
}
#define DL_RULE "upper-left block from 9 classes (nice, a null row with signed zeros, exactly dependent axis-aligned rows, nearly dependent rows with the perturbation swept to 2^-(digits+8), one row scaled down through the whole exponent range, uniform scale over the whole exponent range, wild finite, small integers, scaled near-diagonal incl. negative scales), translation row nice/any magnitude, last column sometimes non-affine; every function called with exc=true and exc=false (all three extractSHRT overloads, a random Euler order); non-trivial = exact Gram-Schmidt says a throw is justified, or the nearly-dependent / tiny-row classes"
#define DL_REQ "threw", "well_conditioned", "zero_row_class", "exactly_dependent_class", "nearly_dependent_class", "tiny_row_class", "extreme_uniform_scale_class", "negative_determinant"
VP_RANDOM (decomp44_f, 200000, 4000000, DL_RULE) { decomp44_case<float> (c, "M44f"); }
VP_LABELS (decomp44_f, DL_LABELS)
VP_REQUIRE_LABELS (decomp44_f, DL_REQ)
VP_FUZZABLE (decomp44_f)
VP_RANDOM (decomp44_d, 200000, 4000000, DL_RULE) { decomp44_case<double> (c, "M44d"); }
VP_LABELS (decomp44_d, DL_LABELS)
VP_REQUIRE_LABELS (decomp44_d, DL_REQ)
VP_FUZZABLE (decomp44_d)
VP_RANDOM (decomp33_f, 200000, 4000000, DL_RULE) { decomp33_case<float> (c, "M33f"); }
VP_LABELS (decomp33_f, DL_LABELS)
VP_REQUIRE_LABELS (decomp33_f, DL_REQ)
VP_FUZZABLE (decomp33_f)
VP_RANDOM (decomp33_d, 200000, 4000000, DL_RULE) { decomp33_case<double> (c, "M33d"); }
VP_LABELS (decomp33_d, DL_LABELS)
VP_REQUIRE_LABELS (decomp33_d, DL_REQ)
VP_FUZZABLE (decomp33_d)

// ---- checkForZeroScaleInRow (scl, row, exc) called directly: guard |scl| < 1 && |row_i| >= max*|scl|, quotient row_i/scl
#define ZL_LABELS "threw", "vec3", "vec2", "scale_zero", "scale_denormal", "scale_lt_1", "scale_ge_1", "component_within_2ulp_of_guard"
template <class T, class V, int N> static void zeroscale_case (vp::Ctx& c, const char* tn)
{
    vp::Src& s   = c.s;
    T        scl = gsigned<T> (s);
    if (s.chance (48))
    {
        scl = pow2<T> ((int) s.range (KT<T>::esub (), 2));
        if (s.coin ()) scl = -scl;
    }
    T    as = scl < 0 ? -scl : scl;
    V    row;
    bool boundary = false;
    for (int i = 0; i < N; ++i)
    {
        switch (s.below (4))
        {
            case 0:
                row[i]   = as < (T) 1 ? bump (finite_clamp ((T) (KT<T>::max () * as)), s.range (-2, 2)) : KT<T>::max ();
                boundary = boundary || as < (T) 1;
                break;
            case 1: row[i] = near_product<T> (s, scl); break;
            case 2: row[i] = gen::nice<T> (s); break;
            default: row[i] = gmag<T> (s); break;
        }
        if (s.coin ()) row[i] = -row[i];
    }
    VP_NOTE (c, tn << " scl=" << scl << " row=" << vstr (row, N));
    c.label (N == 3 ? 1 : 2);
    c.label (as == 0 ? 3 : as < KT<T>::min () ? 4 : as < 1 ? 5 : 6);
    if (boundary) c.label (7);
    bool ra = false, rb = false;
    int  ta = call_checked ([&] { ra = checkForZeroScaleInRow (scl, row, true); }), tb = call_checked ([&] { rb = checkForZeroScaleInRow (scl, row, false); });
    bool just = false, nr = false;
    for (int i = 0; i < N; ++i)
    {
        GQ g ((quad) row[i], (quad) scl);
        if (gq_justified<T> (g)) just = true;
        if (gq_near<T> (g)) nr = true;
    }
    c.nt (ta != TH_NONE || nr);
    std::string fn = std::string ("checkForZeroScaleInRow(") + (N == 3 ? "Vec3)" : "Vec2)");
    VP_REQUIRE (c, tb == TH_NONE, fn + "/unchecked-form-threw", fn << " exc=false threw " << thname (tb));
    if (ta != TH_NONE)
    {
        c.label (0);
        VP_REQUIRE (c, ta == TH_DOMAIN, fn + "/exception-type", fn << " exc=true threw " << thname (ta));
        VP_REQUIRE (c, !rb, fn + "/unchecked-no-failure-report-after-throw", fn << " exc=true threw but exc=false returned true for scl=" << scl << " row=" << vstr (row, N));
        VP_REQUIRE (c, as < 1 && just, fn + "/threw-far-from-overflow", fn << " exc=true threw for scl=" << scl << " row=" << vstr (row, N) << " although every exact |row_i/scl| is below max/4");
    }
    else
    {
        VP_REQUIRE (c, ra, fn + "/checked-returned-false", fn << " exc=true returned false instead of throwing for scl=" << scl << " row=" << vstr (row, N));
        VP_REQUIRE (c, rb, fn + "/unchecked-failed-without-throw", fn << " exc=false returned false but exc=true returned true for scl=" << scl << " row=" << vstr (row, N));
    }
}
#define ZL_RULE "scale from {0, denormal, 2/max, min, 1 (+-4ulp), whole exponent range, powers of two}, row components from {max*|scl| +-2ulp, x 2^+-3, nice, any magnitude}; non-trivial = threw or a quotient within 2^8 of max/4 or undefined"
VP_RANDOM (zeroscale_row_f, 200000, 4000000, ZL_RULE)
{
    if (c.s.coin ())
        zeroscale_case<float, V3f, 3> (c, "float");
    else
        zeroscale_case<float, V2f, 2> (c, "float");
}
VP_LABELS (zeroscale_row_f, ZL_LABELS)
VP_REQUIRE_LABELS (zeroscale_row_f, "threw", "vec3", "vec2", "scale_zero", "scale_denormal", "scale_lt_1", "scale_ge_1", "component_within_2ulp_of_guard")
VP_RANDOM (zeroscale_row_d, 200000, 4000000, ZL_RULE)
{
    if (c.s.coin ())
        zeroscale_case<double, V3d, 3> (c, "double");
    else
        zeroscale_case<double, V2d, 2> (c, "double");
}
VP_LABELS (zeroscale_row_d, ZL_LABELS)
VP_REQUIRE_LABELS (zeroscale_row_d, "threw", "vec3", "vec2", "scale_zero", "scale_denormal", "scale_lt_1", "scale_ge_1", "component_within_2ulp_of_guard")

VP_MAIN ("C07")
