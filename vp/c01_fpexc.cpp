// C01, second translation unit: half.h compiled in the documented IMATH_HALF_ENABLE_FP_EXCEPTIONS configuration
// ("an implementation wishing to receive FE_OVERFLOW and FE_UNDERFLOW ... can define the preprocessor symbol prior to
// including half.h").  Only the C functions are used here (they are `static inline`, i.e. local to this TU); no member
// of class half is odr-used, so the main TU keeps the default configuration.
#define IMATH_HALF_ENABLE_FP_EXCEPTIONS
#include <half.h>
#include <cfenv>
#include <cstdint>
#include <cstring>

extern "C" void c01_fpexc_f2h_block (uint32_t hi, uint16_t* out)
{
    for (uint32_t lo = 0; lo < 65536; ++lo)
    {
        uint32_t u = hi | lo;
        float    f;
        memcpy (&f, &u, 4);
        out[lo] = imath_float_to_half (f);
    }
    feclearexcept (FE_ALL_EXCEPT);
}

extern "C" uint32_t c01_fpexc_h2f (uint16_t h)
{
    float    f = imath_half_to_float (h);
    uint32_t u;
    memcpy (&u, &f, 4);
    return u;
}

// exception flags raised by one conversion (FE_OVERFLOW / FE_UNDERFLOW bits as returned by fetestexcept)
extern "C" int c01_fpexc_flags (uint32_t u, uint16_t* out)
{
    float f;
    memcpy (&f, &u, 4);
    feclearexcept (FE_ALL_EXCEPT);
    *out   = imath_float_to_half (f);
    int fl = fetestexcept (FE_OVERFLOW | FE_UNDERFLOW);
    feclearexcept (FE_ALL_EXCEPT);
    return (fl & FE_OVERFLOW ? 1 : 0) | (fl & FE_UNDERFLOW ? 2 : 0);
}
