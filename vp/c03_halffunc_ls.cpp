// C03 (large-stack configuration, cmake -DIMATH_ENABLE_LARGE_STACK=ON => IMATH_HAVE_LARGE_STACK): halfFunction<T> keeps its
// 2^16-entry table as a member array instead of a heap block; the constructor and the call operator take different
// `#if` branches.  The object is placement-constructed in storage pre-filled with two different byte patterns, so an
// entry the constructor forgets to write shows up as a wrong (and pattern-dependent) value.  Domains and special values
// are a pure function of argv[1] (the run's seed); every one of the 65536 entries is compared with the documented rule.
// Prints "FAIL <key> <message>" lines and "CHECKS <n>"; exit 1 on any failure.
#ifndef IMATH_HAVE_LARGE_STACK
#    define IMATH_HAVE_LARGE_STACK 1
#endif
#include <half.h>
#include <halfFunction.h>
#include <cmath>
#include <cstdint>
#include <cstdio>
#include <cstdlib>
#include <cstring>
#include <new>
using namespace IMATH_NAMESPACE;

static long long fails = 0, checks = 0;
static uint64_t  rng_state;
static uint64_t  rnd ()
{
    // splitmix64
    uint64_t z = (rng_state += 0x9e3779b97f4a7c15ull);
    z          = (z ^ (z >> 30)) * 0xbf58476d1ce4e5b9ull;
    z          = (z ^ (z >> 27)) * 0x94d049bb133111ebull;
    return z ^ (z >> 31);
}
static uint16_t pickh ()
{
    switch (rnd () % 6)
    {
        case 0: return 0x0000;
        case 1: return 0x8000;
        case 2: return 0x7bff;
        case 3: return 0xfbff;
        case 4: return (uint16_t) ((rnd () & 0x7fff) % 0x7c00);
        default: return (uint16_t) (0x8000 | ((rnd () & 0x7fff) % 0x7c00));
    }
}
// independent binary16 -> float decoding
static float h2f (uint16_t h)
{
    int    s = h >> 15, e = (h >> 10) & 31, m = h & 1023;
    double v;
    if (e == 31)
        v = m ? NAN : INFINITY;
    else if (e == 0)
        v = std::ldexp ((double) m, -24);
    else
        v = std::ldexp (1.0 + m / 1024.0, e - 15);
    return (float) (s ? -v : v);
}

template <class T> struct Fn
{
    T operator() (half x) const { return (T) ((float) x * 0.5f + 3.0f); }
};

template <class T> static void one (const char* tn, bool defaults, unsigned char poison)
{
    typedef ::halfFunction<T> HF;
    void* raw = std::aligned_alloc (64, (sizeof (HF) + 63) / 64 * 64);
    std::memset (raw, poison, sizeof (HF));
    uint16_t dmin = pickh (), dmax = pickh ();
    float    fdef = (float) ((int) (rnd () % 11) - 5), fpi = 1000.0f + rnd () % 7, fni = -1000.0f - rnd () % 7, fnan = 7777.0f + rnd () % 3;
    half     hmin, hmax;
    hmin.setBits (dmin);
    hmax.setBits (dmax);
    T   Tdef, Tpi, Tni, Tnan;
    HF* hf;
    if (defaults)
    {
        hf   = new (raw) HF (Fn<T> ());
        dmin = 0xfbff;
        dmax = 0x7bff;
        Tdef = Tpi = Tni = Tnan = T (0);
    }
    else
    {
        Tdef = (T) fdef;
        Tpi  = (T) fpi;
        Tni  = (T) fni;
        Tnan = (T) fnan;
        hf   = new (raw) HF (Fn<T> (), hmin, hmax, Tdef, Tpi, Tni, Tnan);
    }
    float lo = h2f (dmin), hi = h2f (dmax);
    int   reported = 0;
    for (uint32_t p = 0; p < 65536; ++p)
    {
        half x;
        x.setBits ((uint16_t) p);
        T           got = (*hf) (x);
        float       v   = h2f ((uint16_t) p);
        T           want;
        const char* key;
        if (v != v)
        {
            want = Tnan;
            key  = "halfFunction-large-stack/nan";
        }
        else if (std::isinf (v))
        {
            want = v < 0 ? Tni : Tpi;
            key  = "halfFunction-large-stack/inf";
        }
        else if (v < lo || v > hi)
        {
            want = Tdef;
            key  = "halfFunction-large-stack/default";
        }
        else
        {
            want = (T) (v * 0.5f + 3.0f);
            key  = "halfFunction-large-stack/value";
        }
        ++checks;
        if (!((float) got == (float) want))
        {
            ++fails;
            if (reported++ < 1)
                printf ("FAIL %s halfFunction<%s> (IMATH_HAVE_LARGE_STACK, storage pre-filled with 0x%02x) at half 0x%04x = %g returns %g expected %g; domain [0x%04x,0x%04x] = [%g,%g] default %g%s\n", key, tn, poison, p, v, (double) (float) got, (double) (float) want, dmin, dmax, lo, hi, (double) (float) Tdef, defaults ? " (default arguments)" : "");
        }
    }
    hf->~HF ();
    std::free (raw);
}

int main (int argc, char** argv)
{
    uint64_t seed = argc > 1 ? strtoull (argv[1], 0, 10) : 1;
    rng_state     = seed * 0x2545f4914f6cdd1dull + 12345;
    int n         = argc > 2 ? atoi (argv[2]) : 24;
    for (int i = 0; i < n; ++i)
    {
        bool          defaults = i % 8 == 7;
        unsigned char poison   = (i & 1) ? 0xAA : 0x3C;
        switch (i % 3)
        {
            case 0: one<float> ("float", defaults, poison); break;
            case 1: one<half> ("half", defaults, poison); break;
            default: one<double> ("double", defaults, poison); break;
        }
    }
    printf ("CHECKS %lld\n", checks);
    return fails ? 1 : 0;
}
