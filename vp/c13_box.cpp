// C13: Box/Interval are closed axis-aligned point sets; box transforms are tight.
//
// Sub-checks
//   lat1, lat2, lat3        exhaustive integer lattices (every min/max pair incl. inverted, every point, every
//                           second box), all element types, the Vec2/Vec3 specialisations AND the generic template
//                           instantiated on wrapper vector types; exact integer model
//   lat3_allpairs           thorough only: the complete 15625 x 15625 pair lattice in 3-D
//   lat4                    sampled 4-D lattice (generic template on Vec4)
//   extremes                boxes/points built from lowest/max/denormal/any-finite values; membership model,
//                           default/makeEmpty/makeInfinite, specialisation == generic on every observable
//   history                 model-based extendBy/makeEmpty/makeInfinite sequences (fuzzable)
//   closest_float           clip/closestPointInBox/closestPointOnBox on float/double boxes, quad oracle
//   transform               transform/affineTransform, all four overloads, eight-corner oracle in quad
//
// To keep the build fast the 35 Box/Interval instantiations sit behind one small virtual interface (IBox) that
// moves values as long double (which holds short/int/int64_t/half/float/double exactly); all checking code is
// written once against that interface.
#include "vpbt.h"
#include <cstring>
#include "oracles.h"
#include "gens.h"
#include <ImathBox.h>
#include <ImathBoxAlgo.h>
#include <ImathInterval.h>
#include <ImathMatrix.h>
#include <ImathVec.h>
#include <half.h>
#include <type_traits>

using namespace orc;
using namespace IMATH_NAMESPACE;

typedef long double LDb;

// ---------------------------------------------------------------------------------------------------------
// element helpers

template <class T> static inline T cvt (LDb x) { return (T) x; }
template <> inline half            cvt<half> (LDb x) { return half ((float) x); }
template <class T> static inline LDb LD (T v) { return (LDb) v; }
static inline LDb                    LD (half v) { return (LDb) (float) v; }

template <class T> struct TName;
#define C13_TN(T, n)                                                                                                  \
    template <> struct TName<T>                                                                                       \
    {                                                                                                                 \
        static const char* get () { return n; }                                                                       \
    };
C13_TN (short, "short")
C13_TN (int, "int")
C13_TN (int64_t, "int64_t")
C13_TN (float, "float")
C13_TN (double, "double")
C13_TN (half, "half")

// class-structured element values: lattice first (simplest), then the extremes of the type
template <class T> static T hval (vp::Src& s)
{
    typedef std::numeric_limits<T> L;
    unsigned                       k = (unsigned) s.below (12);
    if (k < 5) return cvt<T> ((LDb) s.range (-4, 4));
    if constexpr (std::is_integral<T>::value)
    {
        switch (k)
        {
            case 5: return L::lowest ();
            case 6: return L::max ();
            case 7: return (T) (L::lowest () + 1);
            case 8: return (T) (L::max () - 1);
            case 9: return (T) s.range (-100, 100);
            default: return (T) s.bits (sizeof (T) * 8); // any value
        }
    }
    else if constexpr (std::is_same<T, half>::value)
    {
        half h;
        switch (k)
        {
            case 5: return L::lowest ();
            case 6: return L::max ();
            case 7: h.setBits ((uint16_t) (s.coin () ? 0x8001 : 0x0001)); return h; // +-denorm_min
            case 8: h.setBits ((uint16_t) (s.coin () ? 0x8000 : 0x0000)); return h; // +-0
            case 9: return half ((float) s.range (-64, 64) * 0.125f);
            default:
            {
                uint16_t u = (uint16_t) s.bits (16);
                if ((u & 0x7c00) == 0x7c00) u &= (uint16_t) ~0x0400;
                h.setBits (u);
                return h;
            }
        }
    }
    else
    {
        switch (k)
        {
            case 5: return L::lowest ();
            case 6: return L::max ();
            case 7: return s.coin () ? -L::denorm_min () : L::denorm_min ();
            case 8: return s.coin () ? -(T) 0 : (T) 0;
            case 9: return s.coin () ? -L::min () : L::min ();
            case 10: return gen::moderate<T> (s, -6, 6);
            default: return gen::any_finite<T> (s);
        }
    }
}

// Thin wrappers around Vec2/Vec3: Box<W2<T>> / Box<W3<T>> instantiate the GENERIC Box template on the same data
// as the hand-unrolled Box<Vec2<T>> / Box<Vec3<T>> specialisations.
template <class T> struct W2 : public Vec2<T>
{
    W2 () {}
    W2 (T a) : Vec2<T> (a) {}
    W2 (T a, T b) : Vec2<T> (a, b) {}
    W2 (const Vec2<T>& v) : Vec2<T> (v) {}
};
template <class T> struct W3 : public Vec3<T>
{
    W3 () {}
    W3 (T a) : Vec3<T> (a) {}
    W3 (T a, T b, T c) : Vec3<T> (a, b, c) {}
    W3 (const Vec3<T>& v) : Vec3<T> (v) {}
};

template <class V> struct AccV
{
    typedef typename V::BaseType E;
    enum
    {
        D = V::dimensions ()
    };
    static E    get (const V& v, int i) { return v[i]; }
    static void set (V& v, int i, E x) { v[i] = x; }
};
template <class T> struct AccS
{
    typedef T E;
    enum
    {
        D = 1
    };
    static E    get (const T& v, int) { return v; }
    static void set (T& v, int, E x) { v = x; }
};

// ---------------------------------------------------------------------------------------------------------
// the type-erased box

struct IBox
{
    int         D = 0;
    bool        integral = false, is_half = false, has_clip = false, has_onbox = false;
    const char *fam = "", *tname = "";
    LDb         lowest = 0, maxv = 0, eps = 0, denorm = 0;
    virtual ~IBox () {}
    virtual void     ctor_default ()                            = 0;
    virtual void     ctor_point (const LDb* p)                  = 0;
    virtual void     ctor_minmax (const LDb* mn, const LDb* mx) = 0;
    virtual void     makeEmpty ()                               = 0;
    virtual void     makeInfinite ()                            = 0;
    virtual void     extendByPoint (const LDb* p)               = 0;
    virtual void     extendByBox (const LDb* mn, const LDb* mx) = 0;
    virtual void     get (LDb* mn, LDb* mx) const               = 0;
    virtual bool     isEmpty () const                           = 0;
    virtual bool     hasVolume () const                         = 0;
    virtual bool     isInfinite () const                        = 0;
    virtual void     size (LDb* s) const                        = 0;
    virtual void     center (LDb* s) const                      = 0;
    virtual unsigned majorAxis () const                         = 0;
    virtual bool     intersectsPoint (const LDb* p) const       = 0;
    // this.intersects(B), B.intersects(this), this == B, this != B   for B = (mn,mx)
    virtual void intersectsBox (const LDb* mn, const LDb* mx, bool& ab, bool& ba, bool& eq, bool& ne) const = 0;
    virtual void clip (const LDb* p, LDb* q_clip, LDb* q_closestIn) const                                  = 0;
    virtual void closestOn (const LDb* p, LDb* q) const                                                     = 0;
    virtual LDb  gen (vp::Src& s) const                                                                     = 0;
};

template <class BX, class V, class A, bool CLIP, bool ONBOX, bool MAJOR> struct BoxImpl final : IBox
{
    typedef typename A::E T;
    enum
    {
        DD = A::D
    };
    BX b;
    BoxImpl (const char* f)
    {
        D         = DD;
        integral  = std::is_integral<T>::value;
        is_half   = std::is_same<T, half>::value;
        has_clip  = CLIP;
        has_onbox = ONBOX;
        fam       = f;
        tname     = TName<T>::get ();
        lowest    = LD (std::numeric_limits<T>::lowest ());
        maxv      = LD (std::numeric_limits<T>::max ());
        eps       = integral ? 0 : LD (std::numeric_limits<T>::epsilon ());
        denorm    = integral ? 0 : LD (std::numeric_limits<T>::denorm_min ());
    }
    static V vec (const LDb* a)
    {
        V v;
        for (int i = 0; i < DD; ++i)
            A::set (v, i, cvt<T> (a[i]));
        return v;
    }
    static void out (const V& v, LDb* a)
    {
        for (int i = 0; i < DD; ++i)
            a[i] = LD (A::get (v, i));
    }
    void ctor_default () override { b = BX (); }
    void ctor_point (const LDb* p) override { b = BX (vec (p)); }
    void ctor_minmax (const LDb* mn, const LDb* mx) override { b = BX (vec (mn), vec (mx)); }
    void makeEmpty () override { b.makeEmpty (); }
    void makeInfinite () override { b.makeInfinite (); }
    void extendByPoint (const LDb* p) override { b.extendBy (vec (p)); }
    void extendByBox (const LDb* mn, const LDb* mx) override { b.extendBy (BX (vec (mn), vec (mx))); }
    void get (LDb* mn, LDb* mx) const override
    {
        out (b.min, mn);
        out (b.max, mx);
    }
    bool     isEmpty () const override { return b.isEmpty (); }
    bool     hasVolume () const override { return b.hasVolume (); }
    bool     isInfinite () const override { return b.isInfinite (); }
    void     size (LDb* s) const override { out (b.size (), s); }
    void     center (LDb* s) const override { out (b.center (), s); }
    unsigned majorAxis () const override
    {
        if constexpr (MAJOR)
            return b.majorAxis ();
        else
            return 0;
    }
    bool intersectsPoint (const LDb* p) const override { return b.intersects (vec (p)); }
    void intersectsBox (const LDb* mn, const LDb* mx, bool& ab, bool& ba, bool& eq, bool& ne) const override
    {
        BX o (vec (mn), vec (mx));
        ab = b.intersects (o);
        ba = o.intersects (b);
        eq = (b == o);
        ne = (b != o);
    }
    void clip (const LDb* p, LDb* q1, LDb* q2) const override
    {
        if constexpr (CLIP)
        {
            V pv = vec (p);
            out (IMATH_NAMESPACE::clip (pv, b), q1);
            out (closestPointInBox (pv, b), q2);
        }
    }
    void closestOn (const LDb* p, LDb* q) const override
    {
        if constexpr (ONBOX) out (closestPointOnBox (vec (p), b), q);
    }
    LDb gen (vp::Src& s) const override { return LD (hval<T> (s)); }
};

// kind: 0 Box<Vec2<T>>, 1 generic on W2, 2 Box<Vec3<T>>, 3 generic on W3, 4 generic Box<Vec4<T>>, 5 Interval<T>
// el  : 0 short 1 int 2 int64_t 3 float 4 double 5 half (Interval<half> is not instantiated: el 5 -> float)
template <class T> static IBox* box_of_kind (int kind)
{
    switch (kind)
    {
        case 0:
        {
            static thread_local BoxImpl<Box<Vec2<T>>, Vec2<T>, AccV<Vec2<T>>, true, false, true> x ("box2");
            return &x;
        }
        case 1:
        {
            static thread_local BoxImpl<Box<W2<T>>, W2<T>, AccV<W2<T>>, true, false, true> x ("generic");
            return &x;
        }
        case 2:
        {
            static thread_local BoxImpl<Box<Vec3<T>>, Vec3<T>, AccV<Vec3<T>>, true, true, true> x ("box3");
            return &x;
        }
        case 3:
        {
            static thread_local BoxImpl<Box<W3<T>>, W3<T>, AccV<W3<T>>, true, false, true> x ("generic");
            return &x;
        }
        case 4:
        {
            static thread_local BoxImpl<Box<Vec4<T>>, Vec4<T>, AccV<Vec4<T>>, true, false, true> x ("generic");
            return &x;
        }
        default:
        {
            if constexpr (std::is_same<T, half>::value)
                return box_of_kind<float> (5);
            else
            {
                static thread_local BoxImpl<Interval<T>, T, AccS<T>, false, false, false> x ("interval");
                return &x;
            }
        }
    }
}
static IBox* make_box (int kind, int el)
{
    switch (el)
    {
        case 0: return box_of_kind<short> (kind);
        case 1: return box_of_kind<int> (kind);
        case 2: return box_of_kind<int64_t> (kind);
        case 3: return box_of_kind<float> (kind);
        case 4: return box_of_kind<double> (kind);
        default: return box_of_kind<half> (kind);
    }
}

static std::string K (const IBox& B, const char* what) { return std::string (B.fam) + "/" + what; }
static std::string tag (const IBox& B)
{
    std::string s = B.fam;
    s += B.D == 1 ? " Interval<" : " Box<";
    if (B.D > 1) s += "Vec" + std::to_string (B.D) + "<";
    s += B.tname;
    if (B.D > 1) s += ">";
    return s + ">";
}
static std::string vstr_ (const IBox& B, const LDb* a)
{
    std::ostringstream o;
    o << "(";
    for (int i = 0; i < B.D; ++i)
    {
        if (i) o << " ";
        if (B.integral)
            o << (long long) a[i];
        else
            o << std::setprecision (17) << (double) a[i];
    }
    o << ")";
    return o.str ();
}
static std::string bstr_ (const IBox& B, const LDb* mn, const LDb* mx) { return "[" + vstr_ (B, mn) + " " + vstr_ (B, mx) + "]"; }
static std::string cur (const IBox& B)
{
    LDb mn[4], mx[4];
    B.get (mn, mx);
    return bstr_ (B, mn, mx);
}
static inline bool veq (const LDb* a, const LDb* b, int D)
{
    for (int i = 0; i < D; ++i)
        if (!(a[i] == b[i])) return false;
    return true;
}

// ---------------------------------------------------------------------------------------------------------
// 1. integer lattices

enum
{
    LL_EMPTY_OPERAND,
    LL_TOUCH,
    LL_PARTIAL,
    LL_DISJOINT,
    LL_OVERLAP,
    LL_POINT_BOUNDARY,
    LL_POINT_INSIDE,
    LL_INVERTED,
    LL_FLAT
};
#define C13_LAT_LABELS "pair_with_empty_operand", "pair_touching", "pair_overlap_in_some_axes_only", "pair_disjoint_all_axes", "pair_overlapping", "point_on_boundary", "point_strictly_inside", "box_inverted", "box_flat"

struct LatCount
{
    uint64_t evals = 0, nontriv = 0, lab[16] = { 0 };
    // deferred known-defect failure (reported after every other check of the block has passed)
    bool        known = false;
    std::string known_key, known_msg;
};

static inline void decode (uint64_t idx, int W, int lo, int n, LDb* out)
{
    for (int i = 0; i < n; ++i)
    {
        out[i] = (LDb) (lo + (int) (idx % (uint64_t) W));
        idx /= (uint64_t) W;
    }
}

static void lat_unary (vp::Ctx& c, LatCount& n, IBox& B, const LDb* mn, const LDb* mx)
{
    const int D = B.D;
    B.ctor_minmax (mn, mx);
    bool e = false, vol = true, flat = false;
    for (int i = 0; i < D; ++i)
    {
        if (mx[i] < mn[i]) e = true;
        if (mx[i] <= mn[i]) vol = false;
        if (mx[i] == mn[i]) flat = true;
    }
    n.evals++;
    if (e) n.lab[LL_INVERTED]++;
    if (!e && flat) n.lab[LL_FLAT]++;
    LDb gmn[4], gmx[4], s[4], ce[4], sz[4];
    B.get (gmn, gmx);
    VP_REQUIRE (c, veq (gmn, mn, D) && veq (gmx, mx, D), K (B, "ctor-min-max"), tag (B) << " (min,max) constructor stores " << cur (B) << " for " << bstr_ (B, mn, mx));
    VP_REQUIRE (c, B.isEmpty () == e, K (B, "isEmpty"), tag (B) << " " << cur (B) << ".isEmpty() = " << B.isEmpty () << " expected " << e);
    VP_REQUIRE (c, B.hasVolume () == vol, K (B, "hasVolume"), tag (B) << " " << cur (B) << ".hasVolume() = " << B.hasVolume () << " expected " << vol);
    VP_REQUIRE (c, !B.isInfinite (), K (B, "isInfinite"), tag (B) << " " << cur (B) << ".isInfinite() is true for a small box");
    B.size (s);
    for (int i = 0; i < D; ++i)
    {
        sz[i] = e ? 0 : mx[i] - mn[i];
        VP_REQUIRE (c, s[i] == sz[i], K (B, "size/slot"), tag (B) << " " << cur (B) << ".size() = " << vstr_ (B, s) << " expected component " << i << " = " << (double) sz[i]);
    }
    if (!e)
    {
        B.center (ce);
        for (int i = 0; i < D; ++i)
        {
            LDb want = (mx[i] + mn[i]) / 2;
            if (B.integral) want = (LDb) ((long long) want); // T's own division truncates towards zero
            VP_REQUIRE (c, ce[i] == want, K (B, "center/slot"), tag (B) << " " << cur (B) << ".center() = " << vstr_ (B, ce) << " expected component " << i << " = " << (double) want);
        }
    }
    if (D > 1)
    {
        unsigned got  = B.majorAxis ();
        int      best = 0;
        for (int i = 1; i < D; ++i)
            if (sz[i] > sz[best]) best = i; // first index among the greatest
        VP_REQUIRE (c, got < (unsigned) D && sz[got] == sz[best], K (B, "majorAxis/not-greatest"), tag (B) << " " << cur (B) << ".majorAxis() = " << got << " but axis " << best << " is longer");
        VP_REQUIRE (c, (int) got == best, K (B, "majorAxis/tie-rule"), tag (B) << " " << cur (B) << ".majorAxis() = " << got << " expected the first of the longest axes, " << best);
    }
    // single-point constructor, default constructor, makeEmpty, makeInfinite
    {
        B.ctor_point (mn);
        B.get (gmn, gmx);
        VP_REQUIRE (c, veq (gmn, mn, D) && veq (gmx, mn, D) && !B.isEmpty () && !B.hasVolume (), K (B, "ctor-point"), tag (B) << " one-point constructor at " << vstr_ (B, mn) << " gives " << cur (B));
        B.ctor_default ();
        LDb dmn[4], dmx[4];
        B.get (dmn, dmx);
        VP_REQUIRE (c, B.isEmpty () && !B.hasVolume () && !B.isInfinite () && !B.intersectsPoint (mn) && !B.intersectsPoint (mx), K (B, "default-not-empty"), tag (B) << " default-constructed box " << cur (B) << " is not empty or contains " << vstr_ (B, mn) << " / " << vstr_ (B, mx));
        B.ctor_minmax (mn, mx);
        B.makeEmpty ();
        B.get (gmn, gmx);
        VP_REQUIRE (c, B.isEmpty () && veq (gmn, dmn, D) && veq (gmx, dmx, D) && !B.intersectsPoint (mn) && !B.intersectsPoint (mx), K (B, "makeEmpty"), tag (B) << " makeEmpty gives " << cur (B));
        B.ctor_minmax (mn, mx);
        B.makeInfinite ();
        VP_REQUIRE (c, B.isInfinite () && !B.isEmpty () && B.hasVolume () && B.intersectsPoint (mn) && B.intersectsPoint (mx), K (B, "makeInfinite"), tag (B) << " makeInfinite gives " << cur (B) << " (must be infinite and contain " << vstr_ (B, mn) << ", " << vstr_ (B, mx) << ")");
    }
}

// every lattice point p in {-R..R}^D against box A=(mn,mx)
static void lat_points (vp::Ctx& c, LatCount& n, IBox& B, const LDb* mn, const LDb* mx, int R, bool brute)
{
    const int D = B.D;
    bool      e = false;
    for (int i = 0; i < D; ++i)
        if (mx[i] < mn[i]) e = true;
    int      Wd = 2 * R + 1;
    uint64_t np = 1;
    for (int i = 0; i < D; ++i)
        np *= (uint64_t) Wd;
    for (uint64_t pi = 0; pi < np; ++pi)
    {
        LDb p[4];
        decode (pi, Wd, -R, D, p);
        bool in = true, onb = false;
        for (int i = 0; i < D; ++i)
        {
            if (p[i] < mn[i] || p[i] > mx[i]) in = false;
            if (p[i] == mn[i] || p[i] == mx[i]) onb = true;
        }
        n.evals++;
        if (in && onb)
        {
            n.lab[LL_POINT_BOUNDARY]++;
            n.nontriv++;
        }
        else if (in)
            n.lab[LL_POINT_INSIDE]++;
        B.ctor_minmax (mn, mx);
        bool got = B.intersectsPoint (p);
        VP_REQUIRE (c, got == in, K (B, "intersects-point"), tag (B) << " " << cur (B) << ".intersects(" << vstr_ (B, p) << ") = " << got << " expected " << in);
        LDb  q[4];
        bool same = true;
        for (int i = 0; i < D; ++i)
        {
            q[i] = p[i] < mn[i] ? mn[i] : (p[i] > mx[i] ? mx[i] : p[i]);
            if (q[i] != p[i]) same = false;
        }
        if (!e)
        {
            if (B.has_clip)
            {
                LDb q1[4], q2[4];
                B.clip (p, q1, q2);
                VP_REQUIRE (c, veq (q1, q, D), "clip/slot", tag (B) << " clip(" << vstr_ (B, p) << ", " << cur (B) << ") = " << vstr_ (B, q1) << " expected " << vstr_ (B, q));
                VP_REQUIRE (c, veq (q2, q, D), "closestPointInBox/slot", tag (B) << " closestPointInBox(" << vstr_ (B, p) << ", " << cur (B) << ") = " << vstr_ (B, q2) << " expected " << vstr_ (B, q));
                if (brute)
                {
                    // validate the clamp oracle: no lattice point of the box is nearer
                    LDb dq = 0;
                    for (int i = 0; i < D; ++i)
                        dq += (p[i] - q[i]) * (p[i] - q[i]);
                    uint64_t nb = 1;
                    for (int i = 0; i < D; ++i)
                        nb *= (uint64_t) (mx[i] - mn[i] + 1);
                    for (uint64_t bi = 0; bi < nb; ++bi)
                    {
                        uint64_t t  = bi;
                        LDb      dr = 0;
                        for (int i = 0; i < D; ++i)
                        {
                            uint64_t w  = (uint64_t) (mx[i] - mn[i] + 1);
                            LDb      ri = mn[i] + (LDb) (t % w);
                            t /= w;
                            dr += (p[i] - ri) * (p[i] - ri);
                        }
                        VP_REQUIRE (c, dq <= dr, "oracle/clamp-not-nearest", "harness oracle: clamp of " << vstr_ (B, p) << " into " << bstr_ (B, mn, mx) << " is not the nearest lattice point");
                    }
                }
            }
            LDb lo[4], hi[4], gmn[4], gmx[4];
            for (int i = 0; i < D; ++i)
            {
                lo[i] = std::min (mn[i], p[i]);
                hi[i] = std::max (mx[i], p[i]);
            }
            B.extendByPoint (p);
            B.get (gmn, gmx);
            VP_REQUIRE (c, veq (gmn, lo, D) && veq (gmx, hi, D), K (B, "extendBy-point"), tag (B) << " " << bstr_ (B, mn, mx) << ".extendBy(" << vstr_ (B, p) << ") = " << cur (B) << " expected " << bstr_ (B, lo, hi));
            B.ctor_minmax (mn, mx);
        }
        if (B.has_onbox)
        {
            LDb r[4];
            B.closestOn (p, r);
            if (e)
                VP_REQUIRE (c, veq (r, p, D), "closestPointOnBox/empty-box", tag (B) << " closestPointOnBox(" << vstr_ (B, p) << ", empty " << cur (B) << ") = " << vstr_ (B, r) << " expected the point itself");
            else if (!same)
                VP_REQUIRE (c, veq (r, q, D), "closestPointOnBox/outside", tag (B) << " closestPointOnBox(" << vstr_ (B, p) << ", " << cur (B) << ") = " << vstr_ (B, r) << " expected " << vstr_ (B, q));
            else
            {
                LDb dmin = 1e9L;
                for (int i = 0; i < D; ++i)
                    dmin = std::min (dmin, std::min (p[i] - mn[i], mx[i] - p[i]));
                bool inbox = true, surf = false;
                LDb  d2    = 0;
                for (int i = 0; i < D; ++i)
                {
                    if (r[i] < mn[i] || r[i] > mx[i]) inbox = false;
                    if (r[i] == mn[i] || r[i] == mx[i]) surf = true;
                    d2 += (r[i] - p[i]) * (r[i] - p[i]);
                }
                VP_REQUIRE (c, inbox && surf, "closestPointOnBox/not-on-surface", tag (B) << " closestPointOnBox(" << vstr_ (B, p) << ", " << cur (B) << ") = " << vstr_ (B, r) << " is not on the surface");
                VP_REQUIRE (c, d2 == dmin * dmin, "closestPointOnBox/not-nearest", tag (B) << " closestPointOnBox(" << vstr_ (B, p) << ", " << cur (B) << ") = " << vstr_ (B, r) << " at squared distance " << (double) d2 << ", nearest face is at distance " << (double) dmin);
            }
        }
    }
}

// box A (already constructed in B, bounds mn/mx, emptiness ea) against box (bn,bx)
static inline void lat_pair (vp::Ctx& c, LatCount& n, IBox& B, const LDb* mn, const LDb* mx, bool ea, const LDb* bn, const LDb* bx)
{
    const int D  = B.D;
    bool      eb = false;
    for (int i = 0; i < D; ++i)
        if (bx[i] < bn[i]) eb = true;
    bool inter = !ea && !eb, touch = false, same = true;
    int  axes_ok = 0;
    for (int i = 0; i < D; ++i)
    {
        LDb lo = std::max (mn[i], bn[i]), hi = std::min (mx[i], bx[i]);
        if (lo <= hi)
            ++axes_ok;
        else
            inter = false;
        if (lo == hi) touch = true;
        if (mn[i] != bn[i] || mx[i] != bx[i]) same = false;
    }
    n.evals++;
    if (ea || eb)
        n.lab[LL_EMPTY_OPERAND]++;
    else if (inter && touch)
    {
        n.lab[LL_TOUCH]++;
        n.nontriv++;
    }
    else if (inter)
        n.lab[LL_OVERLAP]++;
    else if (axes_ok > 0)
    {
        n.lab[LL_PARTIAL]++;
        n.nontriv++;
    }
    else
        n.lab[LL_DISJOINT]++;
    bool g1, g2, eq, ne;
    B.intersectsBox (bn, bx, g1, g2, eq, ne);
    VP_REQUIRE (c, g1 == g2, K (B, "intersects-box-asymmetric"), tag (B) << " " << cur (B) << ".intersects(" << bstr_ (B, bn, bx) << ") = " << g1 << " but the reverse = " << g2);
    if (g1 != inter)
    {
        if (ea || eb)
        {
            if (!n.known)
            {
                n.known     = true;
                n.known_key = K (B, "intersects-box-empty-operand");
                std::ostringstream o;
                o << tag (B) << " " << cur (B) << ".intersects(" << bstr_ (B, bn, bx) << ") = " << g1 << " although " << (ea ? "the first" : "the second") << " box is empty (shares no point with anything)";
                n.known_msg = o.str ();
            }
        }
        else
            VP_FAIL (c, K (B, "intersects-box"), tag (B) << " " << cur (B) << ".intersects(" << bstr_ (B, bn, bx) << ") = " << g1 << " expected " << inter);
    }
    VP_REQUIRE (c, eq == same && ne == !same, K (B, "comparison"), tag (B) << " " << cur (B) << " == " << bstr_ (B, bn, bx) << " gives " << eq << ", != gives " << ne);
    if (!ea && !eb)
    {
        LDb lo[4], hi[4], gmn[4], gmx[4];
        for (int i = 0; i < D; ++i)
        {
            lo[i] = std::min (mn[i], bn[i]);
            hi[i] = std::max (mx[i], bx[i]);
        }
        B.extendByBox (bn, bx);
        B.get (gmn, gmx);
        VP_REQUIRE (c, veq (gmn, lo, D) && veq (gmx, hi, D), K (B, "extendBy-box"), tag (B) << " " << bstr_ (B, mn, mx) << ".extendBy(" << bstr_ (B, bn, bx) << ") = " << cur (B) << " expected " << bstr_ (B, lo, hi));
        B.ctor_minmax (mn, mx);
    }
}

// A = box number ia of the lattice {-H..H}; second boxes ib = (start + k*stride) mod NB, k < count
static void lat_block (vp::Ctx& c, LatCount& n, IBox& B, int H, uint64_t ia, uint64_t start, uint64_t stride, uint64_t count, int R, bool do_unary, bool brute)
{
    const int D  = B.D;
    int       Wd = 2 * H + 1;
    uint64_t  NB = 1;
    for (int i = 0; i < 2 * D; ++i)
        NB *= (uint64_t) Wd;
    LDb am[8];
    decode (ia, Wd, -H, 2 * D, am);
    const LDb *mn = am, *mx = am + D;
    if (do_unary)
    {
        lat_unary (c, n, B, mn, mx);
        lat_points (c, n, B, mn, mx, R, brute);
    }
    B.ctor_minmax (mn, mx);
    bool ea = false;
    for (int i = 0; i < D; ++i)
        if (mx[i] < mn[i]) ea = true;
    uint64_t ib = start % NB;
    for (uint64_t k = 0; k < count; ++k)
    {
        LDb bm[8];
        decode (ib, Wd, -H, 2 * D, bm);
        lat_pair (c, n, B, mn, mx, ea, bm, bm + D);
        ib += stride;
        if (ib >= NB) ib -= NB;
    }
}

struct LatGuard // adds the bulk counters even when a check throws
{
    vp::Ctx&  c;
    LatCount& n;
    bool      done = false;
    LatGuard (vp::Ctx& c_, LatCount& n_) : c (c_), n (n_) {}
    void flush ()
    {
        c.bulk (n.evals, n.nontriv);
        for (int l = 0; l < 16; ++l)
            if (n.lab[l]) c.bulk_label (l, n.lab[l]);
    }
    ~LatGuard ()
    {
        if (!done) flush ();
    }
    void finish ()
    {
        done = true;
        flush ();
        if (n.known) c.do_fail (n.known_key, n.known_msg);
    }
};

// Interval: bounds in {-6..6}, points in {-7..7}; every interval against every interval
VP_EXHAUSTIVE (lat1, 169, 169, "Interval<short,int,int64_t,float,double>: every (min,max) in {-6..6}^2 incl. inverted x every second interval x every point in {-7..7}; exact integer model; non-trivial = intervals touching / point on a bound")
{
    LatCount n;
    LatGuard g (c, n);
    for (int el = 0; el < 5; ++el)
        lat_block (c, n, *make_box (5, el), 6, idx, 0, 1, 169, 7, true, false);
    g.finish ();
}
VP_LABELS (lat1, C13_LAT_LABELS)
VP_REQUIRE_LABELS (lat1, "pair_with_empty_operand", "pair_touching", "pair_disjoint_all_axes", "point_on_boundary", "box_inverted", "box_flat")

// 2-D: bounds in {-2..2}^2 (625 boxes), points in {-3..3}^2, every box against every box
VP_EXHAUSTIVE (lat2, 625, 625, "Box<Vec2<T>> specialisation and the generic Box template on a Vec2 wrapper, T in short,int,int64_t,float,double,half: every (min,max) in {-2..2}^2x2 incl. inverted x every second box x every point in {-3..3}^2 (membership, clip, closestPointInBox, extendBy, brute-force nearest); exact integer model; non-trivial = boxes touching or overlapping in one axis only / point on the boundary")
{
    LatCount n;
    LatGuard g (c, n);
    for (int el = 0; el < 6; ++el)
        for (int kind = 0; kind < 2; ++kind)
            lat_block (c, n, *make_box (kind, el), 2, idx, 0, 1, 625, 3, true, true);
    g.finish ();
}
VP_LABELS (lat2, C13_LAT_LABELS)
VP_REQUIRE_LABELS (lat2, "pair_with_empty_operand", "pair_touching", "pair_overlap_in_some_axes_only", "pair_disjoint_all_axes", "pair_overlapping", "point_on_boundary", "box_inverted", "box_flat")

// 3-D: bounds in {-2..2}^3 (15625 boxes), points in {-3..3}^3; 512 second boxes per box on a stride-61 walk that
// starts at a block-dependent offset; lat3_allpairs (thorough) does every pair.
VP_EXHAUSTIVE (lat3, 15625, 15625, "Box<Vec3<T>> specialisation and the generic Box template on a Vec3 wrapper, 6 element types: every (min,max) in {-2..2}^3x2 incl. inverted x every point in {-3..3}^3 (membership, clip, closestPointInBox, closestPointOnBox, extendBy) x 512 second boxes each; exact integer model; non-trivial as lat2")
{
    LatCount n;
    LatGuard g (c, n);
    bool     brute = (idx % 16) == 3;
    for (int el = 0; el < 6; ++el)
        for (int kind = 2; kind < 4; ++kind)
            lat_block (c, n, *make_box (kind, el), 2, idx, idx * 7 + 1, 61, 512, 3, true, brute);
    g.finish ();
}
VP_LABELS (lat3, C13_LAT_LABELS)
VP_REQUIRE_LABELS (lat3, "pair_with_empty_operand", "pair_touching", "pair_overlap_in_some_axes_only", "pair_disjoint_all_axes", "pair_overlapping", "point_on_boundary", "box_inverted", "box_flat")

VP_EXHAUSTIVE (lat3_allpairs, 0, 15625, "thorough only: every ordered pair of the 15625 3-D lattice boxes (intersects(box) both ways, ==, !=, extendBy(box)), specialisation and generic, 6 element types")
{
    LatCount n;
    LatGuard g (c, n);
    for (int el = 0; el < 6; ++el)
        for (int kind = 2; kind < 4; ++kind)
            lat_block (c, n, *make_box (kind, el), 2, idx, 0, 1, 15625, 3, false, false);
    g.finish ();
}
VP_LABELS (lat3_allpairs, C13_LAT_LABELS)
VP_NO_SAN (lat3_allpairs)

// 4-D: sampled
VP_RANDOM (lat4, 60000, 1500000, "generic Box<Vec4<T>>, 6 element types: random box of the {-2..2}^4x2 lattice (incl. inverted) x every point of {-2..2}^4 x 32 second boxes on a random stride walk; exact integer model; non-trivial as lat2")
{
    LatCount n;
    uint64_t ia = c.s.below (390625), st = c.s.below (390625), stride = 1 + 2 * c.s.below (1000);
    int      el = (int) c.s.below (6);
    IBox&    B  = *make_box (4, el);
    VP_NOTE (c, tag (B) << " box#" << ia << " second boxes from #" << st << " stride " << stride);
    lat_block (c, n, B, 2, ia, st, stride, 32, 2, true, false);
    c.nt (n.nontriv > 0);
    for (int l = 0; l < 16; ++l)
        if (n.lab[l]) c.label (l);
    if (n.known) c.do_fail (n.known_key, n.known_msg);
}
VP_LABELS (lat4, C13_LAT_LABELS)
VP_REQUIRE_LABELS (lat4, "pair_with_empty_operand", "pair_touching", "pair_overlap_in_some_axes_only", "point_on_boundary", "box_inverted", "box_flat")

// ---------------------------------------------------------------------------------------------------------
// 2. extreme values: membership model, unary observables with overflow guards, spec == generic

enum
{
    LE_INVERTED,
    LE_INFINITE,
    LE_CANON_EMPTY,
    LE_NEAR_INFINITE,
    LE_POINT_ON_BOUND,
    LE_HAS_LIMIT_VALUE,
    LE_SIZE_OVERFLOW,
    LE_CENTER_OVERFLOW,
    LE_EMPTY_OPERAND,
    LE_TOUCH,
    LE_TWIN
};
#define C13_EXT_LABELS "box_inverted", "box_infinite", "box_canonical_empty", "box_infinite_but_one_bound", "point_on_bound", "bound_at_lowest_or_max", "size_overflows_skipped", "center_overflows_skipped", "pair_with_empty_operand", "pair_touching", "generic_twin_compared"

struct Known
{
    bool        hit = false;
    std::string key, msg;
    void        set (const std::string& k, const std::string& m)
    {
        if (!hit)
        {
            hit = true;
            key = k;
            msg = m;
        }
    }
};

// shape 0: 2-D (specialisation + generic twin), 1: 3-D (specialisation + generic twin), 2: 4-D generic, 3: Interval
static void pick_shape (vp::Src& s, IBox*& B, IBox*& G)
{
    int shape = (int) s.below (4), el = (int) s.below (6);
    G         = nullptr;
    switch (shape)
    {
        case 0:
            B = make_box (0, el);
            G = make_box (1, el);
            break;
        case 1:
            B = make_box (2, el);
            G = make_box (3, el);
            break;
        case 2: B = make_box (4, el); break;
        default: B = make_box (5, el); break;
    }
}

// generate a box of a given class; returns the class
static int gen_box (vp::Src& s, const IBox& B, LDb* mn, LDb* mx, const LDb* pool, int npool)
{
    int cls = (int) s.below (8);
    for (int i = 0; i < B.D; ++i)
    {
        LDb a = (npool && s.chance (80)) ? pool[s.below (npool)] : B.gen (s);
        LDb b = (npool && s.chance (80)) ? pool[s.below (npool)] : B.gen (s);
        if (cls < 4 && a > b) std::swap (a, b);
        if (cls == 4 && s.chance (128) && a < b) std::swap (a, b);
        mn[i] = a;
        mx[i] = b;
        if (cls == 5 || cls == 7)
        {
            mn[i] = B.lowest;
            mx[i] = B.maxv;
        }
        if (cls == 6)
        {
            mn[i] = B.maxv;
            mx[i] = B.lowest;
        }
    }
    if (cls == 7)
    {
        int i = (int) s.below (B.D);
        if (s.coin ())
            mn[i] = B.gen (s);
        else
            mx[i] = B.gen (s);
    }
    return cls;
}

static void unary_model (vp::Ctx& c, IBox& B, const LDb* mn, const LDb* mx, bool& e, bool& size_ok, bool& center_ok)
{
    const int D = B.D;
    e           = false;
    bool vol = true, inf = true;
    for (int i = 0; i < D; ++i)
    {
        if (mx[i] < mn[i]) e = true;
        if (mx[i] <= mn[i]) vol = false;
        if (mn[i] != B.lowest || mx[i] != B.maxv) inf = false;
    }
    VP_REQUIRE (c, B.isEmpty () == e, K (B, "isEmpty"), tag (B) << " " << cur (B) << ".isEmpty() = " << B.isEmpty () << " expected " << e);
    VP_REQUIRE (c, B.hasVolume () == vol, K (B, "hasVolume"), tag (B) << " " << cur (B) << ".hasVolume() = " << B.hasVolume () << " expected " << vol);
    VP_REQUIRE (c, B.isInfinite () == inf, K (B, "isInfinite"), tag (B) << " " << cur (B) << ".isInfinite() = " << B.isInfinite () << " expected " << inf);
    // size / center / majorAxis - only where T's arithmetic does not overflow (integers: undefined; floats: inf)
    size_ok = center_ok = true;
    for (int i = 0; i < D; ++i)
    {
        if (!e && mx[i] - mn[i] > B.maxv) size_ok = false;
        // Interval<short>::center() evaluates (max + min) / 2 in int (integral promotion): the sum cannot overflow
        // and the centre is always representable, so it is defined over the whole range of short.
        bool promoted_interval = B.integral && !strcmp (B.fam, "interval") && B.maxv <= 32767;
        if (!promoted_interval && (mx[i] + mn[i] > B.maxv || mx[i] + mn[i] < B.lowest)) center_ok = false;
    }
    if (e) center_ok = false; // the centre of an empty box is documented as undefined
    if (size_ok)
    {
        LDb s[4];
        B.size (s);
        for (int i = 0; i < D; ++i)
        {
            LDb want = e ? 0 : mx[i] - mn[i];
            LDb tol  = B.integral ? 0 : B.eps * std::fabs (want) + B.denorm;
            VP_REQUIRE (c, std::fabs (s[i] - want) <= tol, K (B, "size/slot"), tag (B) << " " << cur (B) << ".size() = " << vstr_ (B, s) << " expected component " << i << " = " << (double) want);
        }
        if (D > 1)
        {
            unsigned got  = B.majorAxis ();
            int      best = 0;
            for (int i = 1; i < D; ++i)
                if (s[i] > s[best]) best = i;
            VP_REQUIRE (c, got < (unsigned) D && s[got] == s[best], K (B, "majorAxis/not-greatest"), tag (B) << " " << cur (B) << ".majorAxis() = " << got << " but axis " << best << " is longer (size " << vstr_ (B, s) << ")");
            VP_REQUIRE (c, (int) got == best, K (B, "majorAxis/tie-rule"), tag (B) << " " << cur (B) << ".majorAxis() = " << got << " expected the first of the longest axes, " << best);
        }
    }
    if (center_ok)
    {
        LDb ce[4];
        B.center (ce);
        for (int i = 0; i < D; ++i)
        {
            LDb sum = mx[i] + mn[i], want, tol;
            if (B.integral)
            {
                want = (LDb) ((long long) sum / 2);
                tol  = 0;
            }
            else
            {
                want = sum / 2;
                tol  = B.eps * std::fabs (want) + B.denorm;
            }
            VP_REQUIRE (c, std::fabs (ce[i] - want) <= tol, K (B, "center/slot"), tag (B) << " " << cur (B) << ".center() = " << vstr_ (B, ce) << " expected component " << i << " = " << (double) want);
        }
    }
}

VP_RANDOM (extremes, 400000, 8000000, "Box (2-D/3-D specialisation with generic twin, 4-D generic) and Interval over all element types; bounds and points drawn from {lattice, lowest, max, +-denorm_min, +-0, +-min, any finite value, the other operand's bounds}; box classes sorted/unsorted/infinite/canonical-empty/infinite-but-one; oracle = membership model in long double (exact for every element type); non-trivial = a bound at lowest/max, or a point on a bound, or touching boxes")
{
    vp::Src& s = c.s;
    IBox *   Bp, *G;
    pick_shape (s, Bp, G);
    IBox&     B = *Bp;
    const int D = B.D;
    LDb       amn[4], amx[4], bmn[4], bmx[4], p[4], pool[16];
    int       ca = gen_box (s, B, amn, amx, nullptr, 0);
    int       np = 0;
    for (int i = 0; i < D; ++i)
    {
        pool[np++] = amn[i];
        pool[np++] = amx[i];
    }
    int cb = gen_box (s, B, bmn, bmx, pool, np);
    for (int i = 0; i < D; ++i)
        p[i] = s.chance (96) ? pool[s.below (np)] : B.gen (s);
    VP_NOTE (c, tag (B) << " A=" << bstr_ (B, amn, amx) << " class " << ca << " B=" << bstr_ (B, bmn, bmx) << " class " << cb << " p=" << vstr_ (B, p));
    Known known;
    bool  ea, size_ok, center_ok;
    B.ctor_minmax (amn, amx);
    unary_model (c, B, amn, amx, ea, size_ok, center_ok);
    bool limit = false, onb = false, in = true;
    for (int i = 0; i < D; ++i)
    {
        if (amn[i] == B.lowest || amn[i] == B.maxv || amx[i] == B.lowest || amx[i] == B.maxv) limit = true;
        if (p[i] < amn[i] || p[i] > amx[i]) in = false;
        if (p[i] == amn[i] || p[i] == amx[i]) onb = true;
    }
    if (ea) c.label (LE_INVERTED);
    if (ca == 5) c.label (LE_INFINITE);
    if (ca == 6) c.label (LE_CANON_EMPTY);
    if (ca == 7) c.label (LE_NEAR_INFINITE);
    if (limit) c.label (LE_HAS_LIMIT_VALUE);
    if (in && onb) c.label (LE_POINT_ON_BOUND);
    if (!size_ok) c.label (LE_SIZE_OVERFLOW);
    if (!center_ok && !ea) c.label (LE_CENTER_OVERFLOW);
    bool got = B.intersectsPoint (p);
    VP_REQUIRE (c, got == in, K (B, "intersects-point"), tag (B) << " " << cur (B) << ".intersects(" << vstr_ (B, p) << ") = " << got << " expected " << in);
    // second box
    bool eb = false, inter, touch = false;
    for (int i = 0; i < D; ++i)
        if (bmx[i] < bmn[i]) eb = true;
    inter = !ea && !eb;
    bool same = true;
    for (int i = 0; i < D; ++i)
    {
        LDb lo = std::max (amn[i], bmn[i]), hi = std::min (amx[i], bmx[i]);
        if (!(lo <= hi)) inter = false;
        if (lo == hi) touch = true;
        if (amn[i] != bmn[i] || amx[i] != bmx[i]) same = false;
    }
    if (ea || eb) c.label (LE_EMPTY_OPERAND);
    if (inter && touch) c.label (LE_TOUCH);
    c.nt (limit || (in && onb) || (inter && touch));
    bool g1, g2, eq, ne;
    B.intersectsBox (bmn, bmx, g1, g2, eq, ne);
    VP_REQUIRE (c, g1 == g2, K (B, "intersects-box-asymmetric"), tag (B) << " " << cur (B) << ".intersects(" << bstr_ (B, bmn, bmx) << ") = " << g1 << " but the reverse = " << g2);
    VP_REQUIRE (c, eq == same && ne == !same, K (B, "comparison"), tag (B) << " " << cur (B) << " == " << bstr_ (B, bmn, bmx) << " gives " << eq << ", != gives " << ne);
    if (g1 != inter)
    {
        std::ostringstream o;
        o << tag (B) << " " << cur (B) << ".intersects(" << bstr_ (B, bmn, bmx) << ") = " << g1 << " expected " << inter;
        if (ea || eb)
            known.set (K (B, "intersects-box-empty-operand"), o.str () + ": an operand is empty (shares no point with anything)");
        else
            c.do_fail (K (B, "intersects-box"), o.str ());
    }
    // one-step extendBy on non-empty operands
    LDb gmn[4], gmx[4], lo[4], hi[4];
    if (!ea)
    {
        for (int i = 0; i < D; ++i)
        {
            lo[i] = std::min (amn[i], p[i]);
            hi[i] = std::max (amx[i], p[i]);
        }
        B.extendByPoint (p);
        B.get (gmn, gmx);
        VP_REQUIRE (c, veq (gmn, lo, D) && veq (gmx, hi, D), K (B, "extendBy-point"), tag (B) << " " << bstr_ (B, amn, amx) << ".extendBy(" << vstr_ (B, p) << ") = " << cur (B) << " expected " << bstr_ (B, lo, hi));
        if (!eb || cb == 6)
        {
            for (int i = 0; i < D; ++i)
            {
                lo[i] = eb ? amn[i] : std::min (amn[i], bmn[i]);
                hi[i] = eb ? amx[i] : std::max (amx[i], bmx[i]);
            }
            B.ctor_minmax (amn, amx);
            B.extendByBox (bmn, bmx);
            B.get (gmn, gmx);
            VP_REQUIRE (c, veq (gmn, lo, D) && veq (gmx, hi, D), K (B, "extendBy-box"), tag (B) << " " << bstr_ (B, amn, amx) << ".extendBy(" << bstr_ (B, bmn, bmx) << ") = " << cur (B) << " expected " << bstr_ (B, lo, hi));
        }
    }
    // default / makeEmpty contain nothing, makeInfinite contains every (finite) representable point
    const LDb* probes[5] = { p, amn, amx, bmn, bmx };
    for (int w = 0; w < 3; ++w)
    {
        if (w == 0)
            B.ctor_default ();
        else
        {
            B.ctor_minmax (amn, amx);
            if (w == 1)
                B.makeEmpty ();
            else
                B.makeInfinite ();
        }
        static const char* wn[3] = { "default-not-empty", "makeEmpty", "makeInfinite" };
        VP_REQUIRE (c, B.isEmpty () == (w < 2) && B.isInfinite () == (w == 2) && B.hasVolume () == (w == 2), K (B, wn[w]), tag (B) << " after " << wn[w] << ": " << cur (B) << " isEmpty=" << B.isEmpty () << " isInfinite=" << B.isInfinite () << " hasVolume=" << B.hasVolume ());
        for (int k = 0; k < 5; ++k)
            VP_REQUIRE (c, B.intersectsPoint (probes[k]) == (w == 2), K (B, wn[w]), tag (B) << " after " << wn[w] << ": " << cur (B) << ".intersects(" << vstr_ (B, probes[k]) << ") = " << B.intersectsPoint (probes[k]));
    }
    // generic twin on identical data: every observable identical
    if (G)
    {
        c.label (LE_TWIN);
        IBox& H = *G;
        B.ctor_minmax (amn, amx);
        H.ctor_minmax (amn, amx);
        bool e2, so2, co2;
        unary_model (c, H, amn, amx, e2, so2, co2);
        LDb a1[4], a2[4], b1[4], b2[4];
        VP_REQUIRE (c, B.isEmpty () == H.isEmpty () && B.hasVolume () == H.hasVolume () && B.isInfinite () == H.isInfinite (), "generic-vs-spec/predicates", tag (B) << " and the generic template disagree on isEmpty/hasVolume/isInfinite of " << cur (B));
        if (size_ok)
        {
            B.size (a1);
            H.size (a2);
            VP_REQUIRE (c, veq (a1, a2, D) && B.majorAxis () == H.majorAxis (), "generic-vs-spec/size-majorAxis", tag (B) << " size " << vstr_ (B, a1) << " majorAxis " << B.majorAxis () << " but generic size " << vstr_ (B, a2) << " majorAxis " << H.majorAxis () << " on " << cur (B));
        }
        if (center_ok)
        {
            B.center (a1);
            H.center (a2);
            VP_REQUIRE (c, veq (a1, a2, D), "generic-vs-spec/center", tag (B) << " center " << vstr_ (B, a1) << " but generic " << vstr_ (B, a2) << " on " << cur (B));
        }
        VP_REQUIRE (c, B.intersectsPoint (p) == H.intersectsPoint (p), "generic-vs-spec/intersects-point", tag (B) << " and the generic template disagree on " << cur (B) << ".intersects(" << vstr_ (B, p) << ")");
        bool h1, h2, heq, hne;
        H.intersectsBox (bmn, bmx, h1, h2, heq, hne);
        VP_REQUIRE (c, h1 == h2, K (H, "intersects-box-asymmetric"), tag (H) << " " << cur (H) << ".intersects(" << bstr_ (H, bmn, bmx) << ") = " << h1 << " but the reverse = " << h2);
        VP_REQUIRE (c, g1 == h1 && eq == heq && ne == hne, "generic-vs-spec/intersects-box", tag (B) << " intersects/==/!= (" << g1 << eq << ne << ") differ from the generic template (" << h1 << heq << hne << ") on " << cur (B) << " vs " << bstr_ (B, bmn, bmx));
        if (!ea)
        {
            B.extendByPoint (p);
            H.extendByPoint (p);
            if (!eb)
            {
                B.extendByBox (bmn, bmx);
                H.extendByBox (bmn, bmx);
            }
            B.get (a1, b1);
            H.get (a2, b2);
            VP_REQUIRE (c, veq (a1, a2, D) && veq (b1, b2, D), "generic-vs-spec/extendBy", tag (B) << " extendBy gives " << cur (B) << " but the generic template " << cur (H));
        }
    }
    if (known.hit) c.do_fail (known.key, known.msg);
}
VP_LABELS (extremes, C13_EXT_LABELS)
VP_REQUIRE_LABELS (extremes, "box_inverted", "box_infinite", "box_canonical_empty", "box_infinite_but_one_bound", "point_on_bound", "bound_at_lowest_or_max", "size_overflows_skipped", "pair_with_empty_operand", "pair_touching", "generic_twin_compared")

// ---------------------------------------------------------------------------------------------------------
// 3. histories

enum
{
    LH_POINT_OUTSIDE,
    LH_BOX_GROWS,
    LH_RESET_EMPTY,
    LH_INFINITE,
    LH_CANON_EMPTY_ARG,
    LH_START_DEFAULT,
    LH_START_NONEMPTY,
    LH_LIMIT_VALUE,
    LH_TWIN,
    LH_LEN8
};
#define C13_HIST_LABELS "point_strictly_outside_running_box", "box_argument_grows_box", "makeEmpty_mid_history", "makeInfinite_mid_history", "extendBy_canonical_empty_box", "starts_default_or_empty", "starts_one_point_or_box", "value_at_lowest_or_max", "generic_twin_compared", "length_ge_8"

VP_RANDOM (history, 300000, 6000000, "model-based histories: start from a default / makeEmpty'd / one-point / (min,max) box, then 1..12 operations from extendBy(point), extendBy(non-empty box), extendBy(canonical empty box), makeEmpty, makeInfinite on Box (2-D/3-D specialisation run in lock-step with the generic template, 4-D generic) or Interval of any element type, values from lattice/lowest/max/denormals/any finite; after EVERY step the box must equal the component-wise min/max of everything added since the last reset (or be empty) and contain exactly the probe points the model contains; non-trivial = some point strictly outside the running box or a box argument that grows it")
{
    vp::Src& s = c.s;
    IBox *   Bp, *G;
    pick_shape (s, Bp, G);
    IBox&     B = *Bp;
    const int D = B.D;
    struct Item
    {
        LDb lo[4], hi[4];
    };
    Item items[16];
    int  nitems = 0;
    LDb  probes[40][4];
    int  nprobes = 0;
    auto genpt    = [&] (LDb* p) {
        for (int i = 0; i < D; ++i)
        {
            p[i] = B.gen (s);
            if (p[i] == B.lowest || p[i] == B.maxv) c.label (LH_LIMIT_VALUE);
        }
        if (nprobes < 40)
        {
            for (int i = 0; i < D; ++i)
                probes[nprobes][i] = p[i];
            ++nprobes;
        }
    };
    auto add = [&] (const LDb* lo, const LDb* hi) {
        for (int i = 0; i < D; ++i)
        {
            items[nitems].lo[i] = lo[i];
            items[nitems].hi[i] = hi[i];
        }
        ++nitems;
    };
    std::string log;
    auto        note = [&] (const std::string& t) {
        if (c.describe) log += t + "; ";
    };
    LDb a[4], b[4], lo[4], hi[4];
    int start = (int) s.below (4);
    switch (start)
    {
        case 0:
            B.ctor_default ();
            if (G) G->ctor_default ();
            note ("default");
            c.label (LH_START_DEFAULT);
            break;
        case 1:
            genpt (a);
            B.ctor_point (a);
            B.makeEmpty ();
            if (G)
            {
                G->ctor_point (a);
                G->makeEmpty ();
            }
            note ("point " + vstr_ (B, a) + " then makeEmpty");
            c.label (LH_START_DEFAULT);
            break;
        case 2:
            genpt (a);
            B.ctor_point (a);
            if (G) G->ctor_point (a);
            add (a, a);
            note ("point " + vstr_ (B, a));
            c.label (LH_START_NONEMPTY);
            break;
        default:
            genpt (a);
            genpt (b);
            for (int i = 0; i < D; ++i)
            {
                lo[i] = std::min (a[i], b[i]);
                hi[i] = std::max (a[i], b[i]);
            }
            B.ctor_minmax (lo, hi);
            if (G) G->ctor_minmax (lo, hi);
            add (lo, hi);
            note ("box " + bstr_ (B, lo, hi));
            c.label (LH_START_NONEMPTY);
            break;
    }
    if (G) c.label (LH_TWIN);
    int nsteps = 1 + (int) s.below (12);
    if (nsteps >= 8) c.label (LH_LEN8);
    for (int step = 0; step <= nsteps; ++step)
    {
        if (step > 0)
        {
            // running model box before the operation
            bool had = nitems > 0;
            LDb  rlo[4], rhi[4];
            for (int i = 0; i < D && had; ++i)
            {
                rlo[i] = items[0].lo[i];
                rhi[i] = items[0].hi[i];
                for (int k = 1; k < nitems; ++k)
                {
                    rlo[i] = std::min (rlo[i], items[k].lo[i]);
                    rhi[i] = std::max (rhi[i], items[k].hi[i]);
                }
            }
            unsigned op = (unsigned) s.below (16);
            if (op < 8)
            {
                genpt (a);
                B.extendByPoint (a);
                if (G) G->extendByPoint (a);
                bool outside = false;
                for (int i = 0; i < D && had; ++i)
                    if (a[i] < rlo[i] || a[i] > rhi[i]) outside = true;
                if (outside)
                {
                    c.label (LH_POINT_OUTSIDE);
                    c.nt ();
                }
                add (a, a);
                note ("extendBy " + vstr_ (B, a));
            }
            else if (op < 12)
            {
                genpt (a);
                genpt (b);
                for (int i = 0; i < D; ++i)
                {
                    lo[i] = std::min (a[i], b[i]);
                    hi[i] = std::max (a[i], b[i]);
                }
                B.extendByBox (lo, hi);
                if (G) G->extendByBox (lo, hi);
                bool grows = false;
                for (int i = 0; i < D && had; ++i)
                    if (lo[i] < rlo[i] || hi[i] > rhi[i]) grows = true;
                if (grows)
                {
                    c.label (LH_BOX_GROWS);
                    c.nt ();
                }
                add (lo, hi);
                note ("extendBy " + bstr_ (B, lo, hi));
            }
            else if (op < 13)
            {
                for (int i = 0; i < D; ++i)
                {
                    lo[i] = B.maxv;
                    hi[i] = B.lowest;
                }
                B.extendByBox (lo, hi); // the canonical empty box, Box()
                if (G) G->extendByBox (lo, hi);
                c.label (LH_CANON_EMPTY_ARG);
                note ("extendBy Box()");
            }
            else if (op < 15)
            {
                B.makeEmpty ();
                if (G) G->makeEmpty ();
                nitems = 0;
                c.label (LH_RESET_EMPTY);
                note ("makeEmpty");
            }
            else
            {
                B.makeInfinite ();
                if (G) G->makeInfinite ();
                for (int i = 0; i < D; ++i)
                {
                    lo[i] = B.lowest;
                    hi[i] = B.maxv;
                }
                add (lo, hi);
                c.label (LH_INFINITE);
                note ("makeInfinite");
            }
            if (nitems >= 15)
            {
                // fold the items (keeps the array bounded; the fold is the definition of the model)
                Item f = items[0];
                for (int i = 0; i < D; ++i)
                    for (int k = 1; k < nitems; ++k)
                    {
                        f.lo[i] = std::min (f.lo[i], items[k].lo[i]);
                        f.hi[i] = std::max (f.hi[i], items[k].hi[i]);
                    }
                items[0] = f;
                nitems   = 1;
            }
        }
        // invariant after every step
        LDb gmn[4], gmx[4];
        B.get (gmn, gmx);
        if (nitems == 0)
        {
            VP_REQUIRE (c, B.isEmpty () && !B.hasVolume () && !B.isInfinite (), K (B, "history-empty"), tag (B) << " after {" << log << "} nothing has been added but the box is " << cur (B));
            for (int k = 0; k < nprobes; ++k)
                VP_REQUIRE (c, !B.intersectsPoint (probes[k]), K (B, "history-empty"), tag (B) << " after {" << log << "} the empty box " << cur (B) << " contains " << vstr_ (B, probes[k]));
        }
        else
        {
            bool inf = true;
            for (int i = 0; i < D; ++i)
            {
                lo[i] = items[0].lo[i];
                hi[i] = items[0].hi[i];
                for (int k = 1; k < nitems; ++k)
                {
                    lo[i] = std::min (lo[i], items[k].lo[i]);
                    hi[i] = std::max (hi[i], items[k].hi[i]);
                }
                if (lo[i] != B.lowest || hi[i] != B.maxv) inf = false;
            }
            VP_REQUIRE (c, veq (gmn, lo, D) && veq (gmx, hi, D), K (B, "history-bounds"), tag (B) << " after {" << log << "} the box is " << cur (B) << " but the smallest box containing everything added is " << bstr_ (B, lo, hi));
            VP_REQUIRE (c, !B.isEmpty () && B.isInfinite () == inf, K (B, "history-predicates"), tag (B) << " after {" << log << "} " << cur (B) << " isEmpty=" << B.isEmpty () << " isInfinite=" << B.isInfinite ());
            for (int k = 0; k < nprobes; ++k)
            {
                bool in = true;
                for (int i = 0; i < D; ++i)
                    if (probes[k][i] < lo[i] || probes[k][i] > hi[i]) in = false;
                VP_REQUIRE (c, B.intersectsPoint (probes[k]) == in, K (B, "history-membership"), tag (B) << " after {" << log << "} " << cur (B) << ".intersects(" << vstr_ (B, probes[k]) << ") = " << !in);
            }
        }
        if (G)
        {
            LDb hmn[4], hmx[4];
            G->get (hmn, hmx);
            VP_REQUIRE (c, veq (gmn, hmn, D) && veq (gmx, hmx, D) && B.isEmpty () == G->isEmpty () && B.isInfinite () == G->isInfinite () && B.hasVolume () == G->hasVolume (), "generic-vs-spec/history", tag (B) << " after {" << log << "} is " << cur (B) << " but the generic template gives " << cur (*G));
        }
    }
    VP_NOTE (c, tag (B) << " " << log);
}
VP_LABELS (history, C13_HIST_LABELS)
VP_REQUIRE_LABELS (history, "point_strictly_outside_running_box", "box_argument_grows_box", "makeEmpty_mid_history", "makeInfinite_mid_history", "extendBy_canonical_empty_box", "starts_default_or_empty", "starts_one_point_or_box", "value_at_lowest_or_max", "generic_twin_compared", "length_ge_8")
VP_FUZZABLE (history)

// ---------------------------------------------------------------------------------------------------------
// measurement aid (build by hand with -DC13_MEASURE to print the worst observed error ratios at exit)
#ifdef C13_MEASURE
#include <mutex>
struct Worst
{
    const char* name;
    double      v = 0;
    std::mutex  m;
    Worst (const char* n) : name (n) {}
    void see (double x)
    {
        std::lock_guard<std::mutex> l (m);
        if (x > v) v = x;
    }
    ~Worst () { fprintf (stderr, "MEASURE %s worst = %g\n", name, v); }
};
#define C13_SEE(w, x) (w).see (x)
#else
struct Worst
{
    Worst (const char*) {}
};
#define C13_SEE(w, x) ((void) 0)
#endif

// ---------------------------------------------------------------------------------------------------------
// 4. closest points on float/double boxes

enum
{
    LC_INSIDE,
    LC_BOUNDARY,
    LC_OUTSIDE,
    LC_TIE,
    LC_FLAT,
    LC_EMPTY,
    LC_EXTREME
};
#define C13_CLOSE_LABELS "point_strictly_inside", "point_on_boundary", "point_outside", "equidistant_faces", "flat_box", "empty_box", "extreme_values"

template <class T> static T cfv (vp::Src& s, bool extreme)
{
    typedef std::numeric_limits<T> L;
    if (extreme)
        switch (s.below (6))
        {
            case 0: return L::max ();
            case 1: return L::lowest ();
            case 2: return s.coin () ? L::denorm_min () : -L::denorm_min ();
            case 3: return s.coin () ? L::min () : -L::min ();
            case 4: return gen::any_finite<T> (s);
            default: break;
        }
    switch (s.below (4))
    {
        case 0: return (T) s.range (-6, 6);
        case 1: return gen::moderate<T> (s, -12, 12);
        default: return gen::nice<T> (s);
    }
}

static Worst w_onbox ("closestPointOnBox (dist-dmin)/(eps*dmin)");

template <class V, class T, int D> static void closest_case (vp::Ctx& c, const char* tn)
{
    vp::Src& s    = c.s;
    int      bcls = (int) s.below (8); // 0-3 plain, 4 flat in some axes, 5 cube, 6 extreme values, 7 empty
    bool     ext  = bcls == 6;
    V        mn, mx, p;
    for (int i = 0; i < D; ++i)
    {
        T a = cfv<T> (s, ext), b = cfv<T> (s, ext);
        if (a > b) std::swap (a, b);
        mn[i] = a;
        mx[i] = b;
    }
    if (bcls == 4)
        for (int i = 0; i < D; ++i)
            if (s.coin ()) mx[i] = mn[i];
    if (bcls == 5)
    {
        T h = (T) (1 + s.below (8));
        if (s.coin ()) h *= (T) 0.25;
        for (int i = 0; i < D; ++i)
        {
            mn[i] = (T) s.range (-4, 4);
            mx[i] = mn[i] + 2 * h;
        }
    }
    if (bcls == 7)
    {
        if (s.coin ())
        {
            mn = V (std::numeric_limits<T>::max ());
            mx = V (std::numeric_limits<T>::lowest ());
        }
        else
        {
            int k = (int) s.below (D);
            if (mn[k] == mx[k]) mx[k] = mn[k] + 1;
            std::swap (mn[k], mx[k]);
        }
    }
    int pcls = (int) s.below (6); // 0 inside (lerp), 1 centre, 2 some coordinates on the bounds, 3-4 anywhere near, 5 extreme
    for (int i = 0; i < D; ++i)
    {
        T lo = mn[i], hi = mx[i];
        if (bcls == 7)
        {
            p[i] = cfv<T> (s, false);
            continue;
        }
        switch (pcls)
        {
            case 0:
            {
                T u = (T) s.unit ();
                T v = lo + u * (hi - lo);
                if (!(v >= lo)) v = lo;
                if (!(v <= hi)) v = hi;
                p[i] = v;
                break;
            }
            case 1: p[i] = lo / 2 + hi / 2; break;
            case 2:
            {
                unsigned k = (unsigned) s.below (4);
                p[i]       = k == 0 ? lo : (k == 1 ? hi : lo / 2 + hi / 2);
                if (k == 3) p[i] = cfv<T> (s, false);
                break;
            }
            case 5: p[i] = cfv<T> (s, true); break;
            default: p[i] = s.coin () ? cfv<T> (s, ext) : (T) (lo + (hi - lo) * (T) s.uniform (-0.5, 1.5)); break;
        }
        if (!std::isfinite (p[i])) p[i] = lo;
    }
    Box<V> box (mn, mx);
    VP_NOTE (c, tn << " box=[" << vstr (mn, D) << " " << vstr (mx, D) << "] p=" << vstr (p, D) << " bcls=" << bcls << " pcls=" << pcls);
    bool empty = false, flat = false, inside = true, onb = false;
    for (int i = 0; i < D; ++i)
    {
        if (mx[i] < mn[i]) empty = true;
        if (mx[i] == mn[i]) flat = true;
        if (p[i] < mn[i] || p[i] > mx[i]) inside = false;
        if (p[i] == mn[i] || p[i] == mx[i]) onb = true;
    }
    if (ext || pcls == 5) c.label (LC_EXTREME);
    if (empty) c.label (LC_EMPTY);
    if (!empty && flat) c.label (LC_FLAT);
    if (!empty && inside && !onb) c.label (LC_INSIDE);
    if (!empty && inside && onb) c.label (LC_BOUNDARY);
    if (!empty && !inside) c.label (LC_OUTSIDE);
    c.nt (!empty && (onb || !inside));
    if (!empty)
    {
        V q1 = clip (p, box), q2 = closestPointInBox (p, box);
        for (int i = 0; i < D; ++i)
        {
            // nearest point of [mn,mx] to p, axis by axis: p itself when inside the slab, else the nearer bound
            T want = (p[i] >= mn[i] && p[i] <= mx[i]) ? p[i] : (p[i] < mn[i] ? mn[i] : mx[i]);
            VP_REQUIRE (c, q1[i] == want, "clip/slot", tn << " clip(" << vstr (p, D) << ", [" << vstr (mn, D) << " " << vstr (mx, D) << "]) = " << vstr (q1, D) << " expected component " << i << " = " << want);
            VP_REQUIRE (c, q2[i] == want, "closestPointInBox/slot", tn << " closestPointInBox(" << vstr (p, D) << ", [" << vstr (mn, D) << " " << vstr (mx, D) << "]) = " << vstr (q2, D) << " expected component " << i << " = " << want);
        }
    }
    if constexpr (D == 3)
    {
        V r = closestPointOnBox (p, box);
        if (empty)
        {
            for (int i = 0; i < 3; ++i)
                VP_REQUIRE (c, same<T> (r[i], p[i]), "closestPointOnBox/empty-box", tn << " closestPointOnBox(" << vstr (p, 3) << ", empty [" << vstr (mn, 3) << " " << vstr (mx, 3) << "]) = " << vstr (r, 3) << " expected the point itself");
            return;
        }
        bool inbox = true, surf = false;
        for (int i = 0; i < 3; ++i)
        {
            if (!(r[i] >= mn[i] && r[i] <= mx[i])) inbox = false;
            if (r[i] == mn[i] || r[i] == mx[i]) surf = true;
        }
        VP_REQUIRE (c, inbox && surf, "closestPointOnBox/not-on-surface", tn << " closestPointOnBox(" << vstr (p, 3) << ", [" << vstr (mn, 3) << " " << vstr (mx, 3) << "]) = " << vstr (r, 3) << " is not on the surface of the box");
        if (!inside)
        {
            for (int i = 0; i < 3; ++i)
            {
                T want = (p[i] >= mn[i] && p[i] <= mx[i]) ? p[i] : (p[i] < mn[i] ? mn[i] : mx[i]);
                VP_REQUIRE (c, r[i] == want, "closestPointOnBox/outside", tn << " closestPointOnBox(" << vstr (p, 3) << ", [" << vstr (mn, 3) << " " << vstr (mx, 3) << "]) = " << vstr (r, 3) << " expected component " << i << " = " << want);
            }
            return;
        }
        // p inside: distance to the returned point must be the smallest of the six face distances
        quad dmin = -1, second = -1;
        for (int i = 0; i < 3; ++i)
            for (int side = 0; side < 2; ++side)
            {
                quad d = side ? (quad) mx[i] - (quad) p[i] : (quad) p[i] - (quad) mn[i];
                if (dmin < 0 || d < dmin)
                {
                    second = dmin;
                    dmin   = d;
                }
                else if (second < 0 || d < second)
                    second = d;
            }
        if (second >= 0 && second == dmin) c.label (LC_TIE);
        quad d2 = 0;
        for (int i = 0; i < 3; ++i)
            d2 += ((quad) r[i] - (quad) p[i]) * ((quad) r[i] - (quad) p[i]);
        quad dist = sqrtq (d2);
        // the face is chosen by comparing ROUNDED distances p-min / max-p: analysis (1+eps)^2, allowed 4 eps; measured worst 0.5 eps
        quad tol = 4 * (quad) FInfo<T>::eps () * dmin + 2 * (quad) std::numeric_limits<T>::denorm_min ();
        if (dmin > 0) C13_SEE (w_onbox, (double) ((dist - dmin) / ((quad) FInfo<T>::eps () * dmin)));
        VP_REQUIRE (c, dist <= dmin + tol, "closestPointOnBox/not-nearest", tn << " closestPointOnBox(" << vstr (p, 3) << ", [" << vstr (mn, 3) << " " << vstr (mx, 3) << "]) = " << vstr (r, 3) << " at distance " << qstr (dist) << " but the nearest face is at " << qstr (dmin));
    }
}

VP_RANDOM (closest_float, 600000, 12000000, "clip / closestPointInBox on V2,V3,V4 x float,double and closestPointOnBox on V3 x float,double: boxes plain / flat / cube / extreme (+-max, denormals) / empty, points inside (lerp), at the centre (all faces equidistant), on faces/edges/corners, outside, extreme; oracle: per-axis nearest bound (exact) and, for the surface point, smallest of the six face distances in quad; non-trivial = point on the boundary or outside")
{
    switch (c.s.below (6))
    {
        case 0: closest_case<V2f, float, 2> (c, "V2f"); break;
        case 1: closest_case<V2d, double, 2> (c, "V2d"); break;
        case 2: closest_case<V3f, float, 3> (c, "V3f"); break;
        case 3: closest_case<V3d, double, 3> (c, "V3d"); break;
        case 4: closest_case<V4f, float, 4> (c, "V4f"); break;
        default: closest_case<V4d, double, 4> (c, "V4d"); break;
    }
}
VP_LABELS (closest_float, C13_CLOSE_LABELS)
VP_REQUIRE_LABELS (closest_float, "point_strictly_inside", "point_on_boundary", "point_outside", "equidistant_faces", "flat_box", "empty_box", "extreme_values")

// ---------------------------------------------------------------------------------------------------------
// 5. transform / affineTransform, all four overloads

enum
{
    LT_AFFINE,
    LT_PROJECTIVE,
    LT_EMPTY_IN,
    LT_INFINITE_IN,
    LT_MIXED_SIGN,
    LT_LATTICE_EXACT,
    LT_PRE_CANON,
    LT_PRE_NONEMPTY,
    LT_FLAT,
    LT_M33_ONE_PROJ
};
#define C13_TR_LABELS "affine_matrix", "projective_matrix", "empty_input", "infinite_input", "mixed_sign_matrix", "lattice_exact", "out_param_prefilled_canonical_empty", "out_param_prefilled_non_empty", "flat_box", "projective_with_m33_equal_1"

static Worst w_arvo ("transform affine |err|/(eps*A)"), w_proj ("transform projective |err|/(eps*scale)"), w_cont ("transform containment excess/(eps*A)");

template <class S> static bool model_empty (const Box<Vec3<S>>& b) { return b.max[0] < b.min[0] || b.max[1] < b.min[1] || b.max[2] < b.min[2]; }
template <class S> static bool model_infinite (const Box<Vec3<S>>& b)
{
    for (int i = 0; i < 3; ++i)
        if (b.min[i] != std::numeric_limits<S>::lowest () || b.max[i] != std::numeric_limits<S>::max ()) return false;
    return true;
}
template <class S> static std::string b3 (const Box<Vec3<S>>& b) { return "[" + vstr (b.min, 3) + " " + vstr (b.max, 3) + "]"; }

template <class S, class T> static void transform_case (vp::Ctx& c, const char* tn)
{
    vp::Src&             s = c.s;
    typedef Box<Vec3<S>> BX;
    typedef std::numeric_limits<S> LS;
    // ---- the box
    int bcls = (int) s.below (10); // 0-2 lattice, 3-5 float, 6 one point, 7 canonical empty, 8 inverted, 9 infinite
    BX  box;
    bool lattice_box = bcls <= 2 || bcls == 6;
    for (int i = 0; i < 3; ++i)
    {
        S a, b;
        if (bcls >= 3 && bcls <= 5)
        {
            a = s.coin () ? gen::nice<S> (s) : gen::moderate<S> (s, -6, 6);
            b = s.coin () ? gen::nice<S> (s) : gen::moderate<S> (s, -6, 6);
        }
        else
        {
            a = (S) s.range (-4, 4);
            b = (S) s.range (-4, 4);
        }
        if (a > b) std::swap (a, b);
        if (bcls == 6) b = a;
        box.min[i] = a;
        box.max[i] = b;
    }
    if (bcls == 7) box = BX ();
    if (bcls == 8)
    {
        int k = (int) s.below (3);
        if (box.min[k] == box.max[k]) box.max[k] += 1;
        std::swap (box.min[k], box.max[k]);
    }
    if (bcls == 9)
    {
        box.min = Vec3<S> (LS::lowest ());
        box.max = Vec3<S> (LS::max ());
    }
    bool in_empty = model_empty (box), in_inf = model_infinite (box), normal = !in_empty && !in_inf;
    // ---- the matrix
    int         mcls = (int) s.below (8);
    Matrix44<T> m; // identity
    bool        int_matrix = false;
    switch (mcls)
    {
        case 0:
        case 4:
            for (int j = 0; j < 3; ++j)
                for (int i = 0; i < 3; ++i)
                    m[j][i] = (T) s.range (-3, 3);
            for (int i = 0; i < 3; ++i)
                m[3][i] = (T) s.range (-8, 8);
            int_matrix = true;
            break;
        case 3:
            for (int j = 0; j < 3; ++j)
                for (int i = 0; i < 3; ++i)
                    m[j][i] = s.coin () ? (T) 0 : (T) s.range (-2, 2);
            for (int i = 0; i < 3; ++i)
                m[3][i] = (T) s.range (-2, 2);
            int_matrix = true;
            break;
        case 2:
        {
            quad ax = (quad) s.uniform (-1, 1), ay = (quad) s.uniform (-1, 1), az = (quad) s.uniform (-1, 1) + (quad) 1e-3;
            QM<4> r = rodrigues_rowvec<4> (ax, ay, az, (quad) s.uniform (-3.2, 3.2));
            for (int j = 0; j < 3; ++j)
            {
                T sc = gen::nice_nz<T> (s);
                for (int i = 0; i < 3; ++i)
                    m[j][i] = (T) ((double) r[j][i]) * sc;
            }
            for (int i = 0; i < 3; ++i)
                m[3][i] = gen::moderate<T> (s, -4, 6);
            break;
        }
        default:
            for (int j = 0; j < 4; ++j)
                for (int i = 0; i < 3; ++i)
                    m[j][i] = s.chance (40) ? gen::moderate<T> (s, -8, 8) : gen::nice<T> (s);
            break;
    }
    // last column
    quad cmax[3];
    for (int j = 0; j < 3; ++j)
        cmax[j] = normal ? qmax (qabs ((quad) box.min[j]), qabs ((quad) box.max[j])) : (quad) 1;
    bool exact_div = false;
    if (mcls == 4)
    {
        static const double ws[4] = { 2, 4, 0.5, 8 };
        m[3][3]                   = (T) ws[s.below (4)];
        exact_div                 = true;
    }
    else if (mcls == 5)
    {
        quad sum = 0;
        for (int j = 0; j < 3; ++j)
        {
            m[j][3] = gen::nice<T> (s) / (T) 8;
            sum += qabs ((quad) m[j][3]) * cmax[j];
        }
        double u1 = s.unit ();
        double u2 = s.unit ();
        m[3][3]   = (T) ((double) sum * (2.0 + u1) + 0.5 + u2);
    }
    else if (mcls == 6)
    {
        bool any = false;
        for (int j = 0; j < 3; ++j)
        {
            m[j][3] = (T) (s.uniform (-1, 1) * 0.25 / (1.0 + (double) cmax[j]));
            if (s.chance (64)) m[j][3] = 0;
            if (m[j][3] != 0) any = true;
        }
        if (!any) m[0][3] = (T) (0.125 / (1.0 + (double) cmax[0]));
        m[3][3] = 1;
    }
    else if (mcls == 7)
    {
        static const double ws[4] = { 3, 1.0000001192092896, 0.75, 10 };
        m[3][3]                   = (T) ws[s.below (4)];
    }
    bool affine = m[0][3] == 0 && m[1][3] == 0 && m[2][3] == 0 && m[3][3] == 1;
    bool mixed = false, pos = false, neg = false;
    for (int j = 0; j < 3; ++j)
        for (int i = 0; i < 3; ++i)
        {
            if (m[j][i] > 0) pos = true;
            if (m[j][i] < 0) neg = true;
        }
    mixed = pos && neg;
    bool exact = lattice_box && int_matrix && (affine || exact_div) && normal;
    // ---- the pre-filled out-parameter
    int pcls = (int) s.below (8); // 0-2 canonical empty, 3-4 lattice box, 5 large float box, 6 inverted, 7 infinite
    BX  pre;
    if (pcls >= 3 && pcls <= 6)
        for (int i = 0; i < 3; ++i)
        {
            S a = pcls == 5 ? gen::moderate<S> (s, 4, 9) : (S) s.range (-20, 20), b = pcls == 5 ? gen::moderate<S> (s, 4, 9) : (S) s.range (-20, 20);
            if (a > b) std::swap (a, b);
            if (pcls == 6 && a == b) b = a + 1;
            pre.min[i] = pcls == 6 ? b : a;
            pre.max[i] = pcls == 6 ? a : b;
        }
    if (pcls == 7) pre.makeInfinite ();
    bool pre_canon = pcls <= 2;
    VP_NOTE (c, tn << " box=" << b3 (box) << " (class " << bcls << ") m=" << mstr (m, 4) << " (class " << mcls << ") prefilled result=" << b3 (pre));
    c.label (affine ? LT_AFFINE : LT_PROJECTIVE);
    if (in_empty) c.label (LT_EMPTY_IN);
    if (in_inf) c.label (LT_INFINITE_IN);
    if (mixed) c.label (LT_MIXED_SIGN);
    if (exact) c.label (LT_LATTICE_EXACT);
    c.label (pre_canon ? LT_PRE_CANON : LT_PRE_NONEMPTY);
    if (normal && (box.min[0] == box.max[0] || box.min[1] == box.max[1] || box.min[2] == box.max[2])) c.label (LT_FLAT);
    if (!affine && m[3][3] == 1) c.label (LT_M33_ONE_PROJ);
    c.nt (normal && mixed);

    // ---- the four overloads
    BX r1 = transform (box, m);
    BX r2 = pre;
    transform (box, m, r2);
    BX r3, r4;
    if (affine)
    {
        r3 = affineTransform (box, m);
        r4 = pre;
        affineTransform (box, m, r4);
    }
    Known known;
    if (!normal)
    {
        auto want = [&] (const BX& r, const char* key, const char* what) {
            bool ok = in_empty ? model_empty (r) : model_infinite (r);
            VP_REQUIRE (c, ok, key, tn << " " << what << " of the " << (in_empty ? "empty" : "infinite") << " box " << b3 (box) << " gives " << b3 (r) << ", which is not " << (in_empty ? "empty" : "infinite"));
        };
        want (r1, "transform-ret/empty-or-infinite-input", "transform(box,m)");
        if (affine)
        {
            want (r3, "affineTransform-ret/empty-or-infinite-input", "affineTransform(box,m)");
            want (r4, "affineTransform-out/empty-or-infinite-input", "affineTransform(box,m,result)");
        }
        bool ok2 = in_empty ? model_empty (r2) : model_infinite (r2);
        if (!ok2)
        {
            std::ostringstream o;
            o << tn << " transform(box,m,result) of the " << (in_empty ? "empty" : "infinite") << " box " << b3 (box) << " leaves result = " << b3 (r2) << " (its previous contents " << b3 (pre) << "), which is not " << (in_empty ? "empty" : "infinite");
            known.set ("transform-out/empty-or-infinite-input-leaves-result", o.str ());
        }
        if (known.hit) c.do_fail (known.key, known.msg);
        return;
    }
    // ---- eight-corner oracle in quad
    const quad epsS = (quad) FInfo<S>::eps (), tiny = 16 * (quad) LS::denorm_min ();
    quad       elo[3], ehi[3], tol[3], A[3];
    for (int i = 0; i < 3; ++i)
    {
        elo[i] = (quad) 1e4000L;
        ehi[i] = -(quad) 1e4000L;
        tol[i] = 0;
        A[i]   = 0;
    }
    for (int k = 0; k < 8; ++k)
    {
        quad cx[3];
        for (int j = 0; j < 3; ++j)
            cx[j] = (quad) ((k >> j) & 1 ? box.max[j] : box.min[j]);
        quad w = 1, Aw = 0;
        if (!affine)
        {
            w  = (quad) m[3][3];
            Aw = qabs ((quad) m[3][3]);
            for (int j = 0; j < 3; ++j)
            {
                w += cx[j] * (quad) m[j][3];
                Aw += qabs (cx[j] * (quad) m[j][3]);
            }
            VP_REQUIRE (c, w > 0 && Aw <= 8 * w, "oracle/w-not-positive", "harness generator: w = " << qstr (w) << " at a corner (sum of |terms| " << qstr (Aw) << ")");
        }
        for (int i = 0; i < 3; ++i)
        {
            quad x = (quad) m[3][i], Ax = qabs ((quad) m[3][i]);
            for (int j = 0; j < 3; ++j)
            {
                x += cx[j] * (quad) m[j][i];
                Ax += qabs (cx[j] * (quad) m[j][i]);
            }
            quad v = x / w;
            elo[i] = qmin (elo[i], v);
            ehi[i] = qmax (ehi[i], v);
            // affine (Arvo): cast, product and three sums = 5 roundings of relative size epsS on terms bounded by Ax
            //   -> analysis 5 epsS Ax, allowed 8 epsS Ax (measured worst 1.7 epsS Ax over 3e6 cases; containment 1.6)
            // projective: numerator and denominator <= 5 epsS A each, quotient 1 epsS
            //   -> allowed 5 epsS ((Ax + |v| Aw)/w + |v|)              (measured worst 0.73 of that scale)
            quad t = affine ? 8 * epsS * Ax : 5 * epsS * ((Ax + qabs (v) * Aw) / w + qabs (v));
            tol[i] = qmax (tol[i], t + tiny);
            A[i]   = qmax (A[i], affine ? Ax : (Ax + qabs (v) * Aw) / w + qabs (v));
        }
    }
    if (exact)
        for (int i = 0; i < 3; ++i)
            tol[i] = 0;
    auto slots = [&] (const BX& r, const char* key, const char* what, Worst* wst) -> bool {
        for (int i = 0; i < 3; ++i)
        {
            quad e1 = qabs ((quad) r.min[i] - elo[i]), e2 = qabs ((quad) r.max[i] - ehi[i]);
            bool ok = (e1 <= tol[i]) && (e2 <= tol[i]); // false for NaN
            if (wst && !exact && A[i] > 0) C13_SEE (*wst, (double) (qmax (e1, e2) / (epsS * A[i])));
            if (!ok)
            {
                if (!key) return false;
                VP_FAIL (c, key, tn << " " << what << " of " << b3 (box) << " by " << mstr (m, 4) << " = " << b3 (r) << " but the bound of the eight transformed corners is [(" << qstr (elo[0]) << " " << qstr (elo[1]) << " " << qstr (elo[2]) << ") (" << qstr (ehi[0]) << " " << qstr (ehi[1]) << " " << qstr (ehi[2]) << ")]; axis " << i << " off by " << qstr (qmax (e1, e2)) << ", allowed " << qstr (tol[i]) << (exact ? " (integer data: exact)" : ""));
            }
        }
        return true;
    };
    Worst* wm = affine ? &w_arvo : &w_proj;
    (void) wm;
    slots (r1, "transform-ret/slot", "transform(box,m)", wm);
    if (affine)
    {
        slots (r2, "transform-out/slot", "transform(box,m,result)", wm);
        slots (r3, "affineTransform-ret/slot", "affineTransform(box,m)", wm);
        slots (r4, "affineTransform-out/slot", "affineTransform(box,m,result)", wm);
    }
    else if (pre_canon)
        slots (r2, "transform-out/slot", "transform(box,m,result)", wm);
    // all overloads agree bit-for-bit where the result does not depend on the previous contents of `result`
    auto sameb = [&] (const BX& a, const BX& b) {
        for (int i = 0; i < 3; ++i)
            if (!same<S> (a.min[i], b.min[i]) || !same<S> (a.max[i], b.max[i])) return false;
        return true;
    };
    if (affine || pre_canon) VP_REQUIRE (c, sameb (r1, r2), "transform-out/differs-from-return-form", tn << " transform(box,m,result) = " << b3 (r2) << " but transform(box,m) = " << b3 (r1) << " for " << b3 (box) << " by " << mstr (m, 4));
    if (affine) VP_REQUIRE (c, sameb (r3, r4), "affineTransform-out/differs-from-return-form", tn << " affineTransform(box,m,result) = " << b3 (r4) << " but affineTransform(box,m) = " << b3 (r3) << " for " << b3 (box) << " by " << mstr (m, 4));
    // containment of the images of points of the box
    for (int k = 0; k < 4; ++k)
    {
        Vec3<S> p;
        for (int j = 0; j < 3; ++j)
        {
            unsigned u = (unsigned) s.below (4);
            S        v = u == 0 ? box.min[j] : (u == 1 ? box.max[j] : (S) (box.min[j] + (box.max[j] - box.min[j]) * (S) s.unit ()));
            if (!(v >= box.min[j])) v = box.min[j];
            if (!(v <= box.max[j])) v = box.max[j];
            p[j] = v;
        }
        quad w = 1;
        if (!affine)
        {
            w = (quad) m[3][3];
            for (int j = 0; j < 3; ++j)
                w += (quad) p[j] * (quad) m[j][3];
        }
        for (int i = 0; i < 3; ++i)
        {
            quad x = (quad) m[3][i];
            for (int j = 0; j < 3; ++j)
                x += (quad) p[j] * (quad) m[j][i];
            quad v = x / w;
            const BX* rs[4] = { &r1, (affine || pre_canon) ? &r2 : nullptr, affine ? &r3 : nullptr, affine ? &r4 : nullptr };
            static const char* rk[4] = { "transform-ret/containment", "transform-out/containment", "affineTransform-ret/containment", "affineTransform-out/containment" };
            for (int q = 0; q < 4; ++q)
                if (rs[q])
                {
                    quad ex = qmax ((quad) rs[q]->min[i] - v, v - (quad) rs[q]->max[i]);
                    if (A[i] > 0 && ex > 0) C13_SEE (w_cont, (double) (ex / (epsS * A[i])));
                    VP_REQUIRE (c, ex <= tol[i], rk[q], tn << " image of " << vstr (p, 3) << " (a point of " << b3 (box) << ") under " << mstr (m, 4) << " has coordinate " << i << " = " << qstr (v) << " outside the result " << b3 (*rs[q]));
                }
        }
    }
    // projective matrix and a result parameter that was not the canonical empty box: known defect (union with old contents)
    if (!affine && !pre_canon)
    {
        if (!slots (r2, nullptr, "", nullptr))
        {
            std::ostringstream o;
            o << tn << " transform(box,m,result) with a projective matrix and result pre-filled with " << b3 (pre) << " gives " << b3 (r2) << " but transform(box,m) gives " << b3 (r1) << " for " << b3 (box) << " by " << mstr (m, 4);
            known.set ("transform-out/projective-unions-previous-result", o.str ());
        }
    }
    if (known.hit) c.do_fail (known.key, known.msg);
}

VP_RANDOM (transform, 600000, 12000000, "transform(box,m), transform(box,m,result), affineTransform(box,m), affineTransform(box,m,result) on Box3f/Box3d x M44f/M44d (all four S,T combinations); boxes lattice / float / one-point / canonical-empty / inverted / infinite; matrices integer affine, sparse, rotation*scale, random affine, projective with exact division, general projective with w>0 on the box, projective with m[3][3]==1, uniform w!=1; the out-parameter is pre-filled with a canonical-empty / non-empty / inverted / infinite box; oracle = min/max of the eight transformed corners in quad (exact on integer data) + containment of 4 points of the box; non-trivial = normal box and a matrix with mixed-sign entries")
{
    switch (c.s.below (4))
    {
        case 0: transform_case<float, float> (c, "Box3f x M44f"); break;
        case 1: transform_case<double, double> (c, "Box3d x M44d"); break;
        case 2: transform_case<float, double> (c, "Box3f x M44d"); break;
        default: transform_case<double, float> (c, "Box3d x M44f"); break;
    }
}
VP_LABELS (transform, C13_TR_LABELS)
VP_REQUIRE_LABELS (transform, "affine_matrix", "projective_matrix", "empty_input", "infinite_input", "mixed_sign_matrix", "lattice_exact", "out_param_prefilled_canonical_empty", "out_param_prefilled_non_empty", "flat_box", "projective_with_m33_equal_1")

VP_MAIN ("C13")
