// C04 part 3: instantiations of component_case<A> (see c04_component.h)
#include "c04_component.h"

C04_SUB (V2i64, Vec2<int64_t>, 250000, 5000000)
C04_SUB (V3i64, Vec3<int64_t>, 250000, 5000000)
C04_SUB (V4i64, Vec4<int64_t>, 250000, 5000000)
C04_SUB (Quatf_, Quat<float>, 250000, 5000000)
