// C12: matrix factorisations recompose to their input with structured factors.
//
// Families covered (float and double each):
//   m44*_factor   extractAndRemoveScalingAndShear / extractScaling / extractScalingAndShear / sansScalingAndShear (2 forms) /
//                 removeScalingAndShear / extractSHRT (XYZ) / sansScaling / removeScaling on Matrix44
//   m44*_order    extractSHRT (..., rOrder) and extractSHRT (..., Euler&) for all 24 Euler orders
//   m33*_factor   the Matrix33 (2-D) family
//   degen_*       degenerate input is reported (false / std::domain_error), nothing is modified
//   guard_*       checkForZeroScaleInRow
//   rsmatrix_*    computeRSMatrix
//   svd33*/svd44* jacobiSVD       eig33*/eig44*  jacobiEigenSolver, minEigenVector, maxEigenVector
//   procrustes_*  procrustesRotationAndTranslation (weighted or not, with or without uniform scale)
//   *_subnormal   m44 / m33 / rsmatrix families on matrices whose whole linear part is subnormal in T (uniform 2^k scaling)
//   *_top         m44 / m33 / rsmatrix families on matrices whose largest entry is within 2^12 of the largest finite T (uniform 2^k
//                 scaling): row / column sums and sums of squares overflow in T, every entry and every exact factor is finite
//   procrustes_*_scaled  the procrustes problems with all coordinates scaled exactly by 2^k (|k| <= 60), all weights by 2^j,
//                 and clouds of small extent at a moderate offset (the problem is homogeneous)
//
// All oracles are evaluated in __float128 on the exact value of the (rounded) input matrix.
#include "vpbt.h"
#include "oracles.h"
#include "gens.h"
#include <ImathMatrixAlgo.h>
#include <ImathEuler.h>
#include <stdexcept>
#include <string>

using namespace orc;
using namespace IMATH_NAMESPACE;

typedef QM<2> Q2;
typedef QM<3> Q3;
typedef QM<4> Q4;

// ---------------------------------------------------------------------------------------------------
// development aid: worst observed error ratios (only with -DC12_MEASURE, never in the framework build)
#ifdef C12_MEASURE
#    include <atomic>
static std::atomic<uint64_t> g_meas[288]; // ids 96.. : the same quantities in the subnormal / scaled sub-checks, ids 192.. : in the top-of-range sub-checks
static const char*           g_meas_name[288];
static void                  meas (int id, const char* name, double v)
{
    if (!(v == v)) v = 1e300;
    if (v < 0) v = -v;
    g_meas_name[id] = name;
    uint64_t nv = d2u (v), old = g_meas[id].load ();
    while (u2d (old) < v && !g_meas[id].compare_exchange_weak (old, nv)) {}
}
static struct MeasDump
{
    ~MeasDump ()
    {
        for (int i = 0; i < 288; ++i)
            if (g_meas_name[i]) fprintf (stderr, "MEAS %3d %-44s %.4g\n", i, g_meas_name[i], u2d (g_meas[i].load ()));
    }
} g_measdump;
#    define MEAS(id, name, v) meas ((id), (name), (double) (v))
#else
#    define MEAS(id, name, v) ((void) 0)
#endif

// ---------------------------------------------------------------------------------------------------
// per-type constants
template <class T> struct TT;
template <> struct TT<float>
{
    static const char* nm () { return "float"; }
    static double      eps () { return FInfo<float>::eps (); }
    static double      kmax () { return 1e4; } // largest row-equilibrated condition number still "not nearly singular"
    static int         gexp () { return 40; }  // global power-of-two scaling |k| <= gexp
    static int         rexp () { return 30; }  // one row scaled down by up to 2^-rexp ("tiny scale")
    static int         mexp () { return 30; }  // svd / eigen global scaling
    static int         off () { return 0; }    // measurement id offset
};
template <> struct TT<double>
{
    static const char* nm () { return "double"; }
    static double      eps () { return FInfo<double>::eps (); }
    static double      kmax () { return 1e9; }
    static int         gexp () { return 300; }
    static int         rexp () { return 200; }
    static int         mexp () { return 200; }
    static int         off () { return 48; }
};

static inline quad q2pow (int e) { return (quad) std::ldexp (1.0L, e); }
// an option taken with probability num/256; taken only for LARGE bytes, so that the zero byte (the simplest choice) never takes it
static inline bool rare (vp::Src& s, int num) { return (int) s.byte () >= 256 - num; }
static inline quad qsq (quad x) { return x * x; }

// ---------------------------------------------------------------------------------------------------
// rotations in quad, ROW-vector convention (p' = p * R), elementary rotation about coordinate axis ax
static inline Q3 elem3 (int ax, quad a)
{
    Q3   m;
    int  j = (ax + 1) % 3, k = (ax + 2) % 3;
    quad c = cosq (a), s = sinq (a);
    m[j][j] = c;
    m[j][k] = s;
    m[k][j] = -s;
    m[k][k] = c;
    return m;
}
// Matrix44::rotate / setEulerAngles convention: XYZ order = Rx * Ry * Rz for row vectors
static inline Q3 rot_xyz (quad rx, quad ry, quad rz) { return elem3 (0, rx) * elem3 (1, ry) * elem3 (2, rz); }

// The 24 Euler orders, decoded from the documented bit legend of Euler<T>::Order
// (0xABCD: A initial axis, B parity even, C initial repeated, D frame static).
static const int         ORDERS[24]      = { 0x0101, 0x0001, 0x1101, 0x1001, 0x2101, 0x2001, 0x0011, 0x0111, 0x1011, 0x1111, 0x2011, 0x2111, 0x2000, 0x2100, 0x1000, 0x1100, 0x0000, 0x0100, 0x2110, 0x2010, 0x1110, 0x1010, 0x0110, 0x0010 };
static const char* const ORDER_NAMES[24] = { "XYZ", "XZY", "YZX", "YXZ", "ZXY", "ZYX", "XZX", "XYX", "YXY", "YZY", "ZYZ", "ZXZ", "XYZr", "XZYr", "YZXr", "YXZr", "ZXYr", "ZYXr", "XZXr", "XYXr", "YXYr", "YZYr", "ZYZr", "ZXZr" };
struct OrderBits
{
    int  ia;
    bool even, rep, stat;
};
static inline OrderBits decode_order (int bits)
{
    OrderBits o;
    o.ia   = (bits >> 12) & 3;
    o.even = (bits >> 8) & 1;
    o.rep  = (bits >> 4) & 1;
    o.stat = bits & 1;
    return o;
}
// rotation matrix of the angle triple stored in the Euler object (the "ijk" vector):
// static frame: rotate about axis i, then j, then k (or i again); rotating frame: same axes, angle order reversed.
static inline Q3 rot_from_ijk (const OrderBits& o, const quad a[3])
{
    int i = o.ia, j = o.even ? (i + 1) % 3 : (i + 2) % 3, k = o.even ? (i + 2) % 3 : (i + 1) % 3, th = o.rep ? i : k;
    return o.stat ? elem3 (i, a[0]) * elem3 (j, a[1]) * elem3 (th, a[2]) : elem3 (i, a[2]) * elem3 (j, a[1]) * elem3 (th, a[0]);
}
// "XYZ vector" layout (Euler::toXYZVector / XYZLayout): component q holds ijk[m[q]]
static inline void order_xyz_map (const OrderBits& o, int m[3])
{
    m[o.ia]           = 0;
    m[(o.ia + 1) % 3] = o.even ? 1 : 2;
    m[(o.ia + 2) % 3] = o.even ? 2 : 1;
}
static inline void ijk_from_xyzvec (const OrderBits& o, const quad v[3], quad ijk[3])
{
    int m[3];
    order_xyz_map (o, m);
    for (int q = 0; q < 3; ++q)
        ijk[m[q]] = v[q];
}
static inline bool xyz_map_is_identity (const OrderBits& o) { return o.ia == 0 && o.even; }

// random proper rotation, class-structured
enum
{
    RC_IDENT,
    RC_SIGNPERM,
    RC_AXIS,
    RC_GIMBAL,
    RC_TINY,
    RC_NEARPI,
    RC_GENERAL
};
static inline void gen_axis (vp::Src& s, quad& x, quad& y, quad& z)
{
    x = (quad) s.uniform (-1, 1);
    y = (quad) s.uniform (-1, 1);
    z = (quad) s.uniform (-1, 1);
    if (x * x + y * y + z * z < (quad) 1e-6)
    {
        x = 1;
        y = 0;
        z = 0;
    }
}
static Q3 gen_rot3 (vp::Src& s, int& cls)
{
    static const double SPECIAL[8] = { 0.0, 1.5707963267948966, -1.5707963267948966, 3.141592653589793, 0.7853981633974483, -2.356194490192345, 1e-8, 3.0 };
    int                 k          = (int) s.below (10);
    switch (k)
    {
        case 0: cls = RC_IDENT; return Q3 ();
        case 1: {
            cls                      = RC_SIGNPERM;
            static const int P[6][3] = { { 0, 1, 2 }, { 1, 2, 0 }, { 2, 0, 1 }, { 0, 2, 1 }, { 2, 1, 0 }, { 1, 0, 2 } };
            int              p       = (int) s.below (6);
            int              sg      = (int) s.bits (3);
            Q3               m;
            for (int i = 0; i < 3; ++i)
                for (int j = 0; j < 3; ++j)
                    m[i][j] = (P[p][i] == j) ? ((sg >> i) & 1 ? -1 : 1) : 0;
            if (det (m) < 0)
                for (int j = 0; j < 3; ++j)
                    m[0][j] = -m[0][j];
            return m;
        }
        case 2: {
            cls      = RC_AXIS;
            int  ax  = (int) s.below (3);
            quad ang = s.coin () ? (quad) SPECIAL[s.below (8)] : (quad) s.uniform (-3.141592653589793, 3.141592653589793);
            return elem3 (ax, ang);
        }
        case 3: {
            cls                      = RC_GIMBAL;
            static const double D[6] = { 0.0, 1e-12, 1e-9, 1e-6, 1e-4, 1e-2 };
            quad                ry   = (s.coin () ? 1 : -1) * (QPI / 2 + (quad) ((s.coin () ? 1 : -1) * D[s.below (6)]));
            return rot_xyz ((quad) s.uniform (-3.14, 3.14), ry, (quad) s.uniform (-3.14, 3.14));
        }
        case 4: {
            cls = RC_TINY;
            quad x, y, z;
            gen_axis (s, x, y, z);
            return rodrigues_rowvec<3> (x, y, z, (quad) std::ldexp (1.0 + s.unit (), -(int) s.range (4, 40)));
        }
        case 5: {
            cls = RC_NEARPI;
            quad x, y, z;
            gen_axis (s, x, y, z);
            return rodrigues_rowvec<3> (x, y, z, QPI - (quad) std::ldexp (s.unit (), -(int) s.range (0, 30)));
        }
        default: {
            cls = RC_GENERAL;
            quad x, y, z;
            gen_axis (s, x, y, z);
            return rodrigues_rowvec<3> (x, y, z, (quad) s.uniform (-3.141592653589793, 3.141592653589793));
        }
    }
}
static inline Q2 rot2 (quad a)
{
    Q2 m;
    m[0][0] = cosq (a);
    m[0][1] = sinq (a);
    m[1][0] = -sinq (a);
    m[1][1] = cosq (a);
    return m;
}
// random orthogonal NxN (product of plane rotations, optionally one reflected column)
template <int N> static QM<N> gen_orth (vp::Src& s, bool allow_reflect)
{
    QM<N> m;
    int   mode = (int) s.below (4);
    if (mode == 0) return m; // identity
    for (int p = 0; p < N; ++p)
        for (int q = p + 1; q < N; ++q)
        {
            quad a = mode == 1 ? (quad) (1.5707963267948966 * (double) s.range (-2, 2)) : (quad) s.uniform (-3.141592653589793, 3.141592653589793);
            quad c = cosq (a), sn = sinq (a);
            if (mode == 1)
            {
                // exact quarter turns
                long r = lroundl ((long double) (a / (QPI / 2)));
                r      = ((r % 4) + 4) % 4;
                c      = r == 0 ? 1 : (r == 2 ? -1 : 0);
                sn     = r == 1 ? 1 : (r == 3 ? -1 : 0);
            }
            for (int i = 0; i < N; ++i)
            {
                quad u = m[i][p], v = m[i][q];
                m[i][p] = c * u - sn * v;
                m[i][q] = sn * u + c * v;
            }
        }
    if (allow_reflect && s.coin ())
    {
        int col = (int) s.below (N);
        for (int i = 0; i < N; ++i)
            m[i][col] = -m[i][col];
    }
    return m;
}

// ---------------------------------------------------------------------------------------------------
// condition number (infinity norm) of the row-equilibrated matrix: Gram-Schmidt on the rows is invariant
// under row scaling, so this is the conditioning that governs the factorisation.
template <int N> static double kappa_eq (const QM<N>& L)
{
    QM<N> n;
    for (int i = 0; i < N; ++i)
    {
        quad l = 0;
        for (int j = 0; j < N; ++j)
            l += L[i][j] * L[i][j];
        if (!(l > 0)) return 1e300;
        l = sqrtq (l);
        for (int j = 0; j < N; ++j)
            n[i][j] = L[i][j] / l;
    }
    QM<N> inv;
    if (!inverse (n, inv)) return 1e300;
    quad k = norm_inf (n) * norm_inf (inv);
    if (!(k == k) || k > (quad) 1e300) return 1e300;
    return (double) k;
}

template <int N, class M> static QM<N> lin_of (const M& m)
{
    QM<N> r;
    for (int i = 0; i < N; ++i)
        for (int j = 0; j < N; ++j)
            r[i][j] = (quad) m[i][j];
    return r;
}

// S*H*R for the 3-D family: H = [1 0 0; h0 1 0; h1 h2 1]
static inline Q3 compose_shr3 (const quad s[3], const quad h[3], const Q3& R)
{
    Q3 S, H;
    for (int i = 0; i < 3; ++i)
        S[i][i] = s[i];
    H[1][0] = h[0];
    H[2][0] = h[1];
    H[2][1] = h[2];
    return S * H * R;
}
static inline Q2 compose_shr2 (const quad s[2], quad h, const Q2& R)
{
    Q2 S, H;
    S[0][0] = s[0];
    S[1][1] = s[1];
    H[1][0] = h;
    return S * H * R;
}
// worst |got-want| / (max|row of want| + fl) over all slots (NaN -> huge).  fl is a magnitude floor: a slot of type T
// carries an absolute uncertainty of max (eps*|x|, denorm_min), i.e. eps * max (|x|, smallest normal), so rows whose
// entries are subnormal are measured relative to (row max + smallest normal).  fl = 0: purely relative.
template <int N> static quad row_rel_err (const QM<N>& got, const QM<N>& want, int* wi = nullptr, int* wj = nullptr, quad fl = 0)
{
    quad worst = 0;
    for (int i = 0; i < N; ++i)
    {
        quad rm = 0;
        for (int j = 0; j < N; ++j)
            rm = qmax (rm, qabs (want[i][j]));
        rm += fl;
        for (int j = 0; j < N; ++j)
        {
            quad d = qabs (got[i][j] - want[i][j]);
            quad r = (d == 0) ? 0 : (rm > 0 ? d / rm : (quad) 1e300);
            if (!(d == d)) r = (quad) 1e300;
            if (r > worst)
            {
                worst = r;
                if (wi) *wi = i;
                if (wj) *wj = j;
            }
        }
    }
    return worst;
}
// worst deviation of R*R^T from the identity, and |det-1|
template <int N> static quad ortho_err (const QM<N>& R)
{
    QM<N> g     = R * transpose (R);
    quad  worst = 0;
    for (int i = 0; i < N; ++i)
        for (int j = 0; j < N; ++j)
        {
            quad d = qabs (g[i][j] - (i == j ? 1 : 0));
            if (!(d == d)) d = (quad) 1e300;
            worst = qmax (worst, d);
        }
    return worst;
}
template <class M> static bool same_mat (const M& a, const M& b, int n)
{
    for (int i = 0; i < n; ++i)
        for (int j = 0; j < n; ++j)
            if (!same (a[i][j], b[i][j])) return false;
    return true;
}

// ===================================================================================================
// 3-D family
// ===================================================================================================
enum
{
    LF_NEGDET,
    LF_COND10,
    LF_COND1000,
    LF_TINYROW,
    LF_BIGMAG,
    LF_SHEARED,
    LF_GIMBAL,
    LF_MANYZERO,
    LF_MIXEDSIGN,
    LF_ARBITRARY,
    LF_SUBNORMAL,
    LF_BELOW_RECIP_MAX,
    LF_TOP_HALF,
    LF_TOP_ROWSUM,
    LF_TOP_COLSUM,
    LF_TOP_TWOTHIRD
};
#define C12_TOP_LABELS "largest_entry_ge_max/2", "row_abs_sum_overflows", "column_abs_sum_overflows", "row_with_two_entries_above_max/3"
#define LF_LABELS "negative_determinant", "cond_gt_10", "cond_gt_1000", "tiny_scale_row", "magnitude_2^20_off_unit", "sheared", "xyz_gimbal_rotation", "five_or_more_zero_entries", "mixed_sign_scales", "arbitrary_linear_part", "all_linear_entries_subnormal", "largest_entry_below_1/max", C12_TOP_LABELS

// magnitude modes of the affine generators
enum
{
    MODE_NORMAL    = 0,
    MODE_SUBNORMAL = 1, // linear part scaled into the subnormal range of T
    MODE_TOP       = 2  // linear part scaled to the top of the range of T
};
struct TopFlags
{
    bool half, rowsum, colsum, twothird; // largest entry >= max/2; some row's / column's sum of absolute values exceeds max; some row has two entries above max/3
    TopFlags () : half (false), rowsum (false), colsum (false), twothird (false) {}
};

template <class T> struct Aff44
{
    Matrix44<T> M;
    Q3          L;     // exact value of the rounded linear part
    double      kappa; // row-equilibrated condition number
    bool        negdet, tinyrow, bigmag, sheared, gimbal, manyzero, mixedsign, arbitrary, subnormal, belowrecip;
    int         lcls;
    TopFlags    top;
};

// Uniform power-of-two scaling that puts the largest entry of an NxN linear part at 2^e with e drawn from
// [denorm_min exponent + 6, smallest normal exponent + 2]: the whole linear part is then (nearly always) subnormal
// in T, the largest entry keeps at least 7 significant bits.  The rounded matrix is what the functions see; its
// conditioning is evaluated after rounding by the caller.
template <class T, int N> static void scale_to_subnormal (vp::Src& s, QM<N>& Lq)
{
    quad mx = 0;
    for (int i = 0; i < N; ++i)
        for (int j = 0; j < N; ++j)
            mx = qmax (mx, qabs (Lq[i][j]));
    if (!(mx > 0)) return;
    const int elo = FInfo<T>::minexp - FInfo<T>::mant + 1 + 6, ehi = FInfo<T>::minexp + 2;
    int       e   = (int) s.range (elo, ehi);
    quad      f   = q2pow (e - std::ilogb ((double) mx));
    for (int i = 0; i < N; ++i)
        for (int j = 0; j < N; ++j)
            Lq[i][j] *= f;
}
template <class T, int N, class M> static void subnormal_flags (const M& m, bool& allsub, bool& belowrecip)
{
    T mx = 0;
    for (int i = 0; i < N; ++i)
        for (int j = 0; j < N; ++j)
            mx = std::max (mx, (T) std::fabs (m[i][j]));
    allsub     = mx < std::numeric_limits<T>::min ();
    belowrecip = (quad) mx * (quad) std::numeric_limits<T>::max () < 1; // 1/mx is not representable
}

// ---- top of the range -----------------------------------------------------------------------------
// Textbook Gram-Schmidt factorisations in quad (defined with the computeRSMatrix family / below)
static void qdecompose3 (const Q3& L, quad s[3], quad h[3], Q3& R);
static void qdecompose2 (const Q2& L, quad s[2], quad& h, Q2& R)
{
    quad l0 = sqrtq (L[0][0] * L[0][0] + L[0][1] * L[0][1]);
    R[0][0] = L[0][0] / l0;
    R[0][1] = L[0][1] / l0;
    quad d  = R[0][0] * L[1][0] + R[0][1] * L[1][1];
    quad x = L[1][0] - d * R[0][0], y = L[1][1] - d * R[0][1];
    quad l1 = sqrtq (x * x + y * y);
    R[1][0] = x / l1;
    R[1][1] = y / l1;
    s[0]    = l0;
    s[1]    = l1;
    h       = d / l1;
}
static inline void qscales (const Q3& L, quad* sc)
{
    quad h[3];
    Q3   R;
    qdecompose3 (L, sc, h, R);
}
static inline void qscales (const Q2& L, quad* sc)
{
    quad h;
    Q2   R;
    qdecompose2 (L, sc, h, R);
}
// The exact scale factors (row lengths after shear removal) that a factorisation of the ROUNDED matrix has to return must
// be representable in T with a margin: |s_i| <= 15/16 * max.  (Shear, rotation and translation do not depend on the
// uniform scaling.)  Also every entry must round to a finite T.
#ifndef C12_TOP_MARGIN
#    define C12_TOP_MARGIN 0.9375
#endif
template <class T, int N> static bool top_fits (const QM<N>& Lq)
{
    const quad mxT = (quad) std::numeric_limits<T>::max ();
    QM<N>      Lr;
    for (int i = 0; i < N; ++i)
        for (int j = 0; j < N; ++j)
        {
            if (!(qabs (Lq[i][j]) <= mxT)) return false;
            Lr[i][j] = (quad) (T) Lq[i][j];
        }
    quad sc[N];
    qscales (Lr, sc);
    for (int i = 0; i < N; ++i)
        if (!(qabs (sc[i]) <= mxT * (quad) C12_TOP_MARGIN)) return false;
    return true;
}
// Uniform power-of-two scaling that puts the largest entry of an NxN linear part in [2^e, 2^(e+1)) with e drawn from
// [max_exponent - 12, max_exponent - 1], the two highest weighted 4x (largest finite T is just below 2^max_exponent): entries up to just below max,
// rows with several entries above max/3, row / column sums of absolute values and every sum of squares overflow in T.
// When the exact scale factors of the rounded matrix would not be representable with margin (top_fits) the matrix is
// halved (once suffices: a scale factor is at most sqrt(N) times the largest entry) - construction, not rejection.
template <class T, int N> static void scale_to_top (vp::Src& s, QM<N>& Lq)
{
    quad mx = 0;
    for (int i = 0; i < N; ++i)
        for (int j = 0; j < N; ++j)
            mx = qmax (mx, qabs (Lq[i][j]));
    const int emax = std::numeric_limits<T>::max_exponent;
    int       k    = (int) s.below (18); // the two highest exponents (the only ones where sums of entries overflow) get 4/18 each
    int       e    = emax - 12 + (k < 12 ? k : 10 + (k & 1));
    if (!(mx > 0)) return;
    quad f = q2pow (e - std::ilogb ((double) mx));
    for (int i = 0; i < N; ++i)
        for (int j = 0; j < N; ++j)
            Lq[i][j] *= f;
    for (int pass = 0; pass < 2 && !top_fits<T, N> (Lq); ++pass)
        for (int i = 0; i < N; ++i)
            for (int j = 0; j < N; ++j)
                Lq[i][j] *= (quad) 0.5;
}
template <class T, int N, class M> static void top_flags (const M& m, TopFlags& f)
{
    const quad mxT = (quad) std::numeric_limits<T>::max ();
    quad       mx  = 0;
    for (int i = 0; i < N; ++i)
    {
        quad rs = 0, cs = 0;
        int  nthird = 0;
        for (int j = 0; j < N; ++j)
        {
            rs += qabs ((quad) m[i][j]);
            cs += qabs ((quad) m[j][i]);
            mx = qmax (mx, qabs ((quad) m[i][j]));
            if (qabs ((quad) m[i][j]) > mxT / 3) ++nthird;
        }
        if (rs > mxT) f.rowsum = true;
        if (cs > mxT) f.colsum = true;
        if (nthird >= 2) f.twothird = true;
    }
    f.half = mx >= mxT / 2;
}
static inline void label_top (vp::Ctx& c, const TopFlags& f, int first)
{
    if (f.half) c.label (first + 0);
    if (f.rowsum) c.label (first + 1);
    if (f.colsum) c.label (first + 2);
    if (f.twothird) c.label (first + 3);
}

template <class T> static void gen_translation (vp::Src& s, T* t, int n)
{
    int k = (int) s.below (4);
    for (int i = 0; i < n; ++i)
        switch (k)
        {
            case 0: t[i] = 0; break;
            case 1: t[i] = (T) s.range (-10, 10); break;
            case 2: t[i] = (T) s.uniform (-1000, 1000); break;
            default: t[i] = (T) std::ldexp (s.uniform (-1, 1), (int) s.range (-TT<T>::gexp (), TT<T>::gexp ())); break;
        }
}

// linear part classes: 0 S*H*R from factors, 1 U*diag*V^T with graded conditioning, 2 arbitrary entries, 3 signed permutation * scales (+ one shear)
// mode MODE_SUBNORMAL / MODE_TOP: instead of the tiny row / global magnitude options the whole linear part is scaled into
// the subnormal range / to the top of the range of T.
template <class T> static void gen_affine44 (vp::Ctx& c, Aff44<T>& a, int force_cls = -1, int mode = MODE_NORMAL)
{
    vp::Src&   s    = c.s;
    const bool subn = mode == MODE_SUBNORMAL;
    a.top           = TopFlags ();
    a.negdet = a.tinyrow = a.bigmag = a.sheared = a.gimbal = a.manyzero = a.mixedsign = a.arbitrary = a.subnormal = a.belowrecip = false;
    Q3  Lq;
    int cls = force_cls >= 0 ? force_cls : (int) s.below (4);
    a.lcls  = cls;
    switch (cls)
    {
        case 0:
        case 3: {
            static const int G[4] = { 0, 1, 3, 13 };
            int              g    = G[s.below (4)];
            quad             sc[3], sh[3] = { 0, 0, 0 };
            int              nneg = 0;
            for (int i = 0; i < 3; ++i)
            {
                sc[i] = (quad) std::ldexp (1.0 + s.unit (), (int) s.range (-g, g));
                if (rare (s, 64))
                {
                    sc[i] = -sc[i];
                    ++nneg;
                }
            }
            a.mixedsign = nneg == 1 || nneg == 2;
            int nsh     = cls == 0 ? 3 : 1;
            for (int i = 0; i < nsh; ++i)
                if (s.coin ())
                {
                    sh[cls == 0 ? i : (int) s.below (3)] = (quad) s.uniform (-2, 2);
                    a.sheared                            = true;
                }
            int rc;
            Q3  R;
            if (cls == 0)
                R = gen_rot3 (s, rc);
            else
            {
                // signed permutation
                static const int P[6][3] = { { 0, 1, 2 }, { 1, 2, 0 }, { 2, 0, 1 }, { 0, 2, 1 }, { 2, 1, 0 }, { 1, 0, 2 } };
                int              p       = (int) s.below (6), sg = (int) s.bits (3);
                for (int i = 0; i < 3; ++i)
                    for (int j = 0; j < 3; ++j)
                        R[i][j] = (P[p][i] == j) ? ((sg >> i) & 1 ? -1 : 1) : 0;
                if (det (R) < 0)
                    for (int j = 0; j < 3; ++j)
                        R[0][j] = -R[0][j];
                rc = RC_SIGNPERM;
            }
            a.gimbal = rc == RC_GIMBAL;
            Lq       = compose_shr3 (sc, sh, R);
            break;
        }
        case 1: {
            int    r1, r2;
            Q3     U = gen_rot3 (s, r1), V = gen_rot3 (s, r2), D;
            double A  = 0.5 * (std::log10 (TT<T>::kmax ()) - 0.5);
            double e1 = s.uniform (0, A), e2 = e1 + s.uniform (0, A);
            if (rare (s, 64)) e1 = 0;
            D[1][1] = powq (10, -(quad) e1);
            D[2][2] = powq (10, -(quad) e2);
            if (s.coin ()) // reflection
            {
                int k   = (int) s.below (3);
                D[k][k] = -D[k][k];
            }
            Lq          = U * D * transpose (V);
            a.arbitrary = true;
            break;
        }
        default: {
            bool ints = s.coin ();
            for (int i = 0; i < 3; ++i)
                for (int j = 0; j < 3; ++j)
                    Lq[i][j] = ints ? (quad) s.range (-8, 8) : (quad) s.uniform (-4, 4);
            a.arbitrary = true;
            break;
        }
    }
    // one row scaled down ("tiny scale"), global power-of-two magnitude
    if (subn)
        scale_to_subnormal<T, 3> (s, Lq);
    else if (mode == MODE_TOP)
        scale_to_top<T, 3> (s, Lq);
    else
    {
        if (rare (s, 32))
        {
            int  i = (int) s.below (3);
            quad f = q2pow (-(int) s.range (8, TT<T>::rexp ()));
            for (int j = 0; j < 3; ++j)
                Lq[i][j] *= f;
            a.tinyrow = true;
        }
        if (rare (s, 64))
        {
            int  k = (int) s.range (-TT<T>::gexp (), TT<T>::gexp ());
            quad f = q2pow (k);
            for (int i = 0; i < 3; ++i)
                for (int j = 0; j < 3; ++j)
                    Lq[i][j] *= f;
            a.bigmag = k >= 20 || k <= -20;
        }
    }
    a.M.makeIdentity ();
    int nzero = 0;
    for (int i = 0; i < 3; ++i)
        for (int j = 0; j < 3; ++j)
        {
            a.M[i][j] = (T) Lq[i][j];
            if (a.M[i][j] == 0) ++nzero;
        }
    a.manyzero = nzero >= 5;
    if (subn) subnormal_flags<T, 3> (a.M, a.subnormal, a.belowrecip);
    if (mode == MODE_TOP) top_flags<T, 3> (a.M, a.top);
    T t[3];
    gen_translation<T> (s, t, 3);
    for (int j = 0; j < 3; ++j)
        a.M[3][j] = t[j];
    a.L     = lin_of<3> (a.M);
    a.kappa = kappa_eq (a.L);
    if (!(a.kappa <= TT<T>::kmax ())) c.discard ("linear part nearly singular (outside the property's domain)");
    a.negdet = det (a.L) < 0;
}

template <class T> static void label_aff (vp::Ctx& c, const Aff44<T>& a)
{
    if (a.negdet) c.label (LF_NEGDET);
    if (a.kappa > 10) c.label (LF_COND10);
    if (a.kappa > 1000) c.label (LF_COND1000);
    if (a.tinyrow) c.label (LF_TINYROW);
    if (a.bigmag) c.label (LF_BIGMAG);
    if (a.sheared) c.label (LF_SHEARED);
    if (a.gimbal) c.label (LF_GIMBAL);
    if (a.manyzero) c.label (LF_MANYZERO);
    if (a.mixedsign) c.label (LF_MIXEDSIGN);
    if (a.arbitrary) c.label (LF_ARBITRARY);
    if (a.subnormal) c.label (LF_SUBNORMAL);
    if (a.belowrecip) c.label (LF_BELOW_RECIP_MAX);
    label_top (c, a.top, LF_TOP_HALF);
    c.nt (a.kappa > 10 || a.negdet);
}

// Tolerances of the 3-D / 2-D families, as multiples of kappa_eq * eps (relative to the largest entry of the row).
// Analysis: Gram-Schmidt on the rows reproduces each row to a few eps (backward stable), the computed rotation is
// orthonormal only to ~kappa*eps, and functions that go through Euler angles (extractSHRT, sansScaling, removeScaling,
// computeRSMatrix) replace it by the nearest exact rotation, moving every row by ~kappa*eps*|row|.
// Measured worst on the unchanged tree (1.6e6 (3-D) / 2e6 (2-D) cases per type, as a multiple of kappa_eq*eps, float / double):
//   recomposition through the returned rotation matrix  3-D 1.34 / 1.45   2-D 1.20 / 1.32
//   recomposition through returned angles (extractSHRT) 3-D 1.88 / 1.69   2-D 1.56 / 1.60
//   scale * sansScaling / removeScaling                 3-D 1.96 / 2.10   2-D 1.84 / 1.82
//   max|R R^T - I|                                      3-D 2.13 / 2.26   2-D 2.13 / 2.02
//   |det R - 1|                                         3-D 2.06 / 2.31   2-D 1.50 / 1.66
static const double K_RECOMP = 8;  // S*H*R with R the returned matrix
static const double K_ANGLES = 12; // S*H*R(angles), S*sansScaling, S*removeScaling
static const double K_ORTHO  = 12; // R*R^T - I and det R - 1

#define C12_TRY try
#define C12_CATCH(c, key, desc)                                                                                                     \
    catch (const std::exception& e) { VP_FAIL (c, key, desc << " threw " << e.what () << " on a non-degenerate matrix"); }

template <class T> static std::string v3s (const Vec3<T>& v) { return vstr (v, 3); }

template <class T> static void m44_factor_case (vp::Ctx& c, int mode = MODE_NORMAL)
{
    typedef Matrix44<T> M44;
    typedef Vec3<T>     V3;
    vp::Src&            s = c.s;
    Aff44<T>            a;
    gen_affine44<T> (c, a, -1, mode);
    const M44& M   = a.M;
    const Q3&  L   = a.L;
    const bool exc = s.coin ();
    const char* tn = TT<T>::nm ();
    VP_NOTE (c, "M44<" << tn << "> M=" << mstr (M, 4) << " kappa_eq=" << a.kappa << " class=" << a.lcls << " exc=" << exc);
    label_aff (c, a);
    const quad ke   = (quad) a.kappa * (quad) TT<T>::eps ();
    const quad rel  = (quad) K_RECOMP * ke;
    const quad rela = (quad) K_ANGLES * ke;
    const quad relo = (quad) K_ORTHO * ke;
    const int  mo   = TT<T>::off () + 96 * mode;
    int        wi = 0, wj = 0;
    // Recomposition errors are measured relative to (row max + smallest normal of T): the returned scale is a value of
    // type T, so when the rows are subnormal it carries an absolute error of denorm_min/2 = eps/2 * smallest normal
    // (times up to kappa_eq through |row|/|scale|).  For rows in the normal range this changes nothing.
    const quad fl = q2pow (FInfo<T>::minexp);

    // (a) extractAndRemoveScalingAndShear: scale, shear and the residual rotation
    M44 R0 = M;
    V3  s0, h0;
    C12_TRY
    {
        bool ok = extractAndRemoveScalingAndShear (R0, s0, h0, exc);
        VP_REQUIRE (c, ok, "m44-core/nondegenerate-reported-degenerate", "extractAndRemoveScalingAndShear returned false on " << mstr (M, 4) << " (kappa_eq " << a.kappa << ")");
    }
    C12_CATCH (c, "m44-core/nondegenerate-threw", "extractAndRemoveScalingAndShear(" << mstr (M, 4) << ")")
    const quad s0q[3] = { (quad) s0[0], (quad) s0[1], (quad) s0[2] }, h0q[3] = { (quad) h0[0], (quad) h0[1], (quad) h0[2] };
    const Q3   R0q = lin_of<3> (R0);
    {
        bool fin = true;
        for (int i = 0; i < 3; ++i)
        {
            if (!std::isfinite (s0[i]) || !std::isfinite (h0[i])) fin = false;
            for (int j = 0; j < 3; ++j)
                if (!std::isfinite (R0[i][j])) fin = false;
        }
        VP_REQUIRE (c, fin, "m44-core/nonfinite-factor", "extractAndRemoveScalingAndShear(" << mstr (M, 4) << ") returned true with scale " << v3s (s0) << " shear " << v3s (h0) << " rotation " << mstr (R0q, 3));
    }
    auto       rest_untouched = [&] (const M44& X) {
        for (int k = 0; k < 4; ++k)
            if (!same (X[3][k], M[3][k]) || !same (X[k][3], M[k][3])) return false;
        return true;
    };
    auto check_rot = [&] (const Q3& Rq, const char* fn, const char* key_o, const char* key_d) {
        quad oe = ortho_err (Rq);
        MEAS (mo + 0, "m44 ortho / (kappa eps)", oe / ke);
        VP_REQUIRE (c, oe <= relo, key_o, fn << ": residual rotation of " << mstr (M, 4) << " is not orthonormal: max|R R^T - I| = " << qstr (oe) << " limit " << qstr (relo) << " R=" << mstr (Rq, 3));
        quad d = det (Rq);
        MEAS (mo + 1, "m44 |det-1| / (kappa eps)", qabs (d - 1) / ke);
        VP_REQUIRE (c, qabs (d - 1) <= relo, key_d, fn << ": residual rotation of " << mstr (M, 4) << " has determinant " << qstr (d) << " R=" << mstr (Rq, 3));
    };
    auto check_recomp = [&] (const quad* sq, const quad* hq, const Q3& Rq, quad lim, const char* fn, const char* key, int mid, const char* mname) {
        Q3   got = compose_shr3 (sq, hq, Rq);
        quad e   = row_rel_err (got, L, &wi, &wj, fl);
        MEAS (mid, mname, e / ke);
        VP_REQUIRE (c, e <= lim, key, fn << ": S*H*R differs from the linear part of " << mstr (M, 4) << " at [" << wi << "][" << wj << "]: got " << qstr (got[wi][wj]) << " want " << qstr (L[wi][wj]) << " (relative to row max " << qstr (e) << ", limit " << qstr (lim) << "); s=(" << qstr (sq[0]) << " " << qstr (sq[1]) << " " << qstr (sq[2]) << ") h=(" << qstr (hq[0]) << " " << qstr (hq[1]) << " " << qstr (hq[2]) << ") R=" << mstr (Rq, 3));
    };
    VP_REQUIRE (c, rest_untouched (R0), "m44-core/translation-or-last-column-modified", "extractAndRemoveScalingAndShear changed row 3 / column 3 of " << mstr (M, 4) << " -> " << mstr (R0, 4));
    check_rot (R0q, "extractAndRemoveScalingAndShear", "m44-core/rotation-not-orthonormal", "m44-core/rotation-determinant");
    check_recomp (s0q, h0q, R0q, rel, "extractAndRemoveScalingAndShear", "m44-core/recompose", mo + 2, "m44 core recompose / (kappa eps)");

    // (b) extractScaling, (c) extractScalingAndShear: their factors must complete the same factorisation
    {
        V3 s1;
        C12_TRY
        {
            bool ok = exc ? extractScaling (M, s1) : extractScaling (M, s1, false);
            VP_REQUIRE (c, ok, "m44-extractScaling/nondegenerate-reported-degenerate", "extractScaling returned false on " << mstr (M, 4));
        }
        C12_CATCH (c, "m44-extractScaling/nondegenerate-threw", "extractScaling(" << mstr (M, 4) << ")")
        quad s1q[3] = { (quad) s1[0], (quad) s1[1], (quad) s1[2] };
        check_recomp (s1q, h0q, R0q, rel, "extractScaling", "m44-extractScaling/recompose", mo + 3, "m44 extractScaling recompose");
        V3 s2, h2;
        C12_TRY
        {
            bool ok = exc ? extractScalingAndShear (M, s2, h2) : extractScalingAndShear (M, s2, h2, false);
            VP_REQUIRE (c, ok, "m44-extractScalingAndShear/nondegenerate-reported-degenerate", "extractScalingAndShear returned false on " << mstr (M, 4));
        }
        C12_CATCH (c, "m44-extractScalingAndShear/nondegenerate-threw", "extractScalingAndShear(" << mstr (M, 4) << ")")
        quad s2q[3] = { (quad) s2[0], (quad) s2[1], (quad) s2[2] }, h2q[3] = { (quad) h2[0], (quad) h2[1], (quad) h2[2] };
        check_recomp (s2q, h2q, R0q, rel, "extractScalingAndShear", "m44-extractScalingAndShear/recompose", mo + 4, "m44 extractScalingAndShear recompose");
    }
    // (d,e,f) sansScalingAndShear (value form, result/fallback form), removeScalingAndShear: rotation*translation
    {
        M44 X[3];
        C12_TRY
        {
            X[0] = exc ? sansScalingAndShear (M) : sansScalingAndShear (M, false);
            X[1] = M;
            M44 fallback; // identity: must not be used
            fallback[0][0] = 7;
            if (exc)
                sansScalingAndShear (X[1], fallback);
            else
                sansScalingAndShear (X[1], fallback, false);
            X[2]    = M;
            bool ok = exc ? removeScalingAndShear (X[2]) : removeScalingAndShear (X[2], false);
            VP_REQUIRE (c, ok, "m44-removeScalingAndShear/nondegenerate-reported-degenerate", "removeScalingAndShear returned false on " << mstr (M, 4));
        }
        C12_CATCH (c, "m44-sansScalingAndShear/nondegenerate-threw", "sansScalingAndShear/removeScalingAndShear(" << mstr (M, 4) << ")")
        static const char* FN[3]   = { "sansScalingAndShear(m)", "sansScalingAndShear(result,m)", "removeScalingAndShear" };
        static const char* KO[3]   = { "m44-sansScalingAndShear/rotation-not-orthonormal", "m44-sansScalingAndShear2/rotation-not-orthonormal", "m44-removeScalingAndShear/rotation-not-orthonormal" };
        static const char* KD[3]   = { "m44-sansScalingAndShear/rotation-determinant", "m44-sansScalingAndShear2/rotation-determinant", "m44-removeScalingAndShear/rotation-determinant" };
        static const char* KR[3]   = { "m44-sansScalingAndShear/recompose", "m44-sansScalingAndShear2/recompose", "m44-removeScalingAndShear/recompose" };
        static const char* KT[3]   = { "m44-sansScalingAndShear/translation", "m44-sansScalingAndShear2/translation", "m44-removeScalingAndShear/translation" };
        for (int k = 0; k < 3; ++k)
        {
            Q3 Rq = lin_of<3> (X[k]);
            VP_REQUIRE (c, rest_untouched (X[k]), KT[k], FN[k] << " of " << mstr (M, 4) << " = " << mstr (X[k], 4) << ": translation row / last column not preserved");
            check_rot (Rq, FN[k], KO[k], KD[k]);
            check_recomp (s0q, h0q, Rq, rel, FN[k], KR[k], mo + 5, "m44 sans/removeScalingAndShear recompose");
        }
    }
    // (g) extractSHRT, XYZ angles
    {
        V3 s3, h3, r3, t3;
        C12_TRY
        {
            bool ok = exc ? extractSHRT (M, s3, h3, r3, t3) : extractSHRT (M, s3, h3, r3, t3, false);
            VP_REQUIRE (c, ok, "m44-extractSHRT/nondegenerate-reported-degenerate", "extractSHRT returned false on " << mstr (M, 4));
        }
        C12_CATCH (c, "m44-extractSHRT/nondegenerate-threw", "extractSHRT(" << mstr (M, 4) << ")")
        quad s3q[3] = { (quad) s3[0], (quad) s3[1], (quad) s3[2] }, h3q[3] = { (quad) h3[0], (quad) h3[1], (quad) h3[2] };
        Q3   Rq = rot_xyz ((quad) r3[0], (quad) r3[1], (quad) r3[2]);
        check_recomp (s3q, h3q, Rq, rela, "extractSHRT", "m44-extractSHRT/recompose", mo + 6, "m44 extractSHRT recompose");
        for (int j = 0; j < 3; ++j)
            VP_REQUIRE (c, same (t3[j], M[3][j]), "m44-extractSHRT/translation", "extractSHRT of " << mstr (M, 4) << " returns t=" << v3s (t3));
    }
    // (h,i) sansScaling, removeScaling: shear*rotation*translation, i.e. S * result == M
    {
        M44 X[2];
        C12_TRY
        {
            X[0]    = exc ? sansScaling (M) : sansScaling (M, false);
            X[1]    = M;
            bool ok = exc ? removeScaling (X[1]) : removeScaling (X[1], false);
            VP_REQUIRE (c, ok, "m44-removeScaling/nondegenerate-reported-degenerate", "removeScaling returned false on " << mstr (M, 4));
        }
        C12_CATCH (c, "m44-sansScaling/nondegenerate-threw", "sansScaling/removeScaling(" << mstr (M, 4) << ")")
        static const char* FN[2] = { "sansScaling", "removeScaling" };
        static const char* KR[2] = { "m44-sansScaling/scale-times-result", "m44-removeScaling/scale-times-result" };
        static const char* KT[2] = { "m44-sansScaling/translation", "m44-removeScaling/translation" };
        static const char* KC[2] = { "m44-sansScaling/last-column", "m44-removeScaling/last-column" };
        for (int k = 0; k < 2; ++k)
        {
            Q3 got = lin_of<3> (X[k]);
            for (int i = 0; i < 3; ++i)
                for (int j = 0; j < 3; ++j)
                    got[i][j] *= s0q[i];
            quad e = row_rel_err (got, L, &wi, &wj, fl);
            MEAS (mo + 7, "m44 S*sansScaling / (kappa eps)", e / ke);
            VP_REQUIRE (c, e <= rela, KR[k], FN[k] << " of " << mstr (M, 4) << " = " << mstr (X[k], 4) << ": scale*result differs from M at [" << wi << "][" << wj << "] got " << qstr (got[wi][wj]) << " want " << qstr (L[wi][wj]) << " (relative " << qstr (e) << " limit " << qstr (rela) << "), scale=" << v3s (s0));
            for (int j = 0; j < 3; ++j)
            {
                quad d = qabs ((quad) X[k][3][j] - (quad) M[3][j]);
                VP_REQUIRE (c, d <= (quad) TT<T>::eps () * qabs ((quad) M[3][j]), KT[k], FN[k] << " of " << mstr (M, 4) << " has translation " << (double) X[k][3][0] << " " << (double) X[k][3][1] << " " << (double) X[k][3][2]);
                VP_REQUIRE (c, X[k][j][3] == 0, KC[k], FN[k] << " of " << mstr (M, 4) << " = " << mstr (X[k], 4) << " last column not (0,0,0,1)");
            }
            VP_REQUIRE (c, X[k][3][3] == 1, KC[k], FN[k] << " of " << mstr (M, 4) << " = " << mstr (X[k], 4) << " last column not (0,0,0,1)");
        }
    }
}

// extractSHRT with an explicit rotation order (Vec3 in XYZ layout) and with an Euler object, all 24 orders.
enum
{
    LO_STATIC,
    LO_RELATIVE,
    LO_REPEATED,
    LO_NEAR_GIMBAL,
    LO_NEGDET,
    LO_IDENTITY_LAYOUT
};
#define LO_LABELS "static_frame_order", "rotating_frame_order", "repeated_axis_order", "gimbal_measure_lt_0.1", "negative_determinant", "identity_xyz_layout"

static const double K_ORDER = 8; // x (kappa_eq + 1/gimbal_measure) eps ; measured worst over 1.2e6 cases per type: 1.18 (float) 1.01 (double)

template <class T> static void m44_order_case (vp::Ctx& c)
{
    typedef Matrix44<T> M44;
    typedef Vec3<T>     V3;
    vp::Src&            s    = c.s;
    int                 oi   = (int) s.below (24);
    int                 bits = ORDERS[oi];
    OrderBits           ob   = decode_order (bits);
    // angles: outer two anywhere, middle one kept away from the order's gimbal configuration by d
    static const double D[4] = { 0.5, 0.2, 0.06, 0.02 };
    double              d    = D[s.below (4)];
    double              mid;
    if (ob.rep)
        mid = (s.coin () ? 1 : -1) * s.uniform (d, 3.141592653589793 - d);
    else
        mid = s.uniform (-(1.5707963267948966 - d), 1.5707963267948966 - d);
    double     g    = ob.rep ? std::fabs (std::sin (mid)) : std::fabs (std::cos (mid));
    const quad ang[3] = { (quad) s.uniform (-3.14159, 3.14159), (quad) mid, (quad) s.uniform (-3.14159, 3.14159) };
    Q3         R    = rot_from_ijk (ob, ang);
    quad       sc[3], sh[3] = { 0, 0, 0 };
    for (int i = 0; i < 3; ++i)
    {
        sc[i] = (quad) std::ldexp (1.0 + s.unit (), (int) s.range (-2, 2));
        if (rare (s, 64)) sc[i] = -sc[i];
        if (s.coin ()) sh[i] = (quad) s.uniform (-1, 1);
    }
    Q3  Lq = compose_shr3 (sc, sh, R);
    M44 M;
    for (int i = 0; i < 3; ++i)
        for (int j = 0; j < 3; ++j)
            M[i][j] = (T) Lq[i][j];
    T t[3];
    gen_translation<T> (s, t, 3);
    for (int j = 0; j < 3; ++j)
        M[3][j] = t[j];
    const Q3 L     = lin_of<3> (M);
    double   kappa = kappa_eq (L);
    if (!(kappa <= TT<T>::kmax ())) c.discard ("nearly singular");
    bool negdet = det (L) < 0;
    bool exc    = s.coin ();
    VP_NOTE (c, "M44<" << TT<T>::nm () << "> order=" << ORDER_NAMES[oi] << " M=" << mstr (M, 4) << " gimbal_measure=" << g << " kappa_eq=" << kappa);
    c.label (ob.stat ? LO_STATIC : LO_RELATIVE);
    if (ob.rep) c.label (LO_REPEATED);
    if (g < 0.1) c.label (LO_NEAR_GIMBAL);
    if (negdet) c.label (LO_NEGDET);
    if (xyz_map_is_identity (ob)) c.label (LO_IDENTITY_LAYOUT);
    c.nt (bits != 0x0101);
    const quad unit = ((quad) kappa + 1 / (quad) g) * (quad) TT<T>::eps ();
    const quad lim  = (quad) K_ORDER * unit;
    const int  mo   = TT<T>::off ();
    int        wi = 0, wj = 0;
    typename Euler<T>::Order order = (typename Euler<T>::Order) bits;
    const char*              pending_key = nullptr; // failure attributed to a candidate genuine defect, raised last
    std::string              pending_msg;

    // Vec3 + rOrder overload: r is the "XYZ vector" of the Euler angles in that order
    {
        V3 s1, h1, r1, t1;
        C12_TRY
        {
            bool ok = extractSHRT (M, s1, h1, r1, t1, exc, order);
            VP_REQUIRE (c, ok, "m44-extractSHRT-order/nondegenerate-reported-degenerate", "extractSHRT(order " << ORDER_NAMES[oi] << ") returned false on " << mstr (M, 4));
        }
        C12_CATCH (c, "m44-extractSHRT-order/nondegenerate-threw", "extractSHRT(order)(" << mstr (M, 4) << ")")
        quad sq[3] = { (quad) s1[0], (quad) s1[1], (quad) s1[2] }, hq[3] = { (quad) h1[0], (quad) h1[1], (quad) h1[2] };
        quad v[3] = { (quad) r1[0], (quad) r1[1], (quad) r1[2] }, ijk[3];
        ijk_from_xyzvec (ob, v, ijk);
        Q3   got = compose_shr3 (sq, hq, rot_from_ijk (ob, ijk));
        quad e   = row_rel_err (got, L, &wi, &wj);
        MEAS (mo + 10, "m44 extractSHRT(order) / ((kappa+1/g) eps)", e / unit);
        VP_REQUIRE (c, e <= lim, "m44-extractSHRT-order/recompose", "extractSHRT(order " << ORDER_NAMES[oi] << ") of " << mstr (M, 4) << ": S*H*R(r) differs at [" << wi << "][" << wj << "] got " << qstr (got[wi][wj]) << " want " << qstr (L[wi][wj]) << " (relative " << qstr (e) << " limit " << qstr (lim) << ") s=" << v3s (s1) << " h=" << v3s (h1) << " r=" << v3s (r1));
        for (int j = 0; j < 3; ++j)
            VP_REQUIRE (c, same (t1[j], M[3][j]), "m44-extractSHRT-order/translation", "extractSHRT(order) of " << mstr (M, 4) << " returns t=" << v3s (t1));
    }
    // Euler overload: the Euler object must describe the rotation factor
    {
        V3       s2, h2, t2;
        Euler<T> eu (order);
        C12_TRY
        {
            bool ok = exc ? extractSHRT (M, s2, h2, eu, t2) : extractSHRT (M, s2, h2, eu, t2, false);
            VP_REQUIRE (c, ok, "m44-extractSHRT-euler/nondegenerate-reported-degenerate", "extractSHRT(Euler " << ORDER_NAMES[oi] << ") returned false on " << mstr (M, 4));
        }
        C12_CATCH (c, "m44-extractSHRT-euler/nondegenerate-threw", "extractSHRT(Euler)(" << mstr (M, 4) << ")")
        VP_REQUIRE (c, (int) eu.order () == bits, "m44-extractSHRT-euler/order-changed", "extractSHRT(Euler) changed the order of the Euler object from " << ORDER_NAMES[oi]);
        quad sq[3] = { (quad) s2[0], (quad) s2[1], (quad) s2[2] }, hq[3] = { (quad) h2[0], (quad) h2[1], (quad) h2[2] };
        quad ijk[3] = { (quad) eu.x, (quad) eu.y, (quad) eu.z };
        Q3   got = compose_shr3 (sq, hq, rot_from_ijk (ob, ijk));
        quad e   = row_rel_err (got, L, &wi, &wj);
        if (!(e <= lim) && !xyz_map_is_identity (ob))
        {
            // candidate genuine defect: the XYZ-layout vector is stored into the ijk slots of the Euler object.
            // Narrow key: only when re-reading the stored numbers as an XYZ-layout vector does recompose.
            quad ijk2[3];
            ijk_from_xyzvec (ob, ijk, ijk2);
            Q3   got2 = compose_shr3 (sq, hq, rot_from_ijk (ob, ijk2));
            quad e2   = row_rel_err (got2, L);
            if (e2 <= lim)
            {
                // raised only after the remaining checks of this case have been made
                std::ostringstream o;
                o << std::setprecision (17) << "extractSHRT(Euler " << ORDER_NAMES[oi] << ") of " << mstr (M, 4) << " returns Euler (" << (double) eu.x << " " << (double) eu.y << " " << (double) eu.z << ") whose rotation does not recompose M (relative error " << qstr (e) << "); the three numbers are the XYZ-layout vector, not the order's own angle triple";
                pending_key = "m44-extractSHRT-euler/angles-stored-in-xyz-layout";
                pending_msg = o.str ();
                e           = 0;
            }
        }
        MEAS (mo + 11, "m44 extractSHRT(Euler) / ((kappa+1/g) eps)", xyz_map_is_identity (ob) ? e / unit : (quad) 0);
        VP_REQUIRE (c, e <= lim, "m44-extractSHRT-euler/recompose", "extractSHRT(Euler " << ORDER_NAMES[oi] << ") of " << mstr (M, 4) << ": S*H*R(euler) differs at [" << wi << "][" << wj << "] got " << qstr (got[wi][wj]) << " want " << qstr (L[wi][wj]) << " (relative " << qstr (e) << " limit " << qstr (lim) << ") euler=(" << (double) eu.x << " " << (double) eu.y << " " << (double) eu.z << ")");
        for (int j = 0; j < 3; ++j)
            VP_REQUIRE (c, same (t2[j], M[3][j]), "m44-extractSHRT-euler/translation", "extractSHRT(Euler) of " << mstr (M, 4) << " returns t=" << v3s (t2));
    }
    if (pending_key) c.do_fail (pending_key, pending_msg);
}

#define C12_RULE_M44 "affine Matrix44 from 4 classes (S*H*R*T from generated factors incl. negative/mixed-sign scales graded 2^+-13, shears, gimbal/tiny/near-pi rotations; U*diag*V^T with conditioning graded up to the type's limit; arbitrary real/integer entries; signed permutations), one row scaled down to 2^-rexp, global 2^+-gexp; oracle = quad recomposition per slot relative to the row, tolerance K*kappa_eq*eps; non-trivial = row-equilibrated condition number > 10 or negative determinant"

VP_RANDOM (m44f_factor, 300000, 6000000, C12_RULE_M44) { m44_factor_case<float> (c); }
VP_LABELS (m44f_factor, LF_LABELS)
VP_REQUIRE_LABELS (m44f_factor, "negative_determinant", "cond_gt_10", "cond_gt_1000", "tiny_scale_row", "magnitude_2^20_off_unit", "sheared", "xyz_gimbal_rotation", "five_or_more_zero_entries", "mixed_sign_scales", "arbitrary_linear_part")
VP_RANDOM (m44d_factor, 300000, 6000000, C12_RULE_M44) { m44_factor_case<double> (c); }
VP_LABELS (m44d_factor, LF_LABELS)
VP_REQUIRE_LABELS (m44d_factor, "negative_determinant", "cond_gt_10", "cond_gt_1000", "tiny_scale_row", "magnitude_2^20_off_unit", "sheared", "xyz_gimbal_rotation", "five_or_more_zero_entries", "mixed_sign_scales", "arbitrary_linear_part")

// Uniformly scaled affine matrices whose linear part lies in the subnormal range of T.  Same functions, same oracle, same
// multiples of kappa_eq*eps (errors relative to row max + smallest normal, see m44_factor_case).
// Measured worst on the unchanged tree (1.2e6 cases per type, multiples of kappa_eq*eps, float / double):
//   recomposition through the returned rotation matrix  3-D 0.88 / 0.87   2-D 0.68 / 0.83
//   recomposition through returned angles (extractSHRT) 3-D 1.36 / 1.17   2-D 1.07 / 1.08
//   scale * sansScaling / removeScaling                 3-D 1.36 / 1.33   2-D 1.11 / 1.08
//   max|R R^T - I|                                      3-D 2.02 / 2.51   2-D 2.01 / 1.88
//   |det R - 1|                                         3-D 2.25 / 2.08   2-D 1.55 / 1.47
// (limits K_RECOMP = 8, K_ANGLES = 12, K_ORTHO = 12 as for the normal range); about 5 % of the cases are discarded
// because rounding to a few significant bits left the matrix nearly singular.
#define C12_RULE_M44SUB "affine Matrix44 from the 4 classes of m44*_factor, the linear part multiplied by the power of two that puts its largest entry at 2^e, e uniform in [denorm_min exponent + 6, smallest normal exponent + 2] (all nine entries subnormal in nearly every case, for most of them below 1/max so that a reciprocal would overflow), then rounded to the type; every function must report success and return finite factors; oracle = quad recomposition per slot, tolerance K*kappa_eq*eps relative to (row max + smallest normal); non-trivial = row-equilibrated condition number > 10 or negative determinant"
VP_RANDOM (m44f_subnormal, 60000, 1200000, C12_RULE_M44SUB) { m44_factor_case<float> (c, MODE_SUBNORMAL); }
VP_LABELS (m44f_subnormal, LF_LABELS)
VP_REQUIRE_LABELS (m44f_subnormal, "negative_determinant", "cond_gt_10", "sheared", "mixed_sign_scales", "arbitrary_linear_part", "all_linear_entries_subnormal", "largest_entry_below_1/max")
VP_RANDOM (m44d_subnormal, 60000, 1200000, C12_RULE_M44SUB) { m44_factor_case<double> (c, MODE_SUBNORMAL); }
VP_LABELS (m44d_subnormal, LF_LABELS)
VP_REQUIRE_LABELS (m44d_subnormal, "negative_determinant", "cond_gt_10", "sheared", "mixed_sign_scales", "arbitrary_linear_part", "all_linear_entries_subnormal", "largest_entry_below_1/max")

// Uniformly scaled affine matrices whose linear part lies at the top of the range of T.  Same functions, same oracle, same
// multiples of kappa_eq*eps.  The functions divide by the largest absolute entry before anything else, so they succeed
// whenever the exact scale factors are representable; nothing may be formed from the raw entries (sums, squares, products).
// Measured worst on the unchanged tree (8e5 cases per type, multiples of kappa_eq*eps, float / double):
//   recomposition through the returned rotation matrix  3-D 1.21 / 1.22   2-D 1.26 / 1.31
//   recomposition through returned angles (extractSHRT) 3-D 1.64 / 1.49   2-D 1.41 / 1.39
//   scale * sansScaling / removeScaling                 3-D 1.82 / 1.89   2-D 1.69 / 1.81
//   max|R R^T - I|                                      3-D 2.13 / 2.22   2-D 1.89 / 2.14
//   |det R - 1|                                         3-D 2.13 / 2.18   2-D 1.46 / 1.39
// (limits K_RECOMP = 8, K_ANGLES = 12, K_ORTHO = 12 as for the normal range); no failure either with the margin on the exact
// scale factors tightened from 15/16 max to 0.9999 max (4.4e6 cases).
#define C12_TOP_DESC "the linear part multiplied by the power of two that puts its largest entry in [2^e, 2^(e+1)), e in [max_exponent - 12, max_exponent - 1] with the two highest weighted 4x (entries up to just below the largest finite value, rows with several entries above max/3: row / column sums of absolute values and all sums of squares overflow in the type), halved once when an exact scale factor (row length after shear removal, computed in quad from the rounded matrix) would exceed 15/16 max, then rounded to the type; every exact factor is representable, so every function must report success and return finite factors"
#define C12_RULE_M44TOP "affine Matrix44 from the 4 classes of m44*_factor, " C12_TOP_DESC "; oracle = quad recomposition per slot, tolerance K*kappa_eq*eps relative to the row max; non-trivial = row-equilibrated condition number > 10 or negative determinant"
#define C12_TOP_REQ "largest_entry_ge_max/2", "row_abs_sum_overflows", "column_abs_sum_overflows", "row_with_two_entries_above_max/3"
VP_RANDOM (m44f_top, 40000, 800000, C12_RULE_M44TOP) { m44_factor_case<float> (c, MODE_TOP); }
VP_LABELS (m44f_top, LF_LABELS)
VP_REQUIRE_LABELS (m44f_top, "negative_determinant", "cond_gt_10", "sheared", "mixed_sign_scales", "arbitrary_linear_part", "five_or_more_zero_entries", C12_TOP_REQ)
VP_RANDOM (m44d_top, 40000, 800000, C12_RULE_M44TOP) { m44_factor_case<double> (c, MODE_TOP); }
VP_LABELS (m44d_top, LF_LABELS)
VP_REQUIRE_LABELS (m44d_top, "negative_determinant", "cond_gt_10", "sheared", "mixed_sign_scales", "arbitrary_linear_part", "five_or_more_zero_entries", C12_TOP_REQ)

#define C12_RULE_ORDER "S*H*R*T with R built from an angle triple in one of the 24 Euler orders (middle angle 0.02..0.5 rad away from that order's gimbal configuration); rotation oracle = product of elementary quad rotations decoded from the order's documented bit legend; tolerance K*(kappa_eq + 1/gimbal_measure)*eps; non-trivial = order other than XYZ"
VP_RANDOM (m44f_order, 300000, 6000000, C12_RULE_ORDER) { m44_order_case<float> (c); }
VP_LABELS (m44f_order, LO_LABELS)
VP_REQUIRE_LABELS (m44f_order, "static_frame_order", "rotating_frame_order", "repeated_axis_order", "gimbal_measure_lt_0.1", "negative_determinant", "identity_xyz_layout")
VP_RANDOM (m44d_order, 300000, 6000000, C12_RULE_ORDER) { m44_order_case<double> (c); }
VP_LABELS (m44d_order, LO_LABELS)
VP_REQUIRE_LABELS (m44d_order, "static_frame_order", "rotating_frame_order", "repeated_axis_order", "gimbal_measure_lt_0.1", "negative_determinant", "identity_xyz_layout")

// ===================================================================================================
// 2-D family (Matrix33)
// ===================================================================================================
enum
{
    L2_NEGDET,
    L2_COND10,
    L2_COND1000,
    L2_TINYROW,
    L2_BIGMAG,
    L2_SHEARED,
    L2_ZEROS,
    L2_ROT_AND_TRANSLATION,
    L2_SUBNORMAL,
    L2_BELOW_RECIP_MAX,
    L2_TOP_HALF,
    L2_TOP_ROWSUM,
    L2_TOP_COLSUM,
    L2_TOP_TWOTHIRD
};
#define L2_LABELS "negative_determinant", "cond_gt_10", "cond_gt_1000", "tiny_scale_row", "magnitude_2^20_off_unit", "sheared", "two_or_more_zero_entries", "rotated_and_translated", "all_linear_entries_subnormal", "largest_entry_below_1/max", C12_TOP_LABELS

template <class T> struct Aff33
{
    Matrix33<T> M;
    Q2          L;
    double      kappa;
    bool        negdet, tinyrow, bigmag, sheared, zeros, subnormal, belowrecip;
    int         lcls;
    TopFlags    top;
};
template <class T> static void gen_affine33 (vp::Ctx& c, Aff33<T>& a, int mode = MODE_NORMAL)
{
    vp::Src&   s    = c.s;
    const bool subn = mode == MODE_SUBNORMAL;
    a.top           = TopFlags ();
    a.negdet = a.tinyrow = a.bigmag = a.sheared = a.zeros = a.subnormal = a.belowrecip = false;
    Q2  Lq;
    int cls = (int) s.below (4);
    a.lcls  = cls;
    static const double SPECIAL[8] = { 0.0, 1.5707963267948966, -1.5707963267948966, 3.141592653589793, 0.7853981633974483, -2.356194490192345, 1e-8, 3.0 };
    auto                angle      = [&] () -> quad { return rare (s, 64) ? (quad) SPECIAL[s.below (8)] : (quad) s.uniform (-3.141592653589793, 3.141592653589793); };
    switch (cls)
    {
        case 0:
        case 3: {
            static const int G[4] = { 0, 1, 3, 13 };
            int              g    = G[s.below (4)];
            quad             sc[2], sh = 0;
            for (int i = 0; i < 2; ++i)
            {
                sc[i] = (quad) std::ldexp (1.0 + s.unit (), (int) s.range (-g, g));
                if (rare (s, 64)) sc[i] = -sc[i];
            }
            if (s.coin ())
            {
                sh        = (quad) s.uniform (-2, 2);
                a.sheared = true;
            }
            Q2 R;
            if (cls == 0)
                R = rot2 (angle ());
            else
            {
                int q = (int) s.below (4); // exact quarter turns
                quad cs[4] = { 1, 0, -1, 0 }, sn[4] = { 0, 1, 0, -1 };
                R[0][0] = cs[q];
                R[0][1] = sn[q];
                R[1][0] = -sn[q];
                R[1][1] = cs[q];
            }
            Lq = compose_shr2 (sc, sh, R);
            break;
        }
        case 1: {
            Q2     U = rot2 (angle ()), V = rot2 (angle ()), D;
            double e = s.uniform (0, std::log10 (TT<T>::kmax ()) - 0.5);
            D[1][1] = powq (10, -(quad) e);
            if (s.coin ()) D[1][1] = -D[1][1];
            Lq = U * D * transpose (V);
            break;
        }
        default: {
            bool ints = s.coin ();
            for (int i = 0; i < 2; ++i)
                for (int j = 0; j < 2; ++j)
                    Lq[i][j] = ints ? (quad) s.range (-8, 8) : (quad) s.uniform (-4, 4);
            break;
        }
    }
    if (subn)
        scale_to_subnormal<T, 2> (s, Lq);
    else if (mode == MODE_TOP)
        scale_to_top<T, 2> (s, Lq);
    else
    {
        if (rare (s, 32))
        {
            int  i = (int) s.below (2);
            quad f = q2pow (-(int) s.range (8, TT<T>::rexp ()));
            for (int j = 0; j < 2; ++j)
                Lq[i][j] *= f;
            a.tinyrow = true;
        }
        if (rare (s, 64))
        {
            int  k = (int) s.range (-TT<T>::gexp (), TT<T>::gexp ());
            quad f = q2pow (k);
            for (int i = 0; i < 2; ++i)
                for (int j = 0; j < 2; ++j)
                    Lq[i][j] *= f;
            a.bigmag = k >= 20 || k <= -20;
        }
    }
    a.M.makeIdentity ();
    int nzero = 0;
    for (int i = 0; i < 2; ++i)
        for (int j = 0; j < 2; ++j)
        {
            a.M[i][j] = (T) Lq[i][j];
            if (a.M[i][j] == 0) ++nzero;
        }
    a.zeros = nzero >= 2;
    if (subn) subnormal_flags<T, 2> (a.M, a.subnormal, a.belowrecip);
    if (mode == MODE_TOP) top_flags<T, 2> (a.M, a.top);
    T t[2];
    gen_translation<T> (s, t, 2);
    a.M[2][0] = t[0];
    a.M[2][1] = t[1];
    a.L       = lin_of<2> (a.M);
    a.kappa   = kappa_eq (a.L);
    if (!(a.kappa <= TT<T>::kmax ())) c.discard ("linear part nearly singular (outside the property's domain)");
    a.negdet = det (a.L) < 0;
}

template <class T> static void m33_factor_case (vp::Ctx& c, int mode = MODE_NORMAL)
{
    typedef Matrix33<T> M33;
    typedef Vec2<T>     V2;
    vp::Src&            s = c.s;
    Aff33<T>            a;
    gen_affine33<T> (c, a, mode);
    const M33& M   = a.M;
    const Q2&  L   = a.L;
    const bool exc = s.coin ();
    VP_NOTE (c, "M33<" << TT<T>::nm () << "> M=" << mstr (M, 3) << " kappa_eq=" << a.kappa << " class=" << a.lcls << " exc=" << exc);
    if (a.negdet) c.label (L2_NEGDET);
    if (a.kappa > 10) c.label (L2_COND10);
    if (a.kappa > 1000) c.label (L2_COND1000);
    if (a.tinyrow) c.label (L2_TINYROW);
    if (a.bigmag) c.label (L2_BIGMAG);
    if (a.sheared) c.label (L2_SHEARED);
    if (a.zeros) c.label (L2_ZEROS);
    if (a.subnormal) c.label (L2_SUBNORMAL);
    if (a.belowrecip) c.label (L2_BELOW_RECIP_MAX);
    label_top (c, a.top, L2_TOP_HALF);
    c.nt (a.kappa > 10 || a.negdet);
    const quad ke   = (quad) a.kappa * (quad) TT<T>::eps ();
    const quad rel  = (quad) K_RECOMP * ke;
    const quad rela = (quad) K_ANGLES * ke;
    const quad relo = (quad) K_ORTHO * ke;
    const int  mo   = TT<T>::off () + 96 * mode;
    int        wi = 0, wj = 0;
    const quad fl = q2pow (FInfo<T>::minexp); // see m44_factor_case

    M33 R0 = M;
    V2  s0;
    T   h0;
    C12_TRY
    {
        bool ok = extractAndRemoveScalingAndShear (R0, s0, h0, exc);
        VP_REQUIRE (c, ok, "m33-core/nondegenerate-reported-degenerate", "extractAndRemoveScalingAndShear returned false on " << mstr (M, 3) << " (kappa_eq " << a.kappa << ")");
    }
    C12_CATCH (c, "m33-core/nondegenerate-threw", "extractAndRemoveScalingAndShear(" << mstr (M, 3) << ")")
    const quad s0q[2] = { (quad) s0[0], (quad) s0[1] }, h0q = (quad) h0;
    const Q2   R0q = lin_of<2> (R0);
    VP_REQUIRE (c, std::isfinite (s0[0]) && std::isfinite (s0[1]) && std::isfinite (h0) && std::isfinite (R0[0][0]) && std::isfinite (R0[0][1]) && std::isfinite (R0[1][0]) && std::isfinite (R0[1][1]), "m33-core/nonfinite-factor", "extractAndRemoveScalingAndShear(" << mstr (M, 3) << ") returned true with scale " << vstr (s0, 2) << " shear " << h0 << " rotation " << mstr (R0q, 2));
    auto       rest_untouched = [&] (const M33& X) {
        for (int k = 0; k < 3; ++k)
            if (!same (X[2][k], M[2][k]) || !same (X[k][2], M[k][2])) return false;
        return true;
    };
    auto check_rot = [&] (const Q2& Rq, const char* fn, const char* key_o, const char* key_d) {
        quad oe = ortho_err (Rq);
        MEAS (mo + 16, "m33 ortho / (kappa eps)", oe / ke);
        VP_REQUIRE (c, oe <= relo, key_o, fn << ": residual rotation of " << mstr (M, 3) << " is not orthonormal: max|R R^T - I| = " << qstr (oe) << " limit " << qstr (relo) << " R=" << mstr (Rq, 2));
        quad d = det (Rq);
        MEAS (mo + 17, "m33 |det-1| / (kappa eps)", qabs (d - 1) / ke);
        VP_REQUIRE (c, qabs (d - 1) <= relo, key_d, fn << ": residual rotation of " << mstr (M, 3) << " has determinant " << qstr (d) << " R=" << mstr (Rq, 2));
    };
    auto check_recomp = [&] (const quad* sq, quad hq, const Q2& Rq, quad lim, const char* fn, const char* key, int mid, const char* mname) {
        Q2   got = compose_shr2 (sq, hq, Rq);
        quad e   = row_rel_err (got, L, &wi, &wj, fl);
        MEAS (mid, mname, e / ke);
        VP_REQUIRE (c, e <= lim, key, fn << ": S*H*R differs from the linear part of " << mstr (M, 3) << " at [" << wi << "][" << wj << "]: got " << qstr (got[wi][wj]) << " want " << qstr (L[wi][wj]) << " (relative to row max " << qstr (e) << ", limit " << qstr (lim) << "); s=(" << qstr (sq[0]) << " " << qstr (sq[1]) << ") h=" << qstr (hq) << " R=" << mstr (Rq, 2));
    };
    VP_REQUIRE (c, rest_untouched (R0), "m33-core/translation-or-last-column-modified", "extractAndRemoveScalingAndShear changed row 2 / column 2 of " << mstr (M, 3) << " -> " << mstr (R0, 3));
    check_rot (R0q, "extractAndRemoveScalingAndShear", "m33-core/rotation-not-orthonormal", "m33-core/rotation-determinant");
    check_recomp (s0q, h0q, R0q, rel, "extractAndRemoveScalingAndShear", "m33-core/recompose", mo + 18, "m33 core recompose / (kappa eps)");
    {
        V2 s1;
        C12_TRY
        {
            bool ok = exc ? extractScaling (M, s1) : extractScaling (M, s1, false);
            VP_REQUIRE (c, ok, "m33-extractScaling/nondegenerate-reported-degenerate", "extractScaling returned false on " << mstr (M, 3));
        }
        C12_CATCH (c, "m33-extractScaling/nondegenerate-threw", "extractScaling(" << mstr (M, 3) << ")")
        quad s1q[2] = { (quad) s1[0], (quad) s1[1] };
        check_recomp (s1q, h0q, R0q, rel, "extractScaling", "m33-extractScaling/recompose", mo + 19, "m33 extractScaling recompose");
        V2 s2;
        T  h2;
        C12_TRY
        {
            bool ok = exc ? extractScalingAndShear (M, s2, h2) : extractScalingAndShear (M, s2, h2, false);
            VP_REQUIRE (c, ok, "m33-extractScalingAndShear/nondegenerate-reported-degenerate", "extractScalingAndShear returned false on " << mstr (M, 3));
        }
        C12_CATCH (c, "m33-extractScalingAndShear/nondegenerate-threw", "extractScalingAndShear(" << mstr (M, 3) << ")")
        quad s2q[2] = { (quad) s2[0], (quad) s2[1] };
        check_recomp (s2q, (quad) h2, R0q, rel, "extractScalingAndShear", "m33-extractScalingAndShear/recompose", mo + 20, "m33 extractScalingAndShear recompose");
    }
    {
        M33 X[2];
        C12_TRY
        {
            X[0]    = exc ? sansScalingAndShear (M) : sansScalingAndShear (M, false);
            X[1]    = M;
            bool ok = exc ? removeScalingAndShear (X[1]) : removeScalingAndShear (X[1], false);
            VP_REQUIRE (c, ok, "m33-removeScalingAndShear/nondegenerate-reported-degenerate", "removeScalingAndShear returned false on " << mstr (M, 3));
        }
        C12_CATCH (c, "m33-sansScalingAndShear/nondegenerate-threw", "sansScalingAndShear/removeScalingAndShear(" << mstr (M, 3) << ")")
        static const char* FN[2] = { "sansScalingAndShear", "removeScalingAndShear" };
        static const char* KO[2] = { "m33-sansScalingAndShear/rotation-not-orthonormal", "m33-removeScalingAndShear/rotation-not-orthonormal" };
        static const char* KD[2] = { "m33-sansScalingAndShear/rotation-determinant", "m33-removeScalingAndShear/rotation-determinant" };
        static const char* KR[2] = { "m33-sansScalingAndShear/recompose", "m33-removeScalingAndShear/recompose" };
        static const char* KT[2] = { "m33-sansScalingAndShear/translation", "m33-removeScalingAndShear/translation" };
        for (int k = 0; k < 2; ++k)
        {
            Q2 Rq = lin_of<2> (X[k]);
            VP_REQUIRE (c, rest_untouched (X[k]), KT[k], FN[k] << " of " << mstr (M, 3) << " = " << mstr (X[k], 3) << ": translation row / last column not preserved");
            check_rot (Rq, FN[k], KO[k], KD[k]);
            check_recomp (s0q, h0q, Rq, rel, FN[k], KR[k], mo + 21, "m33 sans/removeScalingAndShear recompose");
        }
    }
    const char* pending_key = nullptr; // failure attributed to a candidate genuine defect, raised last
    std::string pending_msg;
    T           r3 = 0;
    {
        V2 s3, t3;
        T  h3;
        C12_TRY
        {
            bool ok = exc ? extractSHRT (M, s3, h3, r3, t3) : extractSHRT (M, s3, h3, r3, t3, false);
            VP_REQUIRE (c, ok, "m33-extractSHRT/nondegenerate-reported-degenerate", "extractSHRT returned false on " << mstr (M, 3));
        }
        C12_CATCH (c, "m33-extractSHRT/nondegenerate-threw", "extractSHRT(" << mstr (M, 3) << ")")
        quad s3q[2] = { (quad) s3[0], (quad) s3[1] };
        check_recomp (s3q, (quad) h3, rot2 ((quad) r3), rela, "extractSHRT", "m33-extractSHRT/recompose", mo + 22, "m33 extractSHRT recompose");
        for (int j = 0; j < 2; ++j)
            VP_REQUIRE (c, same (t3[j], M[2][j]), "m33-extractSHRT/translation", "extractSHRT of " << mstr (M, 3) << " returns t=" << vstr (t3, 2));
    }
    {
        M33 X[2];
        C12_TRY
        {
            X[0]    = exc ? sansScaling (M) : sansScaling (M, false);
            X[1]    = M;
            bool ok = exc ? removeScaling (X[1]) : removeScaling (X[1], false);
            VP_REQUIRE (c, ok, "m33-removeScaling/nondegenerate-reported-degenerate", "removeScaling returned false on " << mstr (M, 3));
        }
        C12_CATCH (c, "m33-sansScaling/nondegenerate-threw", "sansScaling/removeScaling(" << mstr (M, 3) << ")")
        static const char* FN[2]  = { "sansScaling", "removeScaling" };
        static const char* KR[2]  = { "m33-sansScaling/scale-times-result", "m33-removeScaling/scale-times-result" };
        static const char* KT[2]  = { "m33-sansScaling/translation", "m33-removeScaling/translation" };
        static const char* KTK[2] = { "m33-sansScaling/translation-rotated", "m33-removeScaling/translation-rotated" };
        static const char* KC[2]  = { "m33-sansScaling/last-column", "m33-removeScaling/last-column" };
        for (int k = 0; k < 2; ++k)
        {
            Q2 got = lin_of<2> (X[k]);
            for (int i = 0; i < 2; ++i)
                for (int j = 0; j < 2; ++j)
                    got[i][j] *= s0q[i];
            quad e = row_rel_err (got, L, &wi, &wj, fl);
            MEAS (mo + 23, "m33 S*sansScaling / (kappa eps)", e / ke);
            VP_REQUIRE (c, e <= rela, KR[k], FN[k] << " of " << mstr (M, 3) << " = " << mstr (X[k], 3) << ": scale*result differs from M at [" << wi << "][" << wj << "] got " << qstr (got[wi][wj]) << " want " << qstr (L[wi][wj]) << " (relative " << qstr (e) << " limit " << qstr (rela) << "), scale=" << vstr (s0, 2));
            // translation must be the input's translation
            bool tok = true;
            for (int j = 0; j < 2; ++j)
                if (!(qabs ((quad) X[k][2][j] - (quad) M[2][j]) <= (quad) TT<T>::eps () * qabs ((quad) M[2][j]))) tok = false;
            if (!tok)
            {
                // candidate genuine defect (DESIGN.md section 6 item 4): the wrapper recomposes with Matrix33::rotate, which
                // post-multiplies, so the translation comes back rotated: t' = t * R(r).  Narrow key: only when the returned
                // translation is exactly that rotated vector (to rounding) and the rotation is not the identity.
                Q2   Rr = rot2 ((quad) r3);
                quad tx = (quad) M[2][0] * Rr[0][0] + (quad) M[2][1] * Rr[1][0], ty = (quad) M[2][0] * Rr[0][1] + (quad) M[2][1] * Rr[1][1];
                quad tm = qmax (qabs ((quad) M[2][0]), qabs ((quad) M[2][1]));
                quad sl = 8 * (quad) TT<T>::eps () * tm;
                if (r3 != 0 && qabs ((quad) X[k][2][0] - tx) <= sl && qabs ((quad) X[k][2][1] - ty) <= sl)
                {
                    // raised only after the remaining checks of this case have been made
                    if (!pending_key)
                    {
                        std::ostringstream o;
                        o << std::setprecision (17) << FN[k] << " of " << mstr (M, 3) << " = " << mstr (X[k], 3) << ": translation (" << (double) X[k][2][0] << " " << (double) X[k][2][1] << ") is the input translation (" << (double) M[2][0] << " " << (double) M[2][1] << ") rotated by the extracted angle " << (double) r3;
                        pending_key = KTK[k];
                        pending_msg = o.str ();
                    }
                }
                else
                    VP_FAIL (c, KT[k], FN[k] << " of " << mstr (M, 3) << " = " << mstr (X[k], 3) << " does not keep the translation (" << (double) M[2][0] << " " << (double) M[2][1] << ")");
            }
            if (r3 != 0 && (M[2][0] != 0 || M[2][1] != 0)) c.label (L2_ROT_AND_TRANSLATION);
            VP_REQUIRE (c, X[k][0][2] == 0 && X[k][1][2] == 0 && X[k][2][2] == 1, KC[k], FN[k] << " of " << mstr (M, 3) << " = " << mstr (X[k], 3) << " last column not (0,0,1)");
        }
    }
    if (pending_key) c.do_fail (pending_key, pending_msg);
}
#define C12_RULE_M33 "affine Matrix33 (2-D) from 4 classes (S*H*R*T factors incl. negative scales graded 2^+-13 and shear; U*diag*V^T graded conditioning; arbitrary real/integer entries; quarter turns), one row scaled down, global 2^+-gexp; oracle = quad recomposition per slot, tolerance K*kappa_eq*eps; non-trivial = kappa_eq > 10 or negative determinant"
VP_RANDOM (m33f_factor, 400000, 8000000, C12_RULE_M33) { m33_factor_case<float> (c); }
VP_LABELS (m33f_factor, L2_LABELS)
VP_REQUIRE_LABELS (m33f_factor, "negative_determinant", "cond_gt_10", "cond_gt_1000", "tiny_scale_row", "magnitude_2^20_off_unit", "sheared", "two_or_more_zero_entries")
VP_RANDOM (m33d_factor, 400000, 8000000, C12_RULE_M33) { m33_factor_case<double> (c); }
VP_LABELS (m33d_factor, L2_LABELS)
VP_REQUIRE_LABELS (m33d_factor, "negative_determinant", "cond_gt_10", "cond_gt_1000", "tiny_scale_row", "magnitude_2^20_off_unit", "sheared", "two_or_more_zero_entries")

#define C12_RULE_M33SUB "affine Matrix33 (2-D) from the 4 classes of m33*_factor, the linear part multiplied by the power of two that puts its largest entry at 2^e, e uniform in [denorm_min exponent + 6, smallest normal exponent + 2], then rounded to the type; every function must report success and return finite factors; oracle = quad recomposition per slot, tolerance K*kappa_eq*eps relative to (row max + smallest normal); non-trivial = kappa_eq > 10 or negative determinant"
VP_RANDOM (m33f_subnormal, 60000, 1200000, C12_RULE_M33SUB) { m33_factor_case<float> (c, MODE_SUBNORMAL); }
VP_LABELS (m33f_subnormal, L2_LABELS)
VP_REQUIRE_LABELS (m33f_subnormal, "negative_determinant", "cond_gt_10", "sheared", "all_linear_entries_subnormal", "largest_entry_below_1/max")
VP_RANDOM (m33d_subnormal, 60000, 1200000, C12_RULE_M33SUB) { m33_factor_case<double> (c, MODE_SUBNORMAL); }
VP_LABELS (m33d_subnormal, L2_LABELS)
VP_REQUIRE_LABELS (m33d_subnormal, "negative_determinant", "cond_gt_10", "sheared", "all_linear_entries_subnormal", "largest_entry_below_1/max")

#define C12_RULE_M33TOP "affine Matrix33 (2-D) from the 4 classes of m33*_factor, " C12_TOP_DESC "; oracle = quad recomposition per slot, tolerance K*kappa_eq*eps relative to the row max; non-trivial = kappa_eq > 10 or negative determinant"
VP_RANDOM (m33f_top, 40000, 800000, C12_RULE_M33TOP) { m33_factor_case<float> (c, MODE_TOP); }
VP_LABELS (m33f_top, L2_LABELS)
VP_REQUIRE_LABELS (m33f_top, "negative_determinant", "cond_gt_10", "sheared", "two_or_more_zero_entries", C12_TOP_REQ)
VP_RANDOM (m33d_top, 40000, 800000, C12_RULE_M33TOP) { m33_factor_case<double> (c, MODE_TOP); }
VP_LABELS (m33d_top, L2_LABELS)
VP_REQUIRE_LABELS (m33d_top, "negative_determinant", "cond_gt_10", "sheared", "two_or_more_zero_entries", C12_TOP_REQ)

// ===================================================================================================
// Degenerate input is reported, never decomposed
// ===================================================================================================
enum
{
    LD_ZERO_LINEAR,
    LD_ZERO_ROW,
    LD_DEPENDENT_ROWS,
    LD_SINGULAR_GENERAL,
    LD_DIM3,
    LD_DIM2,
    LD_EXC,
    LD_NOEXC
};
#define LD_LABELS "zero_linear_part", "zero_row", "axis_aligned_dependent_rows", "exactly_singular_general_directions", "matrix44", "matrix33", "exc_true", "exc_false"

// expects f() to throw std::domain_error
#define C12_MUST_THROW(c, key, desc, stmt)                                                                                          \
    do                                                                                                                              \
    {                                                                                                                               \
        bool thrown_ = false;                                                                                                       \
        try                                                                                                                         \
        {                                                                                                                           \
            stmt;                                                                                                                   \
        }                                                                                                                           \
        catch (const std::domain_error&)                                                                                            \
        {                                                                                                                           \
            thrown_ = true;                                                                                                         \
        }                                                                                                                           \
        catch (const std::exception& e_)                                                                                            \
        {                                                                                                                           \
            VP_FAIL (c, key, desc << " threw " << e_.what () << " which is not a std::domain_error");                               \
        }                                                                                                                           \
        VP_REQUIRE (c, thrown_, key, desc << " did not throw std::domain_error on a degenerate matrix");                            \
    } while (0)

template <class T> static void degen_case (vp::Ctx& c)
{
    vp::Src& s   = c.s;
    bool     d3  = s.coin ();
    bool     exc = s.coin ();
    int      N   = d3 ? 3 : 2;
    c.label (d3 ? LD_DIM3 : LD_DIM2);
    c.label (exc ? LD_EXC : LD_NOEXC);
    // Degenerate linear part whose Gram-Schmidt residual is exactly zero in floating point (so that the
    // documented test "scale is zero" must fire): zero matrix; a zero row; rows that are dependent through
    // axis-aligned directions (row0 = a*e_p, row1 = b*e_p [+ c*e_q, row2 = d*e_p + f*e_q]).
    T   Lm[3][3] = { { 0, 0, 0 }, { 0, 0, 0 }, { 0, 0, 0 } };
    int kind     = (int) s.below (4);
    auto val     = [&] () -> T {
        T v = (T) std::ldexp ((double) s.range (1, 15), (int) s.range (-3, 3));
        return s.coin () ? -v : v;
    };
    int gk = rare (s, 64) ? (int) s.range (-TT<T>::gexp (), TT<T>::gexp ()) : 0;
    if (kind == 0)
        c.label (LD_ZERO_LINEAR);
    else if (kind == 1)
    {
        c.label (LD_ZERO_ROW);
        int zr = (int) s.below (N);
        for (int i = 0; i < N; ++i)
            for (int j = 0; j < N; ++j)
                Lm[i][j] = i == zr ? (T) 0 : (T) s.uniform (-4, 4);
        if (s.coin ()) // make the other rows a well-conditioned frame so that only the zero row is at fault
            for (int i = 0; i < N; ++i)
                for (int j = 0; j < N; ++j)
                    Lm[i][j] = i == zr ? (T) 0 : (T) (i == j ? 2 : (j > i ? 0.5 : 0));
    }
    else if (kind == 3)
    {
        // exactly singular with rows in general directions (small integers): row1 = a*row0, or row2 = a*row0 + b*row1.
        // Gram-Schmidt leaves a rounding residue instead of an exact zero here.
        c.label (LD_SINGULAR_GENERAL);
        int r0[3], r1[3], a = (int) s.range (-2, 2), b = (int) s.range (-2, 2);
        for (int j = 0; j < 3; ++j)
        {
            r0[j] = (int) s.range (-4, 4);
            r1[j] = (int) s.range (-4, 4);
        }
        bool second = d3 && s.coin ();
        for (int j = 0; j < N; ++j)
        {
            Lm[0][j] = (T) r0[j];
            Lm[1][j] = second ? (T) r1[j] : (T) (a * r0[j]);
            if (d3) Lm[2][j] = second ? (T) (a * r0[j] + b * r1[j]) : (T) r1[j];
        }
    }
    else
    {
        c.label (LD_DEPENDENT_ROWS);
        static const int P[6][3] = { { 0, 1, 2 }, { 1, 2, 0 }, { 2, 0, 1 }, { 0, 2, 1 }, { 2, 1, 0 }, { 1, 0, 2 } };
        if (d3)
        {
            const int* ax = P[s.below (6)];
            Lm[0][ax[0]]  = val ();
            Lm[1][ax[0]]  = s.coin () ? val () : (T) 0;
            if (s.coin ())
            {
                // degenerate at y: row1 parallel to row0 (row1 may also be zero), row2 arbitrary
                if (Lm[1][ax[0]] == 0) Lm[1][ax[0]] = val ();
                for (int j = 0; j < 3; ++j)
                    Lm[2][j] = (T) s.uniform (-4, 4);
            }
            else
            {
                // degenerate at z: row2 in the span of rows 0 and 1
                Lm[1][ax[1]] = val ();
                Lm[2][ax[0]] = s.coin () ? val () : (T) 0;
                Lm[2][ax[1]] = val ();
            }
        }
        else
        {
            int p    = (int) s.below (2);
            Lm[0][p] = val ();
            Lm[1][p] = val ();
        }
    }
    for (int i = 0; i < N; ++i)
        for (int j = 0; j < N; ++j)
            Lm[i][j] = (T) std::ldexp ((double) Lm[i][j], gk);
    T t[3];
    gen_translation<T> (s, t, 3);
    c.nt (kind != 0);
    if (d3)
    {
        typedef Matrix44<T> M44;
        typedef Vec3<T>     V3;
        M44                 M;
        for (int i = 0; i < 3; ++i)
            for (int j = 0; j < 3; ++j)
                M[i][j] = Lm[i][j];
        for (int j = 0; j < 3; ++j)
            M[3][j] = t[j];
        VP_NOTE (c, "degenerate M44<" << TT<T>::nm () << "> " << mstr (M, 4) << " kind=" << kind << " exc=" << exc);
        M44 other; // a non-degenerate partner / fallback
        other.setScale (V3 (2, 3, 4));
        other[3][0] = 5;
        V3       sv, hv, rv, tv;
        Euler<T> eu (Euler<T>::ZXY);
        if (kind == 3)
        {
            // candidate finding: only an exactly zero Gram-Schmidt residual is recognised as a zero scale, so most
            // exactly singular matrices are decomposed (with a scale at rounding level and a huge shear).  Own key.
            bool reported;
            try
            {
                M44 X    = M;
                reported = !extractAndRemoveScalingAndShear (X, sv, hv, exc);
            }
            catch (const std::domain_error&)
            {
                reported = true;
            }
            VP_REQUIRE (c, reported, "degenerate-m44/exactly-singular-not-reported", "extractAndRemoveScalingAndShear(" << mstr (M, 4) << ") decomposes an exactly singular matrix: scale " << v3s (sv) << " shear " << v3s (hv));
        }
        if (exc)
        {
            C12_MUST_THROW (c, "degenerate-m44/extractScaling-no-throw", "extractScaling(" << mstr (M, 4) << ")", extractScaling (M, sv, true));
            C12_MUST_THROW (c, "degenerate-m44/sansScaling-no-throw", "sansScaling(" << mstr (M, 4) << ")", sansScaling (M, true));
            {
                M44 X = M;
                C12_MUST_THROW (c, "degenerate-m44/removeScaling-no-throw", "removeScaling(" << mstr (M, 4) << ")", removeScaling (X, true));
                VP_REQUIRE (c, same_mat (X, M, 4), "degenerate-m44/removeScaling-modified", "removeScaling threw but modified " << mstr (M, 4) << " -> " << mstr (X, 4));
            }
            C12_MUST_THROW (c, "degenerate-m44/extractScalingAndShear-no-throw", "extractScalingAndShear(" << mstr (M, 4) << ")", extractScalingAndShear (M, sv, hv, true));
            C12_MUST_THROW (c, "degenerate-m44/sansScalingAndShear-no-throw", "sansScalingAndShear(" << mstr (M, 4) << ")", sansScalingAndShear (M, true));
            {
                M44 X = M;
                C12_MUST_THROW (c, "degenerate-m44/sansScalingAndShear2-no-throw", "sansScalingAndShear(result,m)(" << mstr (M, 4) << ")", sansScalingAndShear (X, other, true));
            }
            {
                M44 X = M;
                C12_MUST_THROW (c, "degenerate-m44/removeScalingAndShear-no-throw", "removeScalingAndShear(" << mstr (M, 4) << ")", removeScalingAndShear (X, true));
                VP_REQUIRE (c, same_mat (X, M, 4), "degenerate-m44/removeScalingAndShear-modified", "removeScalingAndShear threw but modified " << mstr (M, 4) << " -> " << mstr (X, 4));
            }
            {
                M44 X = M;
                C12_MUST_THROW (c, "degenerate-m44/core-no-throw", "extractAndRemoveScalingAndShear(" << mstr (M, 4) << ")", extractAndRemoveScalingAndShear (X, sv, hv, true));
                VP_REQUIRE (c, same_mat (X, M, 4), "degenerate-m44/core-modified", "extractAndRemoveScalingAndShear threw but modified " << mstr (M, 4) << " -> " << mstr (X, 4));
            }
            C12_MUST_THROW (c, "degenerate-m44/extractSHRT-no-throw", "extractSHRT(" << mstr (M, 4) << ")", extractSHRT (M, sv, hv, rv, tv, true));
            C12_MUST_THROW (c, "degenerate-m44/extractSHRT-order-no-throw", "extractSHRT(order)(" << mstr (M, 4) << ")", extractSHRT (M, sv, hv, rv, tv, true, Euler<T>::YXZ));
            C12_MUST_THROW (c, "degenerate-m44/extractSHRT-euler-no-throw", "extractSHRT(Euler)(" << mstr (M, 4) << ")", extractSHRT (M, sv, hv, eu, tv, true));
        }
        else
        {
            try
            {
                VP_REQUIRE (c, !extractScaling (M, sv, false), "degenerate-m44/extractScaling-decomposed", "extractScaling(" << mstr (M, 4) << ", exc=false) returned true, scale " << v3s (sv));
                {
                    M44 X = sansScaling (M, false);
                    VP_REQUIRE (c, same_mat (X, M, 4), "degenerate-m44/sansScaling-not-input", "sansScaling(" << mstr (M, 4) << ", exc=false) returned " << mstr (X, 4) << " instead of the input");
                }
                {
                    M44  X = M;
                    bool r = removeScaling (X, false);
                    VP_REQUIRE (c, !r, "degenerate-m44/removeScaling-decomposed", "removeScaling(" << mstr (M, 4) << ", exc=false) returned true");
                    VP_REQUIRE (c, same_mat (X, M, 4), "degenerate-m44/removeScaling-modified", "removeScaling returned false but modified " << mstr (M, 4) << " -> " << mstr (X, 4));
                }
                VP_REQUIRE (c, !extractScalingAndShear (M, sv, hv, false), "degenerate-m44/extractScalingAndShear-decomposed", "extractScalingAndShear(" << mstr (M, 4) << ", exc=false) returned true");
                {
                    M44 X = sansScalingAndShear (M, false);
                    VP_REQUIRE (c, same_mat (X, M, 4), "degenerate-m44/sansScalingAndShear-not-input", "sansScalingAndShear(" << mstr (M, 4) << ", exc=false) returned " << mstr (X, 4) << " instead of the input");
                }
                {
                    M44 X = M;
                    sansScalingAndShear (X, other, false);
                    VP_REQUIRE (c, same_mat (X, other, 4), "degenerate-m44/sansScalingAndShear2-not-fallback", "sansScalingAndShear(result,m,false) with degenerate result " << mstr (M, 4) << " left " << mstr (X, 4) << " instead of m");
                }
                {
                    M44  X = M;
                    bool r = removeScalingAndShear (X, false);
                    VP_REQUIRE (c, !r, "degenerate-m44/removeScalingAndShear-decomposed", "removeScalingAndShear(" << mstr (M, 4) << ", exc=false) returned true");
                    VP_REQUIRE (c, same_mat (X, M, 4), "degenerate-m44/removeScalingAndShear-modified", "removeScalingAndShear returned false but modified " << mstr (M, 4) << " -> " << mstr (X, 4));
                }
                {
                    M44  X = M;
                    bool r = extractAndRemoveScalingAndShear (X, sv, hv, false);
                    VP_REQUIRE (c, !r, "degenerate-m44/core-decomposed", "extractAndRemoveScalingAndShear(" << mstr (M, 4) << ", exc=false) returned true");
                    VP_REQUIRE (c, same_mat (X, M, 4), "degenerate-m44/core-modified", "extractAndRemoveScalingAndShear returned false but modified " << mstr (M, 4) << " -> " << mstr (X, 4));
                }
                VP_REQUIRE (c, !extractSHRT (M, sv, hv, rv, tv, false), "degenerate-m44/extractSHRT-decomposed", "extractSHRT(" << mstr (M, 4) << ", exc=false) returned true");
                VP_REQUIRE (c, !extractSHRT (M, sv, hv, rv, tv, false, Euler<T>::YXZ), "degenerate-m44/extractSHRT-order-decomposed", "extractSHRT(order)(" << mstr (M, 4) << ", exc=false) returned true");
                VP_REQUIRE (c, !extractSHRT (M, sv, hv, eu, tv, false), "degenerate-m44/extractSHRT-euler-decomposed", "extractSHRT(Euler)(" << mstr (M, 4) << ", exc=false) returned true");
            }
            catch (const std::exception& e)
            {
                VP_FAIL (c, "degenerate-m44/threw-with-exc-false", "exc=false but " << e.what () << " was thrown for " << mstr (M, 4));
            }
        }
        // computeRSMatrix has no exc parameter: a degenerate A or B is always a std::domain_error
        bool ka = s.coin (), ks = s.coin ();
        if (s.coin ())
            C12_MUST_THROW (c, "degenerate-m44/computeRSMatrix-A-no-throw", "computeRSMatrix(A=" << mstr (M, 4) << ")", computeRSMatrix (ka, ks, M, other));
        else
            C12_MUST_THROW (c, "degenerate-m44/computeRSMatrix-B-no-throw", "computeRSMatrix(B=" << mstr (M, 4) << ")", computeRSMatrix (ka, ks, other, M));
    }
    else
    {
        typedef Matrix33<T> M33;
        typedef Vec2<T>     V2;
        M33                 M;
        for (int i = 0; i < 2; ++i)
            for (int j = 0; j < 2; ++j)
                M[i][j] = Lm[i][j];
        M[2][0] = t[0];
        M[2][1] = t[1];
        VP_NOTE (c, "degenerate M33<" << TT<T>::nm () << "> " << mstr (M, 3) << " kind=" << kind << " exc=" << exc);
        V2 sv, tv;
        T  hv, rv;
        if (kind == 3)
        {
            bool reported;
            try
            {
                M33 X    = M;
                reported = !extractAndRemoveScalingAndShear (X, sv, hv, exc);
            }
            catch (const std::domain_error&)
            {
                reported = true;
            }
            VP_REQUIRE (c, reported, "degenerate-m33/exactly-singular-not-reported", "extractAndRemoveScalingAndShear(" << mstr (M, 3) << ") decomposes an exactly singular matrix: scale " << vstr (sv, 2) << " shear " << hv);
        }
        if (exc)
        {
            C12_MUST_THROW (c, "degenerate-m33/extractScaling-no-throw", "extractScaling(" << mstr (M, 3) << ")", extractScaling (M, sv, true));
            C12_MUST_THROW (c, "degenerate-m33/sansScaling-no-throw", "sansScaling(" << mstr (M, 3) << ")", sansScaling (M, true));
            {
                M33 X = M;
                C12_MUST_THROW (c, "degenerate-m33/removeScaling-no-throw", "removeScaling(" << mstr (M, 3) << ")", removeScaling (X, true));
                VP_REQUIRE (c, same_mat (X, M, 3), "degenerate-m33/removeScaling-modified", "removeScaling threw but modified " << mstr (M, 3) << " -> " << mstr (X, 3));
            }
            C12_MUST_THROW (c, "degenerate-m33/extractScalingAndShear-no-throw", "extractScalingAndShear(" << mstr (M, 3) << ")", extractScalingAndShear (M, sv, hv, true));
            C12_MUST_THROW (c, "degenerate-m33/sansScalingAndShear-no-throw", "sansScalingAndShear(" << mstr (M, 3) << ")", sansScalingAndShear (M, true));
            {
                M33 X = M;
                C12_MUST_THROW (c, "degenerate-m33/removeScalingAndShear-no-throw", "removeScalingAndShear(" << mstr (M, 3) << ")", removeScalingAndShear (X, true));
                VP_REQUIRE (c, same_mat (X, M, 3), "degenerate-m33/removeScalingAndShear-modified", "removeScalingAndShear threw but modified " << mstr (M, 3) << " -> " << mstr (X, 3));
            }
            {
                M33 X = M;
                C12_MUST_THROW (c, "degenerate-m33/core-no-throw", "extractAndRemoveScalingAndShear(" << mstr (M, 3) << ")", extractAndRemoveScalingAndShear (X, sv, hv, true));
                VP_REQUIRE (c, same_mat (X, M, 3), "degenerate-m33/core-modified", "extractAndRemoveScalingAndShear threw but modified " << mstr (M, 3) << " -> " << mstr (X, 3));
            }
            C12_MUST_THROW (c, "degenerate-m33/extractSHRT-no-throw", "extractSHRT(" << mstr (M, 3) << ")", extractSHRT (M, sv, hv, rv, tv, true));
        }
        else
        {
            try
            {
                VP_REQUIRE (c, !extractScaling (M, sv, false), "degenerate-m33/extractScaling-decomposed", "extractScaling(" << mstr (M, 3) << ", exc=false) returned true, scale " << vstr (sv, 2));
                {
                    M33 X = sansScaling (M, false);
                    VP_REQUIRE (c, same_mat (X, M, 3), "degenerate-m33/sansScaling-not-input", "sansScaling(" << mstr (M, 3) << ", exc=false) returned " << mstr (X, 3) << " instead of the input");
                }
                {
                    M33  X = M;
                    bool r = removeScaling (X, false);
                    VP_REQUIRE (c, !r, "degenerate-m33/removeScaling-decomposed", "removeScaling(" << mstr (M, 3) << ", exc=false) returned true");
                    VP_REQUIRE (c, same_mat (X, M, 3), "degenerate-m33/removeScaling-modified", "removeScaling returned false but modified " << mstr (M, 3) << " -> " << mstr (X, 3));
                }
                VP_REQUIRE (c, !extractScalingAndShear (M, sv, hv, false), "degenerate-m33/extractScalingAndShear-decomposed", "extractScalingAndShear(" << mstr (M, 3) << ", exc=false) returned true");
                {
                    M33 X = sansScalingAndShear (M, false);
                    VP_REQUIRE (c, same_mat (X, M, 3), "degenerate-m33/sansScalingAndShear-not-input", "sansScalingAndShear(" << mstr (M, 3) << ", exc=false) returned " << mstr (X, 3) << " instead of the input");
                }
                {
                    M33  X = M;
                    bool r = removeScalingAndShear (X, false);
                    VP_REQUIRE (c, !r, "degenerate-m33/removeScalingAndShear-decomposed", "removeScalingAndShear(" << mstr (M, 3) << ", exc=false) returned true");
                    VP_REQUIRE (c, same_mat (X, M, 3), "degenerate-m33/removeScalingAndShear-modified", "removeScalingAndShear returned false but modified " << mstr (M, 3) << " -> " << mstr (X, 3));
                }
                {
                    M33  X = M;
                    bool r = extractAndRemoveScalingAndShear (X, sv, hv, false);
                    VP_REQUIRE (c, !r, "degenerate-m33/core-decomposed", "extractAndRemoveScalingAndShear(" << mstr (M, 3) << ", exc=false) returned true");
                    VP_REQUIRE (c, same_mat (X, M, 3), "degenerate-m33/core-modified", "extractAndRemoveScalingAndShear returned false but modified " << mstr (M, 3) << " -> " << mstr (X, 3));
                }
                VP_REQUIRE (c, !extractSHRT (M, sv, hv, rv, tv, false), "degenerate-m33/extractSHRT-decomposed", "extractSHRT(" << mstr (M, 3) << ", exc=false) returned true");
            }
            catch (const std::exception& e)
            {
                VP_FAIL (c, "degenerate-m33/threw-with-exc-false", "exc=false but " << e.what () << " was thrown for " << mstr (M, 3));
            }
        }
    }
}
#define C12_RULE_DEGEN "Matrix44 / Matrix33 whose linear part is exactly degenerate in a way Gram-Schmidt sees as an exactly zero scale (zero matrix, a zero row, rows dependent through axis-aligned directions) and exactly singular integer matrices with rows in general directions, any translation, power-of-two magnitudes; every function of the family must return false / the input (exc=false) or throw std::domain_error (exc=true) and leave in-place arguments bit-identical; non-trivial = not the all-zero linear part"
VP_RANDOM (degen_f, 200000, 2000000, C12_RULE_DEGEN) { degen_case<float> (c); }
VP_LABELS (degen_f, LD_LABELS)
VP_REQUIRE_LABELS (degen_f, "zero_linear_part", "zero_row", "axis_aligned_dependent_rows", "exactly_singular_general_directions", "matrix44", "matrix33", "exc_true", "exc_false")
VP_RANDOM (degen_d, 200000, 2000000, C12_RULE_DEGEN) { degen_case<double> (c); }
VP_LABELS (degen_d, LD_LABELS)
VP_REQUIRE_LABELS (degen_d, "zero_linear_part", "zero_row", "axis_aligned_dependent_rows", "exactly_singular_general_directions", "matrix44", "matrix33", "exc_true", "exc_false")

// ---------------------------------------------------------------------------------------------------
// checkForZeroScaleInRow: false / domain_error exactly when dividing some row entry by scl would overflow
enum
{
    LG_OVERFLOW,
    LG_SAFE,
    LG_BOUNDARY,
    LG_ZERO_SCALE,
    LG_VEC2,
    LG_VEC3
};
#define LG_LABELS "would_overflow", "safe", "within_4eps_of_threshold", "zero_scale", "vec2_row", "vec3_row"
template <class T> static void guard_case (vp::Ctx& c)
{
    vp::Src& s   = c.s;
    bool     v3  = s.coin ();
    bool     exc = s.coin ();
    int      N   = v3 ? 3 : 2;
    const T  mx  = std::numeric_limits<T>::max ();
    int      emax = std::numeric_limits<T>::max_exponent, emin = std::numeric_limits<T>::min_exponent - std::numeric_limits<T>::digits;
    T        scl;
    switch (s.below (5))
    {
        case 0: scl = 0; break;
        case 1: scl = (T) std::ldexp (1.0 + s.unit (), (int) s.range (emin, -1)); break;
        case 2: scl = (T) std::ldexp (1.0 + s.unit (), (int) s.range (-emax + 2, -emax / 2)); break;
        case 3: scl = (T) std::ldexp (1.0 + s.unit (), (int) s.range (0, 20)); break;
        default: scl = (T) s.uniform (0, 1); break;
    }
    if (s.coin ()) scl = -scl;
    T    row[3] = { 0, 0, 0 };
    quad thr    = (quad) mx * qabs ((quad) scl); // row entries at or above this overflow when divided by scl
    for (int i = 0; i < N; ++i)
    {
        switch (s.below (4))
        {
            case 0: row[i] = 0; break;
            case 1: row[i] = (T) std::ldexp (1.0 + s.unit (), (int) s.range (emin, emax - 1)); break;
            case 2: {
                // near the threshold
                quad v = thr * (1 + (quad) s.uniform (-1e-3, 1e-3));
                row[i] = v < (quad) mx ? (T) v : mx;
                break;
            }
            default: row[i] = (T) s.uniform (-4, 4); break;
        }
        if (s.coin ()) row[i] = -row[i];
    }
    bool must_fail = false, may_fail = false, boundary = false;
    if (qabs ((quad) scl) < 1)
        for (int i = 0; i < N; ++i)
        {
            quad a = qabs ((quad) row[i]);
            // the library compares against the rounded product max*|scl|: leave 4 eps of slack around it
            if (a >= thr * (1 + 4 * (quad) TT<T>::eps ()) || (thr == 0)) must_fail = true;
            if (a >= thr * (1 - 4 * (quad) TT<T>::eps ())) may_fail = true;
        }
    boundary = may_fail && !must_fail;
    c.label (v3 ? LG_VEC3 : LG_VEC2);
    if (must_fail) c.label (LG_OVERFLOW);
    if (!may_fail) c.label (LG_SAFE);
    if (boundary) c.label (LG_BOUNDARY);
    if (scl == 0) c.label (LG_ZERO_SCALE);
    c.nt (must_fail || boundary);
    VP_NOTE (c, TT<T>::nm () << " scl=" << scl << " row=(" << row[0] << " " << row[1] << " " << row[2] << ") n=" << N << " exc=" << exc);
    bool result = true, threw = false;
    try
    {
        result = v3 ? checkForZeroScaleInRow (scl, Vec3<T> (row[0], row[1], row[2]), exc) : checkForZeroScaleInRow (scl, Vec2<T> (row[0], row[1]), exc);
    }
    catch (const std::domain_error&)
    {
        threw = true;
    }
    if (!exc) VP_REQUIRE (c, !threw, "guard/threw-with-exc-false", "checkForZeroScaleInRow(" << scl << ", row, false) threw");
    bool reported = threw || !result;
    if (exc) VP_REQUIRE (c, threw || result, "guard/false-with-exc-true", "checkForZeroScaleInRow(" << scl << ", row, true) returned false instead of throwing");
    if (must_fail) VP_REQUIRE (c, reported, "guard/overflow-not-reported", "checkForZeroScaleInRow(" << scl << ", (" << row[0] << " " << row[1] << " " << row[2] << ")) accepts a row whose quotient overflows");
    if (!may_fail) VP_REQUIRE (c, !reported, "guard/safe-row-rejected", "checkForZeroScaleInRow(" << scl << ", (" << row[0] << " " << row[1] << " " << row[2] << ")) rejects a row that can be divided safely");
}
#define C12_RULE_GUARD "scale from 5 classes (0, subnormal..1, near 1/max, >= 1, uniform) and rows mixing 0, any finite magnitude and values within 1e-3 of max*|scl|; oracle = exact quad comparison |row_i| >= max*|scl| with 4 eps of indifference; non-trivial = must be reported or within the indifference band"
VP_RANDOM (guard_f, 300000, 3000000, C12_RULE_GUARD) { guard_case<float> (c); }
VP_LABELS (guard_f, LG_LABELS)
VP_REQUIRE_LABELS (guard_f, "would_overflow", "safe", "zero_scale", "vec2_row", "vec3_row")
VP_RANDOM (guard_d, 300000, 3000000, C12_RULE_GUARD) { guard_case<double> (c); }
VP_LABELS (guard_d, LG_LABELS)
VP_REQUIRE_LABELS (guard_d, "would_overflow", "safe", "zero_scale", "vec2_row", "vec3_row")

// ===================================================================================================
// computeRSMatrix
// ===================================================================================================
// Textbook factorisation M = S*H*R (Thomas, Graphics Gems II) in quad: Gram-Schmidt on the rows; when the
// frame is left-handed all three scales and the frame are negated (the documented convention of the library).
static void qdecompose3 (const Q3& L, quad s[3], quad h[3], Q3& R)
{
    quad r[3][3];
    for (int i = 0; i < 3; ++i)
        for (int j = 0; j < 3; ++j)
            r[i][j] = L[i][j];
    auto dot = [&] (int a, int b) { return r[a][0] * r[b][0] + r[a][1] * r[b][1] + r[a][2] * r[b][2]; };
    auto nrm = [&] (int a) {
        quad l = sqrtq (dot (a, a));
        for (int j = 0; j < 3; ++j)
            r[a][j] /= l;
        return l;
    };
    s[0] = nrm (0);
    h[0] = dot (0, 1);
    for (int j = 0; j < 3; ++j)
        r[1][j] -= h[0] * r[0][j];
    s[1] = nrm (1);
    h[0] /= s[1];
    h[1] = dot (0, 2);
    for (int j = 0; j < 3; ++j)
        r[2][j] -= h[1] * r[0][j];
    h[2] = dot (1, 2);
    for (int j = 0; j < 3; ++j)
        r[2][j] -= h[2] * r[1][j];
    s[2] = nrm (2);
    h[1] /= s[2];
    h[2] /= s[2];
    for (int i = 0; i < 3; ++i)
        for (int j = 0; j < 3; ++j)
            R[i][j] = r[i][j];
    if (det (R) < 0)
        for (int i = 0; i < 3; ++i)
        {
            s[i] = -s[i];
            for (int j = 0; j < 3; ++j)
                R[i][j] = -R[i][j];
        }
}
enum
{
    LR_KEEP_BOTH,
    LR_KEEP_ROT,
    LR_KEEP_SCALE,
    LR_KEEP_NONE,
    LR_NEGDET_A,
    LR_NEGDET_B,
    LR_SHEARED,
    LR_SUBNORMAL_A,
    LR_SUBNORMAL_B,
    LR_TOP_A,
    LR_TOP_B,
    LR_TOP_ROWSUM
};
#define LR_LABELS "rotate_A_scale_A", "rotate_A_scale_B", "rotate_B_scale_A", "rotate_B_scale_B", "A_negative_determinant", "B_negative_determinant", "sheared_input", "A_linear_part_subnormal", "B_linear_part_subnormal", "A_linear_part_top_of_range", "B_linear_part_top_of_range", "row_abs_sum_of_A_or_B_overflows"
static const double K_RS = 8; // x (kappa_A + kappa_B) eps, per slot relative to |scale|; measured worst over 1e6 cases per type: 1.17 (float) 1.27 (double)
// mode MODE_SUBNORMAL / MODE_TOP: the linear part of A, of B or of both is scaled into the subnormal range / to the top of the range of T
template <class T> static void rsmatrix_case (vp::Ctx& c, int mode = MODE_NORMAL)
{
    typedef Matrix44<T> M44;
    vp::Src&            s = c.s;
    Aff44<T>            A, B;
    int                 which = mode != MODE_NORMAL ? 1 + (int) s.below (3) : 0; // bit 0: A, bit 1: B
    gen_affine44<T> (c, A, -1, (which & 1) != 0 ? mode : (int) MODE_NORMAL);
    gen_affine44<T> (c, B, -1, (which & 2) != 0 ? mode : (int) MODE_NORMAL);
    bool kr = s.coin (), ks = s.coin ();
    VP_NOTE (c, "computeRSMatrix<" << TT<T>::nm () << ">(keepRotateA=" << kr << ", keepScaleA=" << ks << ", A=" << mstr (A.M, 4) << ", B=" << mstr (B.M, 4) << ")");
    c.label (kr ? (ks ? LR_KEEP_BOTH : LR_KEEP_ROT) : (ks ? LR_KEEP_SCALE : LR_KEEP_NONE));
    if (A.negdet) c.label (LR_NEGDET_A);
    if (B.negdet) c.label (LR_NEGDET_B);
    if (A.sheared || B.sheared) c.label (LR_SHEARED);
    if (A.subnormal) c.label (LR_SUBNORMAL_A);
    if (B.subnormal) c.label (LR_SUBNORMAL_B);
    if (mode == MODE_TOP && (which & 1) != 0) c.label (LR_TOP_A);
    if (mode == MODE_TOP && (which & 2) != 0) c.label (LR_TOP_B);
    if (A.top.rowsum || B.top.rowsum) c.label (LR_TOP_ROWSUM);
    c.nt (!(kr && ks));
    quad sa[3], ha[3], sb[3], hb[3];
    Q3   Ra, Rb;
    qdecompose3 (A.L, sa, ha, Ra);
    qdecompose3 (B.L, sb, hb, Rb);
    const quad* ss = ks ? sa : sb;
    const Q3&   Rs = kr ? Ra : Rb;
    M44         X;
    try
    {
        X = computeRSMatrix (kr, ks, A.M, B.M);
    }
    catch (const std::exception& e)
    {
        VP_FAIL (c, "computeRSMatrix/nondegenerate-threw", "computeRSMatrix threw " << e.what () << " for A=" << mstr (A.M, 4) << " B=" << mstr (B.M, 4));
    }
    Q3 want, got = lin_of<3> (X);
    for (int i = 0; i < 3; ++i)
        for (int j = 0; j < 3; ++j)
            want[i][j] = ss[i] * Rs[i][j];
    const quad unit = ((quad) A.kappa + (quad) B.kappa) * (quad) TT<T>::eps ();
    // a subnormal scale (and the slots of the result built from it) carries an absolute error of denorm_min/2 =
    // eps/2 * smallest normal: measure relative to |scale| + smallest normal (no effect on scales in the normal range)
    const quad fl = q2pow (FInfo<T>::minexp);
    // rows of a rotation have entries that can be arbitrarily small: compare relative to |scale| (the row's length)
    for (int i = 0; i < 3; ++i)
        for (int j = 0; j < 3; ++j)
        {
            quad d = qabs (got[i][j] - want[i][j]);
            if (!(d == d)) d = (quad) 1e300;
            MEAS (TT<T>::off () + 96 * mode + 26, "computeRSMatrix / ((kA+kB) eps |s|)", d / (unit * (qabs (ss[i]) + fl)));
            VP_REQUIRE (c, d <= (quad) K_RS * unit * (qabs (ss[i]) + fl), "computeRSMatrix/scale-rotation-slot", "computeRSMatrix(keepRotateA=" << kr << ", keepScaleA=" << ks << ") slot [" << i << "][" << j << "] = " << qstr (got[i][j]) << ", S*R of the selected factors = " << qstr (want[i][j]) << " (scale " << qstr (ss[i]) << "); A=" << mstr (A.M, 4) << " B=" << mstr (B.M, 4) << " result=" << mstr (X, 4));
        }
    for (int j = 0; j < 3; ++j)
    {
        quad d = qabs ((quad) X[3][j] - (quad) A.M[3][j]);
        VP_REQUIRE (c, d <= (quad) TT<T>::eps () * qabs ((quad) A.M[3][j]), "computeRSMatrix/translation", "computeRSMatrix translation (" << (double) X[3][0] << " " << (double) X[3][1] << " " << (double) X[3][2] << ") is not A's (" << (double) A.M[3][0] << " " << (double) A.M[3][1] << " " << (double) A.M[3][2] << ")");
        VP_REQUIRE (c, X[j][3] == 0, "computeRSMatrix/last-column", "computeRSMatrix result " << mstr (X, 4) << " last column not (0,0,0,1)");
    }
    VP_REQUIRE (c, X[3][3] == 1, "computeRSMatrix/last-column", "computeRSMatrix result " << mstr (X, 4) << " last column not (0,0,0,1)");
}
#define C12_RULE_RS "two independent affine Matrix44 from the classes of m44*_factor and both flags; oracle = S*R*T_A with S and R taken from a quad Gram-Schmidt factorisation (all scales negated for left-handed input) of A or B as selected; tolerance K*(kappa_A+kappa_B)*eps*|scale|; non-trivial = at least one factor taken from B"
VP_RANDOM (rsmatrix_f, 250000, 5000000, C12_RULE_RS) { rsmatrix_case<float> (c); }
VP_LABELS (rsmatrix_f, LR_LABELS)
VP_REQUIRE_LABELS (rsmatrix_f, "rotate_A_scale_A", "rotate_A_scale_B", "rotate_B_scale_A", "rotate_B_scale_B", "A_negative_determinant", "B_negative_determinant", "sheared_input")
VP_RANDOM (rsmatrix_d, 250000, 5000000, C12_RULE_RS) { rsmatrix_case<double> (c); }
VP_LABELS (rsmatrix_d, LR_LABELS)
VP_REQUIRE_LABELS (rsmatrix_d, "rotate_A_scale_A", "rotate_A_scale_B", "rotate_B_scale_A", "rotate_B_scale_B", "A_negative_determinant", "B_negative_determinant", "sheared_input")

// measured worst over 8e5 cases per type: 0.99 (float) 1.34 (double) of (kappa_A+kappa_B)*eps*(|scale| + smallest normal); limit K_RS = 8
#define C12_RULE_RSSUB "as rsmatrix_*, with the linear part of A, of B or of both scaled by a power of two into the subnormal range of the type (largest entry at 2^e, e from denorm_min exponent + 6 to smallest normal exponent + 2); tolerance K*(kappa_A+kappa_B)*eps*(|scale| + smallest normal); non-trivial = at least one factor taken from B"
VP_RANDOM (rsmatrix_f_subnormal, 40000, 800000, C12_RULE_RSSUB) { rsmatrix_case<float> (c, MODE_SUBNORMAL); }
VP_LABELS (rsmatrix_f_subnormal, LR_LABELS)
VP_REQUIRE_LABELS (rsmatrix_f_subnormal, "rotate_A_scale_A", "rotate_A_scale_B", "rotate_B_scale_A", "rotate_B_scale_B", "A_linear_part_subnormal", "B_linear_part_subnormal")
VP_RANDOM (rsmatrix_d_subnormal, 40000, 800000, C12_RULE_RSSUB) { rsmatrix_case<double> (c, MODE_SUBNORMAL); }
VP_LABELS (rsmatrix_d_subnormal, LR_LABELS)
VP_REQUIRE_LABELS (rsmatrix_d_subnormal, "rotate_A_scale_A", "rotate_A_scale_B", "rotate_B_scale_A", "rotate_B_scale_B", "A_linear_part_subnormal", "B_linear_part_subnormal")

// measured worst over 6e5 cases per type: 1.00 (float) 1.40 (double) of (kappa_A+kappa_B)*eps*|scale|; limit K_RS = 8
#define C12_RULE_RSTOP "as rsmatrix_*, with the linear part of A, of B or of both scaled by a power of two to the top of the range of the type (largest entry in [2^e, 2^(e+1)), e from max_exponent - 12 to max_exponent - 1, halved once when an exact scale factor would exceed 15/16 max: row sums of absolute values and sums of squares overflow, every exact factor and every slot of the documented result is representable); tolerance K*(kappa_A+kappa_B)*eps*|scale|; non-trivial = at least one factor taken from B"
VP_RANDOM (rsmatrix_f_top, 30000, 600000, C12_RULE_RSTOP) { rsmatrix_case<float> (c, MODE_TOP); }
VP_LABELS (rsmatrix_f_top, LR_LABELS)
VP_REQUIRE_LABELS (rsmatrix_f_top, "rotate_A_scale_A", "rotate_A_scale_B", "rotate_B_scale_A", "rotate_B_scale_B", "A_linear_part_top_of_range", "B_linear_part_top_of_range", "row_abs_sum_of_A_or_B_overflows")
VP_RANDOM (rsmatrix_d_top, 30000, 600000, C12_RULE_RSTOP) { rsmatrix_case<double> (c, MODE_TOP); }
VP_LABELS (rsmatrix_d_top, LR_LABELS)
VP_REQUIRE_LABELS (rsmatrix_d_top, "rotate_A_scale_A", "rotate_A_scale_B", "rotate_B_scale_A", "rotate_B_scale_B", "A_linear_part_top_of_range", "B_linear_part_top_of_range", "row_abs_sum_of_A_or_B_overflows")

// ===================================================================================================
// jacobiSVD, jacobiEigenSolver, minEigenVector, maxEigenVector
// ===================================================================================================
template <class T, int N> struct MatN;
template <class T> struct MatN<T, 3>
{
    typedef Matrix33<T> M;
    typedef Vec3<T>     V;
};
template <class T> struct MatN<T, 4>
{
    typedef Matrix44<T> M;
    typedef Vec4<T>     V;
};

// cyclic Jacobi eigenvalue iteration in quad (textbook; oracle for the spectrum of a symmetric matrix)
template <int N> static void qjacobi_eigenvalues (QM<N> a, quad ev[N])
{
    for (int sweep = 0; sweep < 40; ++sweep)
    {
        quad off = 0, dg = 0;
        for (int i = 0; i < N; ++i)
            for (int j = 0; j < N; ++j)
                (i == j ? dg : off) += a[i][j] * a[i][j];
        if (off <= dg * (quad) 1e-56 || off == 0) break;
        for (int p = 0; p < N; ++p)
            for (int q = p + 1; q < N; ++q)
            {
                if (a[p][q] == 0) continue;
                quad theta = (a[q][q] - a[p][p]) / (2 * a[p][q]);
                quad t     = (theta >= 0 ? 1 : -1) / (qabs (theta) + sqrtq (theta * theta + 1));
                quad cs = 1 / sqrtq (t * t + 1), sn = t * cs;
                for (int k = 0; k < N; ++k)
                {
                    quad u = a[k][p], v = a[k][q];
                    a[k][p] = cs * u - sn * v;
                    a[k][q] = sn * u + cs * v;
                }
                for (int k = 0; k < N; ++k)
                {
                    quad u = a[p][k], v = a[q][k];
                    a[p][k] = cs * u - sn * v;
                    a[q][k] = sn * u + cs * v;
                }
            }
    }
    for (int i = 0; i < N; ++i)
        ev[i] = a[i][i];
}

enum
{
    LS_RANKDEF,
    LS_REPEATED,
    LS_NEGDET,
    LS_DIAGONAL,
    LS_ORTHOGONAL,
    LS_GRADED,
    LS_ZERO,
    LS_FORCEPOS,
    LS_LAST_NEGATIVE,
    LS_NEARDIAG,
    LS_SCALED,
    LS_SYMMETRIC
};
#define LS_LABELS "rank_deficient", "repeated_singular_values", "negative_determinant", "diagonal_input", "orthogonal_input", "cond_gt_1e3", "zero_matrix", "forcePositiveDeterminant", "last_value_negative", "nearly_diagonal", "power_of_two_scaled", "symmetric_input"

// spectrum of magnitudes in (0,1], possibly with zeros / repeats
template <class T, int N> static void gen_spectrum (vp::Src& s, quad sig[N], bool& rankdef, bool& repeated, bool& graded)
{
    rankdef = repeated = graded = false;
    switch (s.below (4))
    {
        case 0: {
            static const double GF[3] = { 0.3, 1.5, 3.0 }, GD[3] = { 0.3, 3.0, 6.0 };
            double              G     = (sizeof (T) == 4 ? GF : GD)[s.below (3)];
            double              e     = 0;
            for (int i = 0; i < N; ++i)
            {
                sig[i] = powq (10, -(quad) e);
                e += s.uniform (0, G);
            }
            graded = e > 3;
            break;
        }
        case 1: {
            quad v[N];
            for (int i = 0; i < N; ++i)
                v[i] = (quad) s.uniform (0.05, 1);
            int pat = (int) s.below (N == 3 ? 3 : 5);
            for (int i = 0; i < N; ++i)
                sig[i] = v[i];
            if (pat == 0)
                for (int i = 1; i < N; ++i)
                    sig[i] = v[0];
            else if (pat == 1)
                sig[1] = sig[0];
            else if (pat == 2)
                sig[N - 1] = sig[N - 2];
            else if (pat == 3)
                sig[2] = sig[1];
            else
            {
                sig[1] = sig[0];
                sig[3] = sig[2];
            }
            repeated = true;
            break;
        }
        case 2: {
            int r = (int) s.below (N);
            for (int i = 0; i < N; ++i)
                sig[i] = i < r ? (quad) s.uniform (0.05, 1) : (quad) 0;
            rankdef = true;
            break;
        }
        default:
            for (int i = 0; i < N; ++i)
            {
                sig[i] = (quad) s.range (0, 4);
                if (sig[i] == 0) rankdef = true;
                for (int j = 0; j < i; ++j)
                    if (sig[j] == sig[i]) repeated = true;
            }
            break;
    }
}

struct GenFlags
{
    bool rankdef, repeated, negdet, diagonal, orthogonal, graded, zero, neardiag, scaled, symmetric;
};

template <class T, int N> static void gen_general (vp::Src& s, typename MatN<T, N>::M& A, QM<N>& Aq, GenFlags& f)
{
    f = GenFlags ();
    QM<N> q;
    int   cls = (int) s.below (8);
    switch (cls)
    {
        case 0: // arbitrary entries
        {
            int k = (int) s.below (3);
            for (int i = 0; i < N; ++i)
                for (int j = 0; j < N; ++j)
                    q[i][j] = k == 0 ? (quad) s.range (-4, 4) : (k == 1 ? (quad) s.uniform (-4, 4) : (quad) gen::moderate<T> (s, -12, 12));
            break;
        }
        case 1:
        case 2: // U diag V^T
        {
            quad sig[N];
            gen_spectrum<T, N> (s, sig, f.rankdef, f.repeated, f.graded);
            QM<N> U = gen_orth<N> (s, true), V = gen_orth<N> (s, true), D;
            for (int i = 0; i < N; ++i)
                D[i][i] = sig[i];
            q = U * D * transpose (V);
            break;
        }
        case 3: // diagonal, unsorted, mixed signs
        {
            for (int i = 0; i < N; ++i)
                q[i][i] = s.coin () ? (quad) s.range (-3, 3) : (quad) s.uniform (-4, 4);
            f.diagonal = true;
            break;
        }
        case 4: // orthogonal (scaled)
        {
            q       = gen_orth<N> (s, true);
            quad sc = s.coin () ? (quad) 1 : (quad) s.uniform (0.1, 10);
            for (int i = 0; i < N; ++i)
                for (int j = 0; j < N; ++j)
                    q[i][j] *= sc;
            f.orthogonal = f.repeated = true;
            break;
        }
        case 5: // symmetric, indefinite
        {
            for (int i = 0; i < N; ++i)
                for (int j = i; j < N; ++j)
                    q[i][j] = q[j][i] = s.coin () ? (quad) s.range (-4, 4) : (quad) s.uniform (-4, 4);
            f.symmetric = true;
            break;
        }
        case 6: // outer product of integer vectors (rank <= 1), or zero
        {
            quad u[N], v[N];
            bool z = rare (s, 32);
            for (int i = 0; i < N; ++i)
            {
                u[i] = z ? (quad) 0 : (quad) s.range (-4, 4);
                v[i] = (quad) s.range (-4, 4);
            }
            for (int i = 0; i < N; ++i)
                for (int j = 0; j < N; ++j)
                    q[i][j] = u[i] * v[j];
            f.rankdef = true;
            break;
        }
        default: // nearly diagonal: diagonal plus off-diagonal entries 2^-10 .. 2^-60 smaller
        {
            for (int i = 0; i < N; ++i)
                for (int j = 0; j < N; ++j)
                    q[i][j] = i == j ? (quad) s.uniform (-4, 4) : (quad) std::ldexp (s.uniform (-1, 1), -(int) s.range (10, 60));
            f.neardiag = true;
            break;
        }
    }
    if (rare (s, 64))
    {
        quad sc = q2pow ((int) s.range (-TT<T>::mexp (), TT<T>::mexp ()));
        for (int i = 0; i < N; ++i)
            for (int j = 0; j < N; ++j)
                q[i][j] *= sc;
        f.scaled = true;
    }
    bool allz = true;
    for (int i = 0; i < N; ++i)
        for (int j = 0; j < N; ++j)
        {
            A[i][j] = (T) q[i][j];
            if (A[i][j] != 0) allz = false;
        }
    f.zero = allz;
    Aq     = lin_of<N> (A);
    f.negdet = det (Aq) < 0;
}

// U, V orthonormal to K_SVD_ORTHO*eps; U*diag(S)*V^T = A to K_SVD_RECOMP*eps*max|A| (sums of N products of
// orthonormal entries after <= 20 sweeps of plane rotations, each a few eps).
// Measured worst over 1.6e6 (3x3) / 1.2e6 (4x4) matrices per type: orthonormality 11.6 (3x3 float) 13.1 (3x3 double)
// 16.1 (4x4 float) 20.0 (4x4 double) eps; recomposition 18.1 / 19.1 / 23.4 / 36.5 eps*max|A|.
static const double K_SVD_ORTHO  = 96;
static const double K_SVD_RECOMP = 192;

// Not asserted: jacobiSVD with an output (U or V) that is the same object as the input A.  The header documents no
// aliasing guarantee (A is a const reference, U, S, V are "outputs"); the library's own caller
// (procrustesRotationAndTranslation), testTinySVD, testJacobiEigenSolver and the PyImath binding all pass three distinct
// objects.  That the current implementation copies A before writing U and V is an implementation detail, so the
// aliased spellings jacobiSVD (M, M, S, V) / (M, U, S, M) are outside the property's domain and are not generated.
template <class T, int N> static void svd_case (vp::Ctx& c)
{
    typedef typename MatN<T, N>::M Mat;
    typedef typename MatN<T, N>::V Vec;
    vp::Src&                       s = c.s;
    Mat                            A, U, V;
    Vec                            S;
    QM<N>                          Aq;
    GenFlags                       f;
    gen_general<T, N> (s, A, Aq, f);
    bool force = s.coin ();
    VP_NOTE (c, "jacobiSVD<" << TT<T>::nm () << "," << N << "> A=" << mstr (A, N) << " forcePositiveDeterminant=" << force);
    if (f.rankdef) c.label (LS_RANKDEF);
    if (f.repeated) c.label (LS_REPEATED);
    if (f.negdet) c.label (LS_NEGDET);
    if (f.diagonal) c.label (LS_DIAGONAL);
    if (f.orthogonal) c.label (LS_ORTHOGONAL);
    if (f.graded) c.label (LS_GRADED);
    if (f.zero) c.label (LS_ZERO);
    if (force) c.label (LS_FORCEPOS);
    if (f.neardiag) c.label (LS_NEARDIAG);
    if (f.scaled) c.label (LS_SCALED);
    if (f.symmetric) c.label (LS_SYMMETRIC);
    c.nt (f.rankdef || f.repeated || f.negdet || f.graded);
    // poison the outputs so that slots that are never written show up
    for (int i = 0; i < N; ++i)
    {
        S[i] = std::numeric_limits<T>::quiet_NaN ();
        for (int j = 0; j < N; ++j)
            U[i][j] = V[i][j] = std::numeric_limits<T>::quiet_NaN ();
    }
    if (force)
        jacobiSVD (A, U, S, V, std::numeric_limits<T>::epsilon (), true);
    else if (s.coin ())
        jacobiSVD (A, U, S, V);
    else
        jacobiSVD (A, U, S, V, std::numeric_limits<T>::epsilon (), false);
    const quad eps = (quad) TT<T>::eps ();
    const int  mo  = TT<T>::off () + (N == 3 ? 28 : 34);
    QM<N>      Uq = lin_of<N> (U), Vq = lin_of<N> (V);
    quad       ou = ortho_err (transpose (Uq)), ov = ortho_err (transpose (Vq));
    MEAS (mo + 0, N == 3 ? "svd33 ortho / eps" : "svd44 ortho / eps", qmax (ou, ov) / eps);
    VP_REQUIRE (c, ou <= (quad) K_SVD_ORTHO * eps, "svd/U-not-orthonormal", "jacobiSVD(" << mstr (A, N) << "): max|U^T U - I| = " << qstr (ou) << " U=" << mstr (U, N));
    VP_REQUIRE (c, ov <= (quad) K_SVD_ORTHO * eps, "svd/V-not-orthonormal", "jacobiSVD(" << mstr (A, N) << "): max|V^T V - I| = " << qstr (ov) << " V=" << mstr (V, N));
    for (int i = 0; i < N; ++i)
        VP_REQUIRE (c, std::isfinite (S[i]), "svd/S-nonfinite", "jacobiSVD(" << mstr (A, N) << "): S=" << vstr (S, N));
    if (!force)
    {
        for (int i = 0; i < N; ++i)
            VP_REQUIRE (c, S[i] >= 0, "svd/negative-singular-value", "jacobiSVD(" << mstr (A, N) << "): S=" << vstr (S, N) << " has a negative entry");
    }
    else
    {
        for (int i = 0; i + 1 < N; ++i)
            VP_REQUIRE (c, S[i] >= 0, "svd/force-negative-not-last", "jacobiSVD(forcePositiveDeterminant)(" << mstr (A, N) << "): S=" << vstr (S, N) << " has a negative entry that is not the last");
        quad du = det (Uq), dv = det (Vq);
        VP_REQUIRE (c, du > 0, "svd/force-detU-not-positive", "jacobiSVD(forcePositiveDeterminant)(" << mstr (A, N) << "): det U = " << qstr (du));
        VP_REQUIRE (c, dv > 0, "svd/force-detV-not-positive", "jacobiSVD(forcePositiveDeterminant)(" << mstr (A, N) << "): det V = " << qstr (dv));
        if (S[N - 1] < 0) c.label (LS_LAST_NEGATIVE);
    }
    for (int i = 0; i + 1 < N; ++i)
        VP_REQUIRE (c, S[i] >= std::abs (S[i + 1]), "svd/not-descending", "jacobiSVD(" << mstr (A, N) << "): S=" << vstr (S, N) << " is not in descending order of magnitude");
    QM<N> D;
    for (int i = 0; i < N; ++i)
        D[i][i] = (quad) S[i];
    QM<N> got = Uq * D * transpose (Vq);
    quad  am  = max_abs (Aq);
    for (int i = 0; i < N; ++i)
        for (int j = 0; j < N; ++j)
        {
            quad d = qabs (got[i][j] - Aq[i][j]);
            if (!(d == d)) d = (quad) 1e300;
            MEAS (mo + 1, N == 3 ? "svd33 recompose / (eps max|A|)" : "svd44 recompose / (eps max|A|)", am > 0 ? d / (eps * am) : d);
            VP_REQUIRE (c, d <= (quad) K_SVD_RECOMP * eps * am, "svd/recompose", "jacobiSVD(" << mstr (A, N) << "): (U*diag(S)*V^T)[" << i << "][" << j << "] = " << qstr (got[i][j]) << " want " << qstr (Aq[i][j]) << "; U=" << mstr (U, N) << " S=" << vstr (S, N) << " V=" << mstr (V, N));
        }
}
#define C12_RULE_SVD "real NxN matrices from 8 classes (arbitrary integer/real/graded entries; U*diag*V^T with graded, repeated, zero or integer singular values and optional reflections; unsorted signed diagonal; scaled orthogonal incl. exact quarter turns; symmetric indefinite; integer outer products and the zero matrix; nearly diagonal), global 2^+-mexp; both values of forcePositiveDeterminant and the default-argument spelling; oracle = quad products per slot; non-trivial = rank-deficient, repeated singular values, negative determinant or cond > 1e3"
#define C12_SVD_REQ "rank_deficient", "repeated_singular_values", "negative_determinant", "diagonal_input", "orthogonal_input", "cond_gt_1e3", "zero_matrix", "forcePositiveDeterminant", "last_value_negative", "nearly_diagonal", "power_of_two_scaled"
VP_RANDOM (svd33f, 300000, 6000000, C12_RULE_SVD) { svd_case<float, 3> (c); }
VP_LABELS (svd33f, LS_LABELS)
VP_REQUIRE_LABELS (svd33f, C12_SVD_REQ)
VP_RANDOM (svd33d, 300000, 6000000, C12_RULE_SVD) { svd_case<double, 3> (c); }
VP_LABELS (svd33d, LS_LABELS)
VP_REQUIRE_LABELS (svd33d, C12_SVD_REQ)
VP_RANDOM (svd44f, 300000, 6000000, C12_RULE_SVD) { svd_case<float, 4> (c); }
VP_LABELS (svd44f, LS_LABELS)
VP_REQUIRE_LABELS (svd44f, C12_SVD_REQ)
VP_RANDOM (svd44d, 300000, 6000000, C12_RULE_SVD) { svd_case<double, 4> (c); }
VP_LABELS (svd44d, LS_LABELS)
VP_REQUIRE_LABELS (svd44d, C12_SVD_REQ)

// ---------------------------------------------------------------------------------------------------
enum
{
    LE_REPEATED,
    LE_ZERO_EIG,
    LE_NEGATIVE_EIG,
    LE_TIED_MAGNITUDE,
    LE_DIAGONAL,
    LE_NEARDIAG,
    LE_SCALED,
    LE_GRADED,
    LE_INTEGER
};
#define LE_LABELS "repeated_eigenvalues", "zero_eigenvalue", "negative_eigenvalue", "plus_minus_pair", "diagonal_input", "nearly_diagonal", "power_of_two_scaled", "graded_spectrum", "integer_entries"

// Measured worst over 1.2e6 (3x3) / 8e5 (4x4) matrices per type: V orthonormality 7.7 (3x3 float) 9.0 (3x3 double)
// 16.2 (4x4 float) 15.4 (4x4 double) eps; V*diag(S)*V^T 7.0 / 9.0 / 12.0 / 15.4 eps*max|A|; min/max eigenvector
// residual 4.1 / 4.0 / 5.3 / 6.1 eps*max|A|; its Rayleigh quotient against the quad spectrum 0.99 / 0.94 / 0.91 / 1.09.
static const double K_EIG_ORTHO  = 80;
static const double K_EIG_RECOMP = 80;
static const double K_EIG_VEC    = 32;
static const double K_EIG_VAL    = 8;

template <class T, int N> static void eig_case (vp::Ctx& c)
{
    typedef typename MatN<T, N>::M Mat;
    typedef typename MatN<T, N>::V Vec;
    vp::Src&                       s = c.s;
    QM<N>                          q;
    bool repeated = false, zeroeig = false, negeig = false, tied = false, diagonal = false, neardiag = false, scaled = false, graded = false, integer = false;
    switch (s.below (6))
    {
        case 0:
        case 1: {
            // Q diag(lambda) Q^T
            quad lam[N];
            bool rd, rp, gr;
            gen_spectrum<T, N> (s, lam, rd, rp, gr);
            repeated = rp;
            zeroeig  = rd;
            graded   = gr;
            int sm   = (int) s.below (3); // all positive / random signs / +- pair
            if (sm == 1)
                for (int i = 0; i < N; ++i)
                    if (s.coin ())
                    {
                        lam[i] = -lam[i];
                        if (lam[i] != 0) negeig = true;
                    }
            if (sm == 2)
            {
                lam[1] = -lam[0];
                tied   = lam[0] != 0;
                negeig = tied;
            }
            QM<N> Q = gen_orth<N> (s, true), D;
            for (int i = 0; i < N; ++i)
                D[i][i] = lam[i];
            q = Q * D * transpose (Q);
            break;
        }
        case 2:
            for (int i = 0; i < N; ++i)
                for (int j = i; j < N; ++j)
                    q[i][j] = (quad) s.range (-4, 4);
            integer = true;
            break;
        case 3:
            for (int i = 0; i < N; ++i)
                q[i][i] = s.coin () ? (quad) s.range (-3, 3) : (quad) s.uniform (-4, 4);
            diagonal = true;
            break;
        case 4:
            for (int i = 0; i < N; ++i)
                for (int j = i; j < N; ++j)
                    q[i][j] = i == j ? (quad) s.uniform (-4, 4) : (quad) std::ldexp (s.uniform (-1, 1), -(int) s.range (10, 60));
            neardiag = true;
            break;
        default:
            for (int i = 0; i < N; ++i)
                for (int j = i; j < N; ++j)
                    q[i][j] = (quad) s.uniform (-4, 4);
            break;
    }
    if (rare (s, 64))
    {
        quad sc = q2pow ((int) s.range (-TT<T>::mexp (), TT<T>::mexp ()));
        for (int i = 0; i < N; ++i)
            for (int j = 0; j < N; ++j)
                q[i][j] *= sc;
        scaled = true;
    }
    Mat A;
    for (int i = 0; i < N; ++i)
        for (int j = i; j < N; ++j)
            A[i][j] = A[j][i] = (T) q[i][j]; // exactly symmetric
    const QM<N> Aq = lin_of<N> (A);
    quad        ev[N];
    qjacobi_eigenvalues<N> (Aq, ev);
    quad am = max_abs (Aq), evmax = 0, evmin = (quad) 1e300;
    for (int i = 0; i < N; ++i)
    {
        evmax = qmax (evmax, qabs (ev[i]));
        evmin = qmin (evmin, qabs (ev[i]));
        if (ev[i] < -(quad) TT<T>::eps () * am) negeig = true;
    }
    VP_NOTE (c, "eigen<" << TT<T>::nm () << "," << N << "> A=" << mstr (A, N));
    if (repeated) c.label (LE_REPEATED);
    if (zeroeig) c.label (LE_ZERO_EIG);
    if (negeig) c.label (LE_NEGATIVE_EIG);
    if (tied) c.label (LE_TIED_MAGNITUDE);
    if (diagonal) c.label (LE_DIAGONAL);
    if (neardiag) c.label (LE_NEARDIAG);
    if (scaled) c.label (LE_SCALED);
    if (graded) c.label (LE_GRADED);
    if (integer) c.label (LE_INTEGER);
    c.nt (repeated || zeroeig || negeig || graded);
    const quad eps = (quad) TT<T>::eps ();
    const int  mo  = TT<T>::off () + (N == 3 ? 40 : 44);
    // jacobiEigenSolver, both spellings
    {
        Mat W = A, V;
        Vec S;
        for (int i = 0; i < N; ++i)
        {
            S[i] = std::numeric_limits<T>::quiet_NaN ();
            for (int j = 0; j < N; ++j)
                V[i][j] = std::numeric_limits<T>::quiet_NaN ();
        }
        if (s.coin ())
            jacobiEigenSolver (W, S, V);
        else
            jacobiEigenSolver (W, S, V, std::numeric_limits<T>::epsilon ());
        QM<N> Vq = lin_of<N> (V);
        quad  ov = qmax (ortho_err (Vq), ortho_err (transpose (Vq)));
        MEAS (mo + 0, N == 3 ? "eig33 ortho / eps" : "eig44 ortho / eps", ov / eps);
        VP_REQUIRE (c, ov <= (quad) K_EIG_ORTHO * eps, "eigen/V-not-orthonormal", "jacobiEigenSolver(" << mstr (A, N) << "): max|V^T V - I| = " << qstr (ov) << " V=" << mstr (V, N));
        QM<N> D;
        for (int i = 0; i < N; ++i)
            D[i][i] = (quad) S[i];
        QM<N> got = Vq * D * transpose (Vq);
        for (int i = 0; i < N; ++i)
            for (int j = 0; j < N; ++j)
            {
                quad d = qabs (got[i][j] - Aq[i][j]);
                if (!(d == d)) d = (quad) 1e300;
                MEAS (mo + 1, N == 3 ? "eig33 recompose / (eps max|A|)" : "eig44 recompose / (eps max|A|)", am > 0 ? d / (eps * am) : d);
                VP_REQUIRE (c, d <= (quad) K_EIG_RECOMP * eps * am, "eigen/recompose", "jacobiEigenSolver(" << mstr (A, N) << "): (V*diag(S)*V^T)[" << i << "][" << j << "] = " << qstr (got[i][j]) << " want " << qstr (Aq[i][j]) << "; S=" << vstr (S, N) << " V=" << mstr (V, N));
            }
    }
    // minEigenVector / maxEigenVector: unit eigenvector of the eigenvalue of smallest / largest magnitude
    for (int which = 0; which < 2; ++which)
    {
        Mat W = A;
        Vec v;
        for (int i = 0; i < N; ++i)
            v[i] = std::numeric_limits<T>::quiet_NaN ();
        if (which == 0)
            minEigenVector (W, v);
        else
            maxEigenVector (W, v);
        const char* fn = which == 0 ? "minEigenVector" : "maxEigenVector";
        quad        vq[N], n2 = 0, Av[N], rho = 0;
        for (int i = 0; i < N; ++i)
        {
            vq[i] = (quad) v[i];
            n2 += vq[i] * vq[i];
        }
        VP_REQUIRE (c, qabs (n2 - 1) <= (quad) K_EIG_ORTHO * eps, which == 0 ? "minEigenVector/not-unit" : "maxEigenVector/not-unit", fn << "(" << mstr (A, N) << ") = " << vstr (v, N) << " has squared length " << qstr (n2));
        for (int i = 0; i < N; ++i)
        {
            Av[i] = 0;
            for (int j = 0; j < N; ++j)
                Av[i] += Aq[i][j] * vq[j];
            rho += vq[i] * Av[i];
        }
        rho /= n2;
        for (int i = 0; i < N; ++i)
        {
            quad d = qabs (Av[i] - rho * vq[i]);
            MEAS (mo + 2, N == 3 ? "eig33 min/max residual / (eps max|A|)" : "eig44 min/max residual / (eps max|A|)", am > 0 ? d / (eps * am) : d);
            VP_REQUIRE (c, d <= (quad) K_EIG_VEC * eps * am, which == 0 ? "minEigenVector/not-an-eigenvector" : "maxEigenVector/not-an-eigenvector", fn << "(" << mstr (A, N) << ") = " << vstr (v, N) << ": (A v - rho v)[" << i << "] = " << qstr (d) << " with rho = " << qstr (rho));
        }
        quad want = which == 0 ? evmin : evmax;
        quad d    = qabs (qabs (rho) - want);
        MEAS (mo + 3, N == 3 ? "eig33 min/max |rho| / (eps max|A|)" : "eig44 min/max |rho| / (eps max|A|)", am > 0 ? d / (eps * am) : d);
        VP_REQUIRE (c, d <= (quad) K_EIG_VAL * eps * am, which == 0 ? "minEigenVector/not-the-smallest" : "maxEigenVector/not-the-largest", fn << "(" << mstr (A, N) << ") = " << vstr (v, N) << " belongs to eigenvalue " << qstr (rho) << " but the " << (which == 0 ? "smallest" : "largest") << " eigenvalue magnitude is " << qstr (want));
    }
}
#define C12_RULE_EIG "exactly symmetric NxN matrices from 6 classes (Q*diag(lambda)*Q^T with graded / repeated / zero / integer spectra, random signs or a +-pair; integer entries; diagonal; nearly diagonal; uniform entries), global 2^+-mexp; oracle = quad products per slot and a quad cyclic-Jacobi spectrum for the min/max magnitude; non-trivial = repeated, zero, negative or graded eigenvalues"
#define C12_EIG_REQ "repeated_eigenvalues", "zero_eigenvalue", "negative_eigenvalue", "plus_minus_pair", "diagonal_input", "nearly_diagonal", "power_of_two_scaled", "graded_spectrum", "integer_entries"
VP_RANDOM (eig33f, 300000, 6000000, C12_RULE_EIG) { eig_case<float, 3> (c); }
VP_LABELS (eig33f, LE_LABELS)
VP_REQUIRE_LABELS (eig33f, C12_EIG_REQ)
VP_RANDOM (eig33d, 300000, 6000000, C12_RULE_EIG) { eig_case<double, 3> (c); }
VP_LABELS (eig33d, LE_LABELS)
VP_REQUIRE_LABELS (eig33d, C12_EIG_REQ)
VP_RANDOM (eig44f, 200000, 4000000, C12_RULE_EIG) { eig_case<float, 4> (c); }
VP_LABELS (eig44f, LE_LABELS)
VP_REQUIRE_LABELS (eig44f, C12_EIG_REQ)
VP_RANDOM (eig44d, 200000, 4000000, C12_RULE_EIG) { eig_case<double, 4> (c); }
VP_LABELS (eig44d, LE_LABELS)
VP_REQUIRE_LABELS (eig44d, C12_EIG_REQ)

// ===================================================================================================
// procrustesRotationAndTranslation
// ===================================================================================================
// The returned transform X = [s*Q | t] (row vectors: b ~ a*L + t, L = s*Q) must minimise the weighted residual
//     f(L,t) = sum_i w_i |a_i L + t - b_i|^2
// over rotations Q (det +1), translations t and, with doScaling, uniform scales s.  The oracle evaluates f in quad from
// the weighted second moments and requires f(X) <= f(X') + slack for comparison transforms X' of the same family:
// the generating transform when B was produced from A by one (so an exact relation is recovered to rounding), X with the
// optimal translation, X with its rotation perturbed by +-1e-4 and +-0.03 rad about each axis, X with the scale
// perturbed.  The slack is the first/second-order effect on f of the rounding errors of the double-precision algorithm
// (perturbation theory of the orthogonal Procrustes problem): with E the rounding error of the 3x3 moment matrix C and
// gap the sum of the two singular values of C that resist a rotation, f can exceed its minimum by
// 2 s min(E, E^2/gap); translation and scale enter quadratically.
enum
{
    LP_N1,
    LP_N2,
    LP_N3PLUS,
    LP_NBIG,
    LP_COLLINEAR,
    LP_COPLANAR,
    LP_NONCOLLINEAR3,
    LP_WEIGHTED,
    LP_ZERO_WEIGHT,
    LP_SCALING,
    LP_EXACT,
    LP_PERTURBED,
    LP_MIRRORED,
    LP_EMPTY,
    LP_CLUSTERED,
    LP_SMALL_EXTENT,
    LP_SCALED_DOWN,
    LP_SCALED_UP,
    LP_WEIGHTS_SCALED,
    LP_SCALING_TINY_SPREAD
};
#define LP_LABELS "one_point", "two_points", "three_or_more_points", "more_than_16_points", "collinear", "coplanar", "three_noncollinear_points", "weighted", "some_zero_weight", "doScaling", "exact_relation", "perturbed_relation", "mirrored_relation", "no_points_or_zero_weight_sum", "clustered_far_from_origin", "small_extent_at_moderate_offset", "coordinates_scaled_by_2^-20_or_less", "coordinates_scaled_by_2^20_or_more", "weights_scaled_by_2^+-10_or_more", "doScaling_weighted_spread_of_A_below_1e-16"

struct PStats
{
    quad W, Ac[3], Bc[3], trB, trA, amax, bmax, Eabs, Sabs;
    Q3   AA, C;
};
static quad pf (const PStats& p, const Q3& L, const quad t[3])
{
    Q3   G = L * transpose (L);
    quad v = p.trB;
    for (int j = 0; j < 3; ++j)
        for (int k = 0; k < 3; ++k)
            v += G[j][k] * p.AA[j][k] - 2 * L[j][k] * p.C[j][k];
    quad d2 = 0;
    for (int k = 0; k < 3; ++k)
    {
        quad d = t[k] - p.Bc[k];
        for (int j = 0; j < 3; ++j)
            d += p.Ac[j] * L[j][k];
        d2 += d * d;
    }
    return v + p.W * d2;
}
static void p_topt (const PStats& p, const Q3& L, quad t[3])
{
    for (int k = 0; k < 3; ++k)
    {
        t[k] = p.Bc[k];
        for (int j = 0; j < 3; ++j)
            t[k] -= p.Ac[j] * L[j][k];
    }
}

static const double K_PROC       = 1;  // multiplies every rounding-error estimate inside the slack (the estimates are worst-case bounds); measured worst (f(X)-f(X'))/slack over 6e5 cases per type: 0.04 (float) 0.02 (double)
static const double K_PROC_ORTHO = 96; // x eps(double): L*L^T = s^2 I ; measured worst 18.0

// scaled: the problem is homogeneous - multiplying every point of both sets by 2^k (exactly) leaves the rotation and the
// scale of the answer unchanged and multiplies the translation by 2^k; multiplying every weight by 2^j changes nothing.
// The scaled mode generates the same problems as the plain mode (plus clouds of small extent at a moderate offset),
// then applies such a 2^k (|k| <= 60, far from underflow / overflow of T and of the double accumulation) and 2^j
// (|j| <= 30).  The oracle is the same: it evaluates the residual of the scaled problem in quad.
template <class T> static void procrustes_case (vp::Ctx& c, bool scaled = false)
{
    typedef Vec3<T> V3;
    vp::Src&        s = c.s;
    // ---- number of points
    int N;
    switch (s.below (8))
    {
        case 0: N = rare (s, 40) ? 0 : 1; break;
        case 1: N = 1; break;
        case 2: N = 2; break;
        case 3: N = 3; break;
        case 4: N = 4; break;
        case 5: N = (int) s.range (5, 8); break;
        case 6: N = (int) s.range (9, 16); break;
        default: N = rare (s, 64) ? (int) s.range (17, 64) : (int) s.range (3, 6); break;
    }
    bool doScale = s.coin ();
    int  cfg     = (int) s.below (scaled ? 6 : 5); // 0 general, 1 collinear, 2 coplanar, 3 integer lattice, 4 clustered far from the origin, 5 (scaled mode) small extent at a moderate offset
    int  wmode   = (int) s.below (4); // 0 unweighted overload, 1 all ones, 2 {0} u [0.25,4], 3 mostly as 2, rarely all zero
    int  rel     = (int) s.below (3); // 0 exact, 1 perturbed, 2 mirrored
    std::vector<V3> A (N ? N : 1), B (N ? N : 1);
    std::vector<T>  Wt (N ? N : 1, (T) 1);
    quad            p0[3], d1[3], d2[3];
    for (int k = 0; k < 3; ++k)
    {
        p0[k] = (quad) s.uniform (-10, 10);
        d1[k] = (quad) s.uniform (-1, 1);
        d2[k] = (quad) s.uniform (-1, 1);
    }
    if (cfg == 4)
        for (int k = 0; k < 3; ++k)
            p0[k] = (quad) s.uniform (-1000, 1000);
    double ext5 = 1; // extent of the cloud of configuration 5: 2^-6 .. 2^-16 (float) / 2^-40 (double), around a centre of magnitude <= 2
    if (cfg == 5)
    {
        int e5 = (int) s.range (6, sizeof (T) == 4 ? 16 : 40);
        ext5   = std::ldexp (1.0, -e5);
        for (int k = 0; k < 3; ++k)
            p0[k] = (quad) s.uniform (-2, 2);
    }
    for (int i = 0; i < N; ++i)
    {
        quad u = (quad) s.uniform (-10, 10), v = (quad) s.uniform (-10, 10);
        for (int k = 0; k < 3; ++k)
        {
            quad x;
            switch (cfg)
            {
                case 0: x = (quad) s.uniform (-10, 10); break;
                case 1: x = p0[k] + u * d1[k]; break;
                case 2: x = p0[k] + u * d1[k] + v * d2[k]; break;
                case 3: x = (quad) s.range (-3, 3); break;
                case 5: x = p0[k] + (quad) (ext5 * s.uniform (-1, 1)); break;
                default: x = p0[k] + (quad) s.uniform (-1e-2, 1e-2); break;
            }
            A[i][k] = (T) x;
        }
    }
    bool allzero_w = false, somezero = false;
    if (wmode >= 2)
    {
        allzero_w = wmode == 3 && rare (s, 24);
        for (int i = 0; i < N; ++i)
        {
            Wt[i] = rare (s, 48) ? (T) 0 : (T) s.uniform (0.25, 4);
            if (allzero_w) Wt[i] = 0;
        }
    }
    // the uniform scale is undetermined when all weighted A points coincide: keep two distinct weighted points
    if (doScale && N >= 2 && !allzero_w)
    {
        if (A[0] == A[1]) A[1][0] += (T) (cfg == 4 ? 0.0078125 : (cfg == 5 ? ext5 : 1));
        if (wmode >= 2)
        {
            if (Wt[0] == 0) Wt[0] = (T) 1;
            if (Wt[1] == 0) Wt[1] = (T) 0.5;
        }
    }
    for (int i = 0; i < N; ++i)
        if (Wt[i] == 0) somezero = true;
    // ---- relation
    int  rc;
    Q3   R0 = gen_rot3 (s, rc);
    quad s0 = doScale ? (quad) std::ldexp (1.0 + s.unit (), (int) s.range (-3, 3)) : (quad) 1;
    quad t0[3];
    for (int k = 0; k < 3; ++k)
        t0[k] = (quad) s.uniform (-50, 50);
    Q3 Lin = R0;
    if (rel == 2)
    {
        int k = (int) s.below (3);
        Q3  F;
        F[k][k] = -1;
        Lin     = F * R0;
    }
    double noise = rel == 1 ? std::pow (10.0, -s.uniform (0, 4)) * (cfg == 4 ? 1e-2 : (cfg == 5 ? ext5 : 10.0)) : 0.0;
    for (int i = 0; i < N; ++i)
        for (int k = 0; k < 3; ++k)
        {
            quad x = t0[k];
            for (int j = 0; j < 3; ++j)
                x += s0 * (quad) A[i][j] * Lin[j][k];
            if (rel == 1) x += (quad) (noise * s.uniform (-1, 1));
            B[i][k] = (T) x;
        }
    // ---- scaled mode: exact power-of-two scaling of all coordinates and of all weights
    int kc = 0, kw = 0;
    if (scaled)
    {
        kc = (int) s.range (-60, 60);
        kw = (int) s.range (-30, 30);
        for (int i = 0; i < N; ++i)
        {
            for (int k = 0; k < 3; ++k)
            {
                T a2 = (T) std::ldexp (A[i][k], kc), b2 = (T) std::ldexp (B[i][k], kc);
                if (std::ldexp (a2, -kc) != A[i][k] || std::ldexp (b2, -kc) != B[i][k] || !std::isfinite (a2) || !std::isfinite (b2)) c.discard ("power-of-two scaling of a coordinate is not exact");
                A[i][k] = a2;
                B[i][k] = b2;
            }
            if (wmode != 0) Wt[i] = (T) std::ldexp (Wt[i], kw);
        }
        for (int k = 0; k < 3; ++k)
            t0[k] *= q2pow (kc);
    }
    // ---- call
    M44d X;
    if (wmode == 0)
        X = doScale ? procrustesRotationAndTranslation (A.data (), B.data (), (size_t) N, true) : (s.coin () ? procrustesRotationAndTranslation (A.data (), B.data (), (size_t) N) : procrustesRotationAndTranslation (A.data (), B.data (), (size_t) N, false));
    else
        X = doScale ? procrustesRotationAndTranslation (A.data (), B.data (), Wt.data (), (size_t) N, true) : (s.coin () ? procrustesRotationAndTranslation (A.data (), B.data (), Wt.data (), (size_t) N) : procrustesRotationAndTranslation (A.data (), B.data (), Wt.data (), (size_t) N, false));
    if (c.describe)
    {
        std::ostringstream o;
        o << std::setprecision (17) << "procrustes<" << TT<T>::nm () << "> N=" << N << " doScaling=" << doScale << " weights=" << (wmode == 0 ? "none" : "given") << " relation=" << (rel == 0 ? "exact" : rel == 1 ? "perturbed" : "mirrored") << " config=" << cfg;
        for (int i = 0; i < N && i < 6; ++i)
            o << " A" << i << "=" << vstr (A[i], 3) << " B" << i << "=" << vstr (B[i], 3) << " w" << i << "=" << (double) Wt[i];
        VP_NOTE (c, o.str ());
    }
    // ---- weighted moments in quad
    PStats p;
    p.W = 0;
    for (int k = 0; k < 3; ++k)
        p.Ac[k] = p.Bc[k] = 0;
    for (int i = 0; i < N; ++i)
    {
        quad w = wmode == 0 ? (quad) 1 : (quad) Wt[i];
        p.W += w;
        for (int k = 0; k < 3; ++k)
        {
            p.Ac[k] += w * (quad) A[i][k];
            p.Bc[k] += w * (quad) B[i][k];
        }
    }
    bool empty = N == 0 || p.W == 0;
    // labels
    if (N == 1) c.label (LP_N1);
    if (N == 2) c.label (LP_N2);
    if (N >= 3) c.label (LP_N3PLUS);
    if (N > 16) c.label (LP_NBIG);
    if (N >= 3 && cfg == 1) c.label (LP_COLLINEAR);
    if (N >= 4 && cfg == 2) c.label (LP_COPLANAR);
    if (wmode != 0) c.label (LP_WEIGHTED);
    if (somezero && wmode >= 2) c.label (LP_ZERO_WEIGHT);
    if (doScale) c.label (LP_SCALING);
    if (rel == 0) c.label (LP_EXACT);
    if (rel == 1) c.label (LP_PERTURBED);
    if (rel == 2) c.label (LP_MIRRORED);
    if (empty) c.label (LP_EMPTY);
    if (cfg == 4) c.label (LP_CLUSTERED);
    if (cfg == 5) c.label (LP_SMALL_EXTENT);
    if (scaled && kc <= -20) c.label (LP_SCALED_DOWN);
    if (scaled && kc >= 20) c.label (LP_SCALED_UP);
    if (scaled && wmode != 0 && (kw <= -10 || kw >= 10)) c.label (LP_WEIGHTS_SCALED);
    for (int k = 0; k < 4; ++k)
        VP_REQUIRE (c, X[k][3] == (k == 3 ? 1.0 : 0.0), "procrustes/last-column", "procrustes result " << mstr (X, 4) << " last column is not (0,0,0,1)");
    if (empty)
    {
        M44d I;
        VP_REQUIRE (c, same_mat (X, I, 4) || X == I, "procrustes/empty-not-identity", "procrustes with no points / zero weight sum returned " << mstr (X, 4));
        return;
    }
    for (int k = 0; k < 3; ++k)
    {
        p.Ac[k] /= p.W;
        p.Bc[k] /= p.W;
    }
    p.trA = p.trB = p.amax = p.bmax = p.Eabs = p.Sabs = 0;
    for (int j = 0; j < 3; ++j)
        for (int k = 0; k < 3; ++k)
            p.AA[j][k] = p.C[j][k] = 0;
    int nposw = 0;
    for (int i = 0; i < N; ++i)
    {
        quad w = wmode == 0 ? (quad) 1 : (quad) Wt[i];
        quad a[3], b[3], la = 0, lb = 0, na = 0, nb = 0;
        if (w > 0) ++nposw;
        for (int k = 0; k < 3; ++k)
        {
            a[k] = (quad) A[i][k] - p.Ac[k];
            b[k] = (quad) B[i][k] - p.Bc[k];
            la += a[k] * a[k];
            lb += b[k] * b[k];
            na = qmax (na, qabs ((quad) A[i][k]));
            nb = qmax (nb, qabs ((quad) B[i][k]));
        }
        la = sqrtq (la);
        lb = sqrtq (lb);
        p.amax = qmax (p.amax, na);
        p.bmax = qmax (p.bmax, nb);
        p.trA += w * la * la;
        p.trB += w * lb * lb;
        // rounding error budget of one term of C (and of traceATA) in units of eps(double)
        p.Eabs += w * ((quad) (N + 8) * la * lb + 4 * (na * lb + la * nb));
        p.Sabs += w * ((quad) (N + 8) * la * la + 8 * na * la);
        for (int j = 0; j < 3; ++j)
            for (int k = 0; k < 3; ++k)
            {
                p.AA[j][k] += w * a[j] * a[k];
                p.C[j][k] += w * a[j] * b[k];
            }
    }
    // three weighted non-collinear points?  (second elementary symmetric function of the eigenvalues of the
    // second-moment matrix of A is positive iff its rank is at least 2)
    {
        quad e2 = p.AA[0][0] * p.AA[1][1] - p.AA[0][1] * p.AA[0][1] + p.AA[0][0] * p.AA[2][2] - p.AA[0][2] * p.AA[0][2] + p.AA[1][1] * p.AA[2][2] - p.AA[1][2] * p.AA[1][2];
        bool nc = nposw >= 3 && e2 > (quad) 1e-6 * p.trA * p.trA;
        if (nc) c.label (LP_NONCOLLINEAR3);
        if (doScale && N > 1 && p.trA > 0 && p.trA < (quad) 1e-16) c.label (LP_SCALING_TINY_SPREAD);
        c.nt (nc);
    }
    // ---- structure of the result: L = s*Q, Q a rotation
    const quad epsd = (quad) FInfo<double>::eps ();
    Q3         L    = lin_of<3> (X);
    quad       t[3] = { (quad) X[3][0], (quad) X[3][1], (quad) X[3][2] };
    Q3         G    = L * transpose (L);
    quad       s2   = doScale && N > 1 ? (G[0][0] + G[1][1] + G[2][2]) / 3 : (quad) 1;
    for (int j = 0; j < 3; ++j)
        for (int k = 0; k < 3; ++k)
        {
            quad d = qabs (G[j][k] - (j == k ? s2 : 0));
            if (!(d == d)) d = (quad) 1e300;
            MEAS (TT<T>::off () + (scaled ? 96 : 0) + 24, "procrustes |L L^T - s^2 I| / (eps s^2)", s2 > 0 ? d / (epsd * s2) : d);
            VP_REQUIRE (c, d <= (quad) K_PROC_ORTHO * epsd * s2, doScale && N > 1 ? "procrustes/not-a-scaled-rotation" : "procrustes/not-a-rotation", "procrustes result " << mstr (X, 4) << ": (L L^T)[" << j << "][" << k << "] = " << qstr (G[j][k]) << (doScale && N > 1 ? " is not s^2*I" : " is not the identity (no scaling requested)"));
        }
    quad sx = sqrtq (s2), dL = det (L);
    VP_REQUIRE (c, dL >= -(quad) K_PROC_ORTHO * epsd * s2 * sx && (s2 == 0 || qabs (dL - s2 * sx) <= 3 * (quad) K_PROC_ORTHO * epsd * s2 * sx), "procrustes/determinant-not-positive", "procrustes result " << mstr (X, 4) << " has det of the linear part " << qstr (dL) << ", expected s^3 = " << qstr (s2 * sx));
    // ---- optimality
    quad sv2[3];
    qjacobi_eigenvalues<3> (transpose (p.C) * p.C, sv2);
    std::sort (sv2, sv2 + 3);
    quad sg[3] = { sqrtq (qmax (sv2[2], 0)), sqrtq (qmax (sv2[1], 0)), sqrtq (qmax (sv2[0], 0)) }; // descending
    quad gap   = sg[1] + (det (p.C) < 0 ? -sg[2] : sg[2]);
    quad E     = (quad) K_PROC * epsd * p.Eabs;
    quad slackQ = 2 * sx * (gap > E ? E * E / gap : E);
    quad dt     = (quad) K_PROC * (quad) (N + 8) * epsd * (p.bmax + sx * p.amax);
    quad slackT = p.W * 3 * dt * dt;
    quad slackS = 0;
    if (doScale && N > 1 && p.trA > 0)
    {
        quad ds = (E + sx * (quad) K_PROC * epsd * p.Sabs) / p.trA;
        slackS  = p.trA * ds * ds;
    }
    quad fX    = pf (p, L, t);
    quad slack = slackQ + slackT + slackS + (quad) 1e-60 * (p.trB + s2 * p.trA);
    auto compare = [&] (const Q3& L2, const quad* t2, const char* key, const char* what) {
        quad f2 = pf (p, L2, t2);
        MEAS (TT<T>::off () + (scaled ? 96 : 0) + 25, "procrustes (f(X)-f(X')) / slack", fX > f2 ? (fX - f2) / slack : (quad) 0);
        VP_REQUIRE (c, fX <= f2 + slack, key, "procrustes result " << mstr (X, 4) << " has weighted residual " << qstr (fX) << " but " << what << " achieves " << qstr (f2) << " (rounding allowance " << qstr (slack) << "); N=" << N << " doScaling=" << doScale);
    };
    {
        quad to[3];
        p_topt (p, L, to);
        compare (L, to, "procrustes/translation-not-optimal", "the same linear part with the translation that maps centroid to centroid");
    }
    if (rel == 0)
    {
        Q3 L0;
        for (int j = 0; j < 3; ++j)
            for (int k = 0; k < 3; ++k)
                L0[j][k] = s0 * R0[j][k];
        compare (L0, t0, "procrustes/exact-relation-not-recovered", "the transform that generated B from A");
    }
    if (s2 > 0)
    {
        // perturbations: +-1e-4 rad about each axis, and one of +-0.03 rad about each axis
        for (int ax = 0; ax < 3; ++ax)
            for (int k = 0; k < 3; ++k)
            {
                const quad ang = k == 0 ? (quad) 1e-4 : (k == 1 ? (quad) -1e-4 : (s.coin () ? (quad) 0.03 : (quad) -0.03));
                Q3         L2  = L * elem3 (ax, ang);
                quad       t2[3];
                p_topt (p, L2, t2);
                compare (L2, t2, "procrustes/rotation-not-optimal", (k < 2 ? "a rotation perturbed by 1e-4 rad" : "a rotation perturbed by 0.03 rad"));
            }
        if (doScale && N > 1)
            for (int sgn = -1; sgn <= 1; sgn += 2)
            {
                Q3 L2 = L;
                for (int j = 0; j < 3; ++j)
                    for (int k = 0; k < 3; ++k)
                        L2[j][k] *= 1 + (quad) (sgn * 1e-4);
                quad t2[3];
                p_topt (p, L2, t2);
                compare (L2, t2, "procrustes/scale-not-optimal", "the same rotation with the scale changed by 1e-4");
            }
    }
}
#define C12_RULE_PROC "0..64 points (general, collinear, coplanar, integer lattice with duplicates, tight cluster far from the origin), unweighted overload / unit / mixed weights incl. zeros and an all-zero weight vector, with and without uniform scale, B = s*A*R+t rounded to the type (exact), plus noise 1e-4..1 of the spread (perturbed) or through a mirror image (no exact rotation); oracle = weighted residual in quad against the generating transform, the optimal translation, rotations perturbed by 1e-4 / 0.03 rad about each axis and scales perturbed by 1e-4; non-trivial = at least 3 weighted non-collinear points"
#define C12_PROC_REQ "one_point", "two_points", "three_or_more_points", "more_than_16_points", "collinear", "coplanar", "three_noncollinear_points", "weighted", "some_zero_weight", "doScaling", "exact_relation", "perturbed_relation", "mirrored_relation", "no_points_or_zero_weight_sum", "clustered_far_from_origin"
VP_RANDOM (procrustes_f, 150000, 3000000, C12_RULE_PROC) { procrustes_case<float> (c); }
VP_LABELS (procrustes_f, LP_LABELS)
VP_REQUIRE_LABELS (procrustes_f, C12_PROC_REQ)
VP_RANDOM (procrustes_d, 150000, 3000000, C12_RULE_PROC) { procrustes_case<double> (c); }
VP_LABELS (procrustes_d, LP_LABELS)
VP_REQUIRE_LABELS (procrustes_d, C12_PROC_REQ)

// Measured worst on the unchanged tree in the scaled mode (1.2e6 cases per type): (f(X)-f(X'))/slack 0.005 (float) 0.025 (double),
// |L L^T - s^2 I| 18.4 / 17.9 eps(double) s^2 - the same as in the plain mode, as expected of a homogeneous problem
// (limits K_PROC = 1, K_PROC_ORTHO = 96).
#define C12_RULE_PROCSC "the problems of procrustes_* plus clouds of extent 2^-6..2^-16 (float) / 2^-40 (double) around a centre of magnitude <= 2, then every coordinate of both sets multiplied exactly by 2^k, k uniform in -60..60, and every weight by 2^j, j in -30..30 (the answer has the same rotation and scale and 2^k times the translation); oracle as procrustes_* on the scaled problem (weighted residual in quad against the generating transform with its translation scaled by 2^k, the optimal translation, perturbed rotations and scales); non-trivial = at least 3 weighted non-collinear points"
#define C12_PROCSC_REQ C12_PROC_REQ, "small_extent_at_moderate_offset", "coordinates_scaled_by_2^-20_or_less", "coordinates_scaled_by_2^20_or_more", "weights_scaled_by_2^+-10_or_more", "doScaling_weighted_spread_of_A_below_1e-16"
VP_RANDOM (procrustes_f_scaled, 60000, 1200000, C12_RULE_PROCSC) { procrustes_case<float> (c, true); }
VP_LABELS (procrustes_f_scaled, LP_LABELS)
VP_REQUIRE_LABELS (procrustes_f_scaled, C12_PROCSC_REQ)
VP_RANDOM (procrustes_d_scaled, 60000, 1200000, C12_RULE_PROCSC) { procrustes_case<double> (c, true); }
VP_LABELS (procrustes_d_scaled, LP_LABELS)
VP_REQUIRE_LABELS (procrustes_d_scaled, C12_PROCSC_REQ)

VP_MAIN ("C12")
